#!/usr/bin/env python3
"""Function translator, third-party crate yansi (the version /repo/Cargo.lock pins, 1.0.1): the RENDERING path of
a `yansi::Style` as the C16 harness drives it (`yansi::enable(); "x".paint(style).to_string()`),
cargo registry copy -> coq/Generated/YansiFn.v (generator `YansiFn`, property C16).

The source is located by tools/thirdparty.py (version from Cargo.lock = harness/h-adapters/Cargo.lock, the one
registry directory `yansi-<version>`, compared with `cargo metadata --offline` in harness/h-adapters;
$VERIF_REGISTRY=<dir> takes `<dir>/yansi-<version>/src/..` instead -- mutation tests only).  The feature set is the
one cargo resolves for the harness build (must be alloc + default + std: GEN-ERROR otherwise).

TRANSLATED (tools/rs2v) over the types of Model/YansiRender.v:
  color.rs       Color::{fg_base, to_bright, fmt}
  attr_quirk.rs  Attribute::fmt; the expansion of `set_enum! { Attribute {..} }` / `set_enum! { Quirk {..} }`
                 (macros.rs `macro_rules! set_enum`, expanded by this plug-in from the macro's own text):
                 Attribute::{bit_mask, from_bit_mask}, Quirk::{bit_mask, from_bit_mask}, Set<Attribute>::insert,
                 <Attribute as SetMember>::MAX_VALUE
  set.rs         Set<T>::{contains, iter} and <Iter<T> as Iterator>::next at T = Attribute, Set<T>::contains at
                 T = Quirk, <Set<T> as PartialEq>::eq
  style.rs       <Style as PartialEq>::eq, Style::{new, fmt_prefix, fmt_suffix, enabled}, AnsiSplicer::splice,
                 <AnsiSplicer as fmt::Write>::write_str
  condition.rs   Condition::{always, never} and the constants ALWAYS / NEVER
  global.rs      enable, disable, is_enabled over the static ENABLED
  paint.rs       Paint::paint, Painted::{enabled, color_fmt_value, fmt_args} and <Painted<T> as Display>::fmt (the
                 expansion of `impl_fmt_traits!(<T> Painted<T> => self.value (T))`, macros.rs `impl_fmt_trait`)
and the plug-in WRITES the entry point `g_yansi_render` (enable(); paint; ToString::to_string = Display::fmt into a
fresh String, an Err is a panic).
PINNED (token hash; hand-modelled in Model/YansiRender.v): AtomicCondition::{store, read} (raw-pointer casts, unsafe
transmute).  ORACLE (not translated, no pin: the theorems hold for every oracle):
Painted::{color_wrap_fmt_args, reset_fmt_args} (the Quirk::Wrap paths).
Proofs/YansiFnGen.v: g_yansi_render = Some (the hand rendering), and its Spec/Vt + Spec/Sgr interpretation."""
import os
import re
import sys

sys.path.insert(0, os.path.dirname(os.path.abspath(__file__)))
from rs2v.driver import translate, TranslateError, token_hash, fn_source   # noqa: E402
from rs2v.emit import EmitError, NeedsBind                                 # noqa: E402
from rs2v.rparser import parse_file, find_items, ParseError, type_name, N, parse_macro_args   # noqa: E402
from rs2v.lexer import LexError, tokenize   # noqa: E402
import thirdparty   # noqa: E402

HARNESS = "h-adapters"
U8, U16, BOOL, UNIT = ("int", "u8"), ("int", "u16"), ("bool",), ("unit",)
BYTES = ("list", U8)
COLOR, VARIANT, ATTR, QUIRK = ("enum", "Color"), ("enum", "Variant"), ("enum", "Attribute"), ("enum", "Quirk")
SET, ITER, STYLE, SPLICER, PAINTED = ("struct", "Set"), ("struct", "Iter"), ("struct", "Style"), ("struct", "AnsiSplicer"), ("struct", "Painted")
SETA, SETQ = ("struct", "SetA"), ("struct", "SetQ")
COND, ATOMIC = ("struct", "Condition"), ("struct", "AtomicCondition")
FRES = ("res", UNIT)

COLOR_VARIANTS = [("Primary", []), ("Fixed", ["u8"]), ("Rgb", ["u8", "u8", "u8"]),
                  ("Black", []), ("Red", []), ("Green", []), ("Yellow", []), ("Blue", []), ("Magenta", []), ("Cyan", []), ("White", []),
                  ("BrightBlack", []), ("BrightRed", []), ("BrightGreen", []), ("BrightYellow", []), ("BrightBlue", []),
                  ("BrightMagenta", []), ("BrightCyan", []), ("BrightWhite", [])]
ATTR_VARIANTS = ["Bold", "Dim", "Italic", "Underline", "Blink", "RapidBlink", "Invert", "Conceal", "Strike"]
QUIRK_VARIANTS = ["Mask", "Wrap", "Linger", "Clear", "Resetting", "Bright", "OnBright"]

# unsafe / raw-pointer code: hand-modelled (Model/YansiRender.v ya_atomic_store / ya_atomic_read), any edit is a GEN-ERROR
PINS = {
    ("condition.rs", "AtomicCondition", "store"): "494dc68cb525e749",
    ("condition.rs", "AtomicCondition", "read"): "82b35228ab3dcab0",
}


def shape(coq, self_mode, params, ret, total=True):
    return {"coq": coq, "self": self_mode, "params": params, "ret": ret, "total": total, "cfg": False}


def squash(s):
    return re.sub(r"\s+", "", s)


# ---------------------------------------------------------------------------
# macro_rules expansion (macros.rs): the two macros the rendering path goes through are expanded from their own text

def macro_body(src, name, what):
    """the single arm `(pattern) => { body }` of `macro_rules! name`: (pattern text, body text)"""
    m = re.search(r"macro_rules!\s*%s\s*\{" % re.escape(name), src)
    if not m:
        raise TranslateError("%s: macro_rules! %s not found" % (what, name))
    i = m.end()
    depth, j = 1, i
    while depth:
        c = src[j]
        depth += c == "{"
        depth -= c == "}"
        j += 1
    text = src[i:j - 1].strip()
    # one arm: ( pattern ) => { body } ;?
    if text[0] != "(":
        raise TranslateError("%s: macro %s: unexpected shape" % (what, name))
    depth, p = 0, 0
    while True:
        depth += text[p] == "("
        depth -= text[p] == ")"
        p += 1
        if depth == 0:
            break
    pattern = text[1:p - 1]
    rest = text[p:].strip()
    if not rest.startswith("=>"):
        raise TranslateError("%s: macro %s: no `=>` after the pattern" % (what, name))
    rest = rest[2:].strip()
    if rest[0] != "{":
        raise TranslateError("%s: macro %s: body is not a brace block" % (what, name))
    depth, q = 0, 0
    while True:
        depth += rest[q] == "{"
        depth -= rest[q] == "}"
        q += 1
        if depth == 0:
            break
    tail = rest[q:].strip().rstrip(";").strip()
    if tail:
        raise TranslateError("%s: macro %s has more than one arm (the plug-in expands single-arm macros)" % (what, name))
    return pattern, rest[1:q - 1]


def expand_set_enum(macros_src, tname, variants):
    """`set_enum! { T { V1, V2, .. } }`: pattern `$T:ident { $($v:ident),+ $(,)? }`; the body's repetitions
    `$( .. )+` and `$( .. );+` over `$v` are unrolled, `$T` replaced"""
    pattern, body = macro_body(macros_src, "set_enum", "macros.rs")
    if squash(pattern) != "$T:ident{$($v:ident),+$(,)?}":
        raise TranslateError("macros.rs: set_enum! takes `%s`, the plug-in expands `$T:ident { $($v:ident),+ $(,)? }`" % pattern.strip())
    out, i = [], 0
    while True:
        j = body.find("$(", i)
        if j < 0:
            out.append(body[i:])
            break
        out.append(body[i:j])
        depth, p = 0, j + 1
        while True:
            depth += body[p] == "("
            depth -= body[p] == ")"
            p += 1
            if depth == 0:
                break
        inner = body[j + 2:p - 1]
        m = re.match(r"\s*(;?)\s*\+", body[p:])
        if not m:
            raise TranslateError("macros.rs: set_enum!: a repetition that is neither `$(..)+` nor `$(..);+`")
        sep = m.group(1)
        if "$(" in inner:
            raise TranslateError("macros.rs: set_enum!: nested repetition")
        out.append((sep + " ").join(inner.replace("$v", v) for v in variants))
        i = p + m.end()
    text = "".join(out).replace("$T", tname)
    if "$" in text:
        raise TranslateError("macros.rs: set_enum!: a macro variable the plug-in does not know is left: %s" % re.findall(r"\$\w+", text)[:3])
    return text


def max_value_fn(expansion, tname):
    """`const MAX_VALUE: u8 = { .. };` of `impl SetMember for T` as a function body the translator accepts"""
    m = re.findall(r"const\s+MAX_VALUE\s*:\s*u8\s*=\s*(\{[^{}]*\})\s*;", expansion)
    if len(m) != 1:
        raise TranslateError("macros.rs: set_enum!: %d items `const MAX_VALUE: u8 = { .. };`" % len(m))
    return "fn max_value() -> u8 %s" % m[0]


def const_block(src, name, ty, fname):
    """`const NAME: ty = <expr>;` -> `{ <expr> }` (the initialiser as a function body)"""
    m = re.findall(r"const\s+%s\s*:\s*%s\s*=\s*([^;]*);" % (name, re.escape(ty)), src)
    if len(m) != 1:
        raise TranslateError("%s: %d items `const %s: %s = ..;`" % (fname, len(m), name, ty))
    return "{ %s }" % m[0]


def f_set_ctor(em, e, env, k):
    """`Set(PhantomData, bits)`: the tuple struct's constructor"""
    if len(e.args) != 2:
        raise EmitError("Set(..): two fields expected")
    return em.exprs(e.args, env, lambda ts, tys, env1: k("(ya_set_new %s %s)" % (ts[0], ts[1]), SET, env1))


VFMT = ("fnval", (("in", BYTES), ("inout", BYTES)), FRES, False)      # fmt: &dyn Fn(&T, &mut fmt::Formatter) -> fmt::Result


def m_map_or_cond(em, e, rt, rty, env, k):
    """`<Option<Condition>>.map_or(default, |c| c())`: the condition's answer, `default` when there is none"""
    if rty != ("opt", COND) or len(e.args) != 2:
        raise EmitError("map_or: only Option<Condition>::map_or(default, |c| c()) is modelled")
    cl = e.args[1]
    pn = cl.params[0][0] if cl.kind == "closure" and len(cl.params) == 1 else None
    while pn is not None and pn.kind == "pref":
        pn = pn.inner
    b = cl.body if cl.kind == "closure" else None
    if (pn is None or pn.kind != "pident" or b is None or b.kind != "call" or b.args or b.f.kind != "path" or b.f.segs != [pn.name]):
        raise EmitError("map_or: the closure is not `|c| c()`")
    x = em.fresh("cd")
    return em.expr(e.args[0], env, lambda d, dty, env1: k("(match %s with Some %s => ya_cond_call %s | None => %s end)" % (rt, x, x, d), BOOL, env1))


def f_cond_ctor(em, e, env, k):
    """`Condition(Condition::always)`: a Condition is modelled by the answer of its call: the TRANSLATED function"""
    a = e.args[0] if len(e.args) == 1 else None
    if a is None or a.kind != "path" or len(a.segs) != 2 or a.segs[0] != "Condition":
        raise EmitError("Condition(..): expected `Condition(Condition::<fn>)`")
    sh = em.fn_shapes.get("Condition::" + a.segs[1])
    if sh is None or sh["params"] or sh.get("self") or not sh.get("total"):
        raise EmitError("Condition(Condition::%s): that function is not translated (as a total function without parameters)" % a.segs[1])
    return k("(ya_cond_new %s)" % sh["coq"], COND, env)


def m_oracle(field):
    def h(em, e, rt, rty, env, k):
        """Painted::{color_wrap_fmt_args, reset_fmt_args}(fmt, f, args): not translated; the oracle `o` answers"""
        if len(e.args) != 3 or em.place_root(e.args[1]) is None:
            raise EmitError("%s: expected (fmt, f, args)" % e.name)
        if em.pure_mode:
            raise NeedsBind()
        f2, r = em.fresh("f"), em.fresh("r")
        return em.expr(e.args[1], env, lambda ft, fty, env1: "'(%s, %s) <- %s o %s %s ;;\n%s" % (
            f2, r, field, rt, ft, em.write_place(e.args[1], f2, env1, lambda env2: k(r, FRES, env2))))
    h.mutates = True
    return h


def m_format_args(em, e, env, k):
    """format_args!("{}", self.value): only handed on to the oracle paths; a unit"""
    return k("tt", UNIT, env)


def set_enum_variants(attr_src, tname):
    m = re.findall(r"set_enum!\s*\{\s*%s\s*\{([^}]*)\}\s*\}" % tname, attr_src)
    if len(m) != 1:
        raise TranslateError("attr_quirk.rs: %d invocations `set_enum! { %s { .. } }`" % (len(m), tname))
    return [v.strip() for v in m[0].split(",") if v.strip()]


def expand_fmt_trait(macros_src, paint_src):
    """`impl_fmt_traits!(<T> Painted<T> => self.value (T));` -> (through `impl_fmt_traits`, first line)
    `impl_fmt_trait!(core::fmt::Display, "{}" <T> Painted<T> => self.value (T))` -> the Display impl"""
    inv = re.findall(r"impl_fmt_traits!\s*\(([^;]*)\)\s*;", paint_src)
    if len(inv) != 1 or squash(inv[0]) != "<T>Painted<T>=>self.value(T)":
        raise TranslateError("paint.rs: expected exactly `impl_fmt_traits!(<T> Painted<T> => self.value (T));`, found %r" % inv)
    pat2, body2 = macro_body(macros_src, "impl_fmt_traits", "macros.rs")
    if squash(pat2) != "$($t:tt)*":
        raise TranslateError("macros.rs: impl_fmt_traits! takes `%s`" % pat2.strip())
    lines = [squash(l) for l in body2.split(";") if l.strip()]
    disp = [l for l in lines if "Display" in l]
    if disp != ['impl_fmt_trait!(core::fmt::Display,"{}"$($t)*)']:
        raise TranslateError("macros.rs: impl_fmt_traits!: the Display line is %r" % disp)
    pat, body = macro_body(macros_src, "impl_fmt_trait", "macros.rs")
    if squash(pat) != "$F:path,$f:literal<$G:ident>$T:ty=>$s:ident.$v:ident($V:ty)":
        raise TranslateError("macros.rs: impl_fmt_trait! takes `%s`" % pat.strip())
    sub = {"$F": "core::fmt::Display", "$f": '"{}"', "$G": "T", "$T": "Painted<T>", "$s": "self", "$v": "value", "$V": "T"}
    text = re.sub(r"\$\w+", lambda m: sub[m.group(0)] if m.group(0) in sub else m.group(0), body)
    if "$" in text:
        raise TranslateError("macros.rs: impl_fmt_trait!: unknown macro variable in the body")
    return text


# ---------------------------------------------------------------------------
# vocabulary callables

def dec_piece(t, ty):
    """`{}` of an unsigned integer: u8, or an unsuffixed literal (rustc defaults it to i32, the emitter to usize: the
    same digits for a non-negative value)"""
    if ty not in (U8, U16, ("int", "usize")):
        raise EmitError("write!: `{}` of a value of type %r (only unsigned integers are modelled)" % (ty,))
    return "(ya_dec %s)" % t


def format_pieces(e, what):
    """write!(dest, "fmt", args..): (dest node, [("lit", bytes) | ("arg", expr)])"""
    args = parse_macro_args(e.toks)
    if len(args) < 2 or args[1].kind != "str":
        raise EmitError("%s: expected %s(<writer>, \"format\", ..)" % (what, what))
    fmt = bytes(args[1].val).decode("utf-8")
    rest = list(args[2:])
    pieces = []
    for part in re.split(r"(\{\})", fmt):
        if part == "{}":
            if not rest:
                raise EmitError("%s: more `{}` than arguments" % what)
            pieces.append(("arg", rest.pop(0)))
        elif part:
            if "{" in part or "}" in part:
                raise EmitError("%s: format string %r: only literal text and `{}` are modelled" % (what, fmt))
            pieces.append(("lit", list(part.encode("utf-8"))))
    if rest:
        raise EmitError("%s: more arguments than `{}`" % what)
    return args[0], pieces


def m_write_macro(em, e, env, k):
    """write!(f, "lit{}lit", a, ..) on a `&mut dyn fmt::Write`: fmt::Write::write_fmt -> core::fmt::write hands the
    literal pieces and the Display output of each argument to `f.write_str` in order and stops at the first Err.
    The writer is the AnsiSplicer (the TRANSLATED `<AnsiSplicer as fmt::Write>::write_str` is called) or the
    String-backed sink (`ya_w_write_str`)."""
    dest, pieces = format_pieces(e, "write!")
    root = em.place_root(dest)
    v = env.get(root) if root else None
    if v is None or dest.kind != "path":
        raise EmitError("write!: the destination is not a variable")
    if v.ty == SPLICER:
        sh = em.fn_shapes.get("AnsiSplicer::write_str")
        if sh is None:
            raise EmitError("write! on an AnsiSplicer before <AnsiSplicer as fmt::Write>::write_str is translated")
    elif v.ty == BYTES:
        sh = shape("ya_w_write_str", "inout", [("in", BYTES)], FRES)
    else:
        raise EmitError("write!: %s is no fmt::Write the vocabulary knows (%r)" % (root, v.ty))
    if em.pure_mode:
        raise NeedsBind()
    # the arguments are evaluated first (format_args! borrows them), then the pieces are written

    def eval_args(i, terms, env1):
        if i == len(pieces):
            return emit(0, terms, env1)
        kind, x = pieces[i]
        if kind == "lit":
            return eval_args(i + 1, terms + ["[%s]" % "; ".join(str(b) for b in x)], env1)
        return em.expr(x, env1, lambda t, ty, env2: eval_args(i + 1, terms + [dec_piece(t, ty)], env2))

    def emit(i, terms, env1):
        if i == len(terms):
            return k("(inl tt)", FRES, env1)
        piece = N("term", term=terms[i], ty=BYTES)

        def after(r, _ty, env2):
            q, er = em.fresh("q"), em.fresh("err")
            return "match %s with\n| inl %s =>\n%s\n| inr %s =>\n%s\nend" % (
                r, q, "\n".join("    " + l for l in emit(i + 1, terms, env2).split("\n")),
                er, "\n".join("    " + l for l in k("(inr %s)" % er, FRES, env2).split("\n")))
        return em.call_shape(sh, dest, [piece], env1, after)
    return eval_args(0, [], env)


def macro_writes(em, x):
    if x.name.split("::")[-1] == "write":
        args = parse_macro_args(x.toks)
        if args and args[0].kind == "path" and len(args[0].segs) == 1:
            return [args[0].segs[0]]
    return []


def m_splicer_write_char(em, e, rt, rty, env, k):
    """fmt::Write::write_char (provided method: `self.write_str(c.encode_utf8(..))`) on the AnsiSplicer"""
    sh = em.fn_shapes.get("AnsiSplicer::write_str")
    if sh is None or len(e.args) != 1 or e.args[0].kind != "charlit" or e.args[0].val >= 128:
        raise EmitError("write_char on an AnsiSplicer: one ASCII char literal expected")
    return em.call_shape(sh, e.recv, [N("term", term="[%d]" % e.args[0].val, ty=BYTES)], env, k)


m_splicer_write_char.mutates = True


def m_w_write_char(em, e, rt, rty, env, k):
    if len(e.args) != 1 or e.args[0].kind != "charlit" or e.args[0].val >= 128:
        raise EmitError("write_char: one ASCII char literal expected")
    return em.call_shape(shape("ya_w_write_char", "inout", [("in", U8)], FRES), e.recv, [N("int", val=e.args[0].val, suffix="u8")], env, k)


m_w_write_char.mutates = True


# ---------------------------------------------------------------------------
# vocabulary

ENUMS = {
    "Color": {"coq": "ya_color", "var": "c", "eqb": "ya_color_eqb",
              "variants": {n: "Ya" + n for n, _p in COLOR_VARIANTS},
              "payload": {"Fixed": [U8], "Rgb": [U8, U8, U8]}},
    "Variant": {"coq": "ya_variant", "var": "va", "variants": {"Fg": "YaFg", "Bg": "YaBg"}},
    "Attribute": {"coq": "ya_attr", "var": "a", "disc": "ya_attr_disc", "variants": {n: "Ya" + n for n in ATTR_VARIANTS}},
    "Quirk": {"coq": "ya_quirk", "var": "q", "disc": "ya_quirk_disc", "variants": {n: "Ya" + n for n in QUIRK_VARIANTS}},
}

SETREC = {"coq": "N", "var": "s", "eqb": "g_ya_set_eq", "fields": {"0": ("ya_set_f0", None, UNIT), "1": ("ya_set_f1", "ya_set_set_f1", U16)}}
STRUCTS = {
    "Set": SETREC, "SetA": SETREC, "SetQ": SETREC,
    "Iter": {"coq": "ya_iter", "var": "it", "ctor": ("mkYaIter", ["index", "set"]),
             "fields": {"index": ("yi_index", "set_yi_index", U8), "set": ("yi_set", "set_yi_set", SET)}},
    "Style": {"coq": "ya_style", "var": "st", "eqb": "g_ya_style_eq",
              "ctor": ("mkYaStyle", ["foreground", "background", "attributes", "quirks", "condition"]),
              "fields": {"foreground": ("ya_fg", "set_ya_fg", ("opt", COLOR)), "background": ("ya_bg", "set_ya_bg", ("opt", COLOR)),
                         "attributes": ("ya_attrs", "set_ya_attrs", SETA), "quirks": ("ya_quirks", "set_ya_quirks", SETQ),
                         "condition": ("ya_cond", "set_ya_cond", ("opt", COND))}},
    "AnsiSplicer": {"coq": "ya_splicer", "var": "sp", "ctor": ("mkYaSplicer", ["f", "splice"]),
                    "fields": {"f": ("asp_f", "set_asp_f", BYTES), "splice": ("asp_splice", "set_asp_splice", BOOL)}},
    "Painted": {"coq": "ya_painted", "var": "p", "ctor": ("mkYaPainted", ["value", "style"]),
                "fields": {"value": ("yp_value", "set_yp_value", BYTES), "style": ("yp_style", "set_yp_style", STYLE)}},
    "Condition": {"coq": "bool", "var": "cd", "fields": {"0": ("ya_cond_f0", None, BOOL)}},
    "AtomicCondition": {"coq": "bool", "var": "reg", "fields": {}},
}


def merged(a, b):
    d = dict(a)
    d.update(b)
    return d


def vocab(checked=(), **over):
    v = {
        "reserved": ["k", "next", "c", "a", "q", "s", "it", "st", "sp", "p", "o", "f"],
        "result": {"err": "unit"},
        "for_ret_state": True,
        "loop_ret_state": True,
        "fold_literals": True,
        "pure_match": True,
        "checked_shl": "ya_cshl",
        "cfg_static": {'feature="alloc"': True, 'feature="std"': True},
        "enums": dict(ENUMS),
        "structs": {n: dict(s, check=(n in checked)) for n, s in STRUCTS.items()},
        "type_alias": {"str": BYTES, "Result": FRES, "Formatter": BYTES, "PhantomData": UNIT},
        "generic_types": {"Set<Attribute>": SETA, "Set<Quirk>": SETQ},
        "borrow_fields": {"AnsiSplicer": "f"},
        "opaque_types": {"fmt::Write": BYTES, "core::fmt::Write": BYTES, "dynfmt::Write": BYTES, "dyncore::fmt::Write": BYTES},
        "consts": {},
        "fns": {},
        "methods": {},
        "macros": {"write": m_write_macro},
        "macro_writes": macro_writes,
        "opaque": {},
    }
    for key, val in over.items():
        if isinstance(val, dict) and isinstance(v.get(key), dict):
            v[key] = merged(v[key], val)
        else:
            v[key] = val
    return v


HEADER = ("(* GENERATED by tools/gen_fn_yansi.py (tools/rs2v) from the cargo registry source of the third-party crate\n"
          "   yansi %s (src/{color,attr_quirk,set,style,condition,global,paint,macros}.rs; version pinned by Cargo.lock,\n"
          "   features %s) -- do not edit *)")
REQ = """From Coq Require Import NArith List Bool.
From AV Require Import Model.Base Model.Imp Model.YansiRender.
Import ListNotations.
Local Open Scope N_scope.
Local Open Scope bool_scope."""


# the entry point as the C16 harness drives the crate (harness/h-adapters/src/c16.rs `ya::render`):
#   yansi::enable(); "x".paint(*s).to_string().into_bytes()
# `ToString::to_string` (std) = Display::fmt into a fresh String, `.expect(..)` on the result
ENTRY = """(* ---- the entry point (written by the plug-in): `yansi::enable(); text.paint(style).to_string()` ----
   std's `ToString::to_string` is `Display::fmt` into a fresh String; an Err is a panic
   ("a Display implementation returned an error unexpectedly"). *)
Definition g_yansi_to_string (o : ya_oracle) (ENABLED : bool) (p : ya_painted) : option (list N) :=
  '(buf, r) <- g_ya_painted_fmt o p ENABLED [] ;;
  match r with inl _ => Some buf | inr _ => None end.

Definition g_yansi_render_text (o : ya_oracle) (ENABLED0 : bool) (text : list N) (st : ya_style) : option (list N) :=
  let ENABLED := g_ya_enable ENABLED0 in
  g_yansi_to_string o ENABLED (g_ya_paint o text st).

(* the harness renders the one-character text "x" *)
Definition g_yansi_render (o : ya_oracle) (ENABLED0 : bool) (st : ya_style) : option (list N) :=
  g_yansi_render_text o ENABLED0 [120] st.
"""


def coq_bytes(name):
    return "[%s]" % "; ".join(str(b) for b in name.encode())


def name_tables(macros_src):
    """the NAMES the adapter crate (and Spec/Targets.v) use for yansi values, read from the source: the builder
    methods of `define_properties! { .. attr(Attribute) { bold => Attribute::Bold, .. } .. }` (macros.rs) and the
    nullary constructors of `enum Color` (checked above against COLOR_VARIANTS)"""
    m = re.findall(r"\battr\s*\(\s*Attribute\s*\)\s*\{([^}]*)\}", macros_src)
    if len(m) != 1:
        raise TranslateError("macros.rs: define_properties!: %d blocks `attr(Attribute) { .. }`" % len(m))
    ents = [e.strip() for e in m[0].split(",") if e.strip()]
    rows = []
    for e in ents:
        mm = re.match(r"^(\w+)\s*=>\s*Attribute::(\w+)$", e)
        if not mm or mm.group(2) not in ATTR_VARIANTS:
            raise TranslateError("macros.rs: define_properties!: attr entry `%s`" % e)
        rows.append("(%s, Ya%s) (* %s *)" % (coq_bytes(mm.group(1)), mm.group(2), mm.group(1)))
    cols = ["(%s, Ya%s) (* %s *)" % (coq_bytes(n), n, n) for n, p in COLOR_VARIANTS if not p]
    return ("(* ---- names: builder method -> Attribute (macros.rs define_properties!), nullary constructor of Color -> value ---- *)\n"
            "Definition g_ya_attr_builders : list (list N * ya_attr) := [\n  %s].\n\n"
            "Definition g_ya_color_ctors : list (list N * ya_color) := [\n  %s].\n" % (";\n  ".join(rows), ";\n  ".join(cols)))


def check_enum(items, name, expected, fname):
    ens = find_items(items, "enum", name)
    if len(ens) != 1:
        raise TranslateError("%s: enum %s: %d definitions" % (fname, name, len(ens)))
    got = []
    for vname, payload, disc, _attrs in ens[0].variants:
        if payload == "struct" or disc is not None:
            raise TranslateError("%s: enum %s::%s: struct payload / explicit discriminant" % (fname, name, vname))
        got.append((vname, [squash(type_name(t) or "?") for t in payload] if payload else []))
    if got != expected:
        raise TranslateError("%s: enum %s: variants %r, the vocabulary models %r" % (fname, name, got, expected))


def parse(src, fname):
    try:
        return parse_file(src)
    except (ParseError, LexError) as e:
        raise TranslateError("yansi src/%s: parse error: %s" % (fname, e))


def register(generators, gm):
    def gen():
        try:
            version, _dir = thirdparty.crate_dir(gm, "yansi", HARNESS)
            if os.environ.get("VERIF_REGISTRY"):
                feats = ["alloc", "default", "std"]
            else:
                feats = thirdparty.crate_features(gm, "yansi", HARNESS)
            if feats != ["alloc", "default", "std"]:
                raise TranslateError("harness/h-adapters builds yansi with features %r; the translation is for alloc + default + std" % feats)
            src = {f: thirdparty.read_crate(gm, "yansi", "src/" + f, HARNESS)
                   for f in ("color.rs", "attr_quirk.rs", "set.rs", "style.rs", "condition.rs", "global.rs", "paint.rs", "macros.rs", "lib.rs")}
            items = {f: parse(s, f) for f, s in src.items() if f != "macros.rs"}
            check_enum(items["color.rs"], "Color", COLOR_VARIANTS, "color.rs")
            check_enum(items["color.rs"], "Variant", [("Fg", []), ("Bg", [])], "color.rs")
            check_enum(items["attr_quirk.rs"], "Attribute", [(n, []) for n in ATTR_VARIANTS], "attr_quirk.rs")
            check_enum(items["attr_quirk.rs"], "Quirk", [(n, []) for n in QUIRK_VARIANTS], "attr_quirk.rs")
            sq = {f: squash(gm.strip_comments(s)) for f, s in src.items()}
            if "#[derive(Debug,PartialEq,Eq,Copy,Clone,PartialOrd,Ord,Hash)]pubenumColor{" not in sq["color.rs"]:
                raise TranslateError("color.rs: `==` on Color is not the derived PartialEq any more")
            if re.search(r"impl(<[^>]*>)?(core::cmp::)?PartialEqfor(Color|Attribute|Quirk)", "".join(sq.values())):
                raise TranslateError("a hand-written PartialEq for Color / Attribute / Quirk")
            shapes = {}
            out = []
            # ---- color.rs
            out.append(translate(src["color.rs"], vocab(), [
                ("fg_base", "Color", "g_ya_fg_base", {}),
                ("to_bright", "Color", "g_ya_to_bright", {}),
            ], HEADER % (version, " + ".join(feats)), REQ, shapes))
            # ---- attr_quirk.rs: the set_enum! expansions (bit_mask, from_bit_mask, Set::insert, MAX_VALUE)
            avs, qvs = set_enum_variants(src["attr_quirk.rs"], "Attribute"), set_enum_variants(src["attr_quirk.rs"], "Quirk")
            if avs != ATTR_VARIANTS or qvs != QUIRK_VARIANTS:
                raise TranslateError("attr_quirk.rs: set_enum! lists %r / %r, the enums have %r / %r" % (avs, qvs, ATTR_VARIANTS, QUIRK_VARIANTS))
            exp_a = expand_set_enum(src["macros.rs"], "Attribute", avs)
            exp_q = expand_set_enum(src["macros.rs"], "Quirk", qvs)
            out.append("(* ---- expansion of set_enum! { Attribute { .. } } (macros.rs) ---- *)")
            out.append(translate(exp_a, vocab(), [
                ("bit_mask", "Attribute", "g_ya_attr_bit_mask", {"trait": False}),
                ("from_bit_mask", "Attribute", "g_ya_attr_from_bit_mask", {"trait": False}),
            ], "", "", shapes))
            for exp, tn in ((exp_a, "Attribute"), (exp_q, "Quirk")):
                if set(re.findall(r"<\s*([\w:]+)\s*>\s*::", exp)) != {tn}:
                    raise TranslateError("macros.rs: set_enum!: a qualified path other than <%s>::" % tn)
            qual = lambda tn: {"<q>::bit_mask": shapes[tn + "::bit_mask"], "<q>::from_bit_mask": shapes[tn + "::from_bit_mask"]}
            out.append(translate(exp_a, vocab(fns=qual("Attribute")), [
                ("bit_mask", "Attribute", "g_ya_attr_sm_bit_mask", {"trait": "SetMember", "key": "SetMember<Attribute>::bit_mask"}),
                ("from_bit_mask", "Attribute", "g_ya_attr_sm_from_bit_mask", {"trait": "SetMember", "key": "SetMember<Attribute>::from_bit_mask"}),
            ], "", "", shapes))
            out.append(translate(max_value_fn(exp_a, "Attribute"), vocab(), [("max_value", None, "g_ya_attr_MAX_VALUE", {})], "", "", shapes))
            out.append("(* ---- expansion of set_enum! { Quirk { .. } } (macros.rs) ---- *)")
            out.append(translate(exp_q, vocab(), [
                ("bit_mask", "Quirk", "g_ya_quirk_bit_mask", {"trait": False}),
                ("from_bit_mask", "Quirk", "g_ya_quirk_from_bit_mask", {"trait": False}),
            ], "", "", shapes))
            sm = {"Attribute": "SetMember<Attribute>::bit_mask", "Quirk": "SetMember<Quirk>::bit_mask"}
            out.append(translate(exp_q, vocab(fns=qual("Quirk")), [
                ("bit_mask", "Quirk", "g_ya_quirk_sm_bit_mask", {"trait": "SetMember", "key": sm["Quirk"]}),
            ], "", "", shapes))
            # ---- set.rs: generic in T; translated at T = Attribute (contains, iter, Iter::next) and T = Quirk (contains).
            # `value.bit_mask()` / `T::from_bit_mask` / `T::MAX_VALUE` are the SetMember items of that T.
            inherent = {t: shapes[t + "::bit_mask"] for t in ("Attribute", "Quirk")}
            out.append("(* ---- set.rs ---- *)")
            out.append(translate("fn set_empty() -> Set<T> %s" % const_block(src["set.rs"], "EMPTY", "Self", "set.rs"),
                                 vocab(fns={"Set": f_set_ctor}, consts={"PhantomData": ("ya_phantom", UNIT)}),
                                 [("set_empty", None, "g_ya_set_EMPTY", {})], "", "", shapes))
            shapes["Attribute::bit_mask"] = shapes[sm["Attribute"]]
            shapes["T::from_bit_mask"] = shapes["SetMember<Attribute>::from_bit_mask"]
            va = vocab(checked=["Set", "Iter"], type_alias={"T": ATTR, "Self::Item": ATTR, "Item": ATTR},
                       consts={"T::MAX_VALUE": ("g_ya_attr_MAX_VALUE", U8)},
                       fuel={"Iter::next": [lambda env: "(S (S (N.to_nat g_ya_attr_MAX_VALUE)))"]})
            out.append(translate(src["set.rs"], va, [
                ("eq", "Set", "g_ya_set_eq", {"trait": "PartialEq"}),
                ("contains", "Set", "g_ya_seta_contains", {"key": "SetA::contains"}),
                ("iter", "Set", "g_ya_seta_iter", {"key": "SetA::iter"}),
            ], "", "", shapes))
            shapes["Set::contains"] = shapes["SetA::contains"]
            out.append(translate(src["set.rs"], va, [("next", "Iter", "g_ya_iter_next", {"trait": "Iterator"})], "", "", shapes))
            shapes["Attribute::bit_mask"] = inherent["Attribute"]
            shapes["Quirk::bit_mask"] = shapes[sm["Quirk"]]
            out.append(translate(src["set.rs"], vocab(type_alias={"T": QUIRK}), [
                ("contains", "Set", "g_ya_setq_contains", {"key": "SetQ::contains"}),
            ], "", "", shapes))
            shapes["Quirk::bit_mask"] = inherent["Quirk"]
            del shapes["Set::contains"], shapes["T::from_bit_mask"]
            # ---- condition.rs / global.rs
            for (fl, impl, fn), want in PINS.items():
                h = token_hash(fn_source(src[fl], fn, impl))
                if h != want:
                    raise TranslateError("%s: %s::%s changed (token hash %s, pinned %s): it is modelled by hand (Model/YansiRender.v) and must be re-read" % (fl, impl, fn, h, want))
            out.append("(* ---- condition.rs, global.rs ---- *)")
            out.append(translate(src["condition.rs"], vocab(), [
                ("always", "Condition", "g_ya_cond_always", {}),
                ("never", "Condition", "g_ya_cond_never", {}),
            ], "", "", shapes))
            for cname in ("ALWAYS", "NEVER"):
                out.append(translate("fn cond_const() -> Condition %s" % const_block(src["condition.rs"], cname, "Condition", "condition.rs"),
                                     vocab(fns={"Condition": f_cond_ctor}), [("cond_const", None, "g_ya_COND_" + cname, {})], "", "", shapes))
            if len(re.findall(r"static\s+ENABLED\s*:\s*AtomicCondition\s*=", src["global.rs"])) != 1 or "static" in sq["global.rs"].replace("staticENABLED:AtomicCondition=", "", 1):
                raise TranslateError("global.rs: expected exactly one static, `static ENABLED: AtomicCondition`")
            glob_v = dict(
                statics={"ENABLED": ATOMIC},
                static_use={"enable": [("ENABLED", "inout")], "disable": [("ENABLED", "inout")], "is_enabled": [("ENABLED", "in")],
                            "Painted::enabled": [("ENABLED", "in")], "Painted::fmt_args": [("ENABLED", "in")], "Painted::fmt": [("ENABLED", "in")]},
                consts={"Condition::ALWAYS": ("g_ya_COND_ALWAYS", COND), "Condition::NEVER": ("g_ya_COND_NEVER", COND)},
                methods={("AtomicCondition", "store"): shape("ya_atomic_store", "inout", [("in", COND)], UNIT),
                         ("AtomicCondition", "read"): shape("ya_atomic_read", "in", [], BOOL),
                         ("opt", "map_or"): m_map_or_cond})
            out.append(translate(src["global.rs"], vocab(**glob_v), [
                ("enable", None, "g_ya_enable", {}),
                ("disable", None, "g_ya_disable", {}),
                ("is_enabled", None, "g_ya_is_enabled", {}),
            ], "", "", shapes))
            # ---- style.rs
            out.append("(* ---- style.rs ---- *)")
            sty_v = dict(glob_v)
            sty_v["consts"] = merged(glob_v["consts"], {"Set::EMPTY": ("g_ya_set_EMPTY", SETA), "Style::DEFAULT": ("g_ya_style_DEFAULT", STYLE)})
            sty_v["methods"] = merged(glob_v["methods"], {("AnsiSplicer", "write_char"): m_splicer_write_char, ("list", "write_char"): m_w_write_char,
                                                         ("list", "write_str"): shape("ya_w_write_str", "inout", [("in", BYTES)], FRES)})
            sty_v["no_transparent"] = ("iter",)
            sty_v["iter_conv"] = {"Iter": ("(iter_drain g_ya_iter_next (S (S (N.to_nat g_ya_attr_MAX_VALUE))))", True, ATTR)}
            shapes["Set::contains"] = None
            del shapes["Set::contains"]
            shapes["SetA::iter"] = shapes["SetA::iter"]
            out.append(translate("fn style_default() -> Style %s" % const_block(src["style.rs"], "DEFAULT", "Style", "style.rs"),
                                 vocab(**sty_v), [("style_default", None, "g_ya_style_DEFAULT", {})], "", "", shapes))
            out.append(translate(src["style.rs"], vocab(checked=["Style", "AnsiSplicer"], **sty_v), [
                ("eq", "Style", "g_ya_style_eq", {"trait": "PartialEq"}),
                ("new", "Style", "g_ya_style_new", {}),
                ("enabled", "Style", "g_ya_style_enabled", {}),
                ("splice", "AnsiSplicer", "g_ya_splice", {}),
                ("write_str", "AnsiSplicer", "g_ya_splicer_write_str", {"trait": "Write"}),
            ], "", "", shapes))
            # Attribute::fmt / Color::fmt take `f: &mut dyn core::fmt::Write`; the only writer the crate hands them is the
            # AnsiSplicer of fmt_prefix (checked by typing: fmt_prefix passes `&mut f`), so `write!` goes to ITS write_str
            spl = {"opaque_types": {"fmt::Write": SPLICER, "core::fmt::Write": SPLICER, "dyncore::fmt::Write": SPLICER, "dynfmt::Write": SPLICER}}
            out.append(translate(src["attr_quirk.rs"], vocab(**spl), [("fmt", "Attribute", "g_ya_attr_fmt", {})], "", "", shapes))
            out.append(translate(src["color.rs"], vocab(**spl), [("fmt", "Color", "g_ya_color_fmt", {})], "", "", shapes))
            out.append(translate(src["style.rs"], vocab(**sty_v), [
                ("fmt_prefix", "Style", "g_ya_fmt_prefix", {}),
                ("fmt_suffix", "Style", "g_ya_fmt_suffix", {}),
            ], "", "", shapes))
            # ---- paint.rs
            out.append("(* ---- paint.rs ---- *)")
            pv = dict(sty_v)
            pv["config_param"] = ("o", "ya_oracle")
            pv["type_alias"] = {"T": BYTES, "S": STYLE, "Arguments": UNIT, "Self": BYTES}
            pv["opaque_types"] = {"dynFn(&T,&mutfmt::Formatter)->fmt::Result": VFMT}
            pv["param_types"] = {"fmt": VFMT}
            pv["methods"] = merged(sty_v["methods"], {("Painted", "color_wrap_fmt_args"): m_oracle("yo_color_wrap"),
                                                     ("Painted", "reset_fmt_args"): m_oracle("yo_reset")})
            pv["macros"] = {"write": m_write_macro, "format_args": m_format_args}
            pv["paths"] = {"<q>::fmt": ("ya_str_display", VFMT)}
            pv["structs"] = {"Str": {"coq": "(list N)", "var": "v", "fields": {}, "check": False}}
            # `Paint::paint` is a provided method of `trait Paint` (implemented for every T): translated at Self = str
            paint_src = "impl Str { %s }" % fn_source(src["paint.rs"], "paint")
            out.append(translate(paint_src, vocab(**pv), [("paint", "Str", "g_ya_paint", {})], "", "", shapes))
            out.append(translate(src["paint.rs"], vocab(checked=["Painted"], **pv), [
                ("enabled", "Painted", "g_ya_painted_enabled", {}),
                ("color_fmt_value", "Painted", "g_ya_color_fmt_value", {}),
                ("fmt_args", "Painted", "g_ya_fmt_args", {}),
            ], "", "", shapes))
            out.append("(* ---- expansion of impl_fmt_traits!(<T> Painted<T> => self.value (T)) (macros.rs), the Display impl ---- *)")
            out.append(translate(expand_fmt_trait(src["macros.rs"], src["paint.rs"]), vocab(**pv),
                                 [("fmt", "Painted", "g_ya_painted_fmt", {"trait": "Display"})], "", "", shapes))
            out.append(name_tables(src["macros.rs"]))
            out.append(ENTRY)
            return "\n".join(out) + "\n"
        except TranslateError as e:
            raise gm.GenError(str(e))
        except KeyError as e:
            raise gm.GenError("function not found: %s" % e)
    generators["YansiFn"] = gen
