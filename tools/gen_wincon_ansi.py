"""Translator, ANSI fallback of anstyle-wincon (C17):

  crates/anstyle-wincon/src/ansi.rs    `write_colored` is TRANSLATED by tools/gen_fn_wincon_ansi.py
                                       (Generated/WinconAnsiFn.v, Proofs/WinconAnsiGen.v); the whole-body
                                       regex pin this file used to carry for it is gone; the bodies of the non-Windows
                                       `impl WinconStream` blocks are read textually (three spellings) and, failing that,
                                       classified by their TRANSLATION (gen_fn_wincon_ansi.unix_impl_kinds)
  crates/anstyle/src/reset.rs          the RESET string and that `Reset` displays as one fragment
  crates/anstyle/src/color.rs          `AnsiColor::render_fg/bg` display as ONE fragment (the
                                       strings themselves are in Generated/Style.v)
  crates/anstyle-wincon/src/stream.rs  every `impl WinconStream for <T>` and what its body calls

  -> coq/Generated/WinconAnsi.v

Hooked into tools/gen_model.py by `register`.  A shape that is not recognised is a
GenError (a broken tie for C17), never a crash."""
import re


def _nows(s):
    return re.sub(r"\s+", "", s)


def _balanced(src, i, what, gm):
    """src[i] == '{' ; returns index of the matching '}'"""
    depth = 0
    for j in range(i, len(src)):
        if src[j] == "{":
            depth += 1
        elif src[j] == "}":
            depth -= 1
            if depth == 0:
                return j
    raise gm.GenError("%s: unbalanced braces" % what)


_TRAIT_SIG = (
    r"fnwrite_colored\(&mutself,fg:Option<anstyle::AnsiColor>,bg:Option<anstyle::AnsiColor>,data:&\[u8\],?\)"
    r"->std::io::Result<usize>"
)

# what an impl body may be (whitespace removed)
_BODIES = [
    ("WaAnsi", r"crate::ansi::write_colored\(self,fg,bg,data\)"),
    ("WaLock", r"self\.lock\(\)\.write_colored\(fg,bg,data\)"),
    ("WaDeref", r"\(\*\*self\)\.write_colored\(fg,bg,data\)"),
    ("WaWindows", r"letinitial=crate::windows::std(?:out|err)_initial_colors\(\);"
                  r"crate::windows::write_colored\(self,fg,bg,data,initial\)"),
]


def register(generators, gm):
    GenError = gm.GenError

    def reset_bytes():
        src = gm.strip_comments(gm.read("crates/anstyle/src/reset.rs"))
        m = re.search(r'pub\(crate\)\s+const\s+RESET\s*:\s*&str\s*=\s*"((?:[^"\\]|\\.)*)"\s*;', src)
        if not m:
            raise GenError("reset.rs: const RESET not found")
        bs = gm.rust_str_bytes(m.group(1))
        flat = _nows(src)
        if "pubfnrender(self)->implcore::fmt::Display+Copy{self}" not in flat:
            raise GenError("reset.rs: Reset::render is no longer `self`")
        if "implcore::fmt::DisplayforReset{fnfmt(&self,f:&mutcore::fmt::Formatter<'_>)->core::fmt::Result{f.write_str(RESET)}}" not in flat:
            raise GenError("reset.rs: Display for Reset is no longer one `f.write_str(RESET)`")
        return bs

    def check_color_rs():
        flat = _nows(gm.strip_comments(gm.read("crates/anstyle/src/color.rs")))
        for side in ("fg", "bg"):
            if ("pubfnrender_%s(self)->implcore::fmt::Display+Copy{NullFormatter(self.as_%s_str())}" % (side, side)) not in flat:
                raise GenError("color.rs: AnsiColor::render_%s is no longer NullFormatter(self.as_%s_str())" % (side, side))
        if not re.search(r"implcore::fmt::DisplayforNullFormatter\{(?:#\[inline\])?fnfmt\(&self,f:&mutcore::fmt::Formatter<'_>\)->core::fmt::Result\{f\.write_str\(self\.0\)\}\}", flat):
            raise GenError("color.rs: Display for NullFormatter is no longer one `f.write_str(self.0)`")

    def impls():
        """[(type text, cfg, body kind)] for every `impl ... WinconStream for <T>` of stream.rs"""
        src = gm.strip_comments(gm.read("crates/anstyle-wincon/src/stream.rs"))
        # the two platform modules
        regions = []   # (start, end, cfg)
        for m in re.finditer(r"#\[cfg\((not\(windows\)|windows)\)\]\s*mod\s+platform\s*\{", src):
            i = m.end() - 1
            j = _balanced(src, i, "stream.rs mod platform", gm)
            regions.append((m.start(), j, "WaUnix" if m.group(1) == "not(windows)" else "WaWin"))
        if sorted(c for _, _, c in regions) != ["WaUnix", "WaWin"]:
            raise GenError("stream.rs: expected one #[cfg(not(windows))] and one #[cfg(windows)] `mod platform`")
        rest = src
        if re.search(r"#\[cfg", re.sub(r"#\[cfg\((?:not\(windows\)|windows)\)\]\s*mod\s+platform", "", src)):
            raise GenError("stream.rs: a cfg attribute other than the two platform modules")
        out = []
        n_impl = 0
        for m in re.finditer(r"\bimpl\b\s*(<[^{]*?>)?\s*(?:super::)?WinconStream\s+for\s+([^{]+?)\s*\{", src):
            n_impl += 1
            ty = re.sub(r"\s+", " ", m.group(2).strip())
            i = m.end() - 1
            j = _balanced(src, i, "stream.rs impl for " + ty, gm)
            inner = src[i + 1:j]
            k = inner.find("{")
            if k < 0:
                raise GenError("stream.rs: impl for %s has no method body" % ty)
            sig = _nows(inner[:k])
            if not re.fullmatch(_TRAIT_SIG, sig):
                raise GenError("stream.rs: impl for %s: unexpected method %r" % (ty, sig[:160]))
            e = _balanced(inner, k, "stream.rs impl for " + ty, gm)
            if inner[e + 1:].strip():
                raise GenError("stream.rs: impl for %s has more than one item" % ty)
            body = _nows(inner[k + 1:e])
            kind = None
            for name, rx in _BODIES:
                if re.fullmatch(rx, body):
                    kind = name
            cfg = "WaAny"
            for (a, b, c) in regions:
                if a < m.start() < b:
                    cfg = c
            if kind is None and cfg != "WaWin":
                # none of the spellings: what a non-Windows impl MEANS is decided by its translation (tools/gen_fn_wincon_ansi.py,
                # the code Generated/WinconAnsiFn.v is written from; Proofs/WinconAnsiGen.v g_wc_*_eq): it forwards to
                # crate::ansi::write_colored / to the impl of the lock it takes / to the pointee's impl.  GEN-ERROR only if that fails too
                import gen_fn_wincon_ansi
                from rs2v.driver import TranslateError
                try:
                    kinds = gen_fn_wincon_ansi.unix_impl_kinds(gm.read("crates/anstyle-wincon/src/ansi.rs"), gm.read("crates/anstyle-wincon/src/stream.rs"))
                except TranslateError as e:
                    raise GenError("stream.rs: impl for %s: body not recognised and not translatable: %s" % (ty, e))
                kind = kinds.get(ty.replace("<'_>", "").replace("<'static>", ""))
            if kind is None:
                raise GenError("stream.rs: impl for %s: body not recognised: %r" % (ty, body[:200]))
            out.append((ty, cfg, kind))
        if n_impl != len(re.findall(r"\bimpl\b", src)):
            raise GenError("stream.rs: an impl block that is not `impl WinconStream for T`")
        if not out:
            raise GenError("stream.rs: no impl of WinconStream found")
        # resolution on non-Windows: every impl must end in crate::ansi::write_colored
        unix = {ty: kind for ty, cfg, kind in out if cfg != "WaWin"}
        if len(unix) != len([1 for _, cfg, _ in out if cfg != "WaWin"]):
            raise GenError("stream.rs: two non-Windows impls for the same type")
        for ty, kind in unix.items():
            if kind == "WaWindows":
                raise GenError("stream.rs: non-Windows impl for %s takes the console path" % ty)
            if kind == "WaLock":
                lk = ty + "Lock<'_>"
                if unix.get(lk) != "WaAnsi":
                    raise GenError("stream.rs: impl for %s locks, but the impl for %s does not call crate::ansi::write_colored" % (ty, lk))
            if kind == "WaDeref" and ty not in ("&mut T", "Box<T>"):
                raise GenError("stream.rs: a dereferencing impl for %s (expected only &mut T and Box<T>)" % ty)
        for must in ("dyn std::io::Write", "std::fs::File", "Vec<u8>", "Box<T>"):
            if must not in unix:
                raise GenError("stream.rs: no impl WinconStream for %s" % must)
        return out

    def gen_wincon_ansi():
        check_color_rs()
        rst = reset_bytes()
        imp = impls()
        o = [gm.HEADER % "crates/anstyle-wincon/src/{ansi.rs,stream.rs}, crates/anstyle/src/{reset.rs,color.rs}"]
        o.append("From Coq Require Import NArith List.\nImport ListNotations.\nLocal Open Scope N_scope.\n")
        o.append("(* ---- reset.rs: RESET (Display for Reset = one f.write_str(RESET), shape checked) ---- *)\n")
        o.append("Definition wa_reset_str : list N := %s.\n" % gm.coq_bytes(rst))
        o.append("(* ---- ansi.rs: the four inner operations of write_colored (names used by Proofs/WinconAnsi.v; the function\n"
                 "     itself is translated: Generated/WinconAnsiFn.v) ---- *)\n")
        o.append("Inductive wa_op : Set := WaOpFg | WaOpBg | WaOpData | WaOpReset.\n")
        o.append("(* ---- stream.rs: impl WinconStream for <T> and what each body calls ---- *)\n")
        o.append("Inductive wa_cfg : Set := WaAny | WaUnix | WaWin.")
        o.append("Inductive wa_body : Set :=\n"
                 "  | WaAnsi      (* crate::ansi::write_colored(self, fg, bg, data) *)\n"
                 "  | WaLock      (* self.lock().write_colored(fg, bg, data) *)\n"
                 "  | WaDeref     (* ( **self ).write_colored(fg, bg, data) *)\n"
                 "  | WaWindows.  (* crate::windows::write_colored(self, fg, bg, data, initial) *)\n")
        rows = []
        for ty, cfg, kind in imp:
            rows.append("(* %s *)\n    (%s, %s, %s)" % (ty.replace("(*", "( *").replace("*)", "* )"), gm.coq_bytes(ty.encode()), cfg, kind))
        o.append("Definition wa_impls : list (list N * wa_cfg * wa_body) :=\n  [ " + ";\n    ".join(rows) + "\n  ].\n")
        return "\n".join(o)

    generators["WinconAnsi"] = gen_wincon_ansi
