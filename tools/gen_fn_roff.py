#!/usr/bin/env python3
"""Function translator, anstyle-roff: crates/anstyle-roff/src/{lib.rs,styled_str.rs}
-> coq/Generated/RoffFn.v (C15).

Every function of the two files is TRANSLATED (tools/rs2v) into Gallina over the types of the hand
model (Model/Roff.v; colours are Spec/Lossy.v's `color`, an AnsiColor / cansi::Color /
cansi::Intensity is its declaration number, an Effects value its bit set):
  styled_str.rs  is_bold, is_faint, cansi_to_anstyle_color, create_effects,
                 `impl From<CategorisedSlice> for StyledStr`::from, styled_stream
  lib.rs         the three `control_requests` constants, is_bright, has_bright_fg, ansi_color_to_roff,
                 to_hex, rgb_name, xterm_to_ansi_or_rgb, add_color_to_roff (calls itself: a Fixpoint
                 over a fuel argument, fuel 2), set_color, set_effects_and_text, to_roff
Proofs/RoffGen.v proves every translation equal to the hand model the theorems of C15 are about.

Nothing inside the crate is opaque.  What the functions CALL is vocabulary:
  cansi 2.2.1 (third party)   cansi::v3::categorise_text -> rf_categorise; CategorisedSlice = the pair
                              (SGR, text) read through rf_cslice_*; Color / Intensity by declaration number
  roff 0.2.1 (third party)    Roff::new / control / text -> rf_roff_new / rf_roff_control / rf_roff_text
                              (the document = the list of lines pushed), bold / italic / roman -> the
                              constructors of rf_inline; Roff::to_roff (the renderer) is rf_render
  anstyle, anstyle-lossy      Style::{new, fg_color, bg_color, effects, get_*}, Effects::{new, set,
                              contains, constants}, Ansi256Color::into_ansi, anstyle_lossy::xterm_to_rgb,
                              Palette::default -> Model/Style.v, Model/Lossy.v (proved / tied by C13, C10)
  std                         vec![..] (a list), format!("..{}..{name:0Nx}") (concatenation of byte strings,
                              rf_fmt_lower_hex), String::as_str, Iterator::map, Option::map / unwrap_or
The versions of the two third-party crates the hand model was transcribed from are pinned through
crates/anstyle-roff/Cargo.toml."""
import os
import re
import sys

sys.path.insert(0, os.path.dirname(os.path.abspath(__file__)))
from rs2v.driver import translate, TranslateError   # noqa: E402
from rs2v.emit import EmitError                      # noqa: E402
from rs2v.rparser import parse_file, find_items, ParseError, type_name, parse_macro_args, N   # noqa: E402
from rs2v.lexer import LexError   # noqa: E402
from rs2v.imports import all_uses, defined_names, type_items, in_test_module, UseError   # noqa: E402

U8, USZ, BOOL = ("int", "u8"), ("int", "usize"), ("bool",)
BYTES = ("list", U8)
RGB, A256, PAL = ("struct", "RgbColor"), ("struct", "Ansi256Color"), ("struct", "Palette")
STYLE, EFF, ROFF, INLINE = ("struct", "Style"), ("struct", "Effects"), ("struct", "Roff"), ("struct", "Inline")
STYLED, CAT = ("struct", "StyledStr"), ("struct", "CategorisedSlice")
ANSI = ("enum", "AnsiColor")

ANSI_NAMES = ["Black", "Red", "Green", "Yellow", "Blue", "Magenta", "Cyan", "White",
              "BrightBlack", "BrightRed", "BrightGreen", "BrightYellow", "BrightBlue", "BrightMagenta", "BrightCyan", "BrightWhite"]
# cansi 2.2.1 src/lib.rs (third party): `pub enum Color`, `pub enum Intensity` in declaration order;
# the hand model of cansi (Model/Roff.v) uses the same numbering
CANSI_COLORS = list(ANSI_NAMES)
CANSI_INTENSITY = ["Normal", "Bold", "Faint"]
EFFECTS = ["BOLD", "DIMMED", "ITALIC", "UNDERLINE", "DOUBLE_UNDERLINE", "CURLY_UNDERLINE", "DOTTED_UNDERLINE",
           "DASHED_UNDERLINE", "BLINK", "INVERT", "HIDDEN", "STRIKETHROUGH"]
THIRD_PARTY = {"roff": "0.2.1", "cansi": "2.2.1"}

LIB = "crates/anstyle-roff/src/lib.rs"
SST = "crates/anstyle-roff/src/styled_str.rs"

# What the SHORT names of each file stand for in its vocabulary (the vocabularies are keyed by the names the files import).
# The `use` items are compared with these tables NAME BY NAME (check_uses): how the imports are grouped into `use` lines,
# their order, an import that is dropped because it is no longer used, or one more name of the table (`roman`) is no
# change; a name imported from ANOTHER path, a name outside the table, a glob import, or a name of the table that the
# file now DEFINES itself is a GEN-ERROR.
USES = {
    SST: {"AnsiColor": "anstyle::AnsiColor", "AColor": "anstyle::Color", "Effects": "anstyle::Effects", "Style": "anstyle::Style",
          "CategorisedSlice": "cansi::v3::CategorisedSlice", "Color": "cansi::Color", "Intensity": "cansi::Intensity"},
    LIB: {"Ansi256Color": "anstyle::Ansi256Color", "AnsiColor": "anstyle::AnsiColor", "Color": "anstyle::Color",
          "RgbColor": "anstyle::RgbColor", "Style": "anstyle::Style", "Effects": "anstyle::Effects",
          "Palette": "anstyle_lossy::palette::Palette", "Roff": "roff::Roff", "StyledStr": "styled_str::StyledStr",
          "bold": "roff::bold", "italic": "roff::italic", "roman": "roff::roman"},
}
# the one private type alias lib.rs may hold (the parser skips `type` items): a pair of references to optional colours
COLORSET = "typeColorSet<'a>=(&'aOption<Color>,&'aOption<Color>);"


# ---------------------------------------------------------------------------
# vocabulary callables

def shape(coq, self_mode, params, ret, total=True):
    return {"coq": coq, "self": self_mode, "params": params, "ret": ret, "total": total, "cfg": False}


def const_fn(term, ty, what):
    def h(em, e, env, k):
        if e.args:
            raise EmitError("%s takes no argument" % what)
        return k(term, ty, env)
    return h


def m_pure(fmt, ty, what):
    def h(em, e, rt, rty, env, k):
        if e.args:
            raise EmitError("%s takes no argument" % what)
        return k(fmt % rt, ty, env)
    return h


def m_same(em, e, rt, rty, env, k):
    """String::as_str, Vec::into_iter: the value itself"""
    if e.args:
        raise EmitError("%s takes no argument" % e.name)
    return k(rt, rty, env)


def roff_root(e):
    """the variable a chain doc.control(..).control(..) starts from (control / text return `&mut Self`)"""
    while e.kind == "mcall" and e.name in ("control", "text"):
        e = e.recv
    while e.kind in ("paren",) or (e.kind == "unary" and e.op in ("&mut", "*")):
        e = e.e
    if e.kind == "path" and len(e.segs) == 1:
        return e.segs[0]
    raise EmitError("Roff::control / Roff::text on a receiver that is no variable")


def m_roff_control(em, e, rt, rty, env, k):
    if len(e.args) != 2:
        raise EmitError("Roff::control takes (name, args)")
    root = roff_root(e.recv)

    def k_args(ts, tys, env1):
        if tys[0] != BYTES or tys[1] != ("list", BYTES):
            raise EmitError("Roff::control(%r, %r)" % (tys[0], tys[1]))
        return em.write_place(N("path", segs=[root]), "(rf_roff_control %s %s %s)" % (rt, ts[0], ts[1]), env1,
                              lambda env2: k(env2.get(root).coq, ROFF, env2))
    return em.exprs(e.args, env, k_args)


def m_roff_text(em, e, rt, rty, env, k):
    if len(e.args) != 1:
        raise EmitError("Roff::text takes (inlines)")
    root = roff_root(e.recv)

    def k_args(ts, tys, env1):
        if tys[0] != ("list", INLINE):
            raise EmitError("Roff::text(%r)" % (tys[0],))
        return em.write_place(N("path", segs=[root]), "(rf_roff_text %s %s)" % (rt, ts[0]), env1,
                              lambda env2: k(env2.get(root).coq, ROFF, env2))
    return em.exprs(e.args, env, k_args)


m_roff_control.mutates = True
m_roff_text.mutates = True


def m_vec(em, e, env, k):
    """vec![a, b, ..]: the list of its elements (all of one type)"""
    args = parse_macro_args(e.toks)
    if not args:
        raise EmitError("vec![] without elements: element type unknown")

    def k1(ts, tys, env1):
        if any(t != tys[0] for t in tys):
            raise EmitError("vec![..] with elements of types %r" % (tys,))
        return k("[" + "; ".join(ts) + "]", ("list", tys[0]), env1)
    return em.exprs(args, env, k1)


def m_format(em, e, env, k):
    """format!("lit{}lit{name:06x}"): the concatenation of the literal pieces (bytes) and the formatted arguments:
    `{}` of a str = its bytes, `{:0Nx}` of an unsigned integer = rf_fmt_lower_hex N (Model/Roff.v)"""
    args = parse_macro_args(e.toks)
    if not args or args[0].kind != "str":
        raise EmitError("format!: the first argument is not a string literal")
    fmt = list(args[0].val)
    if any(b >= 128 for b in fmt):
        raise EmitError("format!: non-ASCII format string")
    rest = args[1:]
    pieces = []      # ("lit", bytes) | ("arg", expression, spec)
    lit = []
    i = 0
    while i < len(fmt):
        c = fmt[i]
        if c in (123, 125) and i + 1 < len(fmt) and fmt[i + 1] == c:
            lit.append(c)
            i += 2
            continue
        if c == 125:
            raise EmitError("format!: unmatched `}`")
        if c != 123:
            lit.append(c)
            i += 1
            continue
        j = fmt.index(125, i) if 125 in fmt[i:] else -1
        if j < 0:
            raise EmitError("format!: unmatched `{`")
        inner = bytes(fmt[i + 1:j]).decode()
        name, _, spec = inner.partition(":")
        if lit:
            pieces.append(("lit", lit))
            lit = []
        if name == "":
            if not rest:
                raise EmitError("format!: more placeholders than arguments")
            pieces.append(("arg", rest.pop(0), spec))
        elif re.fullmatch(r"[A-Za-z_]\w*", name):
            pieces.append(("arg", N("path", segs=[name]), spec))
        else:
            raise EmitError("format!: placeholder {%s}" % inner)
        i = j + 1
    if lit:
        pieces.append(("lit", lit))
    if rest:
        raise EmitError("format!: more arguments than placeholders")
    exprs = [p[1] for p in pieces if p[0] == "arg"]

    def k1(ts, tys, env1):
        out = []
        it = iter(zip(ts, tys))
        for p in pieces:
            if p[0] == "lit":
                out.append("[" + "; ".join(str(b) for b in p[1]) + "]")
                continue
            t, ty = next(it)
            spec = p[2]
            m = re.fullmatch(r"0(\d+)x", spec)
            if spec == "" and ty == BYTES:
                out.append(t)
            elif m and ty[0] == "int" and not ty[1].startswith("i") and ty[1] != "char":
                out.append("rf_fmt_lower_hex %s%%nat %s" % (m.group(1), t))
            else:
                raise EmitError("format!: `{:%s}` of a value of type %r is not in the vocabulary" % (spec, ty))
        return k("(" + " ++ ".join(out) + ")" if out else "[]", BYTES, env1)
    return em.exprs(exprs, env, k1)


def one_param_fn(em, a, what):
    if a.kind != "path" or len(a.segs) != 1 or a.segs[0] not in em.fn_shapes:
        raise EmitError("%s: the argument is not a translated function" % what)
    sh = em.fn_shapes[a.segs[0]]
    if sh.get("self") or len(sh["params"]) != 1 or sh["params"][0][0] != "in" or sh.get("cfg"):
        raise EmitError("%s(%s): not a function of one by-value parameter" % (what, a.segs[0]))
    return sh


def m_opt_map(em, e, rt, rty, env, k):
    """Option::map(<translated function>)"""
    if len(e.args) != 1:
        raise EmitError("Option::map takes one argument")
    if e.args[0].kind == "closure":
        return m_opt_map_closure(em, e, rt, rty, env, k)
    sh = one_param_fn(em, e.args[0], "Option::map")
    if rty[0] != "opt" or rty[1] != sh["params"][0][1]:
        raise EmitError("Option::map(%s) on %r" % (sh["coq"], rty))
    if sh["total"]:
        return k("(option_map %s %s)" % (sh["coq"], rt), ("opt", sh["ret"]), env)
    return em.bind("rf_opt_map_m %s %s" % (sh["coq"], rt), ("opt", sh["ret"]), env, k, hint="om")


def closure_body(em, cl, elem_ty, env, what):
    """the body of a one-parameter closure that assigns nothing it captures, over an element of type elem_ty:
    (bound variable, pure term or None, monadic body or None, type of the body)"""
    if len(cl.params) != 1:
        raise EmitError("%s needs a one-parameter closure" % what)
    p = cl.params[0][0]
    while p.kind == "pref":
        p = p.inner
    if p.kind != "pident":
        raise EmitError("%s: closure parameter pattern" % what)
    if em.assigned(cl.body, env):
        raise EmitError("%s: the closure assigns a captured variable" % what)
    c = em.fresh(p.name)
    env2 = env.bind(p.name, c, elem_ty)
    pr = em.try_pure(cl.body, env2)
    if pr is not None:
        return c, pr[0], None, pr[1]
    box = []
    oldpm, oldctl = em.pure_mode, em.ctl
    em.pure_mode = 0

    def no_ctl(*_a):
        raise EmitError("return / break inside a closure")
    from rs2v.emit import Ctl
    em.ctl = Ctl(no_ctl)
    try:
        def kb(t, ty, _envx):
            box.append(ty)
            return "Some %s" % t
        body = em.expr(cl.body, env2, kb)
    finally:
        em.pure_mode, em.ctl = oldpm, oldctl
    if len(set(map(repr, box))) != 1:
        raise EmitError("%s: closure body with exits of several types (or none)" % what)
    return c, None, "\n".join("    " + l for l in body.split("\n")), box[0]


def m_opt_map_closure(em, e, rt, rty, env, k):
    """Option::map(|x| body): `option_map (fun x => ..)` when the body is pure, else a bind of `rf_opt_map_m (fun x => ..)`
    (the body may panic: a 16-arm match over a number-represented enum has a `None` default); `?` / `return` inside are errors"""
    if rty[0] != "opt":
        raise EmitError("Option::map on %r" % (rty,))
    c, pure, body, ty = closure_body(em, e.args[0], rty[1], env, "Option::map")
    if pure is not None:
        return k("(option_map (fun %s => %s) %s)" % (c, pure, rt), ("opt", ty), env)
    return em.bind("rf_opt_map_m (fun %s =>\n%s) %s" % (c, body, rt), ("opt", ty), env, k, hint="om")


def m_list_map(em, e, rt, rty, env, k):
    """Iterator::map(|x| body) with a closure that assigns nothing it captures; the body may panic
    (rf_map_m: the first panic is the result -- the adapter is lazy, but nothing else can be observed
    between two items)"""
    if len(e.args) != 1 or e.args[0].kind != "closure" or len(e.args[0].params) != 1 or rty[0] != "list":
        raise EmitError("Iterator::map needs a one-parameter closure on a list")
    cl = e.args[0]
    p = cl.params[0][0]
    while p.kind == "pref":
        p = p.inner
    if p.kind != "pident":
        raise EmitError("Iterator::map: closure parameter pattern")
    if em.assigned(cl.body, env):
        raise EmitError("Iterator::map: the closure assigns a captured variable")
    c = em.fresh(p.name)
    env2 = env.bind(p.name, c, rty[1])
    pr = em.try_pure(cl.body, env2)
    if pr is not None:
        return k("(map (fun %s => %s) %s)" % (c, pr[0], rt), ("list", pr[1]), env)
    box = []
    oldpm, oldctl = em.pure_mode, em.ctl
    em.pure_mode = 0

    def no_ctl(*_a):
        raise EmitError("return / break inside a closure")
    from rs2v.emit import Ctl
    em.ctl = Ctl(no_ctl)
    try:
        def kb(t, ty, _envx):
            box.append(ty)
            return "Some %s" % t
        body = em.expr(cl.body, env2, kb)
    finally:
        em.pure_mode, em.ctl = oldpm, oldctl
    if len(box) != 1:
        raise EmitError("Iterator::map: closure body with several exits")
    ind = "\n".join("    " + l for l in body.split("\n"))
    return em.bind("rf_map_m (fun %s =>\n%s) %s" % (c, ind, rt), ("list", box[0]), env, k, hint="ms")


def m_cat_into(em, e, rt, rty, env, k):
    """`x.into()` on a CategorisedSlice: the one `impl From<CategorisedSlice> for StyledStr` of the file
    (find_fn has checked that there is exactly one), translated as StyledStr::from"""
    if e.args:
        raise EmitError("into takes no argument")
    sh = em.fn_shapes.get("StyledStr::from")
    if sh is None:
        raise EmitError("CategorisedSlice::into before StyledStr::from is translated")
    return em.call_shape(sh, None, [N("term", term=rt, ty=rty)], env, k)


# ---------------------------------------------------------------------------
# vocabulary

def vocab(area, consts, imported=(), colorset=True):
    nocheck = {"check": False, "fields": {}}
    ansi_enum = {"coq": "N", "eqb": "N.eqb", "native": False, "variants": {n: str(i) for i, n in enumerate(ANSI_NAMES)}}
    acolor = {"coq": "color", "variants": {"Ansi": "Ansi", "Ansi256": "Ansi256", "Rgb": "Rgb"},
              "payload": {"Ansi": [ANSI], "Ansi256": [A256], "Rgb": [RGB]}}
    acolor_name = "Color" if area == "lib" else "AColor"      # styled_str.rs: `use anstyle::Color as AColor`
    acol = ("enum", acolor_name)
    v = {
        "reserved": ["k", "next", "rec_fuel", "color", "rgb", "c", "s", "d"],
        "no_transparent": ("into",),
        "type_alias": {"str": BYTES, "String": BYTES},
        "enums": {"AnsiColor": ansi_enum, acolor_name: acolor},
        "structs": {
            "Style": dict(nocheck, coq="rf_style"),
            "Effects": dict(nocheck, coq="N"),
            "Roff": dict(nocheck, coq="(list rf_line)"),
            "Inline": dict(nocheck, coq="rf_inline"),
            "RgbColor": {"coq": "rgb", "var": "c", "check": False, "fields": {
                "0": ("rgb_f0", None, U8), "1": ("rgb_f1", None, U8), "2": ("rgb_f2", None, U8)}},
            "Ansi256Color": dict(nocheck, coq="N"),
            "Palette": dict(nocheck, coq="(list rgb)"),
            "StyledStr": {"coq": "rf_styled", "var": "s", "check": area == "sst", "ctor": ("mkRfStyled", ["text", "style"]), "fields": {
                "text": ("rfs_text", None, BYTES), "style": ("rfs_style", None, STYLE)}},
        },
        "consts": dict({"Effects::" + n: ("eff_" + n.lower(), EFF) for n in EFFECTS}, **consts),
        "fns": {
            "Style::new": const_fn("rf_style_new", STYLE, "Style::new"),
            "Effects::new": const_fn("e_new", EFF, "Effects::new"),
            acolor_name + "::Ansi": shape("Ansi", None, [("in", ANSI)], acol),
            acolor_name + "::Rgb": shape("Rgb", None, [("in", RGB)], acol),
            acolor_name + "::Ansi256": shape("Ansi256", None, [("in", A256)], acol),
        },
        "methods": {
            ("Style", "get_fg_color"): m_pure("(ry_fg %s)", ("opt", acol), "Style::get_fg_color"),
            ("Style", "get_bg_color"): m_pure("(ry_bg %s)", ("opt", acol), "Style::get_bg_color"),
            ("Style", "get_effects"): m_pure("(ry_effects %s)", EFF, "Style::get_effects"),
            ("Style", "fg_color"): shape("rf_style_set_fg", "in", [("in", ("opt", acol))], STYLE),
            ("Style", "bg_color"): shape("rf_style_set_bg", "in", [("in", ("opt", acol))], STYLE),
            ("Style", "effects"): shape("rf_style_set_effects", "in", [("in", EFF)], STYLE),
            ("Effects", "contains"): shape("e_contains", "in", [("in", EFF)], BOOL),
            ("Effects", "set"): shape("e_set", "in", [("in", EFF), ("in", BOOL)], EFF),
            ("list", "as_str"): m_same,
            ("list", "into_iter"): m_same,
            ("list", "map"): m_list_map,
            ("opt", "map"): m_opt_map,
        },
        "macros": {"vec": m_vec, "format": m_format},
        "opaque": {},
    }
    if area == "lib":
        if colorset:
            v["type_alias"]["ColorSet"] = ("tuple", (("opt", acol), ("opt", acol)))
        # the three inline constructors of roff: under the full path always, under the short name when (and only when)
        # the file imports it (check_uses: then it is roff's)
        inl = {"bold": "RfInBold", "italic": "RfInItalic", "roman": "RfInRoman"}
        for n in sorted(inl):
            if n in imported:
                v["fns"][n] = shape(inl[n], None, [("in", BYTES)], INLINE)
            v["fns"]["roff::" + n] = shape(inl[n], None, [("in", BYTES)], INLINE)
        v["fns"].update({
            "Roff::new": const_fn("rf_roff_new", ROFF, "Roff::new"),
            "Palette::default": const_fn("vga", PAL, "Palette::default"),
            "anstyle_lossy::xterm_to_rgb": shape("xterm_to_rgb", None, [("in", A256), ("in", PAL)], RGB, total=False),
        })
        v["methods"].update({
            ("Roff", "control"): m_roff_control,
            ("Roff", "text"): m_roff_text,
            ("Ansi256Color", "into_ansi"): shape("into_ansi", "in", [], ("opt", ANSI)),
        })
    else:
        ccol, cint = ("enum", "Color"), ("enum", "Intensity")
        v["enums"]["Color"] = {"coq": "N", "eqb": "N.eqb", "native": False, "variants": {n: str(i) for i, n in enumerate(CANSI_COLORS)}}
        v["enums"]["Intensity"] = {"coq": "N", "eqb": "N.eqb", "native": False, "variants": {n: str(i) for i, n in enumerate(CANSI_INTENSITY)}}
        ob = ("opt", BOOL)
        v["structs"]["CategorisedSlice"] = {"coq": "rf_cat", "var": "cat", "check": False, "fields": {
            "text": ("rf_cslice_text", None, BYTES), "fg": ("rf_cslice_fg", None, ("opt", ccol)), "bg": ("rf_cslice_bg", None, ("opt", ccol)),
            "intensity": ("rf_cslice_intensity", None, ("opt", cint)), "italic": ("rf_cslice_italic", None, ob),
            "underline": ("rf_cslice_underline", None, ob), "blink": ("rf_cslice_blink", None, ob), "reversed": ("rf_cslice_reversed", None, ob),
            "hidden": ("rf_cslice_hidden", None, ob), "strikethrough": ("rf_cslice_strikethrough", None, ob)}}
        v["fns"]["v3::categorise_text"] = shape("rf_categorise", None, [("in", BYTES)], ("list", CAT))
        v["methods"][("CategorisedSlice", "into")] = m_cat_into
        v["ret_types"] = {"styled_stream": ("list", STYLED)}
    return v


HEADER = ("(* GENERATED by tools/gen_fn_roff.py (tools/rs2v) from crates/anstyle-roff/src/{lib.rs,styled_str.rs}\n"
          "   (enum orders from crates/anstyle/src/color.rs) -- do not edit *)")
REQ = """From Coq Require Import NArith List Bool.
From AV Require Import Generated.Style Model.Style Generated.Palette Spec.Lossy Model.Lossy Generated.Roff Model.Roff Model.Base Model.Imp.
Import ListNotations.
Local Open Scope N_scope.
Local Open Scope bool_scope."""


def check_enum(items, name, expected):
    ens = find_items(items, "enum", name)
    if len(ens) != 1:
        raise TranslateError("enum %s: %d definitions" % (name, len(ens)))
    got = []
    for vname, payload, disc, _attrs in ens[0].variants:
        if payload == "struct" or disc is not None:
            raise TranslateError("enum %s::%s: struct payload / explicit discriminant" % (name, vname))
        got.append((vname, [type_name(t) for t in payload] if payload else []))
    if got != expected:
        raise TranslateError("enum %s: variants %r, the vocabulary models %r" % (name, got, expected))


def squash(s):
    return re.sub(r"\s+", "", s)


def register(generators, gm):
    def parse(rel, src):
        try:
            return parse_file(src)
        except (ParseError, LexError) as e:
            raise TranslateError("%s: parse error: %s" % (rel, e))

    def effect_consts():
        src = gm.strip_comments(gm.read("crates/anstyle/src/effect.rs"))
        names = re.findall(r"pub const (\w+)\s*:\s*Self\s*=\s*Effects\(1 << \d+\);", src)
        if names != EFFECTS:
            raise TranslateError("effect.rs: effect constants %r, the vocabulary models %r (Generated/Style.v eff_*)" % (names, EFFECTS))

    def check_uses(rel, src):
        """the imports of the file (test modules apart), compared with USES[rel] name by name; returns the imported names"""
        known = USES[rel]
        try:
            uses = all_uses(src)
        except (UseError, LexError) as e:
            raise TranslateError("%s: `use` items: %s" % (rel, e))
        got = set()
        for headers, name, path in uses:
            if in_test_module(headers):
                continue
            if name == "*":
                raise TranslateError("%s: glob import `use %s` (the vocabulary must know what every short name stands for)" % (rel, path))
            if known.get(name) != path:
                raise TranslateError("%s: `use %s%s`: the vocabulary reads `%s` as %s" % (
                    rel, path, "" if path.split("::")[-1] == name else " as " + name, name, known.get(name, "nothing (it is not a name it knows)")))
            got.add(name)
        clash = sorted((set(known) - got) & defined_names(src))
        if clash:
            raise TranslateError("%s: %s is defined in the file, the vocabulary reads the name as %s" % (rel, ", ".join(clash), known[clash[0]]))
        return got

    def check_types(rel, src, allowed):
        """`type` items (skipped by the parser, but they say what a name means): only the listed ones, text for text"""
        try:
            found = type_items(src)
        except LexError as e:
            raise TranslateError("%s: %s" % (rel, e))
        for t in found:
            if t not in allowed:
                raise TranslateError("%s: `%s`: a type alias the vocabulary does not know" % (rel, t))
        return found

    def gen():
        try:
            lib = gm.read(LIB)
            sst = gm.read(SST)
            col = gm.read("crates/anstyle/src/color.rs")
            toml = gm.read("crates/anstyle-roff/Cargo.toml")
            # the third-party crates the hand model (Model/Roff.v) transcribes
            for crate, ver in THIRD_PARTY.items():
                if not re.search(r'^%s\s*=\s*"%s"\s*$' % (crate, re.escape(ver)), toml, re.M):
                    raise TranslateError("Cargo.toml: dependency `%s = \"%s\"` not found: the hand model of %s (Model/Roff.v) was "
                                         "transcribed from that version and must be re-read" % (crate, ver, crate))
            citems = parse("color.rs", col)
            check_enum(citems, "AnsiColor", [(n, []) for n in ANSI_NAMES])
            check_enum(citems, "Color", [("Ansi", ["AnsiColor"]), ("Ansi256", ["Ansi256Color"]), ("Rgb", ["RgbColor"])])
            effect_consts()
            # which `Color` is which: the `use` items, name by name, and the one type alias the parser skips
            check_uses(SST, sst)
            lib_imported = check_uses(LIB, lib)
            colorset = check_types(LIB, lib, [COLORSET])
            check_types(SST, sst, [])
            shapes = {}
            out = [translate(sst, vocab("sst", {}), [
                ("is_bold", None, "g_is_bold", {}),
                ("is_faint", None, "g_is_faint", {}),
                ("cansi_to_anstyle_color", None, "g_cansi_to_anstyle_color", {}),
                ("create_effects", None, "g_create_effects", {}),
                ("from", "StyledStr", "g_styled_from", {"trait": "From", "trait_arg": "CategorisedSlice"}),
                ("styled_stream", None, "g_styled_stream", {}),
            ], HEADER, REQ, shapes)]
            # mod control_requests: the three &str constants, translated as byte strings
            litems = parse(LIB, lib)
            mods = [m for m in find_items(litems, "mod", "control_requests")]
            if len(mods) != 1:
                raise TranslateError("lib.rs: mod control_requests: %d definitions" % len(mods))
            consts = {}
            got = []
            for it in mods[0].items:
                if it.kind != "const" or it.val.kind != "str" or squash(type_name(it.ty) or "") != "str":
                    raise TranslateError("mod control_requests: item that is no `const NAME: &str = \"..\"`")
                if any(b >= 128 for b in it.val.val):
                    raise TranslateError("control_requests::%s: non-ASCII literal" % it.name)
                got.append(it.name)
                consts[it.name] = ("g_%s" % it.name, BYTES)
                out.append("(* control_requests::%s *)\nDefinition g_%s : list N := [%s].\n" % (it.name, it.name, "; ".join(str(b) for b in it.val.val)))
            if sorted(got) != ["BACKGROUND", "CREATE_COLOR", "FOREGROUND"]:
                raise TranslateError("mod control_requests: constants %r" % got)
            lv = vocab("lib", consts, lib_imported, bool(colorset))
            # methods of anstyle's own colour types that lib.rs calls and the vocabulary does not name (`color.is_bright()`) are
            # INLINED from crates/anstyle/src/color.rs (emit.py local_method: the `impl` of the receiver's type)
            lv["inline_sources"] = [col]
            out.append(translate(lib, lv, [
                ("is_bright", None, "g_is_bright", {}),
                ("has_bright_fg", None, "g_has_bright_fg", {}),
                ("ansi_color_to_roff", None, "g_ansi_color_to_roff", {}),
                ("to_hex", None, "g_to_hex", {}),
                ("rgb_name", None, "g_rgb_name", {}),
                ("xterm_to_ansi_or_rgb", None, "g_xterm_to_ansi_or_rgb", {}),
                # the Ansi256 arm calls add_color_to_roff again, with a colour that is no Ansi256: two levels
                ("add_color_to_roff", None, "g_add_color_to_roff", {"rec_fuel": "2%nat"}),
                ("set_color", None, "g_set_color", {}),
                ("set_effects_and_text", None, "g_set_effects_and_text", {}),
                ("to_roff", None, "g_to_roff", {}),
            ], "", "", shapes))
            return "\n".join(out) + "\n"
        except TranslateError as e:
            raise gm.GenError(str(e))
        except KeyError as e:
            raise gm.GenError("function not found: %s" % e)
    generators["RoffFn"] = gen
