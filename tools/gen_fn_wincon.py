#!/usr/bin/env python3
"""Function translator, anstream wincon adapter: crates/anstream/src/adapter/wincon.rs
(+ AnsiColor::bright of crates/anstyle/src/color.rs) -> coq/Generated/WinconFn.v (C07, C03, C18, C14).

TRANSLATED (tools/rs2v): WinconCapture::{reset, print, execute, csi_dispatch}, to_ansi_color,
next_bytes and anstyle::AnsiColor::bright.  Proofs/WinconGen.v proves the translations equal to the
hand model Model/Wincon.v the theorems of C07 / C03 / C18 / C14 are about.

HAND-MODELLED, pinned by token hash (trait-object plumbing):
  * the `Perform` trait of anstyle-parse (default method bodies: every callback a capture does not
    override is a no-op) and the set of callbacks `impl Perform for WinconCapture` overrides: the
    dispatcher `g_perform` (an event of the parser -> the translated callback) is written from them.
ALSO TRANSLATED (no longer pinned): `WinconBytes::new` (a derived Default: the derive attributes and the field lists of
WinconBytes / WinconCapture are read from the source, tools/glue_common.py), `WinconBytes::extract_next` and
`WinconBytesIter::next`.  extract_next returns a struct holding `&mut self.parser` / `&mut self.capture`: the value
translation copies the fields into the iterator, Proofs/WinconGen.v (gt_extract_next) writes the copy-out and proves the
drive equal to the hand-written one (g_extract_next = Model/Wincon.extract_next).
`parser.advance(capture, byte)` is the TRANSLATED parser (Generated/ParserFn.g_advance) whose events
are fed, in order, to the translated callbacks (g_perform_events), as Model/Wincon.v does with the hand
parser.  `for param in params` iterates the parameter groups: the `params` argument IS the list of groups
the parser's csi_dispatch event carries (Model/Parser.params_groups, applied where the translated parser
emits the event)."""
import os
import sys

sys.path.insert(0, os.path.dirname(os.path.abspath(__file__)))
from rs2v.driver import translate, TranslateError, token_hash, fn_source   # noqa: E402
from rs2v.lexer import tokenize                                            # noqa: E402
from rs2v.emit import NeedsBind                                            # noqa: E402
from glue_common import make_f_default, derive_default                   # noqa: E402

U8, U16, USZ, CHAR = ("int", "u8"), ("int", "u16"), ("int", "usize"), ("int", "char")
BOOL, UNIT = ("bool",), ("unit",)
STYLE, EFFECTS, COLOR = ("struct", "Style"), ("struct", "Effects"), ("struct", "Color")
ACOLOR = ("enum", "AnsiColor")
WSTATE, TARGET = ("enum", "State"), ("enum", "ColorTarget")
PARSER = ("coq", "parser")

ANSI = ["Black", "Red", "Green", "Yellow", "Blue", "Magenta", "Cyan", "White"]
ANSI16 = ANSI + ["Bright" + a for a in ANSI]
EFFECT_NAMES = ["BOLD", "DIMMED", "ITALIC", "UNDERLINE", "DOUBLE_UNDERLINE", "CURLY_UNDERLINE", "DOTTED_UNDERLINE", "DASHED_UNDERLINE",
                "BLINK", "INVERT", "HIDDEN", "STRIKETHROUGH"]


# -- anstyle::Style builder methods -> the style record functions of the hand model ----------
def style_effect(bitname):
    def m(em, e, rt, rty, env, k):
        if e.args:
            raise TranslateError("Style::%s with arguments" % e.name)
        return k("(st_insert %s %s)" % (rt, bitname), STYLE, env)
    return m


def style_color(setter):
    def m(em, e, rt, rty, env, k):
        if len(e.args) != 1:
            raise TranslateError("Style::%s: one argument expected" % e.name)
        return em.expr(e.args[0], env, lambda t, _ty, env1: k("(%s %s %s)" % (setter, rt, t), STYLE, env1))
    return m


def m_style_effects(em, e, rt, rty, env, k):            # Style::effects(e)
    return em.expr(e.args[0], env, lambda t, _ty, env1: k("(set_eff %s %s)" % (rt, t), STYLE, env1))


def m_style_get_effects(em, e, rt, rty, env, k):        # Style::get_effects()
    return k("(s_eff %s)" % rt, EFFECTS, env)


def m_effects_remove(em, e, rt, rty, env, k):           # Effects::remove(other) (by value: pure)
    return em.expr(e.args[0], env, lambda t, _ty, env1: k("(N.ldiff %s %s)" % (rt, t), EFFECTS, env1))


def m_ansi_into(em, e, rt, rty, env, k):                # From<AnsiColor> for Color
    return k("(CAnsi (ansi_idx %s))" % rt, COLOR, env)


def m_color_into(em, e, rt, rty, env, k):               # From<Ansi256Color> / From<RgbColor> for Color
    return k(rt, COLOR, env)


def m_ansi_bright(em, e, rt, rty, env, k):
    """AnsiColor::bright(yes): the function translated from crates/anstyle/src/color.rs (g_ansi_bright); a callable so
    that the receiver expression is evaluated once"""
    if len(e.args) != 1:
        raise TranslateError("AnsiColor::bright: one argument expected")
    return em.expr(e.args[0], env, lambda t, _ty, env1: em.bind("g_ansi_bright %s %s" % (rt, t), ACOLOR, env1, k, hint="br"))


def f_ansi256(em, e, env, k):                           # anstyle::Ansi256Color(n)
    return em.expr(e.args[0], env, lambda t, _ty, env1: k("(CIdx %s)" % t, ("struct", "Ansi256Color"), env1))


def f_rgb(em, e, env, k):                               # anstyle::RgbColor(r, g, b)
    return em.exprs(e.args, env, lambda ts, _tys, env1: k("(CRgb %s)" % " ".join(ts), ("struct", "RgbColor"), env1))


def f_style_default(em, e, env, k):                     # anstyle::Style::default()
    return k("style_default", STYLE, env)


def f_mem_take(em, e, env, k):                          # std::mem::take(&mut place): the old value; the place becomes empty
    place = e.args[0]
    if place.kind != "unary" or place.op != "&mut":
        raise TranslateError("mem::take of something that is not `&mut place`")

    def k1(t, ty, env1):
        if ty[0] != "list":
            raise TranslateError("mem::take on %r" % (ty,))
        return em.write_place(place.e, "[]", env1, lambda env2: k(t, ty, env2))
    return em.expr(place.e, env, k1)


def m_parser_advance(em, e, rt, rty, env, k):
    """parser.advance(capture, byte): the translated parser (Generated/ParserFn.g_advance, default features);
    its events go, in order, to the translated Perform callbacks of the capture"""
    if len(e.args) != 2:
        raise TranslateError("Parser::advance: two arguments expected")
    if em.pure_mode:
        raise NeedsBind()

    def k_args(ts, tys, env1):
        if tys[0] != ("struct", "WinconCapture"):
            raise TranslateError("Parser::advance: the performer is %r, not the WinconCapture" % (tys[0],))
        p, evs, cp = em.fresh("parser"), em.fresh("evs"), em.fresh("capture")
        head = "'(%s, %s) <- g_advance cfg_default %s [] %s ;;\n%s <- g_perform_events %s %s ;;\n" % (p, evs, rt, ts[1], cp, ts[0], evs)
        return head + em.write_place(e.recv, p, env1, lambda env2: em.write_place(e.args[0], cp, env2, lambda env3: k("tt", UNIT, env3)))
    return em.exprs(e.args, env, k_args)


m_parser_advance.mutates = True

METHODS = {
    ("Style", "bold"): style_effect("BOLD"),
    ("Style", "dimmed"): style_effect("DIMMED"),
    ("Style", "italic"): style_effect("ITALIC"),
    ("Style", "underline"): style_effect("UNDERLINE"),
    ("Style", "invert"): style_effect("INVERT"),
    ("Style", "hidden"): style_effect("HIDDEN"),
    ("Style", "strikethrough"): style_effect("STRIKETHROUGH"),
    ("Style", "blink"): style_effect("BLINK"),
    ("Style", "fg_color"): style_color("set_fg"),
    ("Style", "bg_color"): style_color("set_bg"),
    ("Style", "underline_color"): style_color("set_ulc"),
    ("Style", "effects"): m_style_effects,
    ("Style", "get_effects"): m_style_get_effects,
    ("Effects", "remove"): m_effects_remove,
    ("AnsiColor", "into"): m_ansi_into,
    ("AnsiColor", "bright"): m_ansi_bright,
    ("Ansi256Color", "into"): m_color_into,
    ("RgbColor", "into"): m_color_into,
    ("coq", "advance"): m_parser_advance,
}

ENUM_ACOLOR = {"coq": "acolor", "eqb": None, "variants": {a: "A" + a for a in ANSI16}}

def m_reserve(em, e, rt, rty, env, k):
    """String::reserve(n): capacity only, nothing observable (the argument is evaluated)"""
    if len(e.args) != 1:
        raise EmitError("reserve takes one argument")
    return em.expr(e.args[0], env, lambda _t, _ty, env1: k("tt", ("unit",), env1))


METHODS[("list", "reserve")] = m_reserve

VOCAB = {
    "reserved": ["parser", "event", "st_insert", "st_remove", "set_fg", "set_bg", "set_ulc", "set_eff", "s_eff", "s_fg", "s_bg", "s_ul", "CAnsi", "CIdx", "CRgb",
                 "ansi_idx", "style_default", "g_ansi_bright", "g_advance", "cfg_default", "g_perform", "g_perform_events", "bit", "N", "ldiff", "lor"] + EFFECT_NAMES,
    "no_transparent": ("into",),
    "type_alias": {"String": ("list", CHAR), "Parser": PARSER, "Item": ("tuple", (STYLE, ("list", CHAR)))},
    "enums": {
        "State": {"coq": "wstate", "eqb": "wstate_eqb", "variants": {
            "Normal": "WNormal", "PrepareCustomColor": "WPrepareCustomColor", "Ansi256": "WAnsi256", "Rgb": "WRgb", "Underline": "WUnderline"}},
        "ColorTarget": {"coq": "target", "eqb": None, "variants": {"Fg": "TFg", "Bg": "TBg", "Underline": "TUl"}},
        "AnsiColor": ENUM_ACOLOR,
    },
    "structs": {
        "WinconCapture": {"coq": "capture", "var": "cap", "ctor": ("mkCap", ["style", "printable", "ready"]), "fields": {
            "style": ("c_style", "set_c_style", STYLE),
            "printable": ("c_printable", "set_c_printable", ("list", CHAR)),
            "ready": ("c_ready", "set_c_ready", ("opt", STYLE)),
        }},
        "WinconBytes": {"coq": "wbytes", "var": "wb", "ctor": ("mkWB", ["parser", "capture"]), "fields": {
            "parser": ("wb_parser", "set_wb_parser", PARSER),
            "capture": ("wb_capture", "set_wb_capture", ("struct", "WinconCapture")),
        }},
        # the two `&'s mut` fields by value: Proofs/WinconGen.v writes the copy-out the borrows mean (gt_extract_next)
        "WinconBytesIter": {"coq": "wbiter", "var": "it", "ctor": ("mkWBI", ["bytes", "parser", "capture"]), "fields": {
            "bytes": ("wbi_bytes", "set_wbi_bytes", ("list", U8)),
            "parser": ("wbi_parser", "set_wbi_parser", PARSER),
            "capture": ("wbi_capture", "set_wbi_capture", ("struct", "WinconCapture")),
        }},
        # anstyle types: records / encodings of the hand model (Spec/Sgr.sstyle, colour; Effects = bit set)
        "Style": {"coq": "sstyle", "var": "s", "fields": {}, "check": False, "eqb": "style_eqb", "bitor": "st_or_eff"},
        "Effects": {"coq": "N", "var": "e", "fields": {}, "check": False},
        "Color": {"coq": "colour", "var": "col", "fields": {}, "check": False},
        "Ansi256Color": {"coq": "colour", "var": "col", "fields": {}, "check": False},
        "RgbColor": {"coq": "colour", "var": "col", "fields": {}, "check": False},
    },
    "consts": dict(("Effects::" + n, ("(bit %s)" % n, EFFECTS)) for n in EFFECT_NAMES),
    # `for param in params`: the parameter groups carried by the parser's csi_dispatch event
    "param_types": {"params": ("list", ("list", U16))},
    # `let mut r = None;` / `let mut g = None;`: Option<u16> (they only ever receive `Some(b)`, b a parameter value)
    "local_types": {"WinconCapture::csi_dispatch": {"r": ("opt", U16), "g": ("opt", U16)}},
    "fns": {
        "Ansi256Color": f_ansi256,
        "RgbColor": f_rgb,
        "Style::default": f_style_default,
        "mem::take": f_mem_take,
        # `Default::default()` as the value of `WinconBytes::new() -> Self`: the derived Default (attribute and field list
        # read from the source, tools/glue_common.py); anstyle_parse::Parser::default() = parser_new, Style::default() =
        # style_default, String / Option defaults; WinconCapture derives Default itself
        "Default::default": make_f_default({
            repr(PARSER): "parser_new",
            repr(("struct", "WinconCapture")): lambda em: derive_default(em.items, "WinconCapture", ("mkCap", ["style", "printable", "ready"]), lambda f, t: {
                "style": "style_default", "printable": "[]", "ready": "None"}[f]),
        }),
    },
    "methods": METHODS,
    # every iteration consumes a byte; a callable, so that the Coq name of `bytes` is looked up (the field names of
    # WinconBytesIter are reserved words of the vocabulary now)
    "fuel": {"next_bytes": [lambda env: "(S (length %s))" % env.get("bytes").coq]},
    "opaque": {},
}

HEADER = ("(* GENERATED by tools/gen_fn_wincon.py (tools/rs2v) from crates/anstream/src/adapter/wincon.rs and "
          "crates/anstyle/src/color.rs (AnsiColor::bright) -- do not edit *)")
REQ = """From Coq Require Import NArith List Bool.
From AV Require Import Generated.Table Spec.Vt Spec.Sgr Model.Base Model.Imp Model.Utf8parse Model.Parser Generated.ParserFn Model.Wincon.
Import ListNotations.
Local Open Scope N_scope.
Local Open Scope bool_scope."""

# the callbacks of `trait Perform` and how an event of the parser model reaches them
PERFORM_EVENTS = {
    "print": ("EPrint cp", "cp"),
    "execute": ("EExecute b", "b"),
    "csi_dispatch": ("ECsi ps ints ign action", "ps ints ign action"),
    "hook": ("EHook ps ints ign action", None),
    "put": ("EPut b", None),
    "unhook": ("EUnhook", None),
    "osc_dispatch": ("EOsc ps bell", None),
    "esc_dispatch": ("EEsc ints ign b", None),
}


def item_source(src, kw, name):
    """source text of `trait <name> {..}` / `impl .. <name> .. {..}` (token scan); for impl: `impl <trait> for <name>`"""
    toks = tokenize(src)
    hits = []
    for i, t in enumerate(toks):
        if t.kind == "ident" and t.text == kw:
            j = i + 1
            hdr = []
            while not (toks[j].kind == "punct" and toks[j].text in ("{", ";")) and toks[j].kind != "eof":
                hdr.append(toks[j].text)
                j += 1
            if toks[j].text != "{":
                continue
            if (kw == "trait" and hdr[:1] == [name]) or (kw == "impl" and "for" in hdr and hdr[-1] == name[1] and name[0] in hdr[:hdr.index("for")]):
                hits.append(j)
    if len(hits) != 1:
        raise TranslateError("%s %s: %d definitions found" % (kw, name, len(hits)))
    j = hits[0]
    start = j
    depth = 0
    while True:
        x = toks[j]
        if x.kind == "punct" and x.text == "{":
            depth += 1
        elif x.kind == "punct" and x.text == "}":
            depth -= 1
            if depth == 0:
                break
        j += 1
    return src[toks[start].pos:toks[j].pos + 1]


def fn_names(block_src):
    toks = tokenize(block_src)
    return [toks[i + 1].text for i, t in enumerate(toks) if t.kind == "ident" and t.text == "fn" and toks[i + 1].kind == "ident"]


def plumbing(overridden, shapes):
    """g_perform: one parser event -> the callback of the capture (translated when overridden, a no-op otherwise)"""
    lines = ["(* impl anstyle_parse::Perform for WinconCapture: the callback an event of the parser stands for",
             "   (trait-object plumbing, written by the translator from the pinned `trait Perform` and the list of",
             "   overridden callbacks; the callbacks themselves are the translated functions above) *)",
             "Definition g_perform (cap : capture) (e : event) : option capture :=",
             "  match e with"]
    for name, (pat, args) in PERFORM_EVENTS.items():
        if name in overridden:
            if args is None:
                raise TranslateError("impl Perform for WinconCapture overrides %s: not modelled" % name)
            sh = shapes["WinconCapture::" + name]
            call = "%s cap %s" % (sh["coq"], args)
            lines.append("  | %s => %s" % (pat, call if not sh["total"] else "Some (%s)" % call))
        else:
            lines.append("  | %s => Some cap" % pat)
    lines += ["  end.", "",
              "Fixpoint g_perform_events (cap : capture) (es : list event) : option capture :=",
              "  match es with",
              "  | [] => Some cap",
              "  | e :: rest => cap1 <- g_perform cap e ;; g_perform_events cap1 rest",
              "  end.", ""]
    return "\n".join(lines)


def register(generators, gm):
    def gen():
        try:
            src = gm.read("crates/anstream/src/adapter/wincon.rs")
            color = gm.read("crates/anstyle/src/color.rs")
            plib = gm.read("crates/anstyle-parse/src/lib.rs")
            out = []
            shapes = {}
            # AnsiColor::bright (crates/anstyle/src/color.rs): `Self` is the enumeration
            vc = dict(VOCAB)
            vc["enums"] = dict(VOCAB["enums"], Self=ENUM_ACOLOR)
            vc["structs"] = {"AnsiColor": {"coq": "acolor", "var": "ac", "fields": {}, "check": False}}
            out.append(translate(color, vc, [("bright", "AnsiColor", "g_ansi_bright", {})], HEADER, REQ, shapes))
            if shapes.pop("AnsiColor::bright")["total"]:
                raise TranslateError("AnsiColor::bright: translated as a total function; the vocabulary calls it in the option monad")
            # the capture
            out.append(translate(src, VOCAB, [
                ("reset", "WinconCapture", "g_cap_reset", {}),
                ("print", "WinconCapture", "g_cap_print", {"trait": "Perform"}),
                ("execute", "WinconCapture", "g_cap_execute", {"trait": "Perform"}),
                ("to_ansi_color", None, "g_to_ansi_color", {}),
                ("csi_dispatch", "WinconCapture", "g_cap_csi_dispatch", {"trait": "Perform"}),
            ], "", "", shapes))
            # trait-object plumbing: pinned
            h = token_hash(item_source(plib, "trait", "Perform"))
            if h != PIN_TRAIT_PERFORM:
                raise TranslateError("trait Perform (anstyle-parse) changed (token hash %s, pinned %s): its default callbacks are modelled by hand "
                                     "(g_perform: a callback that is not overridden does nothing)" % (h, PIN_TRAIT_PERFORM))
            if sorted(fn_names(item_source(plib, "trait", "Perform"))) != sorted(PERFORM_EVENTS):
                raise TranslateError("trait Perform: callbacks %s, the plumbing models %s" % (fn_names(item_source(plib, "trait", "Perform")), sorted(PERFORM_EVENTS)))
            overridden = fn_names(item_source(src, "impl", ("Perform", "WinconCapture")))
            if sorted(overridden) != ["csi_dispatch", "execute", "print"]:
                raise TranslateError("impl Perform for WinconCapture overrides %s; the plumbing models csi_dispatch, execute, print" % sorted(overridden))
            out.append(plumbing(overridden, shapes))
            # next_bytes, then the iterator glue around it: WinconBytes::{new, extract_next}, WinconBytesIter::next
            out.append(translate(src, VOCAB, [
                ("next_bytes", None, "g_next_bytes", {}),
                ("new", "WinconBytes", "g_wb_new", {}),
                ("extract_next", "WinconBytes", "g_wb_extract_next", {}),
                ("next", "WinconBytesIter", "g_wbi_next", {"trait": "Iterator"}),
            ], "", "", shapes))
            return "\n".join(out) + "\n"
        except TranslateError as e:
            raise gm.GenError(str(e))
    generators["WinconFn"] = gen


# trait-object / iterator plumbing, modelled by hand: token hashes
PIN_TRAIT_PERFORM = "1e7e2a67feac0245"
