#!/usr/bin/env python3
"""Item skeleton pins: what the models ASSUME about the source outside function bodies.

The function translators (tools/gen_fn_*.py) regenerate function BODIES; the table translators regenerate
constant tables.  Everything else a model silently relies on is the item structure around them: which types
derive which traits (a derived `Clone` copies every field, a derived `PartialEq` compares every field), which
trait impls exist and which methods each impl defines (an `impl Iterator` that defines only `next` gets every
other method from the standard library's provided definitions -- the models define `count`, `nth`, `fold`, .. from
`next`), the signatures, the struct fields, the statics and small constants, the `macro_rules!` arms, the cfg
attributes.  A change there (an overridden provided method, a derive replaced by a hand-written impl, a macro arm
that names another stream) changes behaviour without touching any translated body.

This plug-in computes, for every library source file, its SKELETON: the token text of every item with function
bodies elided (`fn f(..) -> T {..}`), recursively through `impl` / `trait` / `mod` blocks, doc attributes and
`#[cfg(test)]` / `#[test]` items dropped.  The skeleton must equal the committed record `tools/shape/<file>.txt`
(the skeleton the hand models were written against); otherwise the generator `Shape_<crate>__<file>` fails with
a GEN-ERROR that shows the differing lines, which the checks of the properties anchored in that file report as a
broken tie (and then search for a failing input as for any broken tie).

  python3 tools/gen_shape.py --update      rewrite the records from the current tree (after re-reading the models)
  python3 tools/gen_shape.py --show <rel>  print the skeleton of one file
"""
import difflib
import os
import sys

sys.path.insert(0, os.path.dirname(os.path.abspath(__file__)))
from rs2v.lexer import tokenize, LexError   # noqa: E402

HERE = os.path.dirname(os.path.abspath(__file__))
RECORDS = os.path.join(HERE, "shape")

OPEN = {"(": ")", "[": "]", "{": "}"}
CLOSE = set(OPEN.values())
BLOCK_KINDS = ("impl", "trait", "mod")


def _txt(toks):
    out = []
    for t in toks:
        out.append(t.text)
    return " ".join(out)


# attributes that change what is compiled or how a value behaves; everything else (`inline`, `must_use`, `allow`, `doc`,
# `deprecated`, `track_caller`, `cold`, lint levels, `rustfmt::skip`, ..) is a hint to the compiler or to the reader
MEANINGFUL_ATTRS = ("cfg", "cfg_attr", "derive", "repr", "default", "non_exhaustive", "macro_export", "macro_use", "path",
                    "no_mangle", "export_name", "link", "link_name", "link_section", "global_allocator", "panic_handler",
                    "no_std", "no_main", "recursion_limit", "feature", "target_feature", "used", "proc_macro")


def _is_doc(attr):
    """an attribute that is NOT part of the skeleton"""
    a = attr.replace(" ", "")
    body = a[3:] if a.startswith("#![") else a[2:]
    name = ""
    for ch in body:
        if ch.isalnum() or ch == "_":
            name += ch
        else:
            break
    return name not in MEANINGFUL_ATTRS


def _is_test(attrs):
    for a in attrs:
        b = a.replace(" ", "")
        if b in ("#[test]", "#[cfg(test)]") or b.startswith("#[cfg(all(test") or b.startswith("#[should_panic"):
            return True
    return False


def _balanced_end(toks, i):
    """index just after the group that opens at toks[i]"""
    depth = 0
    while True:
        t = toks[i]
        if t.kind == "eof":
            raise LexError("unbalanced group")
        if t.kind == "punct":
            if t.text in OPEN:
                depth += 1
            elif t.text in CLOSE:
                depth -= 1
                if depth == 0:
                    return i + 1
        i += 1


def _has_pub(header):
    return any(t.kind == "ident" and t.text == "pub" for t in header[:2])


def _is_pub_use(header):
    return _has_pub(header)


def _use_pairs(header):
    """[(imported name, full path)] of a `use` item (`*` for a glob import)"""
    toks = [t for t in header]
    k = 0
    while k < len(toks) and not (toks[k].kind == "ident" and toks[k].text == "use"):
        k += 1
    toks = toks[k + 1:]
    out = []

    def tree(i, prefix):
        """parses one use-tree starting at toks[i]; returns the index after it"""
        segs = []
        while i < len(toks):
            t = toks[i]
            if t.kind == "punct" and t.text == "{":
                i += 1
                while i < len(toks) and not (toks[i].kind == "punct" and toks[i].text == "}"):
                    i = tree(i, prefix + segs)
                    if i < len(toks) and toks[i].kind == "punct" and toks[i].text == ",":
                        i += 1
                return i + 1
            if t.kind == "punct" and t.text == "*":
                out.append(("*", "::".join(prefix + segs + ["*"])))
                return i + 1
            if t.kind == "punct" and t.text == "::":
                i += 1
                continue
            if t.kind == "ident" and t.text == "as":
                alias = toks[i + 1].text
                out.append((alias, "::".join(prefix + segs)))
                return i + 2
            if t.kind == "punct" and t.text in (",", "}"):
                break
            segs.append(t.text)
            i += 1
        if segs:
            name = segs[-1] if segs[-1] != "self" else (prefix + segs)[-2]
            out.append((name, "::".join(prefix + (segs if segs[-1] != "self" else segs[:-1]))))
        return i
    tree(0, [])
    return out


# names of the standard prelude (and macros / traits whose methods the sources use unqualified): importing something
# else under one of these names changes what unqualified uses in function bodies mean
PRELUDE = set("Option Some None Result Ok Err Vec String Box ToString ToOwned Clone Copy Default Drop Eq PartialEq Ord PartialOrd "
              "Iterator IntoIterator Extend DoubleEndedIterator ExactSizeIterator From Into TryFrom TryInto AsRef AsMut Fn FnMut FnOnce "
              "Send Sync Sized Unpin drop str char bool u8 u16 u32 u64 usize i8 i16 i32 i64 isize f32 f64 Self self crate super".split())


def skeleton_diff(want, got):
    """differences between the recorded and the current skeleton that matter.  `use` lines are compared name by name:
    a name that is no longer imported is the compiler's business; a NEW name is accepted unless it is a glob import or
    shadows a prelude name; a name imported from another path is a difference.  Every other line must be equal."""
    def split(text):
        uses, rest = {}, []
        for l in text.split("\n"):
            st = l.strip()
            if st.startswith("use ") or st.startswith("pub use "):
                body = st[st.index("use ") + 4:].rstrip(" ;")
                alias, _eq, path = body.partition(" = ")
                uses.setdefault((len(l) - len(l.lstrip()), st.startswith("pub "), alias), set()).add(path)
            else:
                rest.append(l)
        return uses, rest
    wu, wr = split(want)
    gu, gr = split(got)
    d = [l for l in difflib.unified_diff(wr, gr, "recorded", "source", lineterm="", n=0) if not l.startswith(("---", "+++", "@@"))]
    d = [l for l in d if not _new_private_scalar_const(l, wr, gr)]
    for key, paths in sorted(gu.items()):
        ind, pub, alias = key
        if key in wu:
            if paths != wu[key]:
                d.append("~use %s: %s -> %s" % (alias, sorted(wu[key]), sorted(paths)))
        elif alias == "*" or alias in PRELUDE or pub:
            d.append("+%suse %s = %s" % ("pub " if pub else "", alias, sorted(paths)))
    for key in sorted(wu):
        if key not in gu and key[1]:
            d.append("-pub use %s" % key[2])
    return d


SCALAR_TYPES = "u8 u16 u32 u64 u128 usize i8 i16 i32 i64 i128 isize bool char".split()


def _new_private_scalar_const(line, want_lines, got_lines):
    """A NEW module-level `const NAME : <integer | bool | char> = <expr> ;` that is not `pub` (`pub(crate)` / `pub(super)`
    count as private, as for functions) and whose name occurs in NO other line of the skeleton, recorded or current, is
    not a difference: no type, array length, static, other constant, macro arm or signature mentions it, so it is
    reachable only from function bodies -- like a private fn -- and those are what the function translators (which read
    the constant's value: tools/rs2v/emit.py source_const), the pins and the correspondence cover; no hand model can
    have relied on a name that did not exist.  Everything else about constants stays part of the skeleton: a recorded
    constant that changes value / type or disappears, `pub` constants, statics, tables and struct-valued constants
    (data of the table translators), associated constants (inside an impl: indented), a constant under an attribute
    (its `#[cfg]` line is a difference of its own), and a constant that any other item mentions."""
    import re
    m = re.fullmatch(r"\+(?:pub \( [^()]* \) )?const ([A-Za-z_][A-Za-z0-9_]*) : (\w+) = (.+) ;", line)
    if not m:
        m = _new_private_table_const(line)
        if not m:
            return False
    elif m.group(2) not in SCALAR_TYPES or "{" in m.group(3):
        return False
    name = m.group(1)
    word = re.compile(r"(?<![A-Za-z0-9_])%s(?![A-Za-z0-9_])" % re.escape(name))
    own = line[1:]
    if sum(1 for l in got_lines if l == own) != 1:
        return False
    return not any(word.search(l) for l in want_lines) and not any(word.search(l) for l in got_lines if l != own)


def _new_private_table_const(line):
    """The same rule (module level, not `pub`, the name in no other skeleton line -- checked by the caller) for a private
    TABLE `const NAME : [ T ; <literal length> ] = [ entries ] ;` whose entries are literals, paths and tuples of those:
    no block, no closure, no call with a block (no `{`, no `|`), no `static`.  Such a table is reachable only from
    function bodies and is their DATA: a function translator that meets the name reads the entries off the source
    (tools/rs2v/emit.py source_table: a changed / dropped / swapped entry changes the translation, a table it cannot
    read is `unknown name` -> GEN-ERROR), a table translator reads them where the body names the table (gen_svg
    wf_tables, gen_adapters), and a body only pinned is pinned with the name in it while the table cannot be reached
    from anywhere else.  A RECORDED table that changes or disappears stays a difference."""
    import re
    m = re.fullmatch(r"\+(?:pub \( [^()]* \) )?const ([A-Za-z_][A-Za-z0-9_]*) : (\[ .+ ; \d+ \]) = (\[ .+ \]) ;", line)
    if not m or any(c in m.group(3) for c in "{}|!") or "{" in m.group(2):
        return None
    return m


def _is_pub(header):
    """`pub fn` (not `pub(crate)` / `pub(super)` / `pub(self)` / `pub(in ..)`)"""
    for j, t in enumerate(header):
        if t.kind == "ident" and t.text == "pub":
            return not (j + 1 < len(header) and header[j + 1].text == "(")
        if t.kind == "ident" and t.text == "fn":
            return False
    return False


def _kind(header):
    """item keyword of a header (tokens before the body / the `;`)"""
    j = 0
    n = len(header)
    while j < n:
        t = header[j]
        if t.kind == "ident" and t.text == "pub":
            j += 1
            if j < n and header[j].text == "(":
                j = _balanced_end(header + [type(t)("eof", "", 0)], j)
            continue
        if t.kind == "ident" and t.text in ("unsafe", "async", "default"):
            j += 1
            continue
        if t.kind == "ident" and t.text == "extern":
            j += 1
            if j < n and header[j].kind == "str":
                j += 1
            continue
        if t.kind == "ident" and t.text == "const" and j + 1 < n and header[j + 1].text in ("fn", "unsafe", "extern", "async"):
            j += 1
            continue
        break
    if j < n and header[j].kind == "ident":
        if j + 1 < n and header[j + 1].text == "!" and header[j].text != "macro_rules":
            return "macrocall"
        return header[j].text
    return "?"


def items(toks, i, end, indent, out, ctx="mod"):
    """skeleton lines of the items in toks[i:end]"""
    pad = "  " * indent
    while i < end:
        t = toks[i]
        if t.kind == "eof":
            break
        if t.kind == "punct" and t.text == ";":
            i += 1
            continue
        attrs = []
        while toks[i].kind == "attr":
            attrs.append(toks[i].text)
            i += 1
        if i >= end:
            # inner attributes at the end of a block
            for a in attrs:
                if not _is_doc(a):
                    out.append(pad + " ".join(a.split()))
            break
        # header: up to the first `;` or `{` at depth 0 (parentheses / brackets are skipped as groups)
        h0 = i
        j = i
        while True:
            x = toks[j]
            if x.kind == "eof" or j >= end:
                break
            if x.kind == "punct" and x.text in ("(", "["):
                j = _balanced_end(toks, j)
                continue
            if x.kind == "punct" and x.text in (";", "{"):
                break
            j += 1
        header = toks[h0:j]
        kind = _kind(header)
        # a `const` / `static` / `let`-like item whose initialiser holds a block: run on to the `;`
        if kind in ("const", "static", "use", "type") and j < end and toks[j].text == "{":
            while j < end and not (toks[j].kind == "punct" and toks[j].text == ";"):
                if toks[j].kind == "punct" and toks[j].text in OPEN:
                    j = _balanced_end(toks, j)
                else:
                    j += 1
            header = toks[h0:j]
        keep = not _is_test(attrs)
        alines = [pad + " ".join(a.split()) for a in attrs if not _is_doc(a)]
        if j >= end or toks[j].kind == "eof":
            if header and keep:
                out.extend(alines)
                out.append(pad + _txt(header))
            break
        if toks[j].text == ";":
            if keep and kind == "use":
                # one line per imported name: `use <name> = <path> ;` (compared name by name, see skeleton_diff)
                vis = "pub " if _is_pub_use(header) else ""
                for alias, path in sorted(_use_pairs(header)):
                    out.extend(alines)
                    out.append(pad + "%suse %s = %s ;" % (vis, alias, path))
            elif keep and kind == "type" and ctx != "trait" and not _has_pub(header):
                pass        # a private type alias: a name for a type, checked by the compiler wherever it is used
            elif keep:
                out.extend(alines)
                out.append(pad + _txt(header) + " ;")
            i = j + 1
            continue
        # toks[j] is `{`
        k = _balanced_end(toks, j)
        if kind == "fn":
            # a private function outside a trait impl is reachable only from function bodies (which the function
            # translators / pins / the correspondence cover): extracting or renaming such a helper is not a change of
            # the skeleton.  Methods of trait impls and trait definitions always count (an added method overrides a
            # provided one), and so does everything `pub`.
            if keep and (ctx == "trait" or _is_pub(header)):
                out.extend(alines)
                out.append(pad + _txt(header) + " {..}")
        elif kind in BLOCK_KINDS:
            if keep:
                sub = "trait" if kind == "trait" or (kind == "impl" and any(t.kind == "ident" and t.text == "for" for t in header)) else "mod"
                inner = items(toks, j + 1, k - 1, indent + 1, [], sub)
                if inner or not (kind == "impl" and sub == "mod"):      # an inherent impl of private helpers only: not skeleton
                    out.extend(alines)
                    out.append(pad + _txt(header) + " {")
                    out.extend(inner)
                    out.append(pad + "}")
        else:
            # struct / enum / union / macro_rules / macro call: the whole text
            if keep:
                out.extend(alines)
                out.append(pad + _txt(toks[h0:k]))
        i = k
    return out


def skeleton(src):
    toks = tokenize(src)
    n = len(toks)
    return "\n".join(items(toks, 0, n, 0, [])) + "\n"


def lib_files(repo):
    out = []
    root = os.path.join(repo, "crates")
    for crate in sorted(os.listdir(root)):
        src = os.path.join(root, crate, "src")
        for d, _ds, fs in os.walk(src):
            for f in sorted(fs):
                if f.endswith(".rs"):
                    out.append(os.path.relpath(os.path.join(d, f), repo))
    return sorted(out)


def gen_name(rel):
    # crates/anstream/src/adapter/strip.rs -> Shape_anstream__adapter_strip
    parts = rel.split("/")
    crate = parts[1].replace("-", "_")
    rest = "_".join(parts[3:])[:-3].replace("-", "_")
    return "Shape_%s__%s" % (crate, rest)


def record_path(rel):
    return os.path.join(RECORDS, gen_name(rel)[6:] + ".txt")


def recorded_files():
    """rel paths of the recorded files (first line of every record)"""
    out = {}
    if os.path.isdir(RECORDS):
        for f in sorted(os.listdir(RECORDS)):
            if f.endswith(".txt"):
                with open(os.path.join(RECORDS, f), encoding="utf-8") as fh:
                    first = fh.readline().strip()
                if first.startswith("// "):
                    out[first[3:]] = os.path.join(RECORDS, f)
    return out


def register(generators, gm):
    def mk(rel, path):
        def gen():
            try:
                src = gm.read(rel)
                got = "// %s\n" % rel + skeleton(src)
            except LexError as e:
                raise gm.GenError("%s: cannot tokenise: %s" % (rel, e))
            want = open(path, encoding="utf-8").read()
            d = skeleton_diff(want, got) if got != want else []
            if d:
                raise gm.GenError("%s: the item skeleton (derives, impls and the methods they define, signatures, fields, statics, "
                                  "macros, cfg attributes) differs from the one the models were written against: %s%s"
                                  % (rel, " | ".join(x[:220] for x in d[:8]), " | ..." if len(d) > 8 else ""))
            return ("(* GENERATED by tools/gen_shape.py -- the item skeleton of %s equals tools/shape/%s *)\n"
                    % (rel, os.path.basename(path)))
        return gen
    rec = recorded_files()
    for rel, path in rec.items():
        generators[gen_name(rel)] = mk(rel, path)

    # a library source file nobody recorded (a new module) is reported by the generator of its crate root
    def gen_files():
        have = set(recorded_files())
        now = set(lib_files(gm.REPO))
        if now != have:
            raise gm.GenError("library source files changed: new %s, gone %s" % (sorted(now - have), sorted(have - now)))
        return "(* GENERATED by tools/gen_shape.py -- the set of library source files is the recorded one *)\n"
    generators["Shape_files"] = gen_files
    register_manifests(generators, gm)


# ---------------------------------------------------------------------------------------------------
# Cargo manifests: features and dependencies a model silently assumes, and the versions the harness links

def manifest_skeleton(text):
    """the [features], [dependencies] and [target.*.dependencies] tables of a Cargo.toml (comments and blank lines
    dropped; [package], [dev-dependencies], [lints], [[bench]], .. are not part of it)"""
    out = []
    keep = False
    for line in text.split("\n"):
        l = line.split("#", 1)[0].rstrip() if not line.strip().startswith(('"', "'")) else line.rstrip()
        if not l.strip():
            continue
        if l.lstrip().startswith("["):
            name = l.strip().strip("[]").strip()
            keep = name in ("features", "dependencies") or (name.startswith("target.") and name.endswith(".dependencies")) or \
                name.startswith("dependencies.") or name.startswith("features.")
            if keep:
                out.append(l.strip())
            continue
        if keep:
            out.append("  " + " ".join(l.split()))
    return "\n".join(out) + "\n"


def lock_packages(text):
    import re
    out = {}
    for m in re.finditer(r'\[\[package\]\]\nname = "([^"]+)"\nversion = "([^"]+)"', text):
        out.setdefault(m.group(1), set()).add(m.group(2))
    return out


def crates(repo):
    return sorted(d for d in os.listdir(os.path.join(repo, "crates")) if os.path.exists(os.path.join(repo, "crates", d, "Cargo.toml")))


def cargo_gen_name(crate):
    return "Shape_cargo__" + crate.replace("-", "_")


def cargo_record(crate):
    return os.path.join(RECORDS, "cargo__" + crate.replace("-", "_") + ".toml.txt")


def register_manifests(generators, gm):
    def mk(crate):
        def gen():
            got = manifest_skeleton(gm.read("crates/%s/Cargo.toml" % crate))
            want = open(cargo_record(crate), encoding="utf-8").read()
            if got != want:
                d = [l for l in difflib.unified_diff(want.split("\n"), got.split("\n"), "recorded", "source", lineterm="", n=0)
                     if not l.startswith(("---", "+++", "@@"))]
                raise gm.GenError("crates/%s/Cargo.toml: features / dependencies differ from the ones the models and harnesses were written "
                                  "against: %s" % (crate, " | ".join(d[:8])))
            return "(* GENERATED by tools/gen_shape.py -- features and dependencies of crates/%s/Cargo.toml equal the record *)\n" % crate
        return gen
    for crate in crates(gm.REPO) if os.path.isdir(os.path.join(gm.REPO, "crates")) else []:
        if os.path.exists(cargo_record(crate)):
            generators[cargo_gen_name(crate)] = mk(crate)

    def gen_lock():
        """every third-party package the harness crates link is linked in a version /repo/Cargo.lock also resolves to:
        the hand models of third-party code (utf8parse, cansi, roff, the styling libraries) and the differential runs are
        about the dependency versions the repository itself pins"""
        repo = lock_packages(gm.read("Cargo.lock"))
        hdir = os.path.join(HERE, "..", "harness")
        bad = []
        for h in sorted(os.listdir(hdir)):
            lp = os.path.join(hdir, h, "Cargo.lock")
            if not os.path.exists(lp):
                continue
            for name, vs in sorted(lock_packages(open(lp, encoding="utf-8").read()).items()):
                if name in repo and not vs <= repo[name]:
                    bad.append("%s links %s %s, /repo/Cargo.lock has %s" % (h, name, ",".join(sorted(vs)), ",".join(sorted(repo[name]))))
        if bad:
            raise gm.GenError("dependency versions differ between the harness lock files and /repo/Cargo.lock: " + " | ".join(bad[:6]))
        return "(* GENERATED by tools/gen_shape.py -- the harness lock files agree with /repo/Cargo.lock *)\n"
    generators["Shape_lock"] = gen_lock


def main(argv):
    import gen_model as gm
    if "--show" in argv:
        rel = argv[argv.index("--show") + 1]
        sys.stdout.write(skeleton(gm.read(rel)))
        return 0
    if "--update" in argv:
        os.makedirs(RECORDS, exist_ok=True)
        for f in os.listdir(RECORDS):
            os.remove(os.path.join(RECORDS, f))
        for rel in lib_files(gm.REPO):
            with open(record_path(rel), "w", encoding="utf-8") as f:
                f.write("// %s\n" % rel + skeleton(gm.read(rel)))
        for crate in crates(gm.REPO):
            with open(cargo_record(crate), "w", encoding="utf-8") as f:
                f.write(manifest_skeleton(gm.read("crates/%s/Cargo.toml" % crate)))
        print("recorded %d files" % len(lib_files(gm.REPO)))
        return 0
    print(__doc__)
    return 0


if __name__ == "__main__":
    sys.exit(main(sys.argv))
