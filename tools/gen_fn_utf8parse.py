#!/usr/bin/env python3
"""Function translator, the third-party UTF-8 decoder `utf8parse` (cargo registry source, version pinned by
/repo/Cargo.lock) -> coq/Generated/Utf8parseFn.v (C01, C02, C03, C04, C20).

The hand model Model/Utf8parse.v used to be a transcription tied by the differential runs only.  This plug-in
  (a) reads name / version / checksum of the `utf8parse` package from <repo>/Cargo.lock (gm.read: under $VERIF_REPO when
      set), locates the unpacked registry source `$CARGO_HOME/registry/src/*/utf8parse-<version>/` (GEN-ERROR when it is
      absent, or when several registries hold differing copies), checks the `.crate` archive in `registry/cache` against
      the lock file's sha256 and the unpacked `src/lib.rs`, `src/types.rs`, `Cargo.toml` against the archive's members,
      checks that every harness crate that links utf8parse (harness/*/Cargo.lock) resolves it -- `cargo metadata
      --offline` -- to that very directory, version and checksum;
  (b) TRANSLATES (tools/rs2v) `State::advance` (types.rs), `Parser::new`, `Parser::perform_action`, `Parser::advance`
      (lib.rs) over the hand model's types, writes the constant `CONTINUATION_MASK` and the derived `Default` of `Parser`
      (the derive attribute, the field list and the `#[default]` variant of `State` are read from the source), checks the
      variant lists of `enum State` / `enum Action` and pins `trait Receiver` (the callback interface the sink models);
  (c) Proofs/Utf8parseGen.v proves the translations equal to the hand model (u8_advance, u8_parser_advance, u8_new).
The `Receiver` is an event sink: `receiver.codepoint(c)` appends `U8Codepoint c`, `receiver.invalid_sequence()`
appends `U8Invalid` (what Model/Utf8parse.v calls `u8out`; tools/gen_fn_strip.py / gen_fn_parser.py consume the hand
model's `u8_parser_advance`, which the proofs show to be this translation).
`unsafe { char::from_u32_unchecked(point) }` is the identity on the number (vocabulary `fns`); its safety precondition
(the number is a Unicode scalar value) is proved for every reachable decoder in Proofs/Utf8parseGen.v.
With `utf8` the plug-in also translates the three callers inside anstyle-parse (crates/anstyle-parse/src/lib.rs):
`<Utf8Parser as CharAccumulator>::add`, `<VtUtf8Receiver as Receiver>::{codepoint, invalid_sequence}` and
`<AsciiParser as CharAccumulator>::add`, i.e. the hand model's `char_add`.

Test hook: $VERIF_UTF8PARSE_SRC=<directory holding Cargo.toml and src/> replaces the registry lookup AND the archive /
harness comparison (used only by the mutation test: an edited copy can never equal the archive)."""
import glob
import hashlib
import io
import json
import os
import re
import subprocess
import sys
import tarfile

sys.path.insert(0, os.path.dirname(os.path.abspath(__file__)))
from rs2v.driver import translate, TranslateError, token_hash            # noqa: E402
from rs2v.emit import EmitError                                          # noqa: E402
from rs2v.rparser import parse_file, find_items                          # noqa: E402
from glue_common import derive_default                                   # noqa: E402

CRATE = "utf8parse"
HERE = os.path.dirname(os.path.abspath(__file__))
FILES = ["Cargo.toml", "src/lib.rs", "src/types.rs"]

U8, U32, CHAR, BOOL = ("int", "u8"), ("int", "u32"), ("int", "char"), ("bool",)
STATE, ACTION = ("enum", "State"), ("enum", "Action")

# Rust variant -> constructor of Model/Utf8parse.v, in declaration order, with the explicit discriminant
STATES = [("Ground", "U8Ground", 0), ("Tail3", "U8Tail3", 1), ("Tail2", "U8Tail2", 2), ("Tail1", "U8Tail1", 3),
          ("U3_2_e0", "U8_3_2_e0", 4), ("U3_2_ed", "U8_3_2_ed", 5), ("Utf8_4_3_f0", "U8_4_3_f0", 6), ("Utf8_4_3_f4", "U8_4_3_f4", 7)]
ACTIONS = [("InvalidSequence", "InvalidSequence", 0), ("EmitByte", "EmitByte", 1), ("SetByte1", "SetByte1", 2),
           ("SetByte2", "SetByte2", 3), ("SetByte2Top", "SetByte2Top", 4), ("SetByte3", "SetByte3", 5),
           ("SetByte3Top", "SetByte3Top", 6), ("SetByte4", "SetByte4", 7)]

# `pub trait Receiver { fn codepoint(&mut self, _: char); fn invalid_sequence(&mut self); }`: the callback interface the
# sink `list u8out` models (one constructor per method, arguments in order); any edit = GEN-ERROR
PIN_RECEIVER = "@RECEIVER@"


# -- locating the source ------------------------------------------------------------------------------------

def lock_entry(lock_text, what):
    """(version, checksum) of the one `utf8parse` package of a Cargo.lock"""
    ents = re.findall(r'\[\[package\]\]\s*\nname = "%s"\s*\nversion = "([^"]+)"\s*\n(?:source = "([^"]*)"\s*\n)?(?:checksum = "([0-9a-f]+)"\s*\n)?' % CRATE, lock_text)
    if len(ents) != 1:
        raise TranslateError("%s: %d `%s` packages (expected exactly one)" % (what, len(ents), CRATE))
    ver, source, cks = ents[0]
    if not source.startswith("registry+"):
        raise TranslateError("%s: %s %s does not come from a registry (source %r)" % (what, CRATE, ver, source))
    if not cks:
        raise TranslateError("%s: %s %s has no checksum" % (what, CRATE, ver))
    return ver, cks


def cargo_home():
    return os.environ.get("CARGO_HOME") or os.path.join(os.path.expanduser("~"), ".cargo")


def read_dir(d):
    out = {}
    for rel in FILES:
        try:
            with open(os.path.join(d, rel), "rb") as f:
                out[rel] = f.read()
        except OSError as e:
            raise TranslateError("cannot read %s: %s" % (os.path.join(d, rel), e))
    return out


def locate(ver, cks):
    """the registry source directory of utf8parse-<ver>, compared with the checksummed archive"""
    dirs = sorted(glob.glob(os.path.join(cargo_home(), "registry", "src", "*", "%s-%s" % (CRATE, ver))))
    if not dirs:
        raise TranslateError("the source of %s %s (the version <repo>/Cargo.lock pins) is not in %s/registry/src" % (CRATE, ver, cargo_home()))
    contents = [read_dir(d) for d in dirs]
    for d, c in zip(dirs[1:], contents[1:]):
        if c != contents[0]:
            raise TranslateError("%s and %s hold different sources of %s %s" % (dirs[0], d, CRATE, ver))
    # the archive cargo unpacked: sha256 = the lock file's checksum, members = the unpacked files
    crates = sorted(glob.glob(os.path.join(cargo_home(), "registry", "cache", "*", "%s-%s.crate" % (CRATE, ver))))
    if not crates:
        raise TranslateError("%s-%s.crate is not in %s/registry/cache: the unpacked source cannot be checked against the checksum of Cargo.lock" % (CRATE, ver, cargo_home()))
    for cr in crates:
        with open(cr, "rb") as f:
            blob = f.read()
        h = hashlib.sha256(blob).hexdigest()
        if h != cks:
            raise TranslateError("%s has sha256 %s, Cargo.lock says %s" % (cr, h, cks))
        with tarfile.open(fileobj=io.BytesIO(blob), mode="r:gz") as tf:
            for rel in FILES:
                try:
                    member = tf.extractfile("%s-%s/%s" % (CRATE, ver, rel)).read()
                except (KeyError, AttributeError):
                    raise TranslateError("%s has no member %s" % (cr, rel))
                if member != contents[0][rel]:
                    raise TranslateError("%s/%s differs from the member of %s (the unpacked registry source was edited)" % (dirs[0], rel, cr))
    return dirs


def check_harnesses(ver, cks, dirs):
    """every harness crate that links utf8parse builds it from the directory translated here"""
    hroot = os.path.join(HERE, "..", "harness")
    want = {os.path.realpath(os.path.join(d, "Cargo.toml")) for d in dirs}
    todo = []
    for lock in sorted(glob.glob(os.path.join(hroot, "*", "Cargo.lock"))):
        with open(lock, encoding="utf-8") as f:
            text = f.read()
        if not re.search(r'name = "%s"' % CRATE, text):
            continue
        h = os.path.basename(os.path.dirname(lock))
        hv, hc = lock_entry(text, "harness/%s/Cargo.lock" % h)
        if (hv, hc) != (ver, cks):
            raise TranslateError("harness/%s/Cargo.lock pins %s %s (%s), <repo>/Cargo.lock %s (%s): the harness would run another decoder than the one translated"
                                 % (h, CRATE, hv, hc[:12], ver, cks[:12]))
        todo.append(h)
    if not todo:
        raise TranslateError("no harness crate links %s" % CRATE)

    def meta(h):
        try:
            r = subprocess.run(["cargo", "metadata", "--offline", "--locked", "--all-features", "--format-version", "1"], cwd=os.path.join(hroot, h),
                               stdout=subprocess.PIPE, stderr=subprocess.PIPE, timeout=120)
        except (OSError, subprocess.TimeoutExpired) as e:
            return h, None, "cargo metadata: %s" % e
        if r.returncode != 0:
            return h, None, "cargo metadata failed: %s" % r.stderr.decode(errors="replace")[-300:]
        return h, json.loads(r.stdout.decode()), ""
    import concurrent.futures
    with concurrent.futures.ThreadPoolExecutor(max_workers=len(todo)) as ex:
        results = list(ex.map(meta, todo))
    for h, md, err in results:
        if md is None:
            raise TranslateError("harness/%s: %s" % (h, err))
        pk = [p for p in md["packages"] if p["name"] == CRATE]
        if len(pk) != 1:
            raise TranslateError("harness/%s: %d `%s` packages in the dependency graph" % (h, len(pk), CRATE))
        if pk[0]["version"] != ver or os.path.realpath(pk[0]["manifest_path"]) not in want:
            raise TranslateError("harness/%s builds %s %s from %s, translated is %s" % (h, CRATE, pk[0]["version"], pk[0]["manifest_path"], dirs[0]))
    return todo


def sources(gm):
    """(version, origin text for the header, lib.rs, types.rs)"""
    ver, cks = lock_entry(gm.read("Cargo.lock"), "Cargo.lock")
    over = os.environ.get("VERIF_UTF8PARSE_SRC")
    if over:
        c = read_dir(over)
        origin = "%s (TEST HOOK $VERIF_UTF8PARSE_SRC: not compared with the archive / the harnesses)" % over
    else:
        dirs = locate(ver, cks)
        check_harnesses(ver, cks, dirs)
        c = read_dir(dirs[0])
        origin = "registry source %s-%s (sha256 of the archive %s, as Cargo.lock)" % (CRATE, ver, cks)
    toml = c["Cargo.toml"].decode("utf-8")
    if not re.search(r'^name = "%s"\s*$' % CRATE, toml, re.M) or not re.search(r'^version = "%s"\s*$' % re.escape(ver), toml, re.M):
        raise TranslateError("Cargo.toml of the located source is not %s %s" % (CRATE, ver))
    return ver, origin, c["src/lib.rs"].decode("utf-8"), c["src/types.rs"].decode("utf-8")


def external_sources(gm):
    """for tools/inventory.py: the third-party files translated here, as (label, path)"""
    ver, cks = lock_entry(gm.read("Cargo.lock"), "Cargo.lock")
    d = os.environ.get("VERIF_UTF8PARSE_SRC") or locate(ver, cks)[0]
    return [("extern/%s-%s/src/%s" % (CRATE, ver, f), os.path.join(d, "src", f)) for f in ("lib.rs", "types.rs")]


# -- vocabulary ---------------------------------------------------------------------------------------------

def f_from_u32_unchecked(em, e, env, k):
    """unsafe fn char::from_u32_unchecked(u32) -> char: the number itself.  (The precondition `the number is a scalar
    value` is proved for every reachable decoder: Proofs/Utf8parseGen.v, unchecked_char_is_scalar.)"""
    if len(e.args) != 1:
        raise EmitError("char::from_u32_unchecked: expected 1 argument")

    def k1(t, ty, env1):
        if ty != U32:
            raise EmitError("char::from_u32_unchecked of %r" % (ty,))
        return k(t, CHAR, env1)
    return em.expr(e.args[0], env, k1)


VOCAB = {
    "enums": {
        "State": {"coq": "u8state", "eqb": "u8state_eqb", "variants": {r: c for r, c, _ in STATES}},
        "Action": {"coq": "u8action", "eqb": "u8action_eqb", "variants": {r: c for r, c, _ in ACTIONS}},
    },
    "structs": {
        "Parser": {"coq": "u8parser", "var": "p", "ctor": ("mkU8", ["point", "state"]), "fields": {
            "point": ("u8point", "set_u8point", U32),
            "state": ("u8st", "set_u8st", STATE),
        }},
    },
    "consts": {"CONTINUATION_MASK": ("g_CONTINUATION_MASK", U8)},
    "param_types": {"receiver": ("sink", "Receiver")},
    "sinks": {"Receiver": {"coq": "(list u8out)", "methods": {
        "codepoint": ("U8Codepoint", [None]),
        "invalid_sequence": ("U8Invalid", []),
    }}},
    "fns": {"char::from_u32_unchecked": f_from_u32_unchecked},
    # `x << n` at width w: None when n >= w (a debug build panics), bits shifted out are lost
    "checked_shl": "u8_cshl",
    "opaque": {},
}

HEADER = "(* GENERATED by tools/gen_fn_utf8parse.py (tools/rs2v) from the %s -- do not edit *)"
REQ = """From Coq Require Import NArith List Bool.
From AV Require Import Model.Base Model.Utf8parse Model.Imp.
Import ListNotations.
Local Open Scope N_scope.
Local Open Scope bool_scope."""


def check_enum(items, name, expected):
    """`enum <name>` lists exactly the expected unit variants, in order, each with the expected explicit discriminant"""
    es = find_items(items, "enum", name)
    if len(es) != 1:
        raise TranslateError("enum %s: %d definitions" % (name, len(es)))
    got = []
    for vname, payload, disc, _vattrs in es[0].variants:
        if payload is not None:
            raise TranslateError("enum %s: variant %s carries data" % (name, vname))
        if disc is None or disc.kind != "int":
            raise TranslateError("enum %s: variant %s has no literal discriminant" % (name, vname))
        got.append((vname, disc.val))
    want = [(r, d) for r, _c, d in expected]
    if got != want:
        raise TranslateError("enum %s has the variants %r, the hand model %r" % (name, got, want))
    return es[0]


def default_variant(en):
    """the variant of a `#[derive(Default)]` enum marked `#[default]`"""
    if not any("Default" in a and "derive" in a for a in (en.attrs or [])):
        raise TranslateError("enum %s does not derive Default" % en.name)
    marked = [v[0] for v in en.variants if any(re.sub(r"\s", "", a).strip("#[]") == "default" for a in (v[3] or []))]
    if len(marked) != 1:
        raise TranslateError("enum %s: %d variants marked #[default]" % (en.name, len(marked)))
    return marked[0]


def check_receiver(items):
    """`pub trait Receiver { fn codepoint(&mut self, _: char); fn invalid_sequence(&mut self); }`: the callback interface
    the sink models -- exactly these two methods, without default bodies, with these parameters"""
    trs = find_items(items, "trait", "Receiver")
    if len(trs) != 1:
        raise TranslateError("trait Receiver: %d definitions" % len(trs))
    got = []
    for it in trs[0].items:
        if it.kind != "fn":
            raise TranslateError("trait Receiver holds a %s item" % it.kind)
        if getattr(it, "body", None) is not None:
            raise TranslateError("trait Receiver: %s has a default body" % it.name)
        ps = [it.self_kind] + [type_text(prm) for prm in it.params]
        got.append((it.name, ps, it.ret is None))
    want = [("codepoint", ["refmut", "char"], True), ("invalid_sequence", ["refmut"], True)]
    if got != want:
        raise TranslateError("trait Receiver is %r, the sink models %r" % (got, want))


def type_text(prm):
    """canonical text of one parameter of a trait method"""
    _pat, ty = prm
    if ty.form == "ref":
        return ("&mut " if ty.mut else "&") + "::".join(ty.inner.segs)
    if ty.form == "path":
        return "::".join(ty.segs)
    return ty.form


def const_u8(items, name):
    cs = find_items(items, "const", name)
    if len(cs) != 1:
        raise TranslateError("const %s: %d definitions" % (name, len(cs)))
    c = cs[0]
    if c.ty is None or c.ty.form != "path" or c.ty.segs != ["u8"] or c.val is None or c.val.kind != "int" or c.val.suffix not in (None, "", "u8"):
        raise TranslateError("const %s is not a `u8` literal" % name)
    if not 0 <= c.val.val < 256:
        raise TranslateError("const %s out of range" % name)
    return c.val.val


# -- the callers inside anstyle-parse (crates/anstyle-parse/src/lib.rs) -----------------------------------------

OPT_CHAR = ("opt", CHAR)


def f_pa_receiver_new(em, e, env, k):
    """VtUtf8Receiver(&mut c): the receiver IS the borrowed Option<char>; its type remembers which variable it borrows"""
    if len(e.args) != 1:
        raise EmitError("VtUtf8Receiver(..): expected 1 argument")
    a = e.args[0]
    if not (a.kind == "unary" and a.op == "&mut" and a.e.kind == "path" and len(a.e.segs) == 1):
        raise EmitError("VtUtf8Receiver(..): expected `&mut <variable>`")
    name = a.e.segs[0]
    v = env.get(name)
    if v is None or v.ty not in (OPT_CHAR, ("opt", ("unknown",))):
        raise EmitError("VtUtf8Receiver(&mut %s): not an Option<char> variable (%r)" % (name, v and v.ty))
    if v.ty != OPT_CHAR:
        # `let mut c = None;`: the field type of VtUtf8Receiver (checked against the struct) decides the element type
        from rs2v.emit import Var
        env = env.copy()
        env.vars[name] = Var(v.coq, OPT_CHAR, v.mut, v.decl)
    return k("tt", ("borrow", name, ("struct", "VtUtf8Receiver")), env)


def m_pa_advance(em, e, rt, rty, env, k):
    """utf8parse::Parser::advance(&mut self, receiver: &mut impl Receiver, byte): the TRANSLATED decoder
    (g_u8_parser_advance over an empty event list), then the receiver's TRANSLATED methods are applied, in call order,
    to the variable the receiver borrows (u8_deliver)"""
    from rs2v.emit import NeedsBind
    from rs2v.rparser import N
    if len(e.args) != 2:
        raise EmitError("utf8parse advance: expected 2 arguments")
    r = e.args[0]
    if not (r.kind == "unary" and r.op == "&mut" and r.e.kind == "path" and len(r.e.segs) == 1):
        raise EmitError("utf8parse advance: receiver must be `&mut <variable>`")
    rv = env.get(r.e.segs[0])
    if rv is None or rv.ty[0] != "borrow" or rv.ty[2] != ("struct", "VtUtf8Receiver"):
        raise EmitError("utf8parse advance: receiver is not a VtUtf8Receiver")
    target = rv.ty[1]
    cp = em.fn_shapes.get("VtUtf8Receiver::codepoint")
    inv = em.fn_shapes.get("VtUtf8Receiver::invalid_sequence")
    adv = em.fn_shapes.get("Utf8parse::Parser::advance")
    if cp is None or inv is None or adv is None:
        raise EmitError("utf8parse advance: the Receiver methods / the decoder are not translated yet")
    for sh in (cp, inv):
        if not sh.get("total"):
            raise EmitError("utf8parse advance: a Receiver method that may panic is not supported")

    def k_byte(bt, _bty, env1):
        if em.pure_mode:
            raise NeedsBind()
        u2, evs = em.fresh("u"), em.fresh("evs")
        cur = env1.get(target).coq
        upd = "(u8_deliver %s %s %s %s)" % (cp["coq"], inv["coq"], evs, cur)
        place = N("path", segs=[target])
        return "'(%s, %s) <- %s %s [] %s ;;\n%s" % (
            u2, evs, adv["coq"], rt, bt,
            em.write_place(e.recv, u2, env1, lambda env2: em.write_place(place, upd, env2, lambda env3: k("tt", ("unit",), env3))))
    return em.expr(e.args[1], env, k_byte)


m_pa_advance.mutates = True

PA_VOCAB = {
    "structs": {
        # pub struct Utf8Parser { utf8_parser: utf8::Parser }  ==  the decoder itself
        "Utf8Parser": {"coq": "u8parser", "var": "u", "fields": {
            "utf8_parser": ("u8acc_inner", "set_u8acc_inner", ("coq", "u8parser")),
        }},
        # struct VtUtf8Receiver<'a>(&'a mut Option<char>)  ==  the option it borrows
        "VtUtf8Receiver": {"coq": "(option N)", "var": "rcv", "fields": {
            "0": ("u8rcv_slot", "set_u8rcv_slot", OPT_CHAR),
        }},
        # pub struct AsciiParser;
        "AsciiParser": {"coq": "unit", "var": "a", "fields": {}},
    },
    "type_alias": {"Parser": ("coq", "u8parser")},
    "fns": {"VtUtf8Receiver": f_pa_receiver_new},
    "methods": {("coq", "advance"): m_pa_advance},
    "opaque": {},
}

PA_TARGETS = [
    ("codepoint", "VtUtf8Receiver", "g_pa_receiver_codepoint", {"trait": "Receiver"}),
    ("invalid_sequence", "VtUtf8Receiver", "g_pa_receiver_invalid_sequence", {"trait": "Receiver"}),
    ("add", "Utf8Parser", "g_pa_utf8_add", {"trait": "CharAccumulator"}),
    ("add", "AsciiParser", "g_pa_ascii_add", {"trait": "CharAccumulator"}),
]


def register(generators, gm):
    def gen():
        try:
            ver, origin, lib, types = sources(gm)
            try:
                t_items, l_items = parse_file(types), parse_file(lib)
            except Exception as e:
                raise TranslateError("parse error: %s" % e)
            st = check_enum(t_items, "State", STATES)
            check_enum(t_items, "Action", ACTIONS)
            check_receiver(l_items)
            mask = const_u8(l_items, "CONTINUATION_MASK")
            shapes = {}
            out = [HEADER % origin, REQ, "",
                   "(* const CONTINUATION_MASK: u8 *)",
                   "Definition g_CONTINUATION_MASK : N := %d." % mask, ""]
            v_types = dict(VOCAB)
            v_types["structs"] = {}
            out.append(translate(types, v_types, [
                ("advance", "State", "g_u8_state_advance", {}),
            ], "", "", shapes))
            out.append(translate(lib, dict(VOCAB), [
                ("new", "Parser", "g_u8_parser_new", {}),
                ("perform_action", "Parser", "g_u8_perform_action", {}),
                ("advance", "Parser", "g_u8_parser_advance", {}),
            ], "", "", shapes))
            # #[derive(Default)] of Parser: every field's default (u32: 0; State: its #[default] variant)
            dv = dict((r, c) for r, c, _d in STATES)[default_variant(st)]

            def field_default(fname, fty):
                if fty.form == "path" and fty.segs == ["u32"]:
                    return "0"
                if fty.form == "path" and fty.segs == ["State"]:
                    return dv
                raise EmitError("Default of field %s" % fname)
            try:
                dflt = derive_default(l_items, "Parser", VOCAB["structs"]["Parser"]["ctor"], field_default)
            except EmitError as e:
                raise TranslateError("Parser::default: %s" % e)
            out += ["(* <Parser as Default>::default (derived) *)", "Definition g_u8_parser_default : u8parser :=\n  %s." % dflt, ""]
            # the callers inside anstyle-parse
            pa = gm.read("crates/anstyle-parse/src/lib.rs")
            shapes_pa = {"Utf8parse::Parser::advance": shapes["Parser::advance"]}
            out.append("(* ---- crates/anstyle-parse/src/lib.rs: the CharAccumulator impls around the decoder ---- *)")
            out.append(translate(pa, PA_VOCAB, PA_TARGETS, "", "", shapes_pa))
            return "\n".join(out) + "\n"
        except TranslateError as e:
            raise gm.GenError(str(e))
    generators["Utf8parseFn"] = gen
