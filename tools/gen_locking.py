"""Translator, lock-discipline part (C19): crates/colorchoice/src/lib.rs and the
locking shape of crates/anstream/src/{stream.rs,auto.rs,strip.rs}
->  coq/Generated/Locking.v.

Data that is translated: the `ColorChoice` enum, the arms of
`AtomicChoice::{from_choice, to_choice}` and the initial value of `new()`.

Source shapes that are only *checked* (GenError = broken tie otherwise):
 (i)   [REMOVED -- now carried by a translation + proof] `impl AsLockedWrite for std::io::Stdout` / `Stderr` is
       `self.lock()` with guard type `StdoutLock<'w>` / `StderrLock<'w>`: tools/gen_fn_glue.py translates every impl
       (and checks the associated type), Proofs/GlueGen.v translated_as_locked_write_std / translated_stdout_lock_once
       (Props/C19.v c19_translated_as_locked_write_std, c19_translated_stdout_lock_once).  Likewise the bodies of
       `anstream::stdout()` / `stderr()`: GlueFn + translated_stdout_is_auto / translated_stderr_is_auto;
 (ii)  [body pins REMOVED -- now carried by a translation + proof] every one of the five `Write` methods of
       `AutoStream` and of `StripStream` takes the lock exactly once, around its inner calls: the LOCK translation
       `gl_*` of tools/gen_fn_auto.py (the same Rust text over a raw stream that logs its lock events, since the
       leftovers round including StripStream::write_vectored and, through Generated/FmtFn.v, the closure + Adapter
       of write_fmt) and Proofs/AutoGen.v translated_ops_lock_once / translated_strip_lock_once (Props/C19.v
       c19_translated_ops_lock_once, c19_translated_strip_lock_once) say exactly that, for any body that means the same.
       What stays checked here: each of the two `impl io::Write` blocks defines EXACTLY these five methods (a sixth,
       e.g. an overridden `write_all_vectored`, would be a Write method nobody translated);
 (iii) `AtomicChoice::get` loads and `set` stores with `Ordering::SeqCst`, and
       `ColorChoice::{global, write_global}` are `USER.get()` / `USER.set(self)`
       on a `static USER: AtomicChoice`.
Hooked into tools/gen_model.py through `register`; helpers come from that module."""
import re

CHOICES = ["Auto", "AlwaysAnsi", "Always", "Never"]
METHODS = ["write", "write_vectored", "flush", "write_all", "write_fmt"]


def register(generators, gm):
    g = globals()
    for k in dir(gm):
        if not k.startswith("__") and k not in g:
            g[k] = getattr(gm, k)
    generators["Locking"] = gen_locking


def _block(src, start, what):
    """text between the braces of the block opening at or after `start`"""
    i = src.find("{", start)
    if i < 0:
        raise GenError("%s: no body" % what)
    depth = 0
    for j in range(i, len(src)):
        if src[j] == "{":
            depth += 1
        elif src[j] == "}":
            depth -= 1
            if depth == 0:
                return src[i + 1:j]
    raise GenError("%s: unbalanced braces" % what)


def _impl_block(src, header_re, what):
    ms = list(re.finditer(header_re, src, re.S))
    if len(ms) != 1:
        raise GenError("%s: expected exactly one impl block, found %d" % (what, len(ms)))
    return _block(src, ms[0].end() - 1, what)


def _norm(s):
    return re.sub(r"\s+", " ", s).strip()


def _write_methods(src, header_re, what):
    """{method: body} of the five methods of an `impl std::io::Write for ...` block"""
    body = _impl_block(src, header_re, what)
    found = re.findall(r"\bfn\s+(\w+)\s*\(", body)
    if sorted(found) != sorted(METHODS):
        raise GenError("%s: methods are %r, expected %r" % (what, found, METHODS))
    return {m: fn_body(body, m, "%s::%s" % (what, m)) for m in METHODS}


def _check_auto(auto):
    _write_methods(auto, r"impl<S>\s+std::io::Write\s+for\s+AutoStream<S>\s+where\s+S:\s*RawStream\s*\+\s*AsLockedWrite\s*,?\s*\{", "impl Write for AutoStream")


def _check_strip(strip):
    _write_methods(strip, r"impl<S>\s+std::io::Write\s+for\s+StripStream<S>\s+where\s+S:\s*std::io::Write\s*,\s*S:\s*AsLockedWrite\s*,?\s*\{", "impl Write for StripStream")


def _check_choice(cc):
    em = re.search(r"pub enum ColorChoice\s*\{(.*?)\n\}", cc, re.S)
    if not em:
        raise GenError("enum ColorChoice not found")
    variants = [v.strip() for v in re.sub(r"#\[[^\]]*\]", "", em.group(1)).split(",") if v.strip()]
    if variants != CHOICES:
        raise GenError("enum ColorChoice: variants are %r, expected %r" % (variants, CHOICES))
    if not re.search(r"use core::sync::atomic::\{AtomicUsize, Ordering\};", cc):
        raise GenError("colorchoice: AtomicUsize/Ordering are not core::sync::atomic's")
    if not re.search(r"static USER:\s*AtomicChoice\s*=\s*AtomicChoice::new\(\);", cc):
        raise GenError("colorchoice: `static USER: AtomicChoice = AtomicChoice::new();` not found")
    if not re.search(r"struct AtomicChoice\(AtomicUsize\);", cc):
        raise GenError("colorchoice: AtomicChoice is not a newtype of AtomicUsize")
    cimpl = _impl_block(cc, r"impl\s+ColorChoice\s*\{", "impl ColorChoice")
    if _norm(fn_body(cimpl, "global", "ColorChoice::global")) != "USER.get()":
        raise GenError("ColorChoice::global is not `USER.get()`")
    if _norm(fn_body(cimpl, "write_global", "ColorChoice::write_global")) != "USER.set(self);":
        raise GenError("ColorChoice::write_global is not `USER.set(self);`")
    aimpl = _impl_block(cc, r"impl\s+AtomicChoice\s*\{", "impl AtomicChoice")
    get = _norm(fn_body(aimpl, "get", "AtomicChoice::get"))
    if not re.fullmatch(r"let choice = self\.0\.load\(Ordering::SeqCst\); Self::to_choice\(choice\)\.expect\(\"[^\"]*\"\)", get):
        raise GenError("AtomicChoice::get: expected one SeqCst load followed by to_choice(..).expect(..), found %r" % get[:160])
    st = _norm(fn_body(aimpl, "set", "AtomicChoice::set"))
    if st != "let choice = Self::from_choice(choice); self.0.store(choice, Ordering::SeqCst);":
        raise GenError("AtomicChoice::set: expected from_choice followed by one SeqCst store, found %r" % st[:160])
    new = _norm(fn_body(aimpl, "new", "AtomicChoice::new"))
    m = re.fullmatch(r"Self\(AtomicUsize::new\(Self::from_choice\(ColorChoice::(\w+)\)\)\)", new)
    if not m or m.group(1) not in CHOICES:
        raise GenError("AtomicChoice::new: unexpected body %r" % new[:160])
    init = m.group(1)
    if len(re.findall(r"Ordering::(\w+)", aimpl)) != 2 or set(re.findall(r"Ordering::(\w+)", cc)) != {"SeqCst"}:
        raise GenError("colorchoice: an ordering other than SeqCst is used")
    # from_choice: one arm per variant
    fb = fn_body(aimpl, "from_choice", "AtomicChoice::from_choice")
    mm = re.fullmatch(r"\s*match choice\s*\{(.*)\}\s*", fb, re.S)
    if not mm:
        raise GenError("from_choice: body is not a single match on choice")
    arms = re.findall(r"ColorChoice::(\w+)\s*=>\s*(\w+)\s*,", mm.group(1))
    if re.sub(r"ColorChoice::\w+\s*=>\s*\w+\s*,", "", mm.group(1)).strip():
        raise GenError("from_choice: unexpected arm")
    try:
        frm = [(k, rust_int(v)) for k, v in arms]
    except ValueError:
        raise GenError("from_choice: non-literal arm value")
    if [k for k, _ in frm] != CHOICES:
        raise GenError("from_choice: arms are %r, expected one per variant" % [k for k, _ in frm])
    fb = fn_body(aimpl, "to_choice", "AtomicChoice::to_choice")
    mm = re.fullmatch(r"\s*match choice\s*\{(.*)\}\s*", fb, re.S)
    if not mm:
        raise GenError("to_choice: body is not a single match on choice")
    arms = re.findall(r"(\w+)\s*=>\s*Some\(ColorChoice::(\w+)\)\s*,", mm.group(1))
    rest = re.sub(r"\w+\s*=>\s*Some\(ColorChoice::\w+\)\s*,", "", mm.group(1))
    if not re.fullmatch(r"\s*_\s*=>\s*None\s*,?\s*", rest):
        raise GenError("to_choice: unexpected default arm %r" % rest.strip()[:80])
    try:
        to = [(rust_int(k), v) for k, v in arms]
    except ValueError:
        raise GenError("to_choice: non-literal arm pattern")
    if len(set(k for k, _ in to)) != len(to) or any(v not in CHOICES for _, v in to):
        raise GenError("to_choice: duplicate pattern or unknown variant")
    return init, frm, to


def gen_locking():
    auto = strip_comments(read("crates/anstream/src/auto.rs"))
    strip = strip_comments(read("crates/anstream/src/strip.rs"))
    cc = strip_comments(read("crates/colorchoice/src/lib.rs"))
    _check_auto(auto)
    _check_strip(strip)
    init, frm, to = _check_choice(cc)
    o = [HEADER % "crates/colorchoice/src/lib.rs (data); crates/anstream/src/{auto.rs,strip.rs} (shape checks only)"]
    o.append("(* Checked source shapes (tools/gen_locking.py raises a GEN-ERROR otherwise):")
    o.append("   - `impl io::Write for AutoStream` / `for StripStream` define exactly the methods %s" % ", ".join(METHODS))
    o.append("     (that each takes the lock exactly once is PROVED about their translation: Generated/AutoFn.v gl_*,")
    o.append("     Proofs/AutoGen.v translated_ops_lock_once; as_locked_write of Stdout / Stderr: Generated/GlueFn.v);")
    o.append("   - AtomicChoice::get / set: one load / store with Ordering::SeqCst; global / write_global go through them. *)")
    o.append("From Coq Require Import NArith List.\nImport ListNotations.\nLocal Open Scope N_scope.\n")
    o.append("(* pub enum ColorChoice *)")
    o.append("Inductive lk_choice : Set :=\n" + "\n".join("  | Lk%s" % c for c in CHOICES) + ".\n")
    o.append("Definition lk_all_choices : list lk_choice := [%s].\n" % "; ".join("Lk" + c for c in CHOICES))
    o.append("(* AtomicChoice::from_choice *)")
    o.append("Definition lk_from_choice (c : lk_choice) : N :=\n  match c with\n" + "\n".join("  | Lk%s => %d" % a for a in frm) + "\n  end.\n")
    o.append("(* AtomicChoice::to_choice *)")
    o.append("Definition lk_to_choice (n : N) : option lk_choice :=\n  match n with\n" + "\n".join("  | %d => Some Lk%s" % a for a in to) + "\n  | _ => None\n  end.\n")
    o.append("(* AtomicChoice::new: the value the process starts with *)")
    o.append("Definition lk_choice_init : lk_choice := Lk%s.\n" % init)
    return "\n".join(o)
