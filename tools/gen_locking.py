"""Translator, lock-discipline part (C19): crates/colorchoice/src/lib.rs and the
locking shape of crates/anstream/src/{stream.rs,auto.rs,strip.rs}
->  coq/Generated/Locking.v.

Data that is translated: the `ColorChoice` enum, the arms of
`AtomicChoice::{from_choice, to_choice}` and the initial value of `new()`.

Source shapes that are only *checked* (GenError = broken tie otherwise):
 (i)   `impl AsLockedWrite for std::io::Stdout` / `Stderr`: the body of
       `as_locked_write` is exactly `self.lock()`, the guard type is
       `std::io::StdoutLock<'w>` / `StderrLock<'w>`;
 (ii)  every one of the five `Write` methods of `AutoStream` and of `StripStream`
       takes the lock exactly once: its body contains exactly one
       `as_locked_write()` call and no call of another `self.` write method, or
       (`StripStream::write_vectored`) no such call and exactly one delegation
       `self.<m>(..)` to a sibling method that locks once itself; in `AutoStream`
       the single call sits in the `PassThrough` arm and the `Strip` arm forwards
       the same method to the `StripStream`;
 (iii) `AtomicChoice::get` loads and `set` stores with `Ordering::SeqCst`, and
       `ColorChoice::{global, write_global}` are `USER.get()` / `USER.set(self)`
       on a `static USER: AtomicChoice`.
Hooked into tools/gen_model.py through `register`; helpers come from that module."""
import re

CHOICES = ["Auto", "AlwaysAnsi", "Always", "Never"]
METHODS = ["write", "write_vectored", "flush", "write_all", "write_fmt"]


def register(generators, gm):
    g = globals()
    for k in dir(gm):
        if not k.startswith("__") and k not in g:
            g[k] = getattr(gm, k)
    generators["Locking"] = gen_locking


def _block(src, start, what):
    """text between the braces of the block opening at or after `start`"""
    i = src.find("{", start)
    if i < 0:
        raise GenError("%s: no body" % what)
    depth = 0
    for j in range(i, len(src)):
        if src[j] == "{":
            depth += 1
        elif src[j] == "}":
            depth -= 1
            if depth == 0:
                return src[i + 1:j]
    raise GenError("%s: unbalanced braces" % what)


def _impl_block(src, header_re, what):
    ms = list(re.finditer(header_re, src, re.S))
    if len(ms) != 1:
        raise GenError("%s: expected exactly one impl block, found %d" % (what, len(ms)))
    return _block(src, ms[0].end() - 1, what)


def _norm(s):
    return re.sub(r"\s+", " ", s).strip()


def _check_std_lock(stream, which):
    body = _impl_block(stream, r"impl\s+AsLockedWrite\s+for\s+std::io::%s\s*\{" % which, "impl AsLockedWrite for std::io::%s" % which)
    if not re.search(r"type\s+Write<'w>\s*=\s*std::io::%sLock<'w>\s*;" % which, body):
        raise GenError("AsLockedWrite for %s: the guard type is not std::io::%sLock<'w>" % (which, which))
    fb = fn_body(body, "as_locked_write", "AsLockedWrite for %s::as_locked_write" % which)
    if _norm(fb) != "self.lock()":
        raise GenError("AsLockedWrite for %s: body of as_locked_write is %r, expected `self.lock()`" % (which, _norm(fb)[:80]))


def _write_methods(src, header_re, what):
    """{method: body} of the five methods of an `impl std::io::Write for ...` block"""
    body = _impl_block(src, header_re, what)
    found = re.findall(r"\bfn\s+(\w+)\s*\(", body)
    if sorted(found) != sorted(METHODS):
        raise GenError("%s: methods are %r, expected %r" % (what, found, METHODS))
    return {m: fn_body(body, m, "%s::%s" % (what, m)) for m in METHODS}


def _lock_shape(bodies, what):
    """per method: ("lock",) when it calls as_locked_write() once, ("via", m) when it
    delegates once to a sibling"""
    shape = {}
    for m in METHODS:
        b = bodies[m]
        locks = len(re.findall(r"\bas_locked_write\s*\(\s*\)", b))
        if len(re.findall(r"\block\s*\(", b)) or "as_locked_write" in re.sub(r"\bas_locked_write\s*\(\s*\)", "", b):
            raise GenError("%s::%s: unexpected lock expression" % (what, m))
        deleg = re.findall(r"\bself\s*\.\s*(%s)\s*\(" % "|".join(METHODS), b)
        if locks == 1 and not deleg:
            shape[m] = ("lock",)
        elif locks == 0 and len(deleg) == 1 and deleg[0] != m:
            shape[m] = ("via", deleg[0])
        else:
            raise GenError("%s::%s: expected exactly one as_locked_write() call (or one delegation to a sibling method), found %d call(s) and delegations %r"
                           % (what, m, locks, deleg))
        if re.search(r"\b(loop|while|for)\b", b) and locks:
            raise GenError("%s::%s: the lock is taken next to a loop" % (what, m))
    for m, s in shape.items():
        if s[0] == "via" and shape[s[1]] != ("lock",):
            raise GenError("%s::%s delegates to %s which does not lock once" % (what, m, s[1]))
    return shape


def _check_auto(auto):
    bodies = _write_methods(auto, r"impl<S>\s+std::io::Write\s+for\s+AutoStream<S>\s+where\s+S:\s*RawStream\s*\+\s*AsLockedWrite\s*,?\s*\{", "impl Write for AutoStream")
    shape = _lock_shape(bodies, "AutoStream")
    args = {"write": "buf", "write_vectored": "bufs", "flush": "", "write_all": "buf", "write_fmt": "args"}
    for m in METHODS:
        if shape[m] != ("lock",):
            raise GenError("AutoStream::%s: does not lock directly" % m)
        b = _norm(re.sub(r"#\[cfg\(all\(windows, feature = \"wincon\"\)\)\]\s*StreamInner::Wincon\(w\)\s*=>\s*w\.%s\(%s\),?" % (m, args[m]), "", bodies[m]))
        want = "match &mut self.inner { StreamInner::PassThrough(w) => w.as_locked_write().%s(%s), StreamInner::Strip(w) => w.%s(%s), }" % (m, args[m], m, args[m])
        if b != want:
            raise GenError("AutoStream::%s: unexpected body %r" % (m, b[:160]))
    return shape


def _check_strip(strip):
    bodies = _write_methods(strip, r"impl<S>\s+std::io::Write\s+for\s+StripStream<S>\s+where\s+S:\s*std::io::Write\s*,\s*S:\s*AsLockedWrite\s*,?\s*\{", "impl Write for StripStream")
    shape = _lock_shape(bodies, "StripStream")
    want = {
        "write": "write(&mut self.raw.as_locked_write(), &mut self.state, buf)",
        "write_all": "write_all(&mut self.raw.as_locked_write(), &mut self.state, buf)",
        "write_fmt": "write_fmt(&mut self.raw.as_locked_write(), &mut self.state, args)",
        "flush": "self.raw.as_locked_write().flush()",
    }
    for m, w in want.items():
        if _norm(bodies[m]) != w:
            raise GenError("StripStream::%s: unexpected body %r (expected %r)" % (m, _norm(bodies[m])[:160], w))
    if shape["write_vectored"] != ("via", "write") or not _norm(bodies["write_vectored"]).endswith("self.write(buf)"):
        raise GenError("StripStream::write_vectored: expected a single delegation `self.write(buf)`")
    # the free functions behind them work on the guard they are handed and never lock
    for f in ("write", "write_all", "write_fmt"):
        m = re.search(r"\nfn\s+%s\s*\(\s*raw:\s*&mut dyn std::io::Write\s*," % f, strip)
        if not m:
            raise GenError("strip.rs: free fn %s(raw: &mut dyn std::io::Write, ..) not found" % f)
        fb = _block(strip, m.end(), "strip.rs fn " + f)
        if "as_locked_write" in fb or re.search(r"\block\s*\(", fb):
            raise GenError("strip.rs: free fn %s takes a lock itself" % f)
    fb = _norm(_block(strip, re.search(r"\nfn\s+write_fmt\s*\(", strip).end(), "strip.rs fn write_fmt"))
    if fb != "let write_all = |buf: &[u8]| write_all(raw, state, buf); crate::fmt::Adapter::new(write_all).write_fmt(args)":
        raise GenError("strip.rs: free fn write_fmt: unexpected body %r" % fb[:160])
    return shape


def _check_choice(cc):
    em = re.search(r"pub enum ColorChoice\s*\{(.*?)\n\}", cc, re.S)
    if not em:
        raise GenError("enum ColorChoice not found")
    variants = [v.strip() for v in re.sub(r"#\[[^\]]*\]", "", em.group(1)).split(",") if v.strip()]
    if variants != CHOICES:
        raise GenError("enum ColorChoice: variants are %r, expected %r" % (variants, CHOICES))
    if not re.search(r"use core::sync::atomic::\{AtomicUsize, Ordering\};", cc):
        raise GenError("colorchoice: AtomicUsize/Ordering are not core::sync::atomic's")
    if not re.search(r"static USER:\s*AtomicChoice\s*=\s*AtomicChoice::new\(\);", cc):
        raise GenError("colorchoice: `static USER: AtomicChoice = AtomicChoice::new();` not found")
    if not re.search(r"struct AtomicChoice\(AtomicUsize\);", cc):
        raise GenError("colorchoice: AtomicChoice is not a newtype of AtomicUsize")
    cimpl = _impl_block(cc, r"impl\s+ColorChoice\s*\{", "impl ColorChoice")
    if _norm(fn_body(cimpl, "global", "ColorChoice::global")) != "USER.get()":
        raise GenError("ColorChoice::global is not `USER.get()`")
    if _norm(fn_body(cimpl, "write_global", "ColorChoice::write_global")) != "USER.set(self);":
        raise GenError("ColorChoice::write_global is not `USER.set(self);`")
    aimpl = _impl_block(cc, r"impl\s+AtomicChoice\s*\{", "impl AtomicChoice")
    get = _norm(fn_body(aimpl, "get", "AtomicChoice::get"))
    if not re.fullmatch(r"let choice = self\.0\.load\(Ordering::SeqCst\); Self::to_choice\(choice\)\.expect\(\"[^\"]*\"\)", get):
        raise GenError("AtomicChoice::get: expected one SeqCst load followed by to_choice(..).expect(..), found %r" % get[:160])
    st = _norm(fn_body(aimpl, "set", "AtomicChoice::set"))
    if st != "let choice = Self::from_choice(choice); self.0.store(choice, Ordering::SeqCst);":
        raise GenError("AtomicChoice::set: expected from_choice followed by one SeqCst store, found %r" % st[:160])
    new = _norm(fn_body(aimpl, "new", "AtomicChoice::new"))
    m = re.fullmatch(r"Self\(AtomicUsize::new\(Self::from_choice\(ColorChoice::(\w+)\)\)\)", new)
    if not m or m.group(1) not in CHOICES:
        raise GenError("AtomicChoice::new: unexpected body %r" % new[:160])
    init = m.group(1)
    if len(re.findall(r"Ordering::(\w+)", aimpl)) != 2 or set(re.findall(r"Ordering::(\w+)", cc)) != {"SeqCst"}:
        raise GenError("colorchoice: an ordering other than SeqCst is used")
    # from_choice: one arm per variant
    fb = fn_body(aimpl, "from_choice", "AtomicChoice::from_choice")
    mm = re.fullmatch(r"\s*match choice\s*\{(.*)\}\s*", fb, re.S)
    if not mm:
        raise GenError("from_choice: body is not a single match on choice")
    arms = re.findall(r"ColorChoice::(\w+)\s*=>\s*(\w+)\s*,", mm.group(1))
    if re.sub(r"ColorChoice::\w+\s*=>\s*\w+\s*,", "", mm.group(1)).strip():
        raise GenError("from_choice: unexpected arm")
    try:
        frm = [(k, rust_int(v)) for k, v in arms]
    except ValueError:
        raise GenError("from_choice: non-literal arm value")
    if [k for k, _ in frm] != CHOICES:
        raise GenError("from_choice: arms are %r, expected one per variant" % [k for k, _ in frm])
    fb = fn_body(aimpl, "to_choice", "AtomicChoice::to_choice")
    mm = re.fullmatch(r"\s*match choice\s*\{(.*)\}\s*", fb, re.S)
    if not mm:
        raise GenError("to_choice: body is not a single match on choice")
    arms = re.findall(r"(\w+)\s*=>\s*Some\(ColorChoice::(\w+)\)\s*,", mm.group(1))
    rest = re.sub(r"\w+\s*=>\s*Some\(ColorChoice::\w+\)\s*,", "", mm.group(1))
    if not re.fullmatch(r"\s*_\s*=>\s*None\s*,?\s*", rest):
        raise GenError("to_choice: unexpected default arm %r" % rest.strip()[:80])
    try:
        to = [(rust_int(k), v) for k, v in arms]
    except ValueError:
        raise GenError("to_choice: non-literal arm pattern")
    if len(set(k for k, _ in to)) != len(to) or any(v not in CHOICES for _, v in to):
        raise GenError("to_choice: duplicate pattern or unknown variant")
    return init, frm, to


def gen_locking():
    stream = strip_comments(read("crates/anstream/src/stream.rs"))
    auto = strip_comments(read("crates/anstream/src/auto.rs"))
    strip = strip_comments(read("crates/anstream/src/strip.rs"))
    cc = strip_comments(read("crates/colorchoice/src/lib.rs"))
    lib = strip_comments(read("crates/anstream/src/lib.rs"))
    for which in ("Stdout", "Stderr"):
        _check_std_lock(stream, which)
    # anstream::stdout()/stderr() hand AutoStream the std handles
    for name, which in (("stdout", "Stdout"), ("stderr", "Stderr")):
        b = _norm(fn_body(lib, name, "anstream::" + name))
        if b != "let %s = std::io::%s(); AutoStream::auto(%s)" % (name, name, name):
            raise GenError("anstream::%s: unexpected body %r" % (name, b[:120]))
    sa = _check_auto(auto)
    ss = _check_strip(strip)
    init, frm, to = _check_choice(cc)
    o = [HEADER % "crates/colorchoice/src/lib.rs (data); crates/anstream/src/{stream.rs,auto.rs,strip.rs,lib.rs} (shape checks only)"]
    o.append("(* Checked source shapes (tools/gen_locking.py raises a GEN-ERROR otherwise):")
    o.append("   - impl AsLockedWrite for std::io::Stdout / Stderr: as_locked_write is `self.lock()`;")
    o.append("   - lock acquisitions per Write method, AutoStream: %s;" % ", ".join("%s=%s" % (m, "1" if sa[m] == ("lock",) else "via " + sa[m][1]) for m in METHODS))
    o.append("   - lock acquisitions per Write method, StripStream: %s;" % ", ".join("%s=%s" % (m, "1" if ss[m] == ("lock",) else "via " + ss[m][1]) for m in METHODS))
    o.append("   - AtomicChoice::get / set: one load / store with Ordering::SeqCst; global / write_global go through them. *)")
    o.append("From Coq Require Import NArith List.\nImport ListNotations.\nLocal Open Scope N_scope.\n")
    o.append("(* pub enum ColorChoice *)")
    o.append("Inductive lk_choice : Set :=\n" + "\n".join("  | Lk%s" % c for c in CHOICES) + ".\n")
    o.append("Definition lk_all_choices : list lk_choice := [%s].\n" % "; ".join("Lk" + c for c in CHOICES))
    o.append("(* AtomicChoice::from_choice *)")
    o.append("Definition lk_from_choice (c : lk_choice) : N :=\n  match c with\n" + "\n".join("  | Lk%s => %d" % a for a in frm) + "\n  end.\n")
    o.append("(* AtomicChoice::to_choice *)")
    o.append("Definition lk_to_choice (n : N) : option lk_choice :=\n  match n with\n" + "\n".join("  | %d => Some Lk%s" % a for a in to) + "\n  | _ => None\n  end.\n")
    o.append("(* AtomicChoice::new: the value the process starts with *)")
    o.append("Definition lk_choice_init : lk_choice := Lk%s.\n" % init)
    o.append("(* number of lock acquisitions the source performs per Write method, in the order\n   write, write_vectored, flush, write_all, write_fmt (a delegating method counts the\n   acquisitions of the method it forwards to) *)")
    o.append("Definition lk_src_locks_auto : list N := [%s]." % "; ".join("1" for _ in METHODS))
    o.append("Definition lk_src_locks_strip : list N := [%s].\n" % "; ".join("1" for _ in METHODS))
    return "\n".join(o)
