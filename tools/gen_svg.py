"""Translator, SVG part (C14): the table-shaped pieces of crates/anstyle-svg/src/lib.rs
->  coq/Generated/Svg.v : ANSI_NAMES, the class-name prefixes, the effect -> class
list of write_fg_span (source order), the effect -> CSS rule list of render_svg
(source order), the default colours, line_height, padding, font family.
Hooked into tools/gen_model.py through `register`; helpers come from that module."""
import re

SRC = "crates/anstyle-svg/src/lib.rs"

ANSI_VARIANTS = ["Black", "Red", "Green", "Yellow", "Blue", "Magenta", "Cyan", "White",
                 "BrightBlack", "BrightRed", "BrightGreen", "BrightYellow", "BrightBlue", "BrightMagenta", "BrightCyan", "BrightWhite"]


def register(generators, gm):
    g = globals()
    for k in dir(gm):
        if not k.startswith("__") and k not in g:
            g[k] = getattr(gm, k)
    generators["Svg"] = gen_svg


def _drop_line_comments(src):
    """lines that are nothing but a `//` comment (raw string literals of this file
    contain `//` inside URLs, so the generic comment stripper cannot be used)"""
    return "\n".join(l for l in src.split("\n") if not l.lstrip().startswith("//"))


def _body(src, header_re, what):
    m = re.search(header_re, src, re.S)
    if not m:
        raise GenError("%s not found" % what)
    i = src.index("{", m.end() - 1)
    depth = 0
    j = i
    while j < len(src):
        # raw strings r#"..."# hold `{{` / `}}` pairs: balanced, so plain counting works
        if src[j] == "{":
            depth += 1
        elif src[j] == "}":
            depth -= 1
            if depth == 0:
                return src[i + 1:j]
        j += 1
    raise GenError("%s: unbalanced braces" % what)


def _ascii(s, what):
    try:
        b = s.encode("ascii")
    except UnicodeEncodeError:
        raise GenError("%s: non-ASCII text %r" % (what, s))
    if any(c < 32 or c > 126 for c in b):
        raise GenError("%s: control character in %r" % (what, s))
    return list(b)


def _name(s, what):
    if not re.fullmatch(r"[a-z][a-z0-9-]*", s):
        raise GenError("%s: %r is not a plain class name" % (what, s))
    return _ascii(s, what)


def _effect_names():
    eff = read("crates/anstyle/src/effect.rs")
    return [m.group(1) for m in re.finditer(r"pub const (\w+)\s*:\s*Self\s*=\s*Effects\(1\s*<<\s*\d+\);", eff)]


def _default_colour(src, const):
    m = re.search(r"const %s\s*:\s*anstyle::Color\s*=\s*anstyle::Color::Ansi\(anstyle::AnsiColor::(\w+)\);" % const, src)
    if not m:
        raise GenError("%s: not an `anstyle::Color::Ansi(anstyle::AnsiColor::X)` constant" % const)
    if m.group(1) not in ANSI_VARIANTS:
        raise GenError("%s: unknown AnsiColor::%s" % (const, m.group(1)))
    return ANSI_VARIANTS.index(m.group(1))


def _fn_takes_over(why):
    """a BODY-shape pin that reads no data off the text (see gen_model.takes_over): the function is translated by SvgFn
    (tools/gen_fn_svg.py) and proved equal to the hand model in Proofs/SvgGen.v; C14 has both generators in gen_deps"""
    takes_over("SvgFn", why)


def _effect_classes_strict(wf, binds, eff):
    """write_fg_span, the known shape: `if let Some(class) = <colour>.as_deref() { classes.push(class); }` for the fg and the
    underline colour, then one `if <test> { classes.push("<name>"); }` per effect, where <test> is either a boolean local
    bound above (`let bold = effects.contains(anstyle::Effects::BOLD);` .. `if bold {`) or the same call spelled in the
    condition (`if effects.contains(anstyle::Effects::BOLD) {`): the SAME (effect, class) datum.  None when the text is
    not of this shape or does not account for every `anstyle::Effects::X` of the body."""
    pushes = list(re.finditer(r"if\s+(?:let Some\(class\) = (\w+)\.as_deref\(\)|(\w+)|effects\.contains\(anstyle::Effects::(\w+)\))\s*\{\s*"
                              r"classes\.push\((?:class|\"([^\"\\]*)\")\);\s*\}", wf))
    if len(pushes) != len(re.findall(r"classes\.push\(", wf)):
        return None
    if len(pushes) < 2 or pushes[0].group(1) != "fg_color" or pushes[1].group(1) != "underline_color":
        raise GenError("write_fg_span: expected the fg colour class, then the underline colour class first")
    out = []
    for p in pushes[2:]:
        var, inline, lit = p.group(2), p.group(3), p.group(4)
        if lit is None or (inline is None and (var is None or var not in binds)):
            return None
        const = inline if inline is not None else binds[var]
        out.append((eff(const, "write_fg_span"), _name(lit, "write_fg_span class"), const))
    # (a bound boolean that is never used does not count)
    unused = [c for v, c in binds.items() if len(re.findall(r"\b%s\b" % re.escape(v), wf)) == 1]
    if sorted([c for _, _, c in out] + unused) != sorted(re.findall(r"anstyle::Effects::(\w+)", wf)):
        return None
    return out


def _effect_classes_loose(wf, eff):
    seq = [(m.group(1), m.group(2)) for m in re.finditer(r"anstyle::Effects::(\w+)|(?<![#\w])\"([a-z][a-z0-9-]*)\"", wf)]
    if not seq or len(seq) % 2 or any((c is None) != (i % 2 == 1) for i, (c, _l) in enumerate(seq)):
        raise GenError("write_fg_span: cannot pair the effect constants with the class names (they do not alternate)")
    return [(eff(seq[i][0], "write_fg_span"), _name(seq[i + 1][1], "write_fg_span class"), seq[i][0]) for i in range(0, len(seq), 2)]


def gen_svg():
    src = _drop_line_comments(read(SRC))
    effects = _effect_names()
    if not effects:
        raise GenError("no effect constants found in anstyle/src/effect.rs")

    def eff(name, what):
        if name not in effects:
            raise GenError("%s: unknown Effects::%s" % (what, name))
        return "eff_" + name.lower()

    # ANSI_NAMES
    m = re.search(r"const ANSI_NAMES\s*:\s*\[&str;\s*16\]\s*=\s*\[(.*?)\];", src, re.S)
    if not m:
        raise GenError("ANSI_NAMES not found")
    names = re.findall(r'"([^"\\]*)"', m.group(1))
    rest = re.sub(r'"[^"\\]*"', "", m.group(1)).replace(",", "").strip()
    if rest or len(names) != 16:
        raise GenError("ANSI_NAMES: expected 16 string literals")
    names = [_name(n, "ANSI_NAMES") for n in names]
    # color_name: the three arms
    cn = _body(src, r"fn color_name\s*\(prefix:\s*&str,\s*color:\s*anstyle::Color\)\s*->\s*String\s*\{", "color_name")
    want = (r"\s*match color \{\s*anstyle::Color::Ansi\(color\) => \{\s*let color = anstyle::Ansi256Color::from_ansi\(color\);\s*"
            r"let index = color\.index\(\) as usize;\s*let name = ANSI_NAMES\[index\];\s*format!\(\"\{prefix\}-\{name\}\"\)\s*\}\s*"
            r"anstyle::Color::Ansi256\(color\) => \{\s*let index = color\.index\(\);\s*format!\(\"\{prefix\}-ansi256-\{index:03\}\"\)\s*\}\s*"
            r"anstyle::Color::Rgb\(color\) => \{\s*let anstyle::RgbColor\(r, g, b\) = color;\s*format!\(\"\{prefix\}-rgb-\{r:02X\}\{g:02X\}\{b:02X\}\"\)\s*\}\s*\}\s*")
    if not re.fullmatch(want, cn, re.S):
        _fn_takes_over("color_name: unexpected shape")
    rv = _body(src, r"fn rgb_value\s*\(color:\s*anstyle::Color,\s*palette:\s*Palette\)\s*->\s*String\s*\{", "rgb_value")
    if not re.fullmatch(r"\s*let color = anstyle_lossy::color_to_rgb\(color, palette\);\s*let anstyle::RgbColor\(r, g, b\) = color;\s*"
                        r"format!\(\"#\{r:02X\}\{g:02X\}\{b:02X\}\"\)\s*", rv, re.S):
        _fn_takes_over("rgb_value: unexpected shape")
    # prefixes
    consts = {}
    for c in ("FG_PREFIX", "BG_PREFIX", "UNDERLINE_PREFIX"):
        m = re.search(r'^const %s\s*:\s*&str\s*=\s*"([^"\\]*)";' % c, src, re.M)
        if not m:
            raise GenError("%s not found" % c)
        consts[c] = _name(m.group(1), c)
    rs = _body(src, r"pub fn render_svg\s*\(&self,\s*ansi:\s*&str\)\s*->\s*String\s*\{", "render_svg")
    for c in ("FG", "BG"):
        m = re.search(r'const %s\s*:\s*&str\s*=\s*"([^"\\]*)";' % c, rs)
        if not m:
            raise GenError("render_svg: const %s not found" % c)
        consts[c] = _name(m.group(1), c)
    m = re.search(r"let line_height = (\w+);", rs)
    if not m:
        raise GenError("render_svg: line_height not found")
    try:
        line_height = rust_int(m.group(1))
    except ValueError:
        raise GenError("render_svg: line_height is not a literal")
    # the geometry of the document is integer arithmetic on usize (a 2^24-row document is out of a
    # differential test's reach; the width alone is a float product, which the model mirrors)
    for pin, what in ((r"let height = styled_lines\.len\(\) \* line_height \+ self\.padding_px \* 2;", "height"),
                      (r"let width_px = \(max_width as f64 \* 8\.4\)\.ceil\(\) as usize;\s*"
                       r"let width_px = std::cmp::max\(width_px, self\.min_width_px\) \+ self\.padding_px \* 2;", "width_px"),
                      (r"let text_x = self\.padding_px;\s*let mut text_y = self\.padding_px \+ line_height;", "text_x / text_y"),
                      (r"text_y \+= line_height;", "text_y step")):
        if len(re.findall(pin, rs)) != 1:
            _fn_takes_over("render_svg: %s is not the pinned integer expression" % what)
    if len(re.findall(r"\bheight\b", rs)) != 6 or len(re.findall(r"\btext_y\b", rs)) != 4 or len(re.findall(r"\bline_height\b", rs)) != 6:
        _fn_takes_over("render_svg: height / text_y / line_height are used outside the pinned expressions")
    # Term::new()
    nb = _body(src, r"pub const fn new\s*\(\)\s*->\s*Self\s*\{", "Term::new")
    fields = {}
    for fld in ("padding_px", "min_width_px"):
        m = re.search(r"\b%s\s*:\s*(\w+)\s*," % fld, nb)
        if not m:
            raise GenError("Term::new: %s not found" % fld)
        try:
            fields[fld] = rust_int(m.group(1))
        except ValueError:
            raise GenError("Term::new: %s is not a literal" % fld)
    m = re.search(r'\bfont_family\s*:\s*"([^"\\]*)"\s*,', nb)
    if not m:
        raise GenError("Term::new: font_family not found")
    font = _ascii(m.group(1), "font_family")
    for fld, const in (("fg_color", "FG_COLOR"), ("bg_color", "BG_COLOR")):
        if not re.search(r"\b%s\s*:\s*%s\s*," % (fld, const), nb):
            raise GenError("Term::new: %s is not %s" % (fld, const))
    if not re.search(r"\bpalette\s*:\s*VGA\s*,", nb) or not re.search(r"\bbackground\s*:\s*true\s*,", nb):
        raise GenError("Term::new: unexpected palette / background default")
    fg_default = _default_colour(src, "FG_COLOR")
    bg_default = _default_colour(src, "BG_COLOR")
    # write_fg_span: bindings and pushes in source order
    wf = _body(src, r"fn write_fg_span\s*\(buffer:\s*&mut String,\s*style:\s*&anstyle::Style,\s*fragment:\s*&str\)\s*\{", "write_fg_span")
    binds = dict((v, e) for v, e in re.findall(r"let (\w+) = effects\.contains\(anstyle::Effects::(\w+)\);", wf))
    if not re.search(r"let effects = style\.get_effects\(\);", wf):
        _fn_takes_over("write_fg_span: `effects` is not style.get_effects()")
    if not re.search(r"let fg_color = style\.get_fg_color\(\)\.map\(\|c\| color_name\(FG_PREFIX, c\)\);", wf) or \
       not re.search(r"let underline_color = style\s*\.get_underline_color\(\)\s*\.map\(\|c\| color_name\(UNDERLINE_PREFIX, c\)\);", wf):
        _fn_takes_over("write_fg_span: colour class bindings not recognised")
    # a private module-level `const NAME: [..; n] = [ .. ];` table that the body names is DATA of the function: its entries
    # are read where the body names it (SvgFn reads the same entries: tools/rs2v/emit.py source_table)
    wf_tables = [m for m in re.finditer(r"(?m)^const (\w+)\s*:\s*\[[^;]*;\s*\d+\s*\]\s*=\s*\[(.*?)\];", src, re.S)
                 if re.search(r"\b%s\b" % re.escape(m.group(1)), wf)]
    eff_classes = _effect_classes_strict(wf, binds, eff) if not wf_tables else None
    if eff_classes is None:
        for m in wf_tables:
            wf = re.sub(r"\b%s\b" % re.escape(m.group(1)), lambda _m, t=m.group(2): "[" + t + "]", wf)
        # the pushes are spelled another way (a helper that pushes, a table + loop, ..): the DATA is still read off the
        # text -- the constants `anstyle::Effects::X` and the plain class-name literals must alternate, which pairs them --
        # and what the function does with them is SvgFn's translation, proved against this very table (Proofs/SvgGen.v
        # g_svg_write_fg_span_eq): pairs read off wrongly make that proof fail, they cannot make it pass
        _fn_takes_over("write_fg_span: the classes.push(...) statements are not of the known shape")
        eff_classes = _effect_classes_loose(wf, eff)
    if len(set(e for e, _, _ in eff_classes)) != len(eff_classes):
        raise GenError("write_fg_span: an effect is pushed twice")
    if not re.search(r'let classes = classes\.join\(" "\);', wf) or not re.search(r"let fragment = html_escape::encode_text\(fragment\);", wf):
        _fn_takes_over("write_fg_span: join / encode_text not recognised")
    if not re.search(r"let fragment = html_escape::encode_text\(fragment\);\s*let fragment = fragment\.replace\('\\r', \"&#13;\"\);", wf):
        _fn_takes_over("write_fg_span: the carriage return is not replaced by &#13; right after encode_text")
    # write_bg_span
    wb = _body(src, r"fn write_bg_span\s*\(buffer:\s*&mut String,\s*style:\s*&anstyle::Style,\s*fragment:\s*&str\)\s*\{", "write_bg_span")
    m = re.search(r'let fill = if bg_color\.is_some\(\) \{ "([^"\\]*)" \} else \{ "([^"\\]*)" \};', wb)
    if not m or len(m.group(1)) != 1 or len(m.group(2)) != 1:
        raise GenError("write_bg_span: fill characters not recognised")
    fill_on, fill_off = ord(m.group(1)), ord(m.group(2))
    if not re.search(r"let bg_color = style\.get_bg_color\(\)\.map\(\|c\| color_name\(BG_PREFIX, c\)\);", wb):
        _fn_takes_over("write_bg_span: colour class binding not recognised")
    # render_svg: effect rules in source order
    rules = []
    for mm in re.finditer(r"if effects_in_use\.contains\(anstyle::Effects::(\w+)\)\s*\{\s*writeln!\(\s*&mut buffer,\s*r#\"(.*?)\"#\s*,?\s*\)\s*\.unwrap\(\);\s*\}", rs, re.S):
        t = re.fullmatch(r"    \.([a-z][a-z0-9-]*) \{\{ (.*) \}\}", mm.group(2))
        if not t:
            raise GenError("render_svg: effect rule of unexpected shape %r" % mm.group(2)[:60])
        if "{" in t.group(2) or "}" in t.group(2):
            raise GenError("render_svg: braces inside an effect rule body")
        rules.append((eff(mm.group(1), "render_svg"), _name(t.group(1), "effect rule"), _ascii(t.group(2), "effect rule"), mm.group(1)))
    if len(rules) != len(re.findall(r"effects_in_use\.contains\(", rs)):
        raise GenError("render_svg: an `effects_in_use.contains` block of unrecognised shape")
    if len(set(e for e, _, _, _ in rules)) != len(rules):
        raise GenError("render_svg: two rules for one effect")
    o = [HEADER % SRC]
    o.append("From Coq Require Import NArith List.\nFrom AV Require Import Generated.Style.\nImport ListNotations.\nLocal Open Scope N_scope.\n")
    o.append("(* ANSI_NAMES, indexed by Ansi256Color::from_ansi(colour).index() *)")
    o.append("Definition svg_ansi_names : list (list N) :=\n" + coq_list([coq_bytes(n) for n in names], 2) + ".\n")
    o.append("Definition svg_fg_prefix : list N := %s.        (* FG_PREFIX *)" % coq_bytes(consts["FG_PREFIX"]))
    o.append("Definition svg_bg_prefix : list N := %s.        (* BG_PREFIX *)" % coq_bytes(consts["BG_PREFIX"]))
    o.append("Definition svg_underline_prefix : list N := %s.        (* UNDERLINE_PREFIX *)" % coq_bytes(consts["UNDERLINE_PREFIX"]))
    o.append("Definition svg_fg_class : list N := %s.        (* render_svg: const FG *)" % coq_bytes(consts["FG"]))
    o.append("Definition svg_bg_class : list N := %s.        (* render_svg: const BG *)\n" % coq_bytes(consts["BG"]))
    o.append("(* write_fg_span: (effect, class name) in the order of the classes.push calls (after the two colour classes) *)")
    o.append("Definition svg_effect_classes : list (N * list N) :=\n" +
             coq_list(["(%s, %s) (* %s *)" % (e, coq_bytes(n), c) for e, n, c in eff_classes], 1) + ".\n")
    o.append("(* render_svg: (effect, class name, rule body) of the `if effects_in_use.contains(..)` blocks, in source order;\n"
             "   the line written is `    .<name> { <body> }` *)")
    o.append("Definition svg_effect_rules : list (N * list N * list N) :=\n" +
             coq_list(["(%s, %s, %s) (* %s *)" % (e, coq_bytes(n), coq_bytes(b), c) for e, n, b, c in rules], 1) + ".\n")
    o.append("(* FG_COLOR / BG_COLOR: anstyle::Color::Ansi of this ANSI number *)")
    o.append("Definition svg_default_fg_ansi : N := %d." % fg_default)
    o.append("Definition svg_default_bg_ansi : N := %d.\n" % bg_default)
    o.append("Definition svg_line_height : N := %d.        (* render_svg: let line_height *)" % line_height)
    o.append("Definition svg_padding : N := %d.        (* Term::new: padding_px *)" % fields["padding_px"])
    o.append("Definition svg_min_width : N := %d.        (* Term::new: min_width_px *)" % fields["min_width_px"])
    o.append("Definition svg_font_family : list N := %s.\n" % coq_bytes(font))
    o.append("(* write_bg_span: fill character with / without a background colour *)")
    o.append("Definition svg_fill_on : N := %d." % fill_on)
    o.append("Definition svg_fill_off : N := %d.\n" % fill_off)
    return "\n".join(o)
