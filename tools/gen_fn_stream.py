#!/usr/bin/env python3
"""Function translator, the strip stream: crates/anstream/src/strip.rs -> coq/Generated/StreamFn.v
(C06, C08).

The free functions `offset_to`, `write`, `write_all`, `write_fmt` and the methods
`<StripStream as io::Write>::{write, flush, write_all, write_fmt}` are TRANSLATED (tools/rs2v)
into Gallina over the types of the hand model (Model/Stream.v, Model/Strip.v, Spec/Io.v);
Proofs/StreamGen.v proves the translations equal to the hand model (ss_write, ss_write_all,
ss_write_fmt, ss_op) the theorems of C06 / C08 are about.

Vocabulary (what is NOT translated but named):
  * `raw: &mut dyn io::Write` is the scripted writer of Spec/Io.v; `raw.write(p)` / `raw.write_all(p)`
    / `.flush()` are ss_raw_write / ss_raw_write_all / ss_raw_flush (thread the writer, answer
    io::Result = `T + ekind`);
  * `state.strip_next(buf)` (crates/anstream/src/adapter/strip.rs, another area) is a LAZY iterator:
    cursor sbi_new / step sbi_next over Model/Strip.next_bytes; `.last()` drains it (sb_last);
  * a `&[u8]` cut out of the buffer is a `piece` (offset, bytes): `.len()`, `&p[a..]` (piece_from),
    `.as_ptr()` (piece_addr: the offset; the buffer itself is at buf_addr = 0);
  * `fmt::Arguments` is the list of fragments core::fmt::write hands to write_str.
Pinned by token hash (not translatable), modelled by hand:
  * fmt.rs Adapter::{new, write_fmt, write_str}: std internals (core::fmt::write calls back into a
    `dyn fmt::Write`), hand model fmt_adapter_write_fmt;
  * StripStream::write_vectored: iterator-adapter plumbing over `IoSlice` (find / map / unwrap_or),
    hand model first_nonempty + write."""
import os
import sys

sys.path.insert(0, os.path.dirname(os.path.abspath(__file__)))
from rs2v.driver import translate, TranslateError, token_hash, fn_source   # noqa: E402
from rs2v.emit import EmitError   # noqa: E402

U8, USZ = ("int", "u8"), ("int", "usize")
UNIT = ("unit",)
BYTES = ("list", U8)
PIECE = ("struct", "Piece")
WRITER = ("coq", "writer")
SBYTES = ("struct", "StripBytes")


def res(t):
    return ("res", t)


# -- pieces ---------------------------------------------------------------------
def m_piece_len(em, e, rt, rty, env, k):
    return k("(piece_len %s)" % rt, USZ, env)


def m_piece_as_ptr(em, e, rt, rty, env, k):
    return k("(piece_addr %s)" % rt, USZ, env)


def m_list_as_ptr(em, e, rt, rty, env, k):
    return k("(buf_addr %s)" % rt, USZ, env)


def idx_piece(em, e, base, bty, env, k):
    """&piece[a..]"""
    if e.idx.kind != "range" or e.idx.lo is None or e.idx.hi is not None:
        raise EmitError("only `&piece[a..]` is modelled on a piece of the buffer")
    return em.expr(e.idx.lo, env, lambda lo, _t, env1: em.bind("piece_from %s %s" % (base, lo), bty, env1, k, hint="sl"))


# -- the strip iterator used as a value: state.strip_next(bs).last() ---------------
def m_strip_next(em, e, rt, rty, env, k):
    if len(e.args) != 1:
        raise EmitError("strip_next takes one argument")
    return em.expr(e.args[0], env, lambda a, _t, env1: k("(%s, %s)" % (rt, a), ("sbiter", e.recv, rt, a), env1))


m_strip_next.mutates = True


def m_sbiter_last(em, e, rt, rty, env, k):
    _tag, place, sterm, arg = rty
    if em.pure_mode:
        from rs2v.emit import NeedsBind
        raise NeedsBind()
    o = em.fresh("o")
    r = em.fresh("r")
    return "'(%s, %s) <- sb_last %s %s ;;\n%s" % (o, r, sterm, arg, em.write_place(place, o, env, lambda env1: k(r, ("opt", PIECE), env1)))


# -- fmt::Adapter -----------------------------------------------------------------
def f_adapter_new(em, e, env, k):
    if len(e.args) != 1:
        raise EmitError("Adapter::new takes one argument")

    def k1(t, ty, env1):
        if ty[0] != "closure":
            raise EmitError("Adapter::new: the argument is not a closure")
        return k(t, ("adapter", ty), env1)
    return em.expr(e.args[0], env, k1)


def m_adapter_write_fmt(em, e, rt, rty, env, k):
    cap = list(rty[1][1])
    if len(e.args) != 1:
        raise EmitError("write_fmt takes one argument")

    def k1(a, _t, env1):
        st = em.fresh("st")
        r = em.fresh("r")
        init = em.tuple_of([env1.get(n).coq for n in cap])
        return "'(%s, %s) <- fmt_adapter_write_fmt %s %s %s ;;\n%s" % (
            st, r, rt, init, a, em.unpack_state(cap, st, env1, lambda env2: k(r, res(UNIT), env2)))
    return em.expr(e.args[0], env, k1)


# -- as_locked_write: the lock guard writes through to the writer it was taken from ----
def m_as_locked_write(em, e, rt, rty, env, k):
    return k(rt, rty, env)


VOCAB = {
    "result": {"err": "ekind"},
    "type_alias": {"S": WRITER},
    "enums": {},
    "structs": {
        "StripBytes": {"coq": "sbytes", "var": "sb", "fields": {}, "check": False},
        "Piece": {"coq": "piece", "var": "pc", "fields": {}, "check": False},
        "StripStream": {"coq": "sstream", "var": "ss", "fields": {
            "raw": ("ss_raw", "set_ss_raw", WRITER),
            "state": ("ss_state", "set_ss_state", SBYTES),
        }},
    },
    "consts": {},
    "param_types": {"raw": WRITER, "subslice": PIECE, "args": ("list", BYTES)},
    "lazy_iters": {("StripBytes", "strip_next"): {"new": "sbi_new", "next": "sbi_next", "elt": PIECE}},
    "transparent_places": ["as_locked_write"],
    "index": {"Piece": idx_piece},
    "fuel": {"write": ["(S (length buf))"], "write_all": ["(S (length buf))"]},
    "fns": {"Adapter::new": f_adapter_new},
    "methods": {
        ("Piece", "len"): m_piece_len,
        ("Piece", "as_ptr"): m_piece_as_ptr,
        ("list", "as_ptr"): m_list_as_ptr,
        ("StripBytes", "strip_next"): m_strip_next,
        ("sbiter", "last"): m_sbiter_last,
        ("adapter", "write_fmt"): m_adapter_write_fmt,
        ("coq", "as_locked_write"): m_as_locked_write,
        ("coq", "write"): {"coq": "ss_raw_write", "self": "inout", "params": [("in", PIECE)], "ret": res(USZ), "total": True, "cfg": False},
        ("coq", "write_all"): {"coq": "ss_raw_write_all", "self": "inout", "params": [("in", PIECE)], "ret": res(UNIT), "total": True, "cfg": False},
        ("coq", "flush"): {"coq": "ss_raw_flush", "self": "inout", "params": [], "ret": res(UNIT), "total": True, "cfg": False},
    },
    "opaque": {},
}

HEADER = "(* GENERATED by tools/gen_fn_stream.py (tools/rs2v) from crates/anstream/src/strip.rs -- do not edit *)"
REQ = """From Coq Require Import NArith List Bool.
From AV Require Import Generated.Table Spec.Io Model.Base Model.Imp Model.Utf8parse Model.Parser Model.Strip Model.Stream.
Import ListNotations.
Local Open Scope N_scope.
Local Open Scope bool_scope."""

# not translatable: modelled by hand, pinned by token hash
PIN_WRITE_VECTORED = "4c2c6140858fd76f"
PIN_ADAPTER_NEW = "856f405c1642d2d6"
PIN_ADAPTER_WRITE_FMT = "bbcad76b79fd5228"
PIN_ADAPTER_WRITE_STR = "c58742b90b00d3c8"


def register(generators, gm):
    def gen():
        try:
            src = gm.read("crates/anstream/src/strip.rs")
            fmt = gm.read("crates/anstream/src/fmt.rs")
            v = dict(VOCAB)
            # iterator-adapter plumbing over IoSlice (find / map / unwrap_or): hand model first_nonempty
            v["opaque"] = {"StripStream::write_vectored": PIN_WRITE_VECTORED}
            tr = {"trait": "Write"}
            out = translate(src, v, [
                ("offset_to", None, "g_offset_to", {}),
                ("write", None, "g_write", {}),
                ("write_all", None, "g_write_all", {}),
                ("write_fmt", None, "g_write_fmt", {}),
                ("write", "StripStream", "g_ss_write", tr),
                ("flush", "StripStream", "g_ss_flush", tr),
                ("write_all", "StripStream", "g_ss_write_all", tr),
                ("write_fmt", "StripStream", "g_ss_write_fmt", tr),
            ], HEADER, REQ, {})
            # std internals (core::fmt::write calling back into a `dyn fmt::Write`): hand model fmt_adapter_write_fmt
            for name, pin in (("new", PIN_ADAPTER_NEW), ("write_fmt", PIN_ADAPTER_WRITE_FMT), ("write_str", PIN_ADAPTER_WRITE_STR)):
                h = token_hash(fn_source(fmt, name, "Adapter"))
                if h != pin:
                    raise TranslateError("fmt::Adapter::%s changed (token hash %s, pinned %s): it is modelled by hand (fmt_adapter_write_fmt) and must be re-read" % (name, h, pin))
            return out + "\n"
        except TranslateError as e:
            raise gm.GenError(str(e))
    generators["StreamFn"] = gen
