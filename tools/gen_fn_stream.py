#!/usr/bin/env python3
"""Function translator, the strip stream: crates/anstream/src/strip.rs -> coq/Generated/StreamFn.v
(C06, C08).

The free functions `offset_to`, `write`, `write_all`, `write_fmt` and the methods
`<StripStream as io::Write>::{write, flush, write_all, write_fmt}` are TRANSLATED (tools/rs2v)
into Gallina over the types of the hand model (Model/Stream.v, Model/Strip.v, Spec/Io.v);
Proofs/StreamGen.v proves the translations equal to the hand model (ss_write, ss_write_all,
ss_write_fmt, ss_op) the theorems of C06 / C08 are about.

Vocabulary (what is NOT translated but named):
  * `raw: &mut dyn io::Write` is the scripted writer of Spec/Io.v; `raw.write(p)` / `raw.write_all(p)`
    / `.flush()` are ss_raw_write / ss_raw_write_all / ss_raw_flush (thread the writer, answer
    io::Result = `T + ekind`);
  * `state.strip_next(buf)` (crates/anstream/src/adapter/strip.rs, another area) is a LAZY iterator:
    cursor sbi_new / step sbi_next over Model/Strip.next_bytes; `.last()` drains it (sb_last);
  * a `&[u8]` cut out of the buffer is a `piece` (offset, bytes): `.len()`, `&p[a..]` (piece_from),
    `.as_ptr()` (piece_addr: the offset; the buffer itself is at buf_addr = 0);
  * `fmt::Arguments` is the list of fragments core::fmt::write hands to write_str.
Pinned by token hash (not translatable), modelled by hand:
  * fmt.rs Adapter::{new, write_fmt, write_str}: std internals (core::fmt::write calls back into a
    `dyn fmt::Write`), hand model fmt_adapter_write_fmt;
  * StripStream::write_vectored: iterator-adapter plumbing over `IoSlice` (find / map / unwrap_or),
    hand model first_nonempty + write."""
import os
import sys

sys.path.insert(0, os.path.dirname(os.path.abspath(__file__)))
from rs2v.driver import translate, TranslateError, token_hash, fn_source   # noqa: E402
from rs2v.emit import EmitError   # noqa: E402

U8, USZ = ("int", "u8"), ("int", "usize")
UNIT = ("unit",)
BYTES = ("list", U8)
PIECE = ("struct", "Piece")
WRITER = ("coq", "writer")
SBYTES = ("struct", "StripBytes")


def res(t):
    return ("res", t)


# -- pieces ---------------------------------------------------------------------
def m_piece_len(em, e, rt, rty, env, k):
    return k("(piece_len %s)" % rt, USZ, env)


def m_piece_as_ptr(em, e, rt, rty, env, k):
    return k("(piece_addr %s)" % rt, USZ, env)


def m_list_as_ptr(em, e, rt, rty, env, k):
    return k("(buf_addr %s)" % rt, USZ, env)


def idx_piece(em, e, base, bty, env, k):
    """&piece[a..]"""
    if e.idx.kind != "range" or e.idx.lo is None or e.idx.hi is not None:
        raise EmitError("only `&piece[a..]` is modelled on a piece of the buffer")
    return em.expr(e.idx.lo, env, lambda lo, _t, env1: em.bind("piece_from %s %s" % (base, lo), bty, env1, k, hint="sl"))


# -- the strip iterator used as a value: state.strip_next(bs).last() ---------------
def m_strip_next(em, e, rt, rty, env, k):
    if len(e.args) != 1:
        raise EmitError("strip_next takes one argument")
    return em.expr(e.args[0], env, lambda a, _t, env1: k("(%s, %s)" % (rt, a), ("sbiter", e.recv, rt, a), env1))


m_strip_next.mutates = True


def m_sbiter_last(em, e, rt, rty, env, k):
    _tag, place, sterm, arg = rty
    if em.pure_mode:
        from rs2v.emit import NeedsBind
        raise NeedsBind()
    o = em.fresh("o")
    r = em.fresh("r")
    return "'(%s, %s) <- sb_last %s %s ;;\n%s" % (o, r, sterm, arg, em.write_place(place, o, env, lambda env1: k(r, ("opt", PIECE), env1)))


# -- fmt::Adapter -----------------------------------------------------------------
def f_adapter_new(em, e, env, k):
    if len(e.args) != 1:
        raise EmitError("Adapter::new takes one argument")

    def k1(t, ty, env1):
        if ty[0] != "closure":
            raise EmitError("Adapter::new: the argument is not a closure")
        return k(t, ("adapter", ty), env1)
    return em.expr(e.args[0], env, k1)


def m_adapter_write_fmt(em, e, rt, rty, env, k):
    """`Adapter::new(closure).write_fmt(args)`: the TRANSLATED functions of fmt.rs (Generated/FmtFn.v, tools/gen_fn_fmt.py).
    The closure value is the emitted code paired with the current values of the variables it captures (`&mut` borrows
    of the caller's variables); afterwards those variables are rebound to what the closure left in the adapter"""
    cap = list(rty[1][1])
    if len(e.args) != 1:
        raise EmitError("write_fmt takes one argument")

    def k1(a, _t, env1):
        ad = em.fresh("ad")
        r = em.fresh("r")
        init = em.tuple_of([env1.get(n).coq for n in cap])
        return "'(%s, %s) <- g_adapter_write_fmt _ (g_adapter_new _ (%s, %s)) %s ;;\n%s" % (
            ad, r, rt, init, a, em.unpack_state(cap, "(snd (fa_writer _ %s))" % ad, env1, lambda env2: k(r, res(UNIT), env2)))
    return em.expr(e.args[0], env, k1)


# -- write_vectored: bufs.iter().find(|b| !b.is_empty()).map(|b| &**b).unwrap_or(&[][..]) -------------------------
def pure_closure(em, e, elt, env, what):
    """one-parameter closure without effects -> (Gallina function text, result type)"""
    if len(e.args) != 1 or e.args[0].kind != "closure" or len(e.args[0].params) != 1:
        raise EmitError("%s needs a one-parameter closure" % what)
    cl = e.args[0]
    p = cl.params[0][0]
    while p.kind == "pref":
        p = p.inner
    if p.kind != "pident":
        raise EmitError("%s: closure parameter pattern" % what)
    c = em.fresh(p.name)
    pr = em.try_pure(cl.body, env.bind(p.name, c, elt))
    if pr is None:
        raise EmitError("%s: the closure can panic or assigns a captured variable" % what)
    return "(fun %s => %s)" % (c, pr[0]), pr[1]


def m_list_find(em, e, rt, rty, env, k):
    """`slice.iter().find(|x| pred)`: the first element that satisfies the predicate (Coq's List.find)"""
    f, ty = pure_closure(em, e, rty[1], env, "Iterator::find")
    if ty != ("bool",):
        raise EmitError("Iterator::find: the closure does not answer a bool")
    return k("(find %s %s)" % (f, rt), ("opt", rty[1]), env)


def m_opt_map(em, e, rt, rty, env, k):
    f, ty = pure_closure(em, e, rty[1], env, "Option::map")
    return k("(option_map %s %s)" % (f, rt), ("opt", ty), env)


# -- as_locked_write: the lock guard writes through to the writer it was taken from ----
def m_as_locked_write(em, e, rt, rty, env, k):
    return k(rt, rty, env)


VOCAB = {
    "for_ret_state": True,     # a `return` inside an eager `for` carries the loop variables (the stream that was written to)
    "result": {"err": "ekind"},
    "type_alias": {"S": WRITER, "IoSlice": BYTES},
    "enums": {},
    "structs": {
        "StripBytes": {"coq": "sbytes", "var": "sb", "fields": {}, "check": False},
        "Piece": {"coq": "piece", "var": "pc", "fields": {}, "check": False},
        "StripStream": {"coq": "sstream", "var": "ss", "fields": {
            "raw": ("ss_raw", "set_ss_raw", WRITER),
            "state": ("ss_state", "set_ss_state", SBYTES),
        }},
    },
    "consts": {},
    "param_types": {"raw": WRITER, "subslice": PIECE, "args": ("list", BYTES)},
    "lazy_iters": {("StripBytes", "strip_next"): {"new": "sbi_new", "next": "sbi_next", "elt": PIECE}},
    # `let x = loop { .. break v; .. }` and a `return` inside `loop` / `while` that carries the loop variables: neither
    # construct occurs in the unchanged strip.rs (the output is byte-identical), rewrites of `write` use them
    "loop_break_value": True,
    "loop_ret_state": True,
    "transparent_places": ["as_locked_write"],
    "index": {"Piece": idx_piece},
    "fuel": {"write": ["(S (length buf))"], "write_all": ["(S (length buf))"]},
    "fns": {"Adapter::new": f_adapter_new},
    "methods": {
        ("list", "find"): m_list_find,
        ("opt", "map"): m_opt_map,
        ("Piece", "len"): m_piece_len,
        ("Piece", "as_ptr"): m_piece_as_ptr,
        ("list", "as_ptr"): m_list_as_ptr,
        ("StripBytes", "strip_next"): m_strip_next,
        ("sbiter", "last"): m_sbiter_last,
        ("adapter", "write_fmt"): m_adapter_write_fmt,
        ("coq", "as_locked_write"): m_as_locked_write,
        ("coq", "write"): {"coq": "ss_raw_write", "self": "inout", "params": [("in", PIECE)], "ret": res(USZ), "total": True, "cfg": False},
        ("coq", "write_all"): {"coq": "ss_raw_write_all", "self": "inout", "params": [("in", PIECE)], "ret": res(UNIT), "total": True, "cfg": False},
        ("coq", "flush"): {"coq": "ss_raw_flush", "self": "inout", "params": [], "ret": res(UNIT), "total": True, "cfg": False},
    },
    "opaque": {},
}

HEADER = "(* GENERATED by tools/gen_fn_stream.py (tools/rs2v) from crates/anstream/src/strip.rs -- do not edit *)"
REQ = """From Coq Require Import NArith List Bool.
From AV Require Import Generated.Table Spec.Io Model.Base Model.Imp Model.Utf8parse Model.Parser Model.Strip Model.Stream
  Generated.FmtFn.
Import ListNotations.
Local Open Scope N_scope.
Local Open Scope bool_scope."""

# fmt.rs (Adapter::{new, write_fmt, write_str}) is translated by tools/gen_fn_fmt.py (Generated/FmtFn.v): the generated
# write_fmt of strip.rs / wincon.rs CALLS g_adapter_new / g_adapter_write_fmt; the generators below read fmt.rs too, so
# that tools/inventory.py and the checks see the dependency


def register(generators, gm):
    def gen():
        try:
            src = gm.read("crates/anstream/src/strip.rs")
            import gen_fn_fmt
            gen_fn_fmt.fmt_shapes(gm.read("crates/anstream/src/fmt.rs"))      # a fmt.rs that does not translate is a GEN-ERROR here too
            v = dict(VOCAB)
            # iterator-adapter plumbing over IoSlice (find / map / unwrap_or): hand model first_nonempty
            tr = {"trait": "Write"}
            out = translate(src, v, [
                ("offset_to", None, "g_offset_to", {}),
                ("write", None, "g_write", {}),
                ("write_all", None, "g_write_all", {}),
                ("write_fmt", None, "g_write_fmt", {}),
                ("write", "StripStream", "g_ss_write", tr),
                ("flush", "StripStream", "g_ss_flush", tr),
                ("write_all", "StripStream", "g_ss_write_all", tr),
                ("write_fmt", "StripStream", "g_ss_write_fmt", tr),
                ("write_vectored", "StripStream", "g_ss_write_vectored", tr),
            ], HEADER, REQ, {})
            return out + "\n"
        except TranslateError as e:
            raise gm.GenError(str(e))
    generators["StreamFn"] = gen
    register_wincon(generators, gm)


# ===================================================================================
# crates/anstream/src/wincon.rs -> coq/Generated/WinconStreamFn.v (C18)
#
# TRANSLATED: cap_wincon_color, write_all, write, write_fmt and
# <WinconStream as io::Write>::{write, flush, write_all, write_fmt}; hand model Model/WinconStream.v,
# proofs Proofs/WinconStreamGen.v.  Vocabulary: `raw: &mut dyn anstyle_wincon::WinconStream` is the
# scripted console (`write_colored` = con_write_colored, `flush` = wc_raw_flush); `state.extract_next(buf)`
# (crates/anstream/src/adapter/wincon.rs, another area) is a LAZY iterator (wci_enter / wci_new / wci_next
# over Model/Wincon.wincon_next); `printable.as_bytes()` is str_bytes (the model keeps runs as code points);
# Style::get_fg_color / get_bg_color are the record fields; Ansi256Color::into_ansi is idx_into_ansi;
# io::Error::new(kind, msg) is the kind.  Pinned: write_vectored, fmt::Adapter (as for strip.rs).
CONSOLE = ("coq", "console")
WBYTES = ("struct", "WinconBytes")
STYLE = ("struct", "Style")
COLOR = ("enum", "Color")
EKIND = ("enum", "ErrorKind")
CHARS = ("list", ("int", "char"))
ANSI = ("int", "u8")


def m_get_fg(em, e, rt, rty, env, k):
    return k("(s_fg %s)" % rt, ("opt", COLOR), env)


def m_get_bg(em, e, rt, rty, env, k):
    return k("(s_bg %s)" % rt, ("opt", COLOR), env)


def m_opt_and_then(em, e, rt, rty, env, k):
    a = e.args[0] if len(e.args) == 1 else None
    if a is None or a.kind != "path" or em.fn_shapes.get(a.segs[-1]) is None:
        raise EmitError("and_then: only a translated function is modelled as the argument")
    shape = em.fn_shapes[a.segs[-1]]
    if shape.get("self") or len(shape["params"]) != 1 or shape["ret"][0] != "opt":
        raise EmitError("and_then: unexpected shape of %s" % a.segs[-1])
    x = em.fresh("x")
    if shape["total"]:
        return k("(match %s with Some %s => %s %s | None => None end)" % (rt, x, shape["coq"], x), shape["ret"], env)
    return em.bind("(match %s with Some %s => %s %s | None => Some None end)" % (rt, x, shape["coq"], x), shape["ret"], env, k, hint="a")


def m_str_as_bytes(em, e, rt, rty, env, k):
    if rty != CHARS:
        raise EmitError("as_bytes on %r" % (rty,))
    return k("(str_bytes %s)" % rt, BYTES, env)


def m_into_ansi(em, e, rt, rty, env, k):
    return k("(idx_into_ansi %s)" % rt, ("opt", ANSI), env)


def m_err_kind(em, e, rt, rty, env, k):
    return k(rt, rty, env)


def f_error_new(em, e, env, k):
    if len(e.args) != 2:
        raise EmitError("io::Error::new takes two arguments")
    return em.expr(e.args[0], env, k)


def _cond_lists(x, env, acc):
    """the one-segment paths of a loop condition that name a byte slice / list variable, in order"""
    if isinstance(x, (list, tuple)):
        for y in x:
            _cond_lists(y, env, acc)
    elif hasattr(x, "kind") and hasattr(x, "__dict__"):
        if x.kind == "path" and len(x.segs) == 1:
            v = env.get(x.segs[0])
            if v is not None and v.ty[0] == "list" and x.segs[0] not in acc:
                acc.append(x.segs[0])
        for kk, vv in x.__dict__.items():
            if kk != "kind":
                _cond_lists(vv, env, acc)
    return acc


def wc_inner_fuel(env, cond=None):
    # std's bound for a write_all-style loop: every iteration consumes a script entry or the buffer.  The buffer is the
    # slice the loop condition tests (`while !buf.is_empty()`, whatever the local is called; the parameter `buf` of the
    # function is a different, shorter or longer, thing); fuel is never trusted -- a loop that runs out answers None
    names = _cond_lists(cond, env, []) if cond is not None else []
    if len(names) != 1:
        if env.get("buf") is None:
            raise EmitError("write_all: the inner loop's condition names no single byte slice to bound it by")
        names = ["buf"]
    return "(S (length (con_script %s) + length %s))" % (env.get("raw").coq, env.get(names[0]).coq)


WVOCAB = {
    "for_ret_state": True,     # a `return` inside an eager `for` carries the loop variables (the stream that was written to)
    "result": {"err": "ekind", "enum": "ErrorKind"},
    "loop_ret_state": True,
    "no_transparent": ["as_bytes"],
    "type_alias": {"S": CONSOLE, "AnsiColor": ANSI, "IoSlice": BYTES},
    "enums": {
        "Color": {"coq": "colour", "variants": {}, "payload": {"Ansi": ("CAnsi", [ANSI]), "Ansi256": ("CIdx", [ANSI]), "Rgb": ("CRgb", 3)}},
        "ErrorKind": {"coq": "ekind", "eqb": "ekind_eqb", "variants": {x: x for x in ("Interrupted", "WouldBlock", "Other", "WriteZero")}},
    },
    "structs": {
        "WinconBytes": {"coq": "wstream", "var": "wb", "fields": {}, "check": False},
        "Style": {"coq": "sstyle", "var": "sty", "fields": {}, "check": False},
        "WinconStream": {"coq": "wcstream", "var": "ws", "fields": {
            "raw": ("wcs_raw", "set_wcs_raw", CONSOLE),
            "state": ("wcs_state", "set_wcs_state", WBYTES),
        }},
    },
    "consts": {},
    "param_types": {"raw": CONSOLE, "args": ("list", BYTES)},
    "lazy_iters": {("WinconBytes", "extract_next"): {"enter": "wci_enter", "new": "wci_new", "next": "wci_next", "elt": ("tuple", (STYLE, CHARS))}},
    "transparent_places": ["as_locked_write"],
    "fuel": {"write_all": ["(S (S (length buf)))", wc_inner_fuel]},
    "fns": {"Adapter::new": f_adapter_new, "Error::new": f_error_new},
    "methods": {
        ("Style", "get_fg_color"): m_get_fg,
        ("Style", "get_bg_color"): m_get_bg,
        ("opt", "and_then"): m_opt_and_then,
        ("list", "find"): m_list_find,
        ("opt", "map"): m_opt_map,
        ("list", "as_bytes"): m_str_as_bytes,
        ("int", "into_ansi"): m_into_ansi,
        ("ErrorKind", "kind"): m_err_kind,
        ("adapter", "write_fmt"): m_adapter_write_fmt,
        ("coq", "as_locked_write"): m_as_locked_write,
        ("coq", "write_colored"): {"coq": "con_write_colored", "self": "inout", "params": [("in", ("opt", ANSI)), ("in", ("opt", ANSI)), ("in", BYTES)],
                                   "ret": res(USZ), "total": True, "cfg": False},
        ("coq", "flush"): {"coq": "wc_raw_flush", "self": "inout", "params": [], "ret": res(UNIT), "total": True, "cfg": False},
    },
    "opaque": {},
}

def m_con_is_terminal(em, e, rt, rty, env, k):
    if e.args:
        raise EmitError("is_terminal takes no argument")
    return k("(con_is_terminal %s %s)" % (em.v["config_param"][0], rt), ("bool",), env)


def m_con_lock(em, e, rt, rty, env, k):
    if e.args:
        raise EmitError("lock takes no argument")
    return k("(con_lock %s)" % rt, CONSOLE, env)


# wincon.rs: WinconStream::{new, into_inner, is_terminal, lock}: the raw stream (`S`, Stdout, StdoutLock, ..) is the scripted
# console; what it answers to is_terminal() is the config parameter (as for StripStream in tools/gen_fn_auto.py);
# `state: Default::default()` of the Box<WinconBytes> field is ws_new (Model/WinconStream.v; = the TRANSLATED
# WinconBytes::new, Proofs/WinconStreamGen.v ws_new_is_translated_new)
WV_CTOR = {
    "config_param": ("cf", "acfg"),
    "reserved": ["cf"],
    "type_alias": {n: CONSOLE for n in ("S", "Stdout", "Stderr", "StdoutLock", "StderrLock")},
    "enums": {},
    "structs": {
        "WinconBytes": {"coq": "wstream", "var": "wb", "fields": {}, "check": False},
        "WinconStream": {"coq": "wcstream", "var": "ws", "ctor": ("mkWCS", ["raw", "state"]), "fields": {
            "raw": ("wcs_raw", "set_wcs_raw", CONSOLE),
            "state": ("wcs_state", "set_wcs_state", WBYTES),
        }},
    },
    "defaults": {repr(WBYTES): "ws_new"},
    "consts": {},
    "fns": {},
    "methods": {("coq", "is_terminal"): m_con_is_terminal, ("coq", "lock"): m_con_lock},
    "opaque": {},
}

WHEADER = "(* GENERATED by tools/gen_fn_stream.py (tools/rs2v) from crates/anstream/src/wincon.rs -- do not edit *)"
WREQ = """From Coq Require Import NArith List Bool.
From AV Require Import Generated.Table Spec.Utf8 Spec.Vt Spec.Sgr Spec.Io Model.Base Model.Imp Model.Utf8parse Model.Parser
  Model.Strip Model.Wincon Model.Stream Model.WinconStream Generated.FmtFn.
Import ListNotations.
Local Open Scope N_scope.
Local Open Scope bool_scope."""



def register_wincon(generators, gm):
    def gen():
        try:
            src = gm.read("crates/anstream/src/wincon.rs")
            import gen_fn_fmt
            gen_fn_fmt.fmt_shapes(gm.read("crates/anstream/src/fmt.rs"))      # a fmt.rs that does not translate is a GEN-ERROR here too
            v = dict(WVOCAB)
            tr = {"trait": "Write"}
            out = translate(src, v, [
                ("cap_wincon_color", None, "g_cap_wincon_color", {}),
                ("write_all", None, "g_wc_write_all", {}),
                ("write", None, "g_wc_write", {}),
                ("write_fmt", None, "g_wc_write_fmt", {}),
                ("write", "WinconStream", "g_wcs_write", tr),
                ("flush", "WinconStream", "g_wcs_flush", tr),
                ("write_all", "WinconStream", "g_wcs_write_all", tr),
                ("write_fmt", "WinconStream", "g_wcs_write_fmt", tr),
                ("write_vectored", "WinconStream", "g_wcs_write_vectored", tr),
            ], WHEADER, WREQ, {})
            # the constructors / accessors: WinconStream::{new, into_inner, is_terminal, lock (Stdout), lock (Stderr)}
            out += "\n" + translate(src, WV_CTOR, [
                ("new", "WinconStream", "g_wcs_new", {}),
                ("into_inner", "WinconStream", "g_wcs_into_inner", {}),
                ("is_terminal", "WinconStream", "g_wcs_is_terminal", {}),
                ("lock", "WinconStream", "g_wcs_lock_stdout", {"target_arg": "Stdout", "key": "WinconStream::lock_stdout"}),
                ("lock", "WinconStream", "g_wcs_lock_stderr", {"target_arg": "Stderr", "key": "WinconStream::lock_stderr"}),
            ], "", "", {})
            return out + "\n"
        except TranslateError as e:
            raise gm.GenError(str(e))
    generators["WinconStreamFn"] = gen
