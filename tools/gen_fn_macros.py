#!/usr/bin/env python3
"""Function translator, the print macros of anstream (C08, C09, C19):

  crates/anstream/src/_macros.rs   to_adapted_string, the const FEATURE_TEST_ACTIVATED and EVERY arm of the
                                   `macro_rules!` items print! / println! / eprint! / eprintln! / panic!
  -> coq/Generated/MacrosFn.v      (generator name MacrosFn)

rs2v skips `macro_rules` items.  This plug-in has a small READER for them (read_macro_rules): the token stream of the file
is cut into `macro_rules! <name> { (<pattern>) => {<body>}; .. }`, every arm's pattern must be `()` or `($($arg:tt)*)`
(anything else is a GEN-ERROR), and the body of arm number i becomes the body of a synthesised function

    fn <name>_arm<i>(world: &mut World [, args: Arguments]) <body>

after two token rewrites, which are exactly what macro expansion does: `$crate` -> `crate` and the repetition `$($arg)*`
-> the identifier `args` (the caller's format arguments, whatever they are: a value of type fmt::Arguments = the list of
fragments `core::fmt::write` hands to `write_str`, as everywhere in the stream area).  The synthesised function is
parsed by the ordinary rs2v parser and translated by the ordinary emitter: `if`, `let`, `match` with guard and
or-pattern, the calls of `crate::stdout()` / `crate::stderr()` (TRANSLATED in Generated/GlueFn.v), of
`crate::_macros::to_adapted_string` (translated here, just above) and of the sibling macro `crate::print!("\\n")` (= the
translated arm of that macro, applied to the fragments of the literal).

What a macro call DOES to the process is recorded in `world : list mevent` (Model/Glue.v), threaded like every `&mut`:
  * `::std::write!(&mut s, <args>)` / `::std::writeln!(..)` = ONE call `AutoStream::write_fmt` (std's definition of the two
    macros; TRANSLATED in Generated/AutoFn.v: g_as_write_fmt) on the place `s`; the event MWriteFmt records the stream
    AFTER the call and the io::Result; `writeln!` passes `fmt_nl args` (`format_args_nl!`: the same arguments with "\\n"
    appended to the format string -- a parameter of the translation, the theorems hold for every such function);
  * `::std::print!("{}", b)` / println / eprint / eprintln = MStdPrint <stderr?> <newline?> b (std's own macros: std's lock,
    std's panic on error -- outside the repository);
  * `::std::panic!(..)` = the event MPanic / MPanicIo / MPanicExplicit, after which the function RETURNS (the thread unwinds).
Configuration: `cfg!(test)` and `cfg!(feature = "test")` (the value of FEATURE_TEST_ACTIVATED, translated from the const
item) are the parameters cfg_test / feat_test of every arm, so BOTH paths are translated; the raw streams' answers are
`cf` (stdout / stderr, as in GlueFn / AutoFn), `cfv` (the Vec<u8> inside to_adapted_string) and `ch` (what `choice(&raw)`
answers for the raw stream to_adapted_string is handed: which stream is asked stays visible);
`String::from_utf8_lossy` is the parameter from_utf8_lossy (std, total; the theorems hold for every such function)."""
import os
import re
import sys

sys.path.insert(0, os.path.dirname(os.path.abspath(__file__)))
from rs2v.driver import translate, TranslateError   # noqa: E402
from rs2v import driver as drv   # noqa: E402
from rs2v.emit import EmitError, Emitter, NeedsBind, ind   # noqa: E402
from rs2v.lexer import tokenize, Tok, LexError   # noqa: E402
from rs2v.rparser import Parser, ParseError, parse_file, find_items, parse_macro_args, N   # noqa: E402
import gen_fn_auto   # noqa: E402
import gen_fn_glue   # noqa: E402

U8 = ("int", "u8")
UNIT, BOOL = ("unit",), ("bool",)
BYTES = ("list", U8)
FRAGS = ("list", BYTES)
WRITER = ("coq", "writer")
ASTREAM = gen_fn_auto.ASTREAM
CHOICE = gen_fn_auto.CHOICE
WORLD = ("coq", "(list mevent)")
EKIND = ("enum", "ErrorKind")
ERROR = ("coq", "ekind")

MACROS = ["print", "println", "eprint", "eprintln", "panic"]
# the binders every translated arm gets in front of `cf` (text replace, as tools/gen_fn_glue.py does for `tit`)
ARM_BINDERS = ("(from_utf8_lossy : list N -> list N) (fmt_nl : list (list N) -> list (list N)) (cfg_test feat_test : bool) (cfv : acfg) "
               "(ch : writer -> cchoice) (cf : acfg)")
ARM_ARGS = "from_utf8_lossy fmt_nl cfg_test feat_test cfv ch"      # + the config parameter `cf`, appended by call_shape


# -- the macro_rules reader -------------------------------------------------------------------------------------
CLOSE = {"(": ")", "[": "]", "{": "}"}


def group(toks, i):
    """toks[i] opens a bracket: (index after the matching close, the tokens in between)"""
    if toks[i].kind != "punct" or toks[i].text not in CLOSE:
        raise TranslateError("macro_rules reader: expected a bracket, found %r" % toks[i].text)
    depth, j = 0, i
    while True:
        x = toks[j]
        if x.kind == "eof":
            raise TranslateError("macro_rules reader: unbalanced brackets")
        if x.kind == "punct" and x.text in CLOSE:
            depth += 1
        elif x.kind == "punct" and x.text in CLOSE.values():
            depth -= 1
            if depth == 0:
                return j + 1, toks[i + 1:j]
        j += 1


def read_macro_rules(src):
    """{macro name: (attributes, [(pattern tokens, body tokens)])} of every top-level `macro_rules!` item"""
    try:
        toks = tokenize(src)
    except LexError as e:
        raise TranslateError("lex error: %s" % e)
    out = {}
    i, depth = 0, 0
    while toks[i].kind != "eof":
        t = toks[i]
        if t.kind == "punct" and t.text in CLOSE:
            depth += 1
        elif t.kind == "punct" and t.text in CLOSE.values():
            depth -= 1
        if depth == 0 and t.kind == "ident" and t.text == "macro_rules" and toks[i + 1].text == "!":
            attrs = []
            j = i - 1
            while j >= 0 and toks[j].kind == "attr":
                attrs.insert(0, toks[j].text.replace(" ", ""))
                j -= 1
            name = toks[i + 2].text
            if toks[i + 2].kind != "ident" or name in out:
                raise TranslateError("macro_rules reader: macro name %r (duplicate, or no identifier)" % name)
            end, inner = group(toks, i + 3)
            inner = inner + [Tok("eof", "", 0)]
            arms, p = [], 0
            while inner[p].kind != "eof":
                p, pat = group(inner, p)
                if inner[p].text != "=>":
                    raise TranslateError("macro_rules! %s: expected `=>` after the pattern" % name)
                p, body = group(inner, p + 1)
                arms.append((pat, body))
                if inner[p].kind == "punct" and inner[p].text == ";":
                    p += 1
                elif inner[p].kind != "eof":
                    raise TranslateError("macro_rules! %s: expected `;` between arms" % name)
            out[name] = (attrs, arms)
            i = end
            continue
        i += 1
    return out


def texts(toks):
    return [t.text for t in toks]


def arm_fn(name, idx, pat, body):
    """the function an arm stands for: (fn node, has the `args` parameter)"""
    pt = texts(pat)
    if pt == []:
        has_args = False
    elif pt == ["$", "(", "$", "arg", ":", "tt", ")", "*"]:
        has_args = True
    else:
        raise TranslateError("macro_rules! %s, arm %d: pattern `%s` (only `()` and `($($arg:tt)*)` are modelled)" % (name, idx, " ".join(pt)))
    out, i = [], 0
    while i < len(body):
        t = body[i]
        if t.kind == "punct" and t.text == "$":
            nxt = texts(body[i + 1:i + 6])
            if nxt[:1] == ["crate"]:
                out.append(Tok("ident", "crate", t.pos))
                i += 2
                continue
            if has_args and nxt == ["(", "$", "arg", ")", "*"]:
                out.append(Tok("ident", "args", t.pos))
                i += 6
                continue
            raise TranslateError("macro_rules! %s, arm %d: metavariable use `$%s` (only `$crate` and `$($arg)*` are modelled)" % (name, idx, " ".join(nxt[:5])))
        out.append(t)
        i += 1
    if any(t.kind == "ident" and t.text in ("args", "world") for t in body):
        raise TranslateError("macro_rules! %s, arm %d: the body uses the identifier `args` / `world` itself" % (name, idx))
    fname = "%s_arm%d" % (name, idx)
    head = tokenize("fn %s(world: &mut World%s)" % (fname, ", args: Arguments" if has_args else ""))[:-1]
    is_block = len(out) >= 2 and out[0].text == "{" and group(out + [Tok("eof", "", 0)], 0)[0] == len(out)
    if not is_block:
        out = [Tok("punct", "{", 0)] + out + [Tok("punct", "}", 0)]
    p = Parser("")
    p.toks = head + out + [Tok("eof", "", 0)]
    p.i = 0
    try:
        fn = p.item()
        if p.t.kind != "eof":
            p.err("trailing tokens after the arm's body")
    except ParseError as e:
        raise TranslateError("macro_rules! %s, arm %d: %s" % (name, idx, e))
    return fn, has_args


# -- vocabulary --------------------------------------------------------------------------------------------------
def fmt_literal(toks, what):
    """the tokens of `"<literal>" [, args..]`: (literal bytes, [argument expressions])"""
    args = parse_macro_args(toks)
    if not args or args[0].kind != "str":
        raise EmitError("%s: the first argument is no string literal" % what)
    return bytes(args[0].val), args[1:]


def coq_bytes(bs):
    return "[" + "; ".join(str(b) for b in bs) + "]"


def world_append(em, env, ev, k):
    w = env.get("world")
    if w is None:
        raise EmitError("an effect outside a macro arm (no `world`)")
    return em.write_place(N("path", segs=["world"]), "(%s ++ [%s])" % (w.coq, ev), env, k)


def mac_write_to(nl):
    """`::std::write!(<dst>, ..)` / `::std::writeln!(<dst>, ..)`: std defines them as `<dst>.write_fmt(format_args!(..))` /
    `<dst>.write_fmt(format_args_nl!(..))` -- ONE call of the TRANSLATED AutoStream::write_fmt on the place <dst>"""
    def mac(em, e, env, k):
        if e.name not in ("::std::write", "::std::writeln", "std::write", "std::writeln"):
            raise EmitError("macro %s!: only std's write! / writeln! are modelled" % e.name)
        args = parse_macro_args(e.toks)
        if len(args) != 2:
            raise EmitError("%s!: expected (<destination>, <format arguments>)" % e.name)
        dst = args[0]
        while dst.kind in ("unary", "paren") and (dst.kind == "paren" or dst.op in ("&mut", "&")):
            dst = dst.e
        if em.place_root(dst) is None:
            raise EmitError("%s!: the destination is no place" % e.name)
        if em.pure_mode:
            raise NeedsBind()
        if args[1].kind == "path" and args[1].segs == ["args"]:
            fr = N("path", segs=["args"])
        elif args[1].kind == "str" and bytes(args[1].val) == b"{display}":
            # to_adapted_string: `write!(&mut stream, "{display}")` -- the fragments the Display value writes
            fr = N("path", segs=["display"])
        else:
            raise EmitError("%s!: the format arguments must be the macro's own `$($arg)*` (or \"{display}\")" % e.name)

        def k_fr(ft, fty, env1):
            if fty != FRAGS:
                raise EmitError("%s!: format arguments of type %r" % (e.name, fty))
            shape = em.fn_shapes.get("AutoStream::write_fmt")

            def k_call(r, rty, env2):
                if env2.get("world") is None:
                    return k(r, rty, env2)
                return em.expr(dst, env2, lambda st, _sty, env3: world_append(em, env3, "MWriteFmt %s %s" % (st, r), lambda env4: k(r, rty, env4)))

            def k_dst(_dt, dty, env2):
                if dty != ASTREAM:
                    raise EmitError("%s!: the destination has type %r, only AutoStream is modelled" % (e.name, dty))
                arg = N("term", term="(fmt_nl %s)" % ft if nl else ft, ty=FRAGS)
                return em.call_shape(shape, dst, [arg], env2, k_call)
            return em.expr(dst, env1, k_dst)
        return em.expr(fr, env, k_fr)

    def writes(node):
        try:
            args = parse_macro_args(node.toks)
        except ParseError:
            return []
        d = args[0]
        while d.kind in ("unary", "paren"):
            d = d.e
        return [d, N("path", segs=["world"])]
    mac.writes = writes
    return mac


def mac_std_print(err, nl):
    std = ("e" if err else "") + "print" + ("ln" if nl else "")

    def mac(em, e, env, k):
        if e.name == "crate::" + std:
            return sibling_macro(em, e, env, k, std)
        if e.name not in ("::std::" + std, "std::" + std):
            raise EmitError("macro %s!: only std's and the crate's own are modelled" % e.name)
        lit, args = fmt_literal(e.toks, e.name + "!")
        if lit != b"{}" or len(args) != 1:
            raise EmitError("%s!: only (\"{}\", <text>) is modelled" % e.name)
        if em.pure_mode:
            raise NeedsBind()

        def k1(t, ty, env1):
            if ty != BYTES:
                raise EmitError("%s!: text of type %r" % (e.name, ty))
            return world_append(em, env1, "MStdPrint %s %s %s" % ("true" if err else "false", "true" if nl else "false", t), lambda env2: k("tt", UNIT, env2))
        return em.expr(args[0], env, k1)
    mac.writes = lambda node: [N("path", segs=["world"])]
    return mac


def sibling_macro(em, e, env, k, name):
    """`$crate::print!("\\n")` inside println!: the arm of the sibling macro that matches (a non-empty token list matches
    `($($arg:tt)*)`, an empty one `()`), applied to the fragments of `format_args!(<literal>)`"""
    arms = em.macro_arms.get(name)
    if arms is None:
        raise EmitError("macro crate::%s! is not translated (yet): macros are translated in source order" % name)
    if em.pure_mode:
        raise NeedsBind()
    if not e.toks:
        hit = [a for a in arms if not a[1]]
        arg = []
    else:
        hit = [a for a in arms if a[1]]
        lit, rest = fmt_literal(e.toks, "crate::%s!" % name)
        if rest or b"{" in lit or b"}" in lit:
            raise EmitError("crate::%s!: only a literal without placeholders is modelled" % name)
        # core::fmt::write hands a non-empty literal piece to write_str as one fragment, an empty one not at all
        arg = [N("term", term="[%s]" % coq_bytes(lit) if lit else "[]", ty=FRAGS)]
    if len(hit) != 1:
        raise EmitError("crate::%s!: %d arms match" % (name, len(hit)))
    return em.call_shape(hit[0][0], None, [N("path", segs=["world"])] + arg, env, k)


def mac_panic(em, e, env, k):
    """`::std::panic!(..)`: the event, then the function returns (the thread unwinds; nothing after it runs)"""
    if e.name not in ("::std::panic", "std::panic"):
        raise EmitError("macro %s!: only std's panic! is modelled" % e.name)
    if em.pure_mode:
        raise NeedsBind()
    leave = lambda env1: em.ctl.ret(env1, "tt", UNIT)
    if not e.toks:
        return world_append(em, env, "MPanicExplicit", leave)
    lit, args = fmt_literal(e.toks, "panic!")
    if lit == b"{}" and len(args) == 1:
        def k1(t, ty, env1):
            if ty != BYTES:
                raise EmitError("panic!(\"{}\", x): x of type %r" % (ty,))
            return world_append(em, env1, "MPanic %s" % t, leave)
        return em.expr(args[0], env, k1)
    m = re.fullmatch(rb"([^{}]*)\{(\w+)\}", lit)
    if m and not args:
        # "failed printing to stdout: {e}": a literal, then the Display of an io::Error (std's text for that error)
        def k2(t, ty, env1):
            if ty != ERROR:
                raise EmitError("panic!(\"..{%s}\"): of type %r, only an io::Error is modelled" % (m.group(2).decode(), ty))
            return world_append(em, env1, "MPanicIo %s %s" % (coq_bytes(m.group(1)), t), leave)
        return em.expr(N("path", segs=[m.group(2).decode()]), env, k2)
    raise EmitError("panic! with the format string %r" % lit)


mac_panic.writes = lambda node: [N("path", segs=["world"])]


def mac_format_args(em, e, env, k):
    toks = texts(e.toks)
    if toks != ["args"]:
        raise EmitError("format_args!(%s): only the macro's own `$($arg)*` is modelled" % " ".join(toks))
    return em.expr(N("path", segs=["args"]), env, k)


def mac_cfg(em, e, env, k):
    key = "".join(texts(e.toks))
    if key == "test":
        return k("cfg_test", BOOL, env)
    if key == 'feature="test"':
        return k("feat_test", BOOL, env)
    raise EmitError("cfg!(%s): not in the vocabulary" % key)


def f_vec_new(em, e, env, k):
    if e.args:
        raise EmitError("Vec::new takes no argument")
    # the Vec<u8> handed to AutoStream::new as the raw stream: an in-memory writer that accepts everything
    # (Proofs/GlueGen.v buffer_write_simulates_writer: the scripted writer whose script is exhausted)
    return k("(writer_of [])", WRITER, env)


def f_target_choice(em, e, env, k):
    """`crate::AutoStream::choice(stream)` inside to_adapted_string: asked about the TARGET stream, not about the Vec (whose
    answers are cfv).  WHICH raw stream is asked must stay visible (print! asks stdout, eprint! and panic! stderr), so the
    answer is `ch <that stream>`, `ch : writer -> cchoice` being what `choice(&raw)` (C09's subject) answers per raw stream"""
    if len(e.args) != 1:
        raise EmitError("AutoStream::choice takes one argument")
    return em.expr(e.args[0], env, lambda t, _ty, env1: k("(ch %s)" % t, CHOICE, env1))


def f_from_utf8_lossy(em, e, env, k):
    if len(e.args) != 1:
        raise EmitError("from_utf8_lossy takes one argument")

    def k1(t, ty, env1):
        if ty != WRITER:
            raise EmitError("from_utf8_lossy of %r (only the Vec<u8> that was the raw stream)" % (ty,))
        return k("(from_utf8_lossy (w_received %s))" % t, BYTES, env1)
    return em.expr(e.args[0], env, k1)


def m_identity(em, e, rt, rty, env, k):
    if e.args:
        raise EmitError("%s takes no argument" % e.name)
    return k(rt, rty, env)


def m_error_kind(em, e, rt, rty, env, k):
    if e.args or rty != ERROR:
        raise EmitError("kind() on %r" % (rty,))
    return k("(EKOf %s)" % rt, EKIND, env)


def v_base(shapes_static_use):
    v = dict(gen_fn_auto.V_AUTO)
    v["structs"] = {n: dict(st, check=False) for n, st in v["structs"].items()}
    # `e.kind() != ErrorKind::BrokenPipe`: the error kinds of the scripted writers (Spec/Io.v) plus BrokenPipe (Model/Glue.v ekindx)
    v["enums"] = dict(v["enums"], ErrorKind={"coq": "ekindx", "eqb": "ekindx_eqb", "var": "k", "variants": {"BrokenPipe": "EKBrokenPipe"}})
    v["type_alias"] = dict(v["type_alias"], World=WORLD, Arguments=FRAGS, String=BYTES)
    v["reserved"] = ["cf", "cfv", "ch", "cfg_test", "feat_test", "from_utf8_lossy", "fmt_nl", "display", "args", "world"]
    v["statics"] = {"STDOUT": WRITER, "STDERR": WRITER}
    v["static_use"] = shapes_static_use
    v["macros"] = dict(v.get("macros", {}), **{
        "write": mac_write_to(False), "writeln": mac_write_to(True),
        "print": mac_std_print(False, False), "println": mac_std_print(False, True),
        "eprint": mac_std_print(True, False), "eprintln": mac_std_print(True, True),
        "panic": mac_panic, "format_args": mac_format_args, "cfg": mac_cfg,
    })
    v["methods"] = dict(v["methods"])
    v["methods"].update({("coq", "kind"): m_error_kind, ("list", "into_owned"): m_identity})
    return v


def v_tas():
    v = v_base({"to_adapted_string": []})
    v["config_param"] = ("cfv", "acfg")
    v["param_types"] = dict(v.get("param_types", {}), display=FRAGS, stream=WRITER)
    v["fns"] = dict(v["fns"], **{"Vec::new": f_vec_new, "AutoStream::choice": f_target_choice,
                                 "String::from_utf8_lossy": f_from_utf8_lossy})
    return v


def v_arm(fname):
    both = [("STDOUT", "in"), ("STDERR", "in")]
    v = v_base({fname: both})
    v["fns"] = dict(v["fns"], **{"io::stdout": gen_fn_glue.f_std_handle("STDOUT"), "io::stderr": gen_fn_glue.f_std_handle("STDERR")})
    return v


HEADER = ("(* GENERATED by tools/gen_fn_macros.py (tools/rs2v + its macro_rules reader) from crates/anstream/src/_macros.rs\n"
          "   (non-Windows target, default features) -- do not edit *)")
REQ = """From Coq Require Import NArith List Bool.
From AV Require Import Generated.Table Spec.Io Model.Base Model.Imp Model.Utf8parse Model.Parser Model.Strip Model.Stream Model.Glue
  Generated.StreamFn Generated.AutoFn Generated.GlueFn.
Import ListNotations.
Local Open Scope N_scope.
Local Open Scope bool_scope."""


def check_const(items):
    cs = find_items(items, "const", "FEATURE_TEST_ACTIVATED")
    if len(cs) != 1:
        raise TranslateError("const FEATURE_TEST_ACTIVATED: %d definitions" % len(cs))
    c = cs[0]
    if c.val.kind != "macro" or c.val.name != "cfg" or "".join(texts(c.val.toks)) != 'feature="test"':
        raise TranslateError("const FEATURE_TEST_ACTIVATED is not `cfg!(feature = \"test\")`")
    return ("(* pub const FEATURE_TEST_ACTIVATED: bool = cfg!(feature = \"test\"); *)\n"
            "Definition g_FEATURE_TEST_ACTIVATED (feat_test : bool) : bool :=\n  feat_test.\n")


def glue_shapes(gm, shapes):
    """shapes of anstream::stdout / stderr (Generated/GlueFn.v), text discarded"""
    lib = gm.read("crates/anstream/src/lib.rs")
    out = {}
    for fname in ("stdout", "stderr"):
        sh = dict(shapes)
        translate(lib, gen_fn_glue.v_lib(), [(fname, None, "g_" + fname, {})], "", "", sh)
        out[fname] = sh[fname]
    return out


def register(generators, gm):
    def gen():
        try:
            n0 = len(drv.REGISTRY)
            shapes = gen_fn_glue.auto_shapes(gm.read("crates/anstream/src/strip.rs"), gm.read("crates/anstream/src/auto.rs"))
            std = glue_shapes(gm, shapes)
            del drv.REGISTRY[n0:]       # the shapes only: AutoFn / GlueFn register (and write) those functions
            src = gm.read("crates/anstream/src/_macros.rs")
            try:
                items = parse_file(src)
            except (ParseError, LexError) as e:
                raise TranslateError("parse error: %s" % e)
            out = [HEADER, REQ, "", check_const(items)]
            # -- to_adapted_string
            sh = {k: s for k, s in shapes.items() if k != "AutoStream::choice"}
            text = translate(src, v_tas(), [("to_adapted_string", None, "g_to_adapted_string", {})], "", "", sh)
            text = text.replace("(cfv : acfg)", "(from_utf8_lossy : list N -> list N) (cfv : acfg) (ch : writer -> cchoice)", 1)
            out.append(text)
            tas = dict(sh["to_adapted_string"], coq="g_to_adapted_string from_utf8_lossy cfv ch", cfg=False)
            # -- the macros, in source order
            macros = read_macro_rules(src)
            if sorted(macros) != sorted(MACROS):
                raise TranslateError("_macros.rs defines the macros %r, the vocabulary models %r" % (sorted(macros), sorted(MACROS)))
            macro_arms = {}
            for name in [m for m in macros]:
                attrs, arms = macros[name]
                if attrs != ['#[cfg(feature="auto")]', "#[macro_export]"]:
                    raise TranslateError("macro_rules! %s: attributes %r" % (name, attrs))
                done = []
                for idx, (pat, body) in enumerate(arms):
                    fn, has_args = arm_fn(name, idx, pat, body)
                    v = v_arm(fn.name)
                    v["consts"] = dict(v.get("consts", {}), FEATURE_TEST_ACTIVATED=("(g_FEATURE_TEST_ACTIVATED feat_test)", BOOL))
                    em = Emitter(v, items)
                    # keyed by the last TWO segments: `crate::stdout()` is the crate's function, `std::io::stdout()` the handle
                    em.fn_shapes = dict(shapes, to_adapted_string=tas, **{"crate::stdout": std["stdout"], "crate::stderr": std["stderr"]})
                    em.macro_arms = macro_arms
                    coq = "g_%s_arm%d" % (name, idx)
                    try:
                        text, shape = em.emit_fn(fn, None, coq)
                    except EmitError as e:
                        raise TranslateError("macro_rules! %s, arm %d: %s" % (name, idx, e))
                    if "(cf : acfg)" not in text:
                        raise TranslateError("macro_rules! %s, arm %d: no config binder" % (name, idx))
                    text = text.replace("(cf : acfg)", ARM_BINDERS, 1)
                    out += ["(* macro_rules! %s, arm %d: pattern [ %s ] *)" % (name, idx, "".join(texts(pat))), text, ""]
                    done.append((dict(shape, coq=coq + " " + ARM_ARGS), has_args))
                    drv.REGISTRY.append(("macro_arm", drv._sha(src), name, idx, coq))
                macro_arms[name] = done
            return "\n".join(out) + "\n"
        except TranslateError as e:
            raise gm.GenError(str(e))
    generators["MacrosFn"] = gen
