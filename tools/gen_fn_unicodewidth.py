#!/usr/bin/env python3
"""Function translator, third-party crate unicode-width (dependency of crates/anstyle-svg; C14):
~/.cargo/registry/src/*/unicode-width-<version pinned by /repo/Cargo.lock>/src/{tables.rs,lib.rs}
-> coq/Generated/UnicodeWidthFn.v.

TRANSLATED (tools/rs2v): `<str as UnicodeWidthStr>::width` (what anstyle-svg calls) and everything it reaches in the
non-CJK configuration: tables::{str_width, width_in_str (the state machine over the FOLLOWING character's WidthInfo,
the string is folded from its last character), lookup_width, single_char_width, is_transparent_zero_width,
is_ligature_transparent, starts_emoji_presentation_seq, starts_non_ideographic_text_presentation_seq,
is_emoji_modifier_base}, the methods of `impl WidthInfo`, `<char as UnicodeWidthChar>::width`.
DATA, written by the plug-in from the `static` / `const` items (token walk; the parser does not read attributes on
array elements): the three-level width table WIDTH_ROOT / WIDTH_MIDDLE / WIDTH_LEAVES, NON_TRANSPARENT_ZERO_WIDTHS,
EMOJI_PRESENTATION_LEAVES, the TEXT_PRESENTATION_LEAF_* / EMOJI_MODIFIER_LEAF_* range lists, the constants of
`impl WidthInfo`.  Rows under `#[cfg(feature = "cjk")]` are emitted iff the harness build enables the feature
(cargo metadata): the tables are the ones linked; the non-CJK functions never index those rows
(Proofs/UnicodeWidthGen.v proves every index in bounds).
Not translated: the `*_cjk` functions, is_solidus_transparent, WIDTH_ROOT_CJK, SOLIDUS_TRANSPARENT (anstyle-svg calls
`width`, not `width_cjk`), `mod tests`.

The source is located by tools/thirdparty.py with harness="h-render" (version from Cargo.lock, registry directory of
exactly that version, compared with what cargo links into harness/h-render)."""
import os
import re
import sys

sys.path.insert(0, os.path.dirname(os.path.abspath(__file__)))
from rs2v.driver import translate, TranslateError          # noqa: E402
from rs2v.emit import EmitError, NeedsBind, Ctl             # noqa: E402
from rs2v.rparser import parse_file, ParseError              # noqa: E402
from rs2v.lexer import tokenize, LexError                    # noqa: E402
import thirdparty                                            # noqa: E402

CRATE, HARNESS = "unicode-width", "h-render"
U8, U16, U32, USZ, CHAR, I8, ISZ, BOOL = (("int", "u8"), ("int", "u16"), ("int", "u32"), ("int", "usize"), ("int", "char"),
                                          ("int", "i8"), ("int", "isize"), ("bool",))
WI, STR, CHARS, B3, BS = ("struct", "WidthInfo"), ("struct", "str"), ("struct", "Chars"), ("struct", "Bytes3"), ("struct", "BSearch")
A8, AROWS = ("struct", "AlignU8"), ("struct", "AlignRows")
RANGES8 = ("list", ("tuple", (U8, U8)))
RANGES24 = ("list", ("tuple", (B3, B3)))

# the statics of the non-CJK path: name -> (declared type with blanks removed, model type, rows are arrays of this length | None)
TABLES = {
    "WIDTH_ROOT": ("Align128<[u8;256]>", A8),
    "WIDTH_MIDDLE": ("Align64<[[u8;64];WIDTH_MIDDLE_LEN]>", AROWS),
    "WIDTH_LEAVES": ("Align32<[[u8;32];WIDTH_LEAVES_LEN]>", AROWS),
    "NON_TRANSPARENT_ZERO_WIDTHS": (r"[([u8;3],[u8;3]);N]", RANGES24),
    "EMOJI_PRESENTATION_LEAVES": (r"Align128<[[u8;128];N]>", AROWS),
}
for _i in range(10):
    TABLES["TEXT_PRESENTATION_LEAF_%d" % _i] = ("[(u8,u8);N]", RANGES8)
for _i in range(8):
    TABLES["EMOJI_MODIFIER_LEAF_%d" % _i] = ("[(u8,u8);N]", RANGES8)
NOT_TRANSLATED_STATICS = {"WIDTH_ROOT_CJK", "SOLIDUS_TRANSPARENT"}


# ---------------------------------------------------------------------------
# cutting tables.rs into items (the parser does not read `#[cfg(..)]` on array elements, and `mod tests` is 1 MB)

def top_items(src):
    """[(header text, source text, tokens)] of the top-level items (an item ends at a `;` or a closing `}` at depth 0)"""
    try:
        toks = [t for t in tokenize(src) if t.kind != "eof"]
    except LexError as e:
        raise TranslateError("lex error: %s" % e)
    out, depth, start = [], 0, None
    for i, t in enumerate(toks):
        if start is None:
            start = i
        if t.kind == "punct" and t.text in ("(", "[", "{"):
            depth += 1
        elif t.kind == "punct" and t.text in (")", "]", "}"):
            depth -= 1
            if depth == 0 and t.text == "}":
                out.append((start, i))
                start = None
        elif t.kind == "punct" and t.text == ";" and depth == 0:
            out.append((start, i))
            start = None
    if start is not None:
        raise TranslateError("tables.rs: unterminated item")
    items = []
    for a, b in out:
        hdr = []
        for t in toks[a:b + 1]:
            if t.kind == "attr":
                continue
            if t.kind == "punct" and t.text in ("{", ";", "="):
                break
            hdr.append(t.text)
        end = toks[b].pos + len(toks[b].text)
        items.append((" ".join(hdr), src[toks[a].pos:end], toks[a:b + 1]))
    return items


def is_cjk_attr(t):
    return t.kind == "attr" and t.text.replace(" ", "") == '#[cfg(feature="cjk")]'


class TableReader:
    """value of a `static`: nested arrays / tuples of integer literals, an `AlignN( .. )` wrapper; an element under
    `#[cfg(feature = "cjk")]` is kept iff the feature is enabled (any other attribute is an error)"""

    def __init__(self, toks, cjk, what):
        self.t, self.i, self.cjk, self.what = toks, 0, cjk, what

    def err(self, msg):
        raise TranslateError("static %s: %s (token %d)" % (self.what, msg, self.i))

    def peek(self):
        return self.t[self.i] if self.i < len(self.t) else None

    def eat(self, text):
        p = self.peek()
        if p is None or p.text != text:
            self.err("`%s` expected" % text)
        self.i += 1

    def value(self):
        p = self.peek()
        if p is None:
            self.err("value expected")
        if p.kind == "int":
            self.i += 1
            return p.val[0]
        if p.kind == "ident" and re.match(r"^Align(32|64|128)$", p.text):
            self.i += 1
            self.eat("(")
            v = self.value()
            self.eat(")")
            return ("align", p.text, v)
        if p.text in ("[", "("):
            close = "]" if p.text == "[" else ")"
            self.i += 1
            elems = []
            while self.peek() is not None and self.peek().text != close:
                keep = True
                while self.peek() is not None and self.peek().kind == "attr":
                    if not is_cjk_attr(self.peek()):
                        self.err("attribute %s on an element" % self.peek().text)
                    keep = keep and self.cjk
                    self.i += 1
                v = self.value()
                if keep:
                    elems.append(v)
                if self.peek() is not None and self.peek().text == ",":
                    self.i += 1
                elif self.peek() is None or self.peek().text != close:
                    self.err("`,` or `%s` expected" % close)
            self.eat(close)
            return ("arr" if close == "]" else "tup", elems)
        self.err("unexpected token %r" % p.text)


def read_static(toks, cjk):
    """(name, declared type without blanks, value)"""
    ts = [t for t in toks if not (t.kind == "attr" and t.text.startswith("#[rustfmt"))]
    if any(t.kind == "attr" for t in ts[:1]):
        ts = ts[1:]
    if ts[0].text != "static" or ts[2].text != ":":
        raise TranslateError("static item: unexpected header %s" % " ".join(t.text for t in ts[:4]))
    name = ts[1].text
    eq = next((i for i, t in enumerate(ts) if t.kind == "punct" and t.text == "="), None)
    if eq is None or ts[-1].text != ";":
        raise TranslateError("static %s: no initialiser" % name)
    ty = "".join(t.text for t in ts[3:eq])
    rd = TableReader(ts[eq + 1:-1], cjk, name)
    v = rd.value()
    if rd.i != len(rd.t):
        rd.err("trailing tokens")
    return name, ty, v


def coq_list(xs):
    return "[" + "; ".join(xs) + "]"


def table_def(name, ty, val, lens):
    """Gallina definition of one table after checking its declared type against the value"""
    want, mty = TABLES[name]

    def ints(v, n, what, hi=256):
        if v[0] != "arr" or len(v[1]) != n or not all(isinstance(x, int) and 0 <= x < hi for x in v[1]):
            raise TranslateError("static %s: %s is not an array of %d u8" % (name, what, n))
        return [str(x) for x in v[1]]
    m = re.match(r"^Align(32|64|128)<\[\[u8;(\d+)\];(\w+)\]>$", ty)
    if mty == AROWS and m:
        if val[0] != "align" or val[1] != "Align" + m.group(1) or val[2][0] != "arr":
            raise TranslateError("static %s: value is not Align%s([..])" % (name, m.group(1)))
        rows = val[2][1]
        n = lens.get(m.group(3)) if not m.group(3).isdigit() else int(m.group(3))
        if n is None or len(rows) != n:
            raise TranslateError("static %s: %d rows, the declared length %s is %r" % (name, len(rows), m.group(3), n))
        body = ";\n  ".join(coq_list(ints(r, int(m.group(2)), "a row")) for r in rows)
        return "Definition g_uw_%s : list (list N) :=\n [%s]." % (name, body)
    m = re.match(r"^Align(32|64|128)<\[u8;(\d+)\]>$", ty)
    if mty == A8 and m:
        if val[0] != "align" or val[1] != "Align" + m.group(1):
            raise TranslateError("static %s: value is not Align%s([..])" % (name, m.group(1)))
        return "Definition g_uw_%s : list N :=\n %s." % (name, coq_list(ints(val[2], int(m.group(2)), "the value")))
    m = re.match(r"^\[\(u8,u8\);(\d+)\]$", ty)
    if mty == RANGES8 and m:
        if val[0] != "arr" or len(val[1]) != int(m.group(1)):
            raise TranslateError("static %s: length" % name)
        rows = []
        for r in val[1]:
            if r[0] != "tup" or len(r[1]) != 2 or not all(isinstance(x, int) and 0 <= x < 256 for x in r[1]):
                raise TranslateError("static %s: element is not (u8, u8)" % name)
            rows.append("(%d, %d)" % tuple(r[1]))
        return "Definition g_uw_%s : list (N * N) :=\n %s." % (name, coq_list(rows))
    m = re.match(r"^\[\(\[u8;3\],\[u8;3\]\);(\d+)\]$", ty)
    if mty == RANGES24 and m:
        if val[0] != "arr" or len(val[1]) != int(m.group(1)):
            raise TranslateError("static %s: length" % name)
        rows = []
        for r in val[1]:
            if r[0] != "tup" or len(r[1]) != 2:
                raise TranslateError("static %s: element is not a pair" % name)
            rows.append("(%s, %s)" % (coq_list(ints(r[1][0], 3, "a bound")), coq_list(ints(r[1][1], 3, "a bound"))))
        return "Definition g_uw_%s : list (list N * list N) :=\n [%s]." % (name, ";\n  ".join(rows))
    raise TranslateError("static %s: declared type %s, the vocabulary models %s" % (name, ty, want))


# ---------------------------------------------------------------------------
# vocabulary callables

def shape(coq, self_mode, params, ret, total=True):
    return {"coq": coq, "self": self_mode, "params": params, "ret": ret, "total": total, "cfg": False}


def f_self(em, e, env, k):
    """`Self(x)` inside `impl WidthInfo`"""
    if len(e.args) != 1 or em.self_struct != "WidthInfo":
        raise EmitError("Self(..): one argument, inside impl WidthInfo")

    def k1(t, ty, env1):
        if ty != U16:
            raise EmitError("WidthInfo(%r): the field is a u16" % (ty,))
        return k("(uw_wi_new %s)" % t, WI, env1)
    if e.args[0].kind == "int" and not e.args[0].suffix:
        return k("(uw_wi_new %d)" % e.args[0].val, WI, env)
    return em.expr(e.args[0], env, k1)


def f_conv(target, sources):
    """`usize::from(x)` / `isize::from(x)`: a lossless conversion (the value itself; signedness must agree)"""
    def h(em, e, env, k):
        if len(e.args) != 1:
            raise EmitError("%s::from takes one argument" % target[1])

        def k1(t, ty, env1):
            if ty not in sources:
                raise EmitError("%s::from(%r) is not in the vocabulary" % (target[1], ty))
            return k(t, target, env1)
        return em.expr(e.args[0], env, k1)
    return h


def f_try_from(em, e, env, k):
    """usize::try_from(u32): Ok on every supported target (usize has at least 32 bits here): `Some x`, so that the
    `.unwrap()` that follows is the ordinary Option::unwrap"""
    if len(e.args) != 1:
        raise EmitError("usize::try_from takes one argument")

    def k1(t, ty, env1):
        if ty != U32:
            raise EmitError("usize::try_from(%r): only u32 is in the vocabulary" % (ty,))
        return k("(Some %s)" % t, ("opt", USZ), env1)
    return em.expr(e.args[0], env, k1)


def f_from_le_bytes(em, e, env, k):
    if len(e.args) != 1 or e.args[0].kind != "array" or len(e.args[0].elems) != 4:
        raise EmitError("u32::from_le_bytes([a, b, c, d]) with a four-element array literal")
    return em.expr(e.args[0], env, lambda t, _ty, env1: k("(uw_u32_from_le_bytes %s)" % t, U32, env1))


def index_b3(em, e, base, bty, env, k):
    """`lo[0]` on a `[u8; 3]`: literal index below 3"""
    if e.idx.kind != "int" or not 0 <= e.idx.val < 3:
        raise EmitError("index of a [u8; 3]: only a literal 0..2 is in the vocabulary")
    return k("(uw_b3_get %s %d%%nat)" % (base, e.idx.val), U8, env)


def m_chars(em, e, rt, rty, env, k):
    if e.args:
        raise EmitError("str::chars takes no argument")
    return k("(uw_str_chars %s)" % rt, CHARS, env)


def closure_env(em, pats, tys, env, what):
    """bind the parameter patterns of a closure (identifiers and flat tuples of identifiers): (Gallina binders, env)"""
    heads, env2 = [], env
    for (p, _ann), ty in zip(pats, tys):
        while p.kind == "pref":
            p = p.inner
        if p.kind == "pident":
            c = em.fresh(p.name)
            env2 = env2.bind(p.name, c, ty)
            heads.append(c)
        elif p.kind == "ptuple" and ty[0] == "tuple" and len(ty[1]) == len(p.elems):
            names = []
            for x, t in zip(p.elems, ty[1]):
                while x.kind == "pref":
                    x = x.inner
                if x.kind != "pident":
                    raise EmitError("%s: closure parameter pattern" % what)
                c = em.fresh(x.name)
                env2 = env2.bind(x.name, c, t)
                names.append(c)
            heads.append("'(" + ", ".join(names) + ")")
        else:
            raise EmitError("%s: closure parameter pattern %s against %r" % (what, p.kind, ty))
    return heads, env2


def closure_body(em, cl, env2, wrap, what):
    """the body of a closure that assigns nothing it captures, with its value passed to `wrap`"""
    if em.pure_mode:
        raise NeedsBind()
    if em.assigned(cl.body, env2):
        raise EmitError("%s: the closure assigns a captured variable" % what)
    box = []
    oldctl = em.ctl

    def no_ctl(*_a):
        raise EmitError("%s: return / break inside the closure" % what)
    em.ctl = Ctl(no_ctl)
    try:
        def kb(t, ty, _envx):
            box.append(ty)
            return wrap(t)
        body = em.expr(cl.body, env2, kb)
    finally:
        em.ctl = oldctl
    if len(box) != 1:
        raise EmitError("%s: closure body with several exits" % what)
    return body, box[0]


def indent(s, n=4):
    return "\n".join(" " * n + l for l in s.split("\n"))


def m_rfold(em, e, rt, rty, env, k):
    """`s.chars().rfold(init, |acc, c| body)`: uw_rfold_m over the code points (the body may panic)"""
    if len(e.args) != 2 or e.args[1].kind != "closure" or len(e.args[1].params) != 2:
        raise EmitError("Chars::rfold(init, |acc, c| ..)")
    cl = e.args[1]

    def k1(it, ity, env1):
        heads, env2 = closure_env(em, cl.params, [ity, CHAR], env1, "Chars::rfold")
        if cl.ret is not None and em.ty_of_ast(cl.ret) != ity:
            raise EmitError("Chars::rfold: the closure answers %r, the accumulator is %r" % (em.ty_of_ast(cl.ret), ity))
        body, bty = closure_body(em, cl, env2, lambda t: "Some %s" % t, "Chars::rfold")
        if bty != ity:
            raise EmitError("Chars::rfold: the closure answers %r, the accumulator is %r" % (bty, ity))
        return em.bind("uw_rfold_m (fun %s =>\n%s) %s %s" % (" ".join(heads), indent(body), it, rt), ity, env1, k, hint="fd")
    return em.expr(e.args[0], env, k1)


def m_binary_search_by(em, e, rt, rty, env, k):
    """`table.binary_search_by(|&(lo, hi)| ..)`: uw_binary_search_by with a TOTAL comparator"""
    if len(e.args) != 1 or e.args[0].kind != "closure" or len(e.args[0].params) != 1 or rty[0] != "list":
        raise EmitError("binary_search_by(|elt| ..) on a slice")
    cl = e.args[0]
    heads, env2 = closure_env(em, cl.params, [rty[1]], env, "binary_search_by")
    body, bty = closure_body(em, cl, env2, lambda t: t, "binary_search_by")
    if bty != ("enum", "Ordering"):
        raise EmitError("binary_search_by: the closure answers %r" % (bty,))
    if "<-" in body or re.search(r"(?<![A-Za-z0-9_])None(?![A-Za-z0-9_])", body):
        raise EmitError("binary_search_by: the comparator can panic")
    return k("(uw_binary_search_by (fun %s =>\n%s) %s)" % (heads[0], indent(body), rt), BS, env)


def m_noarg(fmt, ty, what):
    def h(em, e, rt, rty, env, k):
        if e.args:
            raise EmitError("%s takes no argument" % what)
        return k(fmt % rt, ty, env)
    return h


def m_wrapping_add_signed(em, e, rt, rty, env, k):
    if len(e.args) != 1 or rty != USZ:
        raise EmitError("usize::wrapping_add_signed(isize)")

    def k1(t, ty, env1):
        if ty != ISZ:
            raise EmitError("usize::wrapping_add_signed(%r)" % (ty,))
        return k("(uw_wrapping_add_signed %s %s)" % (rt, t), USZ, env1)
    return em.expr(e.args[0], env, k1)


def vocab(wi_consts, tables):
    nocheck = {"check": False, "fields": {}}
    paths = {}
    for n in wi_consts:
        paths["WidthInfo::" + n] = ("g_uw_WI_" + n, WI)
        paths["Self::" + n] = ("g_uw_WI_" + n, WI)
    return {
        "reserved": ["k", "next", "rec_fuel", "len", "slice", "c", "s", "w"],
        "type_alias": {"WidthInfo": WI, "str": STR},
        "enums": {
            # the constants of `impl WidthInfo` used as PATTERNS (`(WidthInfo::X, 'c') =>`): tested with N.eqb
            "WidthInfo": {"coq": "N", "eqb": "N.eqb", "native": False, "variants": {n: "g_uw_WI_" + n for n in wi_consts}},
            "Ordering": {"coq": "comparison", "variants": {"Less": "Lt", "Equal": "Eq", "Greater": "Gt"}},
        },
        "structs": {
            "WidthInfo": {"coq": "N", "var": "w", "check": False, "eqb": "N.eqb", "fields": {"0": ("uw_wi_f0", None, U16)}},
            "str": dict(nocheck, coq="(list N)", var="s"),
            "char": dict(nocheck, coq="N", var="c"),
            "Chars": dict(nocheck, coq="(list N)"),
            "Bytes3": dict(nocheck, coq="(list N)"),
            "BSearch": dict(nocheck, coq="(N + N)"),
            "AlignU8": {"coq": "(list N)", "check": False, "fields": {"0": ("uw_align_f0", None, ("list", U8))}},
            "AlignRows": {"coq": "(list (list N))", "check": False, "fields": {"0": ("uw_align_f0", None, ("list", ("list", U8)))}},
        },
        "paths": paths,
        "consts": {n: ("g_uw_" + n, TABLES[n][1]) for n in tables},
        "fns": {
            "Self": f_self,
            "usize::from": f_conv(USZ, (U8, U16, U32)),
            "isize::from": f_conv(ISZ, (I8,)),
            "usize::try_from": f_try_from,
            "u32::from_le_bytes": f_from_le_bytes,
        },
        "methods": {
            ("str", "chars"): m_chars,
            ("Chars", "rfold"): m_rfold,
            ("list", "binary_search_by"): m_binary_search_by,
            ("BSearch", "is_ok"): m_noarg("(uw_res_is_ok %s)", BOOL, "Result::is_ok"),
            ("BSearch", "is_err"): m_noarg("(uw_res_is_err %s)", BOOL, "Result::is_err"),
            ("int", "wrapping_add_signed"): m_wrapping_add_signed,
        },
        "index": {"Bytes3": index_b3},
        # unsuffixed literals without a typing context: width_in_str answers (i8, WidthInfo), its `0` / `1` / `2` / `3` / `-1`
        # are i8 (rustc infers it from the return type)
        "int_lit_default": {"width_in_str": "i8"},
        "monadic_guards": True,
        "opaque": {},
    }


WI_METHODS = ["is_ligature_transparent", "set_zwj_bit", "is_emoji_presentation", "is_zwj_emoji_presentation", "set_emoji_presentation",
              "unset_emoji_presentation", "is_text_presentation", "set_text_presentation", "unset_text_presentation"]
FREE_FNS = ["lookup_width", "single_char_width", "is_ligature_transparent", "is_transparent_zero_width", "starts_emoji_presentation_seq",
            "starts_non_ideographic_text_presentation_seq", "is_emoji_modifier_base", "width_in_str", "str_width"]

HEADER = ("(* GENERATED by tools/gen_fn_unicodewidth.py (tools/rs2v) from the cargo registry source of unicode-width %s\n"
          "   (src/tables.rs, src/lib.rs; version pinned by Cargo.lock, features of the harness build: %s) -- do not edit *)")
REQ = """From Coq Require Import NArith ZArith List Bool.
From AV Require Import Model.Base Model.Imp Model.UnicodeWidth.
Import ListNotations.
Local Open Scope N_scope.
Local Open Scope bool_scope."""


def squash(s):
    return re.sub(r"\s+", "", s)


def read_sources(gm):
    """(version, features, tables.rs, lib.rs); the READS entries are taken out again: tools/inventory.py parses every file
    listed there as a whole, which tables.rs does not survive (see external_sources)"""
    version, _d = thirdparty.crate_dir(gm, CRATE, HARNESS)
    tables = thirdparty.read_crate(gm, CRATE, "src/tables.rs", HARNESS)
    lib = thirdparty.read_crate(gm, CRATE, "src/lib.rs", HARNESS)
    thirdparty.READS[:] = [r for r in thirdparty.READS if r[0] != CRATE]
    if os.environ.get("VERIF_REGISTRY"):
        feats = ["cjk", "default"]       # mutation tests: the registry copy is not what cargo resolves
    else:
        feats = thirdparty.crate_features(gm, CRATE, HARNESS)
    return version, feats, tables, lib


def code_area(tables_src):
    """(code text handed to rs2v, the static items as token lists): everything of tables.rs but the statics and `mod tests`"""
    code, statics = [], []
    seen_tests = 0
    for hdr, text, toks in top_items(tables_src):
        if hdr.startswith("static "):
            statics.append(toks)
        elif hdr == "mod tests":
            if not any(t.kind == "attr" and t.text.replace(" ", "") == "#[cfg(test)]" for t in toks[:3]):
                raise TranslateError("tables.rs: `mod tests` is not under #[cfg(test)]")
            seen_tests += 1
        else:
            code.append(text)
    if seen_tests > 1:
        raise TranslateError("tables.rs: several `mod tests`")
    return "\n\n".join(code) + "\n", statics


def external_sources(gm):
    """for tools/inventory.py: the code of tables.rs (exactly the text handed to rs2v: no statics, no tests) as a file under
    .cache/, and lib.rs itself"""
    try:
        version, _f, tables_src, _lib = read_sources(gm)
        code, _st = code_area(tables_src)
        _v, d = thirdparty.crate_dir(gm, CRATE, HARNESS)
    except TranslateError as e:
        raise gm.GenError(str(e))
    cd = os.path.join(os.path.dirname(os.path.abspath(__file__)), "..", ".cache", "thirdparty")
    os.makedirs(cd, exist_ok=True)
    p = os.path.join(cd, "unicode-width-%s-tables-code.rs" % version)
    with open(p, "w", encoding="utf-8") as f:
        f.write(code)
    return [("extern/unicode-width-%s/src/tables.rs" % version, p),
            ("extern/unicode-width-%s/src/lib.rs" % version, os.path.join(d, "src", "lib.rs"))]


def wi_constants(items, cjk):
    """[(name, value)] of the associated constants of `impl WidthInfo` (`const X: Self = Self(<literal>);`)"""
    impls = [it for it in items if it.kind == "impl" and it.trait is None and getattr(it.target, "segs", None) == ["WidthInfo"]]
    if len(impls) != 1:
        raise TranslateError("tables.rs: %d inherent `impl WidthInfo`" % len(impls))
    out = []
    for it in impls[0].items:
        if it.kind != "const":
            continue
        attrs = [squash(str(a)) for a in (it.attrs or []) if not squash(str(a)).startswith("#[doc")]
        if attrs not in ([], ['#[cfg(feature="cjk")]']):
            raise TranslateError("WidthInfo::%s: attributes %r" % (it.name, attrs))
        if attrs and not cjk:
            continue
        v = it.val
        ok = (v is not None and v.kind == "call" and v.f.kind == "path" and v.f.segs == ["Self"] and len(v.args) == 1
              and v.args[0].kind == "int" and not v.args[0].suffix and 0 <= v.args[0].val < 65536
              and it.ty is not None and getattr(it.ty, "segs", None) == ["Self"])
        if not ok:
            raise TranslateError("WidthInfo::%s: not `const X: Self = Self(<u16 literal>);`" % it.name)
        out.append((it.name, v.args[0].val))
    if len(set(n for n, _ in out)) != len(out):
        raise TranslateError("impl WidthInfo: a constant is defined twice")
    fns = [it.name for it in impls[0].items if it.kind == "fn"]
    if fns != WI_METHODS:
        raise TranslateError("impl WidthInfo: methods %r, the translator lists %r" % (fns, WI_METHODS))
    return out


def register(generators, gm):
    def gen():
        try:
            version, feats, tables_src, lib = read_sources(gm)
            cjk = "cjk" in feats
            code, statics = code_area(tables_src)
            try:
                items = parse_file(code)
            except (ParseError, LexError) as e:
                raise TranslateError("tables.rs: parse error: %s" % e)
            q = squash(gm.strip_comments(code))
            for need in ("structWidthInfo(u16);", "usecore::cmp::Ordering;", "structAlign32<T>(T);", "structAlign64<T>(T);", "structAlign128<T>(T);"):
                if need not in q:
                    raise TranslateError("tables.rs: `%s` not found (the vocabulary depends on it)" % need)
            lq = squash(gm.strip_comments(lib))
            for need in ("modtables;", "implUnicodeWidthStrforstr{", "implUnicodeWidthCharforchar{"):
                if need not in lq:
                    raise TranslateError("lib.rs: `%s` not found (the vocabulary depends on it)" % need)
            # the free functions of the file: the non-CJK ones are all translated, the others are the CJK variants
            free = [(it.name, [squash(str(a)) for a in (it.attrs or [])]) for it in items if it.kind == "fn"]
            plain = [n for n, at in free if '#[cfg(feature="cjk")]' not in at]
            if sorted(plain) != sorted(FREE_FNS):
                raise TranslateError("tables.rs: functions outside #[cfg(feature = \"cjk\")] are %r, the translator lists %r" % (sorted(plain), sorted(FREE_FNS)))
            # lengths declared by constants (one definition per configuration)
            lens = {}
            for it in items:
                if it.kind == "const" and it.name in ("WIDTH_MIDDLE_LEN", "WIDTH_LEAVES_LEN"):
                    at = [squash(str(a)) for a in (it.attrs or [])]
                    on = ('#[cfg(feature="cjk")]' in at and cjk) or ('#[cfg(not(feature="cjk"))]' in at and not cjk)
                    if on:
                        if it.name in lens or it.val is None or it.val.kind != "int":
                            raise TranslateError("const %s: not one integer literal per configuration" % it.name)
                        lens[it.name] = it.val.val
            # data
            consts = wi_constants(items, cjk)
            defs = []
            seen = set()
            for toks in statics:
                st_cjk = any(is_cjk_attr(t) for t in toks[:3])
                name, ty, val = read_static(toks, cjk)
                if name in NOT_TRANSLATED_STATICS:
                    if not st_cjk:
                        raise TranslateError("static %s is no longer under #[cfg(feature = \"cjk\")]" % name)
                    continue
                if name not in TABLES or name in seen or st_cjk:
                    raise TranslateError("static %s: unknown, repeated or under cfg: the vocabulary lists %s" % (name, sorted(TABLES)))
                seen.add(name)
                defs.append(table_def(name, ty, val, lens))
            if seen != set(TABLES):
                raise TranslateError("statics not found: %s" % sorted(set(TABLES) - seen))
            data = ["(* tables.rs: the constants of impl WidthInfo *)"]
            data += ["Definition g_uw_WI_%s : N := %d." % (n, v) for n, v in consts]
            data += ["", "(* tables.rs: the statics of the non-CJK path (rows under cfg(feature = \"cjk\") %s) *)" % ("included: the feature is on" if cjk else "left out: the feature is off")]
            data += defs
            v = vocab([n for n, _ in consts], sorted(TABLES))
            shapes = {}
            targets = [(m, "WidthInfo", "g_uw_wi_" + m, {}) for m in WI_METHODS]
            targets += [(f, None, "g_uw_" + f, {}) for f in FREE_FNS]
            out = [translate(code, v, targets, HEADER % (version, ", ".join(feats) or "none"), REQ + "\n\n" + "\n".join(data) + "\n", shapes)]
            out.append(translate(lib, v, [
                ("width", "str", "g_uw_str_trait_width", {"trait": "UnicodeWidthStr"}),
                ("width", "char", "g_uw_char_trait_width", {"trait": "UnicodeWidthChar"}),
            ], "(* lib.rs *)", "", shapes))
            return "\n".join(out) + "\n"
        except TranslateError as e:
            raise gm.GenError(str(e))
        except KeyError as e:
            raise gm.GenError("function not found: %s" % e)
    generators["UnicodeWidthFn"] = gen
