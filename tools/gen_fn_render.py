#!/usr/bin/env python3
"""Function translator, anstyle rendering: crates/anstyle/src/{color.rs,effect.rs,style.rs,reset.rs}
-> coq/Generated/RenderFn.v (C05).  Notes: HACKING.d/render.md.

TRANSLATED (tools/rs2v) into Gallina over the Rust data layout of DisplayBuffer
(Model/Render.v: `rn_dbuf` = { buffer: [u8; 19], len }) and the colour types of the hand model
(Generated/Style.v `ansi_color`; an Ansi256Color is its index, an RgbColor a triple, a Color the Rust enum
`rn_color_view`, a Style the record of Model/Style.v):
  color.rs   DisplayBuffer::{write_str, write_code, as_str, write_to}, impl Display for DisplayBuffer / NullFormatter,
             AnsiColor::{as_fg_str, as_bg_str, as_*_buffer, render_fg, render_bg, on, on_default},
             Ansi256Color::{index, from_ansi, as_*_buffer, render_fg, render_bg, on, on_default}, impl From<AnsiColor> / From<u8>,
             RgbColor::{r, g, b, as_*_buffer, render_fg, render_bg, on, on_default}, impl From<(u8, u8, u8)>,
             Color::{render_fg, render_bg, render_underline, write_fg_to, write_bg_to, write_underline_to, on, on_default},
             the five impl From<_> for Color
  effect.rs  impl Display for EffectsDisplay, Effects::write_to   (Effects::render / index_iter and
             EffectIndexIter::next are the translations of Generated/StyleFn.v, named in the vocabulary)
  reset.rs   Reset::render, impl Display for Reset
  style.rs   Style::{render, fmt_to, render_reset, write_to, write_reset_to}, impl Display for Style / StyleDisplay
Proofs/RenderGen.v proves every translation equal to the hand model (Model/Render.v) the theorems of C05 are
about: the 19-byte array + length related to the model's byte list by `rn_dbuf_abs`; a Formatter is the hand
model's `rn_fmt` over a scripted sink (`rn_fmtr`), `&mut dyn io::Write` the scripted writer of Spec/Io.v.

NOT translated: macros.rs (`escape!` is expanded by the vocabulary, the file is pinned by token hash)."""
import os
import sys

sys.path.insert(0, os.path.dirname(os.path.abspath(__file__)))
from rs2v.driver import translate, TranslateError, token_hash, fn_source   # noqa: E402
from rs2v.rparser import N, parse_file, find_items, ParseError, type_name, parse_macro_args   # noqa: E402
from rs2v.lexer import LexError   # noqa: E402

U8, USZ = ("int", "u8"), ("int", "usize")
BYTES = ("list", U8)
RGB, A256, DBUF = ("struct", "RgbColor"), ("struct", "Ansi256Color"), ("struct", "DisplayBuffer")
ANSI = ("enum", "AnsiColor")

ANSI_NAMES = ["Black", "Red", "Green", "Yellow", "Blue", "Magenta", "Cyan", "White",
              "BrightBlack", "BrightRed", "BrightGreen", "BrightYellow", "BrightBlue", "BrightMagenta", "BrightCyan", "BrightWhite"]


def f_self_ctor(em, e, env, k):
    """`Self(x)` inside `impl Ansi256Color`"""
    if em.self_struct != "Ansi256Color" or len(e.args) != 1:
        raise TranslateError("Self(..) outside impl Ansi256Color")
    return em.expr(e.args[0], env, lambda t, _ty, env1: k("(rn_a256_new %s)" % t, A256, env1), expect=U8)


def m_escape(em, e, env, k):
    """macros.rs: escape!(a, b, ..) = concat!("\\x1B[", a, b, .., "m") on string literals"""
    args = parse_macro_args(e.toks)
    out = [27, 91]
    for a in args:
        if a.kind != "str":
            raise TranslateError("escape!: argument is not a string literal")
        out.extend(a.val)
    out.append(109)
    return k("[" + "; ".join(str(b) for b in out) + "]", BYTES, env)


def m_enumerate(em, e, rt, rty, env, k):
    return k("(rn_enumerate %s)" % rt, ("list", ("tuple", (USZ, rty[1]))), env)


BOOL, UNIT = ("bool",), ("unit",)
U16 = ("int", "u16")
COLOR = ("enum", "Color")
FMT, NF, WRITER = ("struct", "Formatter"), ("struct", "NullFormatter"), ("coq", "writer")
EFF, EFFD, IITER, META = ("struct", "Effects"), ("struct", "EffectsDisplay"), ("struct", "EffectIndexIter"), ("struct", "Metadata")
STYLE, SDISP, RESET_T = ("struct", "Style"), ("struct", "StyleDisplay"), ("struct", "Reset")


def res(t):
    return ("res", t)


def shape(coq, self_mode, params, ret, total=True):
    return {"coq": coq, "self": self_mode, "params": params, "ret": ret, "total": total, "cfg": False}


def m_identity(em, e, rt, rty, env, k):
    """`background.into()` with `background: impl Into<Color>` read as a Color: the identity"""
    return k(rt, rty, env)


def m_into_color(fn_key):
    """`x.into()` where a Color is wanted: the TRANSLATED `impl From<X> for Color`"""
    def m(em, e, rt, rty, env, k):
        sh = em.fn_shapes.get(fn_key)
        if sh is None:
            raise TranslateError("%s is not translated yet" % fn_key)
        return em.call_shape(sh, None, [N("term", term=rt, ty=rty)], env, k)
    return m


ENUM_COLOR = {"coq": "rn_color_view", "var": "co", "variants": {"Ansi": "RvAnsi", "Ansi256": "RvAnsi256", "Rgb": "RvRgb"},
              "payload": {"Ansi": [ANSI], "Ansi256": [A256], "Rgb": [RGB]}}

# what `impl core::fmt::Display + Copy` is in each `render*` function (rustc infers it from the body;
# a body of another type makes the callers' `.fmt(f)` ill-typed in Coq)
RET_TYPES = {
    "Color::render_fg": DBUF, "Color::render_bg": DBUF, "Color::render_underline": DBUF,
    "AnsiColor::render_fg": NF, "AnsiColor::render_bg": NF,
    "Ansi256Color::render_fg": DBUF, "Ansi256Color::render_bg": DBUF,
    "RgbColor::render_fg": DBUF, "RgbColor::render_bg": DBUF,
    "Style::render": SDISP, "Style::render_reset": NF, "Reset::render": RESET_T,
}

VOCAB = {
    "reserved": ["d", "a", "i", "c", "b", "f", "s", "e", "w", "metadata", "style", "color"],
    "no_transparent": ("into",),
    "for_ret_state": True,
    "enums": {
        "AnsiColor": {"coq": "ansi_color", "var": "a", "variants": {n: n for n in ANSI_NAMES}},
        # Model/Render.v rn_color_view: the Rust enum with its payloads as they are
        "Color": ENUM_COLOR,
    },
    "structs": {
        "DisplayBuffer": {"coq": "rn_dbuf", "var": "d", "fields": {
            "buffer": ("db_buffer", "set_db_buffer", BYTES),
            "len": ("db_len", "set_db_len", USZ)}},
        "RgbColor": {"coq": "(N * N * N)", "var": "c", "fields": {
            "0": ("rn_rgb_f0", None, U8), "1": ("rn_rgb_f1", None, U8), "2": ("rn_rgb_f2", None, U8)}},
        "Ansi256Color": {"coq": "N", "var": "i", "fields": {"0": ("rn_a256_f0", None, U8)}},
        "NullFormatter": {"coq": "(list N)", "var": "nf", "fields": {"0": ("rn_nf_f0", None, BYTES)}},
        # core::fmt::Formatter as far as this code uses it (Model/Render.v rn_fmtr): the hand model's rn_fmt (the text
        # written so far, the alternate flag, width / fill / align / precision: carried along, nothing below reads
        # them) over a sink that answers write_str from a script (a String sink never fails: empty script)
        "Formatter": {"coq": "rn_fmtr", "var": "f", "fields": {}},
        # effect.rs (the functions of Effects / EffectIndexIter are the ones of Generated/StyleFn.v)
        "Effects": {"coq": "N", "var": "e", "fields": {"0": ("eff_f0", "set_eff_f0", U16)}},
        "EffectsDisplay": {"coq": "N", "var": "ed", "fields": {"0": ("effd_f0", None, EFF)}},
        "EffectIndexIter": {"coq": "eff_iter", "var": "it", "fields": {
            "index": ("ei_index", "set_ei_index", USZ), "effects": ("ei_effects", "set_ei_effects", EFF)}},
        "Metadata": {"coq": "(list N * list N)", "var": "md", "fields": {
            "name": ("md_name", None, BYTES), "escape": ("md_escape", None, BYTES)}},
        # style.rs: the hand model's record; the colour slots are read as the Rust enum
        "Style": {"coq": "style", "var": "s", "eqb": "style_eqb", "fields": {
            "fg": ("rn_st_fg", None, ("opt", COLOR)), "bg": ("rn_st_bg", None, ("opt", COLOR)),
            "underline": ("rn_st_ul", None, ("opt", COLOR)), "effects": ("st_eff", None, EFF)}},
        "StyleDisplay": {"coq": "style", "var": "sd", "fields": {"0": ("rn_sd_f0", None, STYLE)}},
        "Reset": {"coq": "unit", "var": "rs", "fields": {}},
    },
    "type_alias": {"str": BYTES, "Formatter": FMT},
    # `&mut dyn std::io::Write` is the scripted writer of Spec/Io.v; `impl Into<Color>` is read as a Color (`.into()` on it
    # is the identity: the conversions themselves are the translated From impls)
    "opaque_types": {"std::io::Write": WRITER, "Into<Color>": COLOR},
    "ret_types": RET_TYPES,
    "consts": {"DISPLAY_BUFFER_CAPACITY": ("rn_display_buffer_capacity", USZ),
               "RESET": ("rn_reset_str", BYTES),               # Generated/Render.v, read from reset.rs by gen_render.py
               "METADATA": ("metadata", ("list", META))},      # Generated/Style.v
    "fns": {
        "DisplayBuffer::default": {"coq": "rn_dbuf_default", "self": None, "params": [], "ret": DBUF, "total": True, "cfg": False},
        "Self": f_self_ctor,
        # core::str::from_utf8_unchecked: the bytes themselves (the model has no str / [u8] distinction;
        # that only &str values are ever stored is the SAFETY comment of as_str, not modelled)
        "str::from_utf8_unchecked": {"coq": "rn_from_utf8_unchecked", "self": None, "params": [("in", BYTES)], "ret": BYTES, "total": True, "cfg": False},
        "NullFormatter": shape("rn_nf_new", None, [("in", BYTES)], NF),
        "StyleDisplay": shape("rn_sd_new", None, [("in", STYLE)], SDISP),
        # translated in Generated/StyleFn.v (C13), proved there equal to st_new / st_fg_color / st_bg_color
        "Style::new": shape("g_st_new", None, [], STYLE),
    },
    "methods": {
        ("list", "enumerate"): m_enumerate,
        # Formatter::write_str appends to the sink and answers Ok(()), or the sink fails: Err, nothing appended;
        # no padding, no truncation: the flags are not looked at
        ("Formatter", "write_str"): shape("rn_fw_write_str", "inout", [("in", BYTES)], res(UNIT)),
        ("Formatter", "alternate"): shape("fr_alternate", "in", [], BOOL),
        # `&mut dyn io::Write`: the scripted writer of Spec/Io.v, write_all is std's default method
        ("coq", "write_all"): shape("w_write_all", "inout", [("in", BYTES)], res(UNIT)),
        # Generated/StyleFn.v
        ("Effects", "index_iter"): shape("g_eff_index_iter", "in", [], IITER),
        ("Effects", "render"): shape("g_eff_render", "in", [], EFFD),
        ("Effects", "is_plain"): shape("g_eff_is_plain", "in", [], BOOL),
        ("Style", "is_plain"): shape("g_st_is_plain", "in", [], BOOL),
        ("Style", "fg_color"): shape("rn_st_fg_color", "in", [("in", ("opt", COLOR))], STYLE),
        ("Style", "bg_color"): shape("rn_st_bg_color", "in", [("in", ("opt", COLOR))], STYLE),
        ("Color", "into"): m_identity,
        ("AnsiColor", "into"): m_into_color("Color::from<AnsiColor>"),
        ("Ansi256Color", "into"): m_into_color("Color::from<Ansi256Color>"),
        ("RgbColor", "into"): m_into_color("Color::from<RgbColor>"),
    },
    # `for index in effects.index_iter()`: the items of the translated `next`, collected (Model/Imp.v iter_drain)
    "iter_conv": {"EffectIndexIter": ("iter_drain g_eff_index_iter_next (S (length metadata))", True, USZ)},
    "macros": {"escape": m_escape},
    "opaque": {},
}

HEADER = "(* GENERATED by tools/gen_fn_render.py (tools/rs2v) from crates/anstyle/src/{color.rs,effect.rs,style.rs,reset.rs,macros.rs} -- do not edit *)"
REQ = """From Coq Require Import NArith List Bool.
From AV Require Import Generated.Style Generated.Render Spec.Io Model.Base Model.Imp Model.Style Generated.StyleFn Model.Render.
Import ListNotations.
Local Open Scope N_scope.
Local Open Scope bool_scope."""

# hand-modelled, pinned: (file, impl, fn) -> token hash.  Empty since Style::fmt_to, the Display impls and the
# io::Write functions are translated; macros.rs stays pinned because the vocabulary expands escape! by hand.
PINS = {}
MACRO_PIN = "7ded2b12d236c49e"


def voc(err, checked):
    """the vocabulary with `Result` read as core::fmt::Result (err = "unit") or io::Result (err = "ekind");
    `checked`: the structs whose definition is in the file being translated"""
    v = dict(VOCAB)
    v["result"] = {"err": err}
    v["structs"] = {n: dict(st, check=(n in checked)) for n, st in VOCAB["structs"].items()}
    if err == "unit":
        v["type_alias"] = dict(VOCAB["type_alias"], Result=res(UNIT))
    return v


def check_enum(items, name, expected):
    ens = find_items(items, "enum", name)
    if len(ens) != 1:
        raise TranslateError("enum %s: %d definitions" % (name, len(ens)))
    got = []
    for vname, payload, disc, _attrs in ens[0].variants:
        if payload == "struct" or disc is not None:
            raise TranslateError("enum %s::%s: struct payload / explicit discriminant" % (name, vname))
        got.append((vname, [type_name(t) for t in payload] if payload else []))
    if got != expected:
        raise TranslateError("enum %s: variants %r, the vocabulary models %r" % (name, got, expected))


def pins(srcs):
    out = {}
    for (f, impl, fn) in PINS:
        out[(f, impl, fn)] = token_hash(fn_source(srcs[f], fn, impl))
    return out


def f_self_ctor2(em, e, env, k):
    """`Self(x)` in `impl Ansi256Color` / `impl From<u8> for Ansi256Color`, `Self(r, g, b)` in `impl From<(u8, u8, u8)> for RgbColor`"""
    if em.self_struct == "RgbColor" and len(e.args) == 3:
        return em.exprs(e.args, env, lambda ts, _tys, env1: k("(%s)" % ", ".join(ts), RGB, env1))
    return f_self_ctor(em, e, env, k)


FROM_FNS = {
    "Self": f_self_ctor2,
    "Color::Ansi": shape("RvAnsi", None, [("in", ANSI)], COLOR),
    "Color::Ansi256": shape("RvAnsi256", None, [("in", A256)], COLOR),
    "Color::Rgb": shape("RvRgb", None, [("in", RGB)], COLOR),
}


def register(generators, gm):
    def gen():
        try:
            col = gm.read("crates/anstyle/src/color.rs")
            sty = gm.read("crates/anstyle/src/style.rs")
            eff = gm.read("crates/anstyle/src/effect.rs")
            rst = gm.read("crates/anstyle/src/reset.rs")
            mac = gm.read("crates/anstyle/src/macros.rs")
            try:
                citems = parse_file(col)
            except (ParseError, LexError) as e:
                raise TranslateError("color.rs: parse error: %s" % e)
            check_enum(citems, "AnsiColor", [(n, []) for n in ANSI_NAMES])
            check_enum(citems, "Color", [("Ansi", ["AnsiColor"]), ("Ansi256", ["Ansi256Color"]), ("Rgb", ["RgbColor"])])
            # the escape! macro the vocabulary expands by hand
            if token_hash(mac) != MACRO_PIN:
                raise TranslateError("macros.rs changed (token hash %s, pinned %s): escape! is expanded by the vocabulary" % (token_hash(mac), MACRO_PIN))
            for key, h in pins({"color.rs": col, "style.rs": sty}).items():
                if h != PINS[key]:
                    raise TranslateError("%s %s::%s changed (token hash %s, pinned %s): it is modelled by hand (Model/Render.v) and must be re-read"
                                         % (key[0], key[1], key[2], h, PINS[key]))
            COLOR_RS = ["DisplayBuffer", "RgbColor", "Ansi256Color", "NullFormatter"]
            shapes = {}
            out = []
            # ---- color.rs: the buffers and their Display impls (core::fmt::Result)
            targets = [
                ("write_str", "DisplayBuffer", "gr_write_str", {}),
                ("write_code", "DisplayBuffer", "gr_write_code", {}),
                ("as_str", "DisplayBuffer", "gr_as_str", {}),
                ("r", "RgbColor", "gr_rgb_r", {}),
                ("g", "RgbColor", "gr_rgb_g", {}),
                ("b", "RgbColor", "gr_rgb_b", {}),
                ("index", "Ansi256Color", "gr_a256_index", {}),
                ("from_ansi", "Ansi256Color", "gr_from_ansi", {}),
                ("from", "Ansi256Color", "gr_a256_from", {"trait": "From", "trait_arg": "AnsiColor"}),
            ]
            for impl, pre in (("Ansi256Color", "gr_a256"), ("RgbColor", "gr_rgb")):
                for f in ("as_fg_buffer", "as_bg_buffer", "as_underline_buffer"):
                    targets.append((f, impl, "%s_%s" % (pre, f[3:]), {}))
            for f in ("as_fg_str", "as_bg_str", "as_fg_buffer", "as_bg_buffer", "as_underline_buffer"):
                targets.append((f, "AnsiColor", "gr_ansi_%s" % f[3:], {}))
            for f in ("render_fg", "render_bg", "render_underline"):
                targets.append((f, "Color", "gr_color_%s" % f, {}))
            targets += [
                ("fmt", "DisplayBuffer", "gr_dbuf_fmt", {"trait": "Display"}),
                ("fmt", "NullFormatter", "gr_null_fmt", {"trait": "Display"}),
            ]
            for impl, pre in (("AnsiColor", "gr_ansi"), ("Ansi256Color", "gr_a256"), ("RgbColor", "gr_rgb")):
                for f in ("render_fg", "render_bg"):
                    targets.append((f, impl, "%s_%s" % (pre, f), {}))
            out.append(translate(col, voc("unit", COLOR_RS), targets, HEADER, REQ, shapes))
            # ---- color.rs: the io::Write side (io::Result)
            out.append(translate(col, voc("ekind", COLOR_RS), [
                ("write_to", "DisplayBuffer", "gr_dbuf_write_to", {}),
                ("write_fg_to", "Color", "gr_color_write_fg_to", {}),
                ("write_bg_to", "Color", "gr_color_write_bg_to", {}),
                ("write_underline_to", "Color", "gr_color_write_underline_to", {}),
            ], "", "", shapes))
            # ---- effect.rs
            out.append(translate(eff, voc("unit", ["Effects", "EffectsDisplay", "EffectIndexIter", "Metadata"]), [
                ("fmt", "EffectsDisplay", "gr_effects_fmt", {"trait": "Display"}),
            ], "", "", shapes))
            out.append(translate(eff, voc("ekind", []), [
                ("write_to", "Effects", "gr_effects_write_to", {}),
            ], "", "", shapes))
            # ---- reset.rs
            out.append(translate(rst, voc("unit", ["Reset"]), [
                ("render", "Reset", "gr_reset_render", {}),
                ("fmt", "Reset", "gr_reset_fmt", {"trait": "Display"}),
            ], "", "", shapes))
            # ---- style.rs
            out.append(translate(sty, voc("unit", ["Style", "StyleDisplay"]), [
                ("render", "Style", "gr_style_render", {}),
                ("fmt_to", "Style", "gr_style_fmt_to", {}),
                ("render_reset", "Style", "gr_style_render_reset", {}),
                ("fmt", "Style", "gr_style_fmt", {"trait": "Display"}),
                ("fmt", "StyleDisplay", "gr_style_display_fmt", {"trait": "Display"}),
            ], "", "", shapes))
            out.append(translate(sty, voc("ekind", []), [
                ("write_to", "Style", "gr_style_write_to", {}),
                # `monadic`: an io function stays option-valued however its body is spelled (with early returns nothing
                # in it binds, and the emitter would type it as a total function: the theorems say `= Some ..`)
                ("write_reset_to", "Style", "gr_style_write_reset_to", {"monadic": True}),
            ], "", "", shapes))
            # ---- color.rs: conversions and the `on` / `on_default` constructors of a Style
            v = voc("unit", COLOR_RS)
            v["fns"] = dict(VOCAB["fns"], **FROM_FNS)
            v["methods"] = dict(VOCAB["methods"])
            v["methods"][("int", "into")] = m_into_color("Ansi256Color::from<u8>")
            v["methods"][("tuple", "into")] = m_into_color("RgbColor::from<(u8,u8,u8)>")
            ftargets = [
                ("from", "Ansi256Color", "gr_a256_from_u8", {"trait": "From", "trait_arg": "u8", "key": "Ansi256Color::from<u8>"}),
                ("from", "RgbColor", "gr_rgb_from_tuple", {"trait": "From", "key": "RgbColor::from<(u8,u8,u8)>"}),
                ("from", "Color", "gr_color_from_ansi", {"trait": "From", "trait_arg": "AnsiColor", "key": "Color::from<AnsiColor>"}),
                ("from", "Color", "gr_color_from_a256", {"trait": "From", "trait_arg": "Ansi256Color", "key": "Color::from<Ansi256Color>"}),
                ("from", "Color", "gr_color_from_rgb", {"trait": "From", "trait_arg": "RgbColor", "key": "Color::from<RgbColor>"}),
                ("from", "Color", "gr_color_from_u8", {"trait": "From", "trait_arg": "u8", "key": "Color::from<u8>"}),
                ("from", "Color", "gr_color_from_tuple", {"trait": "From", "trait_arg": "tuple", "key": "Color::from<(u8,u8,u8)>"}),
            ]
            for impl, pre in (("Color", "gr_color"), ("AnsiColor", "gr_ansi"), ("Ansi256Color", "gr_a256"), ("RgbColor", "gr_rgb")):
                ftargets.append(("on", impl, pre + "_on", {}))
                ftargets.append(("on_default", impl, pre + "_on_default", {}))
            out.append(translate(col, v, ftargets, "", "", shapes))
            return "\n".join(out) + "\n"
        except TranslateError as e:
            raise gm.GenError(str(e))
    generators["RenderFn"] = gen
