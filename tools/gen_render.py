"""Translator, rendering part (C05): crates/anstyle/src/{color.rs,style.rs,effect.rs,reset.rs}
->  coq/Generated/Render.v.

What Generated/Style.v does not hold yet: the builder chains of the
`as_{fg,bg,underline}_buffer` functions of `Ansi256Color` / `RgbColor` (the
`\\x1B[38;5;` ... prefixes, separators, which field goes where), RESET,
DISPLAY_BUFFER_CAPACITY, the order in which `Style::fmt_to` / `Style::write_to` emit
effects / fg / bg / underline.  Everything else that the model of Model/Render.v
relies on without transcribing it as data is checked here as a *shape*: the
`Display` impls only call `f.write_str` (never `f.pad`), the `render_*` /
`write_*_to` dispatchers, `render_reset` / `write_reset_to`, `Display for Style`.
Hooked into tools/gen_model.py through `register`; helpers come from that module."""
import re


def register(generators, gm):
    g = globals()
    for k in dir(gm):
        if not k.startswith("__") and k not in g:
            g[k] = getattr(gm, k)
    generators["Render"] = gen_render


def _block_at(src, i, what):
    """text between the braces opening at or after position i"""
    i = src.find("{", i)
    if i < 0:
        raise GenError("%s: no body" % what)
    depth = 0
    for j in range(i, len(src)):
        if src[j] == "{":
            depth += 1
        elif src[j] == "}":
            depth -= 1
            if depth == 0:
                return src[i + 1:j]
    raise GenError("%s: unbalanced braces" % what)


def _impl(src, header):
    """bodies of the blocks introduced by the literal header, e.g. `impl AnsiColor`
    (an inherent impl may be split over several blocks; `_fn` then insists that a
    function name is unique among them)"""
    ms = list(re.finditer(r"(?m)^%s\s*\{" % re.escape(header), src))
    if not ms:
        raise GenError("`%s {` not found" % header)
    return "\n".join(_block_at(src, m.start(), header) for m in ms)


def _fn(block, name, what):
    ms = list(re.finditer(r"\bfn\s+%s\s*\(" % re.escape(name), block))
    if len(ms) != 1:
        raise GenError("%s: expected exactly one fn %s, found %d" % (what, name, len(ms)))
    return _block_at(block, ms[0].end(), "%s::%s" % (what, name))


def _norm(s):
    return re.sub(r"\s+", " ", s).strip()


def _expect(body, want_re, what, fn_gen="RenderFn"):
    """a BODY-shape check: no data is read off the text.  Every function looked at through `_expect` is also TRANSLATED
    (tools/gen_fn_render.py -> Generated/RenderFn.v; Effects::render in Generated/StyleFn.v) and proved equal to the hand
    model (Proofs/RenderGen.v / StyleGen.v; C05 names all four generators in gen_deps), so another spelling of the body is
    not an alarm by itself: the text pin falls back on "the function translator still translates the source"
    (gen_model.takes_over) and what the code does is decided by those proofs."""
    if not re.fullmatch(want_re, _norm(body)):
        takes_over(fn_gen, "%s: unexpected shape %r" % (what, _norm(body)[:160]))


def _chain(body, accessors, what):
    """`DisplayBuffer::default().write_str("..").write_code(self.x())...` -> parts"""
    t = _norm(body)
    if not t.startswith("DisplayBuffer::default()"):
        raise GenError("%s: does not start from DisplayBuffer::default()" % what)
    t = t[len("DisplayBuffer::default()"):].strip()
    parts = []
    while t:
        m = re.match(r'\.\s*write_str\(\s*"((?:[^"\\]|\\.)*)"\s*\)\s*', t)
        if m:
            parts.append(("str", rust_str_bytes(m.group(1))))
            t = t[m.end():]
            continue
        m = re.match(r"\.\s*write_code\(\s*self\.(\w+)\(\)\s*\)\s*", t)
        if m:
            if m.group(1) not in accessors:
                raise GenError("%s: write_code of unknown accessor %s" % (what, m.group(1)))
            parts.append(("code", accessors[m.group(1)]))
            t = t[m.end():]
            continue
        raise GenError("%s: unrecognised builder call near %r" % (what, t[:60]))
    if not parts:
        raise GenError("%s: empty builder chain" % what)
    return parts


def _coq_parts(parts):
    return "[" + "; ".join("RnStr %s" % coq_bytes(v) if k == "str" else "RnCode %d" % v for k, v in parts) + "]"


SLOTS = ("fg", "bg", "underline")


def gen_render():
    col = strip_comments(read("crates/anstyle/src/color.rs"))
    sty = strip_comments(read("crates/anstyle/src/style.rs"))
    eff = strip_comments(read("crates/anstyle/src/effect.rs"))
    rst = strip_comments(read("crates/anstyle/src/reset.rs"))

    # ---- constants ---------------------------------------------------------
    m = re.search(r"const DISPLAY_BUFFER_CAPACITY\s*:\s*usize\s*=\s*(\w+)\s*;", col)
    if not m:
        raise GenError("DISPLAY_BUFFER_CAPACITY not found")
    cap = rust_int(m.group(1))
    if not re.search(r"struct DisplayBuffer\s*\{\s*buffer:\s*\[u8;\s*DISPLAY_BUFFER_CAPACITY\],\s*len:\s*usize,\s*\}", col):
        raise GenError("struct DisplayBuffer: unexpected shape")
    m = re.search(r'pub\(crate\) const RESET\s*:\s*&str\s*=\s*"((?:[^"\\]|\\.)*)"\s*;', rst)
    if not m:
        raise GenError("RESET not found")
    reset = rust_str_bytes(m.group(1))

    # ---- DisplayBuffer (the algorithmic parts are modelled by hand; their shape is pinned) ----
    db = _impl(col, "impl DisplayBuffer")
    _expect(_fn(db, "write_str", "DisplayBuffer"),
            r"for \(i, b\) in part\.as_bytes\(\)\.iter\(\)\.enumerate\(\) \{ self\.buffer\[self\.len \+ i\] = \*b; \} self\.len \+= part\.len\(\); self",
            "DisplayBuffer::write_str")
    _expect(_fn(db, "write_code", "DisplayBuffer"),
            r"let c1: u8 = \(code / 100\) % 10; let c2: u8 = \(code / 10\) % 10; let c3: u8 = code % 10; "
            r"let mut printed = true; "
            r"if c1 != 0 \{ printed = true; self\.buffer\[self\.len\] = b'0' \+ c1; self\.len \+= 1; \} "
            r"if c2 != 0 \|\| printed \{ self\.buffer\[self\.len\] = b'0' \+ c2; self\.len \+= 1; \} "
            r"self\.buffer\[self\.len\] = b'0' \+ c3; self\.len \+= 1; self",
            "DisplayBuffer::write_code")
    _expect(_fn(db, "as_str", "DisplayBuffer"),
            r"#\[allow\(unsafe_code\)\] unsafe \{ core::str::from_utf8_unchecked\(&self\.buffer\[0\.\.self\.len\]\) \}",
            "DisplayBuffer::as_str")
    _expect(_fn(db, "write_to", "DisplayBuffer"), r"write\.write_all\(self\.as_str\(\)\.as_bytes\(\)\)", "DisplayBuffer::write_to")

    # ---- every Display impl on the rendering path is a bare write_str (no pad) ----
    def display_body(src, ty):
        return _fn(_impl(src, "impl core::fmt::Display for %s" % ty), "fmt", "Display for " + ty)
    _expect(display_body(col, "DisplayBuffer"), r"f\.write_str\(self\.as_str\(\)\)", "Display for DisplayBuffer")
    _expect(display_body(col, "NullFormatter"), r"f\.write_str\(self\.0\)", "Display for NullFormatter")
    if not re.search(r"pub\(crate\) struct NullFormatter\(pub\(crate\) &'static str\);", col):
        raise GenError("struct NullFormatter: unexpected shape")
    _expect(display_body(rst, "Reset"), r"f\.write_str\(RESET\)", "Display for Reset")
    _expect(_fn(_impl(rst, "impl Reset"), "render", "Reset"), r"self", "Reset::render")
    _expect(display_body(eff, "EffectsDisplay"),
            r"for index in self\.0\.index_iter\(\) \{ f\.write_str\(METADATA\[index\]\.escape\)\?; \} Ok\(\(\)\)", "Display for EffectsDisplay")
    effi = _impl(eff, "impl Effects")
    _expect(_fn(effi, "render", "Effects"), r"EffectsDisplay\(self\)", "Effects::render", "StyleFn")
    _expect(_fn(effi, "write_to", "Effects"),
            r"for index in self\.index_iter\(\) \{ write\.write_all\(METADATA\[index\]\.escape\.as_bytes\(\)\)\?; \} Ok\(\(\)\)", "Effects::write_to")
    _expect(display_body(sty, "StyleDisplay"), r"self\.0\.fmt_to\(f\)", "Display for StyleDisplay")
    _expect(display_body(sty, "Style"),
            r"if f\.alternate\(\) \{ self\.render_reset\(\)\.fmt\(f\) \} else \{ self\.fmt_to\(f\) \}", "Display for Style")

    # ---- colours ------------------------------------------------------------
    ansi = _impl(col, "impl AnsiColor")
    a256 = _impl(col, "impl Ansi256Color")
    rgb = _impl(col, "impl RgbColor")
    _expect(_fn(a256, "index", "Ansi256Color"), r"self\.0", "Ansi256Color::index")
    for i, acc in enumerate("rgb"):
        _expect(_fn(rgb, acc, "RgbColor"), r"self\.%d" % i, "RgbColor::" + acc)
    if not re.search(r"pub struct Ansi256Color\(pub u8\);", col) or not re.search(r"pub struct RgbColor\(pub u8, pub u8, pub u8\);", col):
        raise GenError("Ansi256Color / RgbColor are no longer u8 tuples")
    _expect(_fn(_impl(col, "impl From<AnsiColor> for Ansi256Color"), "from", "From<AnsiColor> for Ansi256Color"),
            r"Self::from_ansi\(inner\)", "From<AnsiColor> for Ansi256Color")
    for slot in ("fg", "bg"):
        _expect(_fn(ansi, "as_%s_buffer" % slot, "AnsiColor"), r"DisplayBuffer::default\(\)\.write_str\(self\.as_%s_str\(\)\)" % slot,
                "AnsiColor::as_%s_buffer" % slot)
        _expect(_fn(ansi, "render_" + slot, "AnsiColor"), r"NullFormatter\(self\.as_%s_str\(\)\)" % slot, "AnsiColor::render_" + slot)
        for blk, ty in ((a256, "Ansi256Color"), (rgb, "RgbColor")):
            _expect(_fn(blk, "render_" + slot, ty), r"self\.as_%s_buffer\(\)" % slot, "%s::render_%s" % (ty, slot))
    _expect(_fn(ansi, "as_underline_buffer", "AnsiColor"), r"Ansi256Color::from\(\*self\)\.as_underline_buffer\(\)", "AnsiColor::as_underline_buffer")
    chains = {}
    for slot in SLOTS:
        chains["ansi256", slot] = _chain(_fn(a256, "as_%s_buffer" % slot, "Ansi256Color"), {"index": 0}, "Ansi256Color::as_%s_buffer" % slot)
        chains["rgb", slot] = _chain(_fn(rgb, "as_%s_buffer" % slot, "RgbColor"), {"r": 0, "g": 1, "b": 2}, "RgbColor::as_%s_buffer" % slot)
    # Color: the dispatchers
    colr = _impl(col, "impl Color")
    arms = r"Self::Ansi\(color\) => color\.as_%(s)s_buffer\(\), Self::Ansi256\(color\) => color\.as_%(s)s_buffer\(\), Self::Rgb\(color\) => color\.as_%(s)s_buffer\(\),"
    for slot in SLOTS:
        _expect(_fn(colr, "render_" + slot, "Color"), (r"match self \{ " + arms + r" \}") % {"s": slot}, "Color::render_" + slot)
        _expect(_fn(colr, "write_%s_to" % slot, "Color"), (r"let buffer = match self \{ " + arms + r" \}; buffer\.write_to\(write\)") % {"s": slot},
                "Color::write_%s_to" % slot)

    # ---- Style ---------------------------------------------------------------
    styi = _impl(sty, "impl Style")
    names = {"fg": "fg", "bg": "bg", "underline": "underline"}

    def order(body, head_re, item_re, what):
        t = _norm(body)
        m = re.match(head_re, t)
        if not m:
            raise GenError("%s: effects are not emitted first: %r" % (what, t[:80]))
        t = t[m.end():]
        out = ["effects"]
        while True:
            m = re.match(item_re, t)
            if not m:
                break
            var, field, used, call = m.group(1), m.group(2), m.group(3), m.group(4)
            if field not in names or var != used or call != field:
                raise GenError("%s: field %s rendered through %s of %s" % (what, field, call, used))
            out.append(field)
            t = t[m.end():]
        if t.strip() != "Ok(())":
            raise GenError("%s: unexpected tail %r" % (what, t[:80]))
        if sorted(out[1:]) != sorted(names) or len(out) != 4:
            raise GenError("%s: fields rendered: %r" % (what, out))
        return out
    fmt_order = order(_fn(styi, "fmt_to", "Style"), r"use core::fmt::Display as _; self\.effects\.render\(\)\.fmt\(f\)\?; ",
                      r"if let Some\((\w+)\) = self\.(\w+) \{ (\w+)\.render_(\w+)\(\)\.fmt\(f\)\?; \} ", "Style::fmt_to")
    write_order = order(_fn(styi, "write_to", "Style"), r"self\.effects\.write_to\(write\)\?; ",
                        r"if let Some\((\w+)\) = self\.(\w+) \{ (\w+)\.write_(\w+)_to\(write\)\?; \} ", "Style::write_to")
    _expect(_fn(styi, "render", "Style"), r"StyleDisplay\(self\)", "Style::render")
    _expect(_fn(styi, "render_reset", "Style"),
            r'if self != Self::new\(\) \{ crate::color::NullFormatter\(RESET\) \} else \{ crate::color::NullFormatter\(""\) \}', "Style::render_reset")
    _expect(_fn(styi, "write_reset_to", "Style"),
            r"if self != Self::new\(\) \{ write\.write_all\(RESET\.as_bytes\(\)\) \} else \{ Ok\(\(\)\) \}", "Style::write_reset_to")
    if not re.search(r"use crate::reset::RESET;", sty):
        raise GenError("style.rs: RESET is not crate::reset::RESET")

    slot_no = {"effects": 0, "fg": 1, "bg": 2, "underline": 3}
    o = [HEADER % "crates/anstyle/src/{color.rs,style.rs,effect.rs,reset.rs}"]
    o.append("From Coq Require Import NArith List.\nImport ListNotations.\nLocal Open Scope N_scope.\n")
    o.append("(* reset.rs *)\nDefinition rn_reset_str : list N := %s.\n" % coq_bytes(reset))
    o.append("(* color.rs *)\nDefinition rn_display_buffer_capacity : N := %d.\n" % cap)
    o.append("(* one call of a `DisplayBuffer::default().write_str(..).write_code(self.x())...` chain;\n"
             "   [RnCode k] = write_code of the k-th field of the colour (index | r, g, b) *)")
    o.append("Inductive rn_part : Set := RnStr (s : list N) | RnCode (field : nat).\n")
    for ty in ("ansi256", "rgb"):
        for slot in SLOTS:
            o.append("Definition rn_%s_%s_parts : list rn_part := %s." % (ty, "ul" if slot == "underline" else slot, _coq_parts(chains[ty, slot])))
    o.append("\n(* style.rs: what fmt_to / write_to emit, in order (0 effects, 1 fg, 2 bg, 3 underline) *)")
    o.append("Inductive rn_slot : Set := RnEffects | RnFg | RnBg | RnUl.\n")
    cn = {"effects": "RnEffects", "fg": "RnFg", "bg": "RnBg", "underline": "RnUl"}
    o.append("Definition rn_fmt_order : list rn_slot := [%s]." % "; ".join(cn[x] for x in fmt_order))
    o.append("Definition rn_write_order : list rn_slot := [%s].\n" % "; ".join(cn[x] for x in write_order))
    return "\n".join(o)
