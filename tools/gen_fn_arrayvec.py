#!/usr/bin/env python3
"""Function translator, third-party crate arrayvec (optional dependency of crates/anstyle-parse, feature `core`:
`osc_raw: ArrayVec<u8, MAX_OSC_RAW>`):
~/.cargo/registry/src/*/arrayvec-<version pinned by /repo/Cargo.lock>/src/{arrayvec.rs, arrayvec_impl.rs, errors.rs, lib.rs}
-> coq/Generated/ArrayVecFn.v (generator ArrayVecFn; C20, C02, C04).  See HACKING.d/arrayvec.md.

TRANSLATED (tools/rs2v), inside `Section ArrayVec. Variable T : Type. Variable CAP : N.` (the two generic parameters):
  errors.rs         CapacityError::{new, element}
  arrayvec.rs       ArrayVec::{len, capacity} (inherent)
                    impl ArrayVecImpl for ArrayVec: len, set_len, as_ptr, as_mut_ptr          (g_avi_*)
  arrayvec_impl.rs  trait ArrayVecImpl, the DEFAULT bodies as_slice, push_unchecked, try_push, push, truncate, clear
                    (g_avi_*; Self = ArrayVec<T, CAP>: the only impl of this crate-private trait that anstyle-parse reaches)
  arrayvec.rs       ArrayVec::{new, is_empty, is_full, remaining_capacity, push, try_push, push_unchecked, truncate, clear,
                    set_len, as_slice, as_ptr, as_mut_ptr}, <ArrayVec as Deref>::deref, <ArrayVec as Default>::default,
                    <ArrayVec as Drop>::drop                                                    (g_av_*)
  lib.rs            macro_rules! assert_capacity_limit: expanded at its call site in `new` (tools/rs2v/mexpand.py) and translated
These are the methods anstyle-parse calls on `osc_raw` (Default through derive(Default) of Parser, clear, is_full, len, push,
indexing through Deref) and everything they reach inside the crate.

The code is unsafe code over `xs: [MaybeUninit<T>; CAP]` + `len`.  It is read at VALUE level (the reading is stated in
coq/Model/ArrayVec.v and is part of the trusted base): a slot is an option, a pointer into the buffer is a slot index and
remembers (in its translation-time TYPE ("ptr", <variable>)) which vector it was obtained from, ptr::write / from_raw_parts /
drop_in_place act on that vector's slots, undefined behaviour (a slot read back uninitialised, an access outside the buffer)
is None like a panic.  Proofs/ArrayVecGen.v proves that on the representation invariant the translated methods behave as the
list model the parser translation uses (Model/ArrayVec.v avl_*) and never reach such a None except where the list model panics.

NOT translated (anstyle-parse does not call them on osc_raw): everything else of the crate (insert, pop, remove, retain,
drain, extend, Clone / PartialEq / Debug / Hash / Ord impls, IntoIter, ArrayString, ...).  Clone, PartialEq and Debug of ArrayVec
ARE reached by the derives of `Parser`; they stay tied by the differential runs only (inventory class `untied`)."""
import glob
import hashlib
import io
import os
import re
import sys
import tarfile

sys.path.insert(0, os.path.dirname(os.path.abspath(__file__)))
from rs2v.driver import translate, TranslateError   # noqa: E402
from rs2v import driver as drv                      # noqa: E402
from rs2v.emit import Emitter, EmitError            # noqa: E402
from rs2v.rparser import N, parse_file, find_items, find_fn, ParseError, type_name   # noqa: E402
from rs2v.lexer import LexError                     # noqa: E402
from rs2v.mexpand import expand, ExpandError        # noqa: E402
import thirdparty                                   # noqa: E402

CRATE = "arrayvec"
HARNESS = "h-parsecfg"
FILES = ["src/arrayvec.rs", "src/arrayvec_impl.rs", "src/errors.rs", "src/lib.rs"]

UNIT, BOOL = ("unit",), ("bool",)
U32, USZ = ("int", "u32"), ("int", "usize")
TY = ("coq", "T")
AV, CAPERR, PTR = ("struct", "ArrayVec"), ("struct", "CapacityError"), ("struct", "RawPtr")
SLOTS = ("list", ("opt", TY))
ITEMS = ("list", TY)

TRAIT_FNS = ["len", "set_len", "as_slice", "as_mut_slice", "as_ptr", "as_mut_ptr", "push", "try_push", "push_unchecked", "pop",
             "clear", "truncate"]
TRAIT_REQUIRED = ["len", "set_len", "as_ptr", "as_mut_ptr"]
TRAIT_DEFAULTS = ["as_slice", "push_unchecked", "try_push", "push", "truncate", "clear"]     # translated, in dependency order


# -- the value-level reading of the pointer code (vocabulary callables) ----------------------------------------

def var_of(e):
    """the plain variable a receiver expression is (through & / &mut / * / parentheses), else None"""
    while e.kind == "paren" or (e.kind == "unary" and e.op in ("&", "&mut", "*")):
        e = e.e
    if e.kind == "path" and len(e.segs) == 1:
        return e.segs[0]
    return None


def xs_place(var):
    return N("field", e=N("path", segs=[var]), name="xs")


def m_self_ptr(which):
    """`v.as_ptr()` / `v.as_mut_ptr()` inside the trait's default bodies: the TRANSLATED method of `impl ArrayVecImpl for
    ArrayVec` (a slot index); the type of the result remembers the variable `v` the pointer points into"""
    def h(em, e, rt, rty, env, k):
        if e.args:
            raise EmitError("%s takes no argument" % which)
        var = var_of(e.recv)
        if var is None:
            raise EmitError("%s: the receiver must be a variable (the pointer remembers the vector it points into)" % which)
        shape = em.av_ptr_shapes.get(which)
        if shape is None:
            raise EmitError("%s is not translated yet" % which)
        return em.call_shape(shape, e.recv, [], env, lambda t, _ty, env2: k(t, ("ptr", var), env2))
    return h


def m_buf_ptr(em, e, rt, rty, env, k):
    """<[MaybeUninit<T>]>::as_ptr / as_mut_ptr on the buffer: the address of its first slot"""
    if e.args or rty != SLOTS or not (e.recv.kind == "field" and e.recv.name == "xs"):
        raise EmitError("as_ptr / as_mut_ptr: only on the buffer `self.xs`")
    return k("av_buf_start", PTR, env)


def m_ptr_add(em, e, rt, rty, env, k):
    if len(e.args) != 1:
        raise EmitError("<*T>::add takes one argument")
    return em.expr(e.args[0], env, lambda t, ty, env1: k("(av_ptr_add %s %s)" % (rt, t), rty, env1))


def cast_hook(em, e, env, k):
    """`<pointer to MaybeUninit<T>> as _` (to the function's pointer-to-T return type): the same address"""
    if not (e.ty.form == "path" and e.ty.segs == ["_"]):
        return None

    def k1(t, ty, env1):
        if ty != PTR and ty[0] != "ptr":
            raise EmitError("`as _` on a value of type %r (only the pointer cast *MaybeUninit<T> -> *T is modelled)" % (ty,))
        return k(t, ty, env1)
    return em.expr(e.e, env, k1)


def ptr_arg(what, pty):
    if pty[0] != "ptr":
        raise EmitError("%s through a pointer that was not obtained from a vector's buffer (%r)" % (what, pty))
    return pty[1]


def f_ptr_write(em, e, env, k):
    """ptr::write(p, x): slot p of the vector p points into is initialised with x"""
    if e.f.segs[-2:] != ["ptr", "write"] or len(e.args) != 2:
        raise EmitError("only ptr::write(p, x) is modelled")

    def k_p(pt, pty, env1):
        place = xs_place(ptr_arg("ptr::write", pty))

        def k_v(vt, vty, env2):
            def k_xs(xt, _xty, env3):
                return em.bind("av_ptr_write %s %s %s" % (xt, pt, vt), SLOTS, env3,
                               lambda x, _t, env4: em.write_place(place, x, env4, lambda env5: k("tt", UNIT, env5)), hint="xs")
            return em.expr(place, env2, k_xs)
        return em.expr(e.args[1], env1, k_v)
    return em.expr(e.args[0], env, k_p)


def f_from_raw_parts(em, e, env, k):
    """slice::from_raw_parts(p, n) (dereferenced at once: the function returns `&[T]`): the slots [p, p+n) read as initialised"""
    if e.f.segs[-2:] != ["slice", "from_raw_parts"] or len(e.args) != 2:
        raise EmitError("only slice::from_raw_parts(p, n) is modelled")

    def k_a(ts, tys, env1):
        place = xs_place(ptr_arg("slice::from_raw_parts", tys[0]))
        return em.expr(place, env1, lambda xt, _xty, env2: em.bind("av_from_raw_parts %s %s %s" % (xt, ts[0], ts[1]), ITEMS, env2, k, hint="sl"))
    return em.exprs(e.args, env, k_a)


def f_from_raw_parts_mut(em, e, env, k):
    """slice::from_raw_parts_mut(p, n): a raw mutable slice = (p, n); only ptr::drop_in_place takes it"""
    if e.f.segs[-2:] != ["slice", "from_raw_parts_mut"] or len(e.args) != 2:
        raise EmitError("only slice::from_raw_parts_mut(p, n) is modelled")
    return em.exprs(e.args, env, lambda ts, tys, env1: k("(%s, %s)" % (ts[0], ts[1]), ("rawslice", ptr_arg("slice::from_raw_parts_mut", tys[0])), env1))


def f_drop_in_place(em, e, env, k):
    """ptr::drop_in_place(<raw slice>): the values in its slots are dropped, the slots are uninitialised afterwards"""
    if e.f.segs[-2:] != ["ptr", "drop_in_place"] or len(e.args) != 1:
        raise EmitError("only ptr::drop_in_place(s) is modelled")

    def k_a(t, ty, env1):
        if ty[0] != "rawslice":
            raise EmitError("ptr::drop_in_place of a value of type %r (only a slice::from_raw_parts_mut slice is modelled)" % (ty,))
        place = xs_place(ty[1])

        def k_xs(xt, _xty, env2):
            return em.bind("av_drop_in_place %s (fst %s) (snd %s)" % (xt, t, t), SLOTS, env2,
                           lambda x, _t, env3: em.write_place(place, x, env3, lambda env4: k("tt", UNIT, env4)), hint="xs")
        return em.expr(place, env1, k_xs)
    return em.expr(e.args[0], env, k_a)


def m_res_unwrap(em, e, rt, rty, env, k):
    if e.args:
        raise EmitError("Result::unwrap takes no argument")
    return em.bind("av_res_unwrap %s" % rt, rty[1], env, k, hint="u")


def f_size_of(em, e, env, k):
    """std::mem::size_of::<usize | LenUint>() -- the TARGET: 64-bit (the harness runs on x86_64), LenUint = u32 (checked in lib.rs)"""
    ta = (getattr(e.f, "targs", None) or "").replace(" ", "")
    if e.args or e.f.segs[-2:] != ["mem", "size_of"] or ta not in ("<usize>", "<LenUint>"):
        raise EmitError("size_of::%s(): only size_of::<usize>() and size_of::<LenUint>() are modelled" % ta)
    return k("8" if ta == "<usize>" else "4", USZ, env)


def mac_assert_capacity_limit(lib_src):
    """assert_capacity_limit!(cap): the macro of lib.rs, EXPANDED by tools/rs2v/mexpand.py at the call site and translated"""
    def h(em, e, env, k):
        arg = " ".join(t.text for t in e.toks)
        probe = lib_src + "\nfn av_macro_probe() { assert_capacity_limit!(%s); }\n" % arg
        try:
            fn = find_fn(parse_file(expand(probe, ["assert_capacity_limit"])), "av_macro_probe")
        except (ExpandError, ParseError, LexError, KeyError) as ex:
            raise EmitError("assert_capacity_limit!: %s" % ex)
        return em.expr(fn.body, env, k)
    return h


def vocab(area, lib_src=""):
    v = {
        "reserved": ["k", "T", "CAP", "len", "slice", "fst", "snd"],
        "no_transparent": ("as_slice", "as_ref", "as_mut", "clone", "into", "iter", "borrow", "borrow_mut", "to_owned"),
        "result": {"err": "(av_cap_error T)"},
        "type_alias": {"T": TY, "Self::Item": TY, "Self::Target": ITEMS, "LenUint": U32, "MaybeUninit": ("opt", TY), "ArrayVec": AV,
                       "CapacityError": CAPERR},
        "structs": {
            "ArrayVec": {"coq": "(avec T)", "var": "v", "check": area != "errors", "ctor": ("mkAvec", ["len", "xs"]),
                         "fields": {"len": ("av_len", "set_av_len", U32), "xs": ("av_xs", "set_av_xs", SLOTS)}},
            "CapacityError": {"coq": "(av_cap_error T)", "var": "ce", "check": area == "errors", "ctor": ("mkAvCapErr", ["element"]),
                              "fields": {"element": ("ave_element", None, TY)}},
            "RawPtr": {"coq": "N", "check": False, "fields": {}},
        },
        "enums": {},
        "consts": {"CAP": ("CAP", USZ)},
        # `Self::CAPACITY`: the associated constant of `impl ArrayVecImpl for ArrayVec` / of the inherent impl, both `= CAP` (checked)
        "paths": {"Self::CAPACITY": ("CAP", USZ), "LenUint::MAX": ("av_len_uint_max", U32)},
        "ret_types": {"ArrayVec::as_ptr": PTR, "ArrayVec::as_mut_ptr": PTR},
        "fns": {"ptr::write": f_ptr_write, "slice::from_raw_parts": f_from_raw_parts, "slice::from_raw_parts_mut": f_from_raw_parts_mut,
                "ptr::drop_in_place": f_drop_in_place, "mem::size_of": f_size_of},
        "methods": {("list", "as_ptr"): m_buf_ptr, ("list", "as_mut_ptr"): m_buf_ptr, ("ptr", "add"): m_ptr_add,
                    ("res", "unwrap"): m_res_unwrap},
        "macros": {"assert_capacity_limit": mac_assert_capacity_limit(lib_src)},
        "cast_hook": cast_hook,
        "opaque": {},
    }
    if area == "trait":
        v["methods"][("ArrayVec", "as_ptr")] = m_self_ptr("as_ptr")
        v["methods"][("ArrayVec", "as_mut_ptr")] = m_self_ptr("as_mut_ptr")
    return v


HEADER = ("(* GENERATED by tools/gen_fn_arrayvec.py (tools/rs2v) from the cargo registry source of arrayvec %s\n"
          "   (src/errors.rs, src/arrayvec.rs, src/arrayvec_impl.rs, the macro assert_capacity_limit of src/lib.rs; version pinned by\n"
          "   Cargo.lock%s) -- do not edit *)")
REQ = """From Coq Require Import NArith List Bool.
From AV Require Import Model.Base Model.Imp Model.ArrayVec.
Import ListNotations.
Local Open Scope N_scope.
Local Open Scope bool_scope.

Section ArrayVec.
(* the generic parameters of `ArrayVec<T, const CAP: usize>` *)
Variable T : Type.
Variable CAP : N.
"""


# -- item checks ----------------------------------------------------------------------------------------------

def squash(s):
    return re.sub(r"\s+", "", s)


def need(q, what, where):
    if what not in q:
        raise TranslateError("arrayvec %s: `%s` not found (the vocabulary depends on it)" % (where, what))


def is_path(ty, segs):
    return ty is not None and ty.form == "path" and ty.segs == segs


def check_items(gm, av_src, av_items, impl_src, impl_items, err_items, lib_src):
    # struct ArrayVec<T, const CAP: usize> { len: LenUint, xs: [MaybeUninit<T>; CAP] }
    sts = find_items(av_items, "struct", "ArrayVec")
    if len(sts) != 1:
        raise TranslateError("struct ArrayVec: %d definitions" % len(sts))
    fs = sts[0].fields
    ok = (len(fs) == 2 and fs[0][0] == "len" and is_path(fs[0][1], ["LenUint"]) and fs[1][0] == "xs" and fs[1][1].form == "array"
          and is_path(fs[1][1].inner, ["MaybeUninit"]) and [type_name(a) for a in fs[1][1].inner.args] == ["T"]
          and fs[1][1].len.kind == "path" and fs[1][1].len.segs == ["CAP"])
    if not ok:
        raise TranslateError("struct ArrayVec is not `{ len: LenUint, xs: [MaybeUninit<T>; CAP] }` (the representation `avec` models exactly this)")
    aq, iq, lq = squash(gm.strip_comments(av_src)), squash(gm.strip_comments(impl_src)), squash(gm.strip_comments(lib_src))
    need(aq, "pubstructArrayVec<T,constCAP:usize>{", "arrayvec.rs")
    need(lq, "pub(crate)typeLenUint=u32;", "lib.rs")
    for u in ("usestd::ptr;", "usestd::slice;", "usestd::mem::MaybeUninit;", "usecrate::LenUint;", "usecrate::errors::CapacityError;",
              "usecrate::arrayvec_impl::ArrayVecImpl;"):
        need(aq, u, "arrayvec.rs")
    for u in ("usestd::ptr;", "usestd::slice;", "usecrate::CapacityError;"):
        need(iq, u, "arrayvec_impl.rs")
    need(lq, "pubusecrate::errors::CapacityError;", "lib.rs")
    # trait ArrayVecImpl: its methods, which of them are required, the associated items
    trs = find_items(impl_items, "trait", "ArrayVecImpl")
    if len(trs) != 1:
        raise TranslateError("trait ArrayVecImpl: %d definitions" % len(trs))
    tr = trs[0]
    fns = [x for x in tr.items if x.kind == "fn"]
    if [f.name for f in fns] != TRAIT_FNS or [f.name for f in fns if f.body is None] != TRAIT_REQUIRED:
        raise TranslateError("trait ArrayVecImpl: methods %r (required %r), expected %r (required %r)"
                             % ([f.name for f in fns], [f.name for f in fns if f.body is None], TRAIT_FNS, TRAIT_REQUIRED))
    need(iq, "pub(crate)traitArrayVecImpl{typeItem;constCAPACITY:usize;", "arrayvec_impl.rs")
    # impl ArrayVecImpl for ArrayVec: exactly the required methods (no default body is overridden), Item = T, CAPACITY = CAP
    imps = [i for i in av_items if i.kind == "impl" and i.trait is not None and type_name(i.trait) == "ArrayVecImpl"]
    if len(imps) != 1 or type_name(imps[0].target) != "ArrayVec":
        raise TranslateError("impl ArrayVecImpl for ArrayVec: %d impls" % len(imps))
    got = [x.name for x in imps[0].items if x.kind == "fn"]
    if got != TRAIT_REQUIRED:
        raise TranslateError("impl ArrayVecImpl for ArrayVec defines %r, expected exactly the required methods %r "
                             "(an overridden default body would not be the one translated)" % (got, TRAIT_REQUIRED))
    need(aq, "impl<T,constCAP:usize>ArrayVecImplforArrayVec<T,CAP>{typeItem=T;constCAPACITY:usize=CAP;", "arrayvec.rs")
    need(aq, "impl<T,constCAP:usize>DerefforArrayVec<T,CAP>{typeTarget=[T];", "arrayvec.rs")
    # no other impl of the crate-private trait in the file the parser's ArrayVec comes from; (ArrayString does not implement it)
    # pub struct CapacityError<T = ()> { element: T }
    ces = find_items(err_items, "struct", "CapacityError")
    if len(ces) != 1 or [(f, type_name(t)) for f, t, _a in ces[0].fields] != [("element", "T")]:
        raise TranslateError("struct CapacityError is not `{ element: T }`")


def desugar_new(fn):
    """`ArrayVec { xs: MaybeUninit::uninit().assume_init(), len: 0 }` inside ArrayVec::new: the field initialiser of `xs`
    (declared `[MaybeUninit<T>; CAP]`, checked) is CAP uninitialised slots.  Exactly this expression, as the initialiser of
    exactly this field; any other use of MaybeUninit::uninit / assume_init stays an unknown call (GEN-ERROR)."""
    import copy
    fn = copy.deepcopy(fn)
    hits = []

    def walk(x):
        if isinstance(x, N):
            if x.kind == "structlit" and x.segs[-1] in ("ArrayVec", "Self"):
                for i, (f, init) in enumerate(x.fields):
                    t = init
                    if (f == "xs" and t.kind == "mcall" and t.name == "assume_init" and not t.args and t.recv.kind == "call" and not t.recv.args
                            and t.recv.f.kind == "path" and t.recv.f.segs[-2:] == ["MaybeUninit", "uninit"]):
                        x.fields[i] = (f, N("rawterm", term="(av_uninit_array CAP)", ty=SLOTS))
                        hits.append(1)
            for v in list(x.__dict__.values()):
                walk(v)
        elif isinstance(x, (list, tuple)):
            for y in x:
                walk(y)
    walk(fn.body)
    if len(hits) != 1:
        raise TranslateError("ArrayVec::new: expected exactly one `ArrayVec { xs: MaybeUninit::uninit().assume_init(), .. }` (found %d)" % len(hits))
    return fn


# -- locating the source --------------------------------------------------------------------------------------

def check_archive(gm, version, d):
    """the unpacked registry files translated here equal the members of the `.crate` archive whose sha256 is the checksum
    /repo/Cargo.lock records for arrayvec (as tools/gen_fn_utf8parse.py does for utf8parse); skipped under $VERIF_REGISTRY"""
    lock = gm.read("Cargo.lock")
    m = re.findall(r'\[\[package\]\]\s*\nname = "%s"\s*\nversion = "%s"\s*\nsource = "registry\+[^"]*"\s*\nchecksum = "([0-9a-f]+)"' % (CRATE, re.escape(version)), lock)
    if len(m) != 1:
        raise TranslateError("Cargo.lock: no registry checksum for %s %s" % (CRATE, version))
    with open(os.path.join(thirdparty._hdir(HARNESS), "Cargo.lock"), encoding="utf-8") as f:
        if m[0] not in f.read():
            raise TranslateError("harness/%s/Cargo.lock does not record the checksum %s of %s %s" % (HARNESS, m[0], CRATE, version))
    home = os.environ.get("CARGO_HOME") or os.path.join(os.path.expanduser("~"), ".cargo")
    crates = sorted(glob.glob(os.path.join(home, "registry", "cache", "*", "%s-%s.crate" % (CRATE, version))))
    if not crates:
        raise TranslateError("%s-%s.crate is not in %s/registry/cache: the unpacked source cannot be checked against Cargo.lock's checksum" % (CRATE, version, home))
    for cr in crates:
        with open(cr, "rb") as f:
            blob = f.read()
        h = hashlib.sha256(blob).hexdigest()
        if h != m[0]:
            raise TranslateError("%s has sha256 %s, Cargo.lock says %s" % (cr, h, m[0]))
        with tarfile.open(fileobj=io.BytesIO(blob), mode="r:gz") as tf:
            for rel in FILES + ["Cargo.toml"]:
                try:
                    member = tf.extractfile("%s-%s/%s" % (CRATE, version, rel)).read()
                except (KeyError, AttributeError):
                    raise TranslateError("%s has no member %s" % (cr, rel))
                with open(os.path.join(d, rel), "rb") as f:
                    if f.read() != member:
                        raise TranslateError("%s/%s differs from the member of %s (the unpacked registry source was edited)" % (d, rel, cr))


def emit_one(em, fn, real, struct, coq_name, src, key):
    try:
        text, shape = em.emit_fn(fn, struct, coq_name)
    except EmitError as e:
        raise TranslateError("%s: %s" % (key, e))
    drv.REGISTRY.append(("translated", drv._sha(src), real, coq_name))
    return "(* %s *)\n%s\n" % (key, text), shape


def register(generators, gm):
    def parse(rel, src):
        try:
            return parse_file(src)
        except (ParseError, LexError) as e:
            raise TranslateError("arrayvec %s: parse error: %s" % (rel, e))

    def gen():
        try:
            version, d = thirdparty.crate_dir(gm, CRATE, harness=HARNESS, all_features=True)
            override = bool(os.environ.get("VERIF_REGISTRY"))
            if not override:
                check_archive(gm, version, d)
            av, impl, err, lib = [thirdparty.read_crate(gm, CRATE, rel, harness=HARNESS, all_features=True) for rel in FILES]
            av_items, impl_items, err_items = parse("src/arrayvec.rs", av), parse("src/arrayvec_impl.rs", impl), parse("src/errors.rs", err)
            parse("src/lib.rs", lib)
            check_items(gm, av, av_items, impl, impl_items, err_items, lib)
            out = []
            # ---- errors.rs -------------------------------------------------------------------------------------
            shapes = {}
            out.append(translate(err, vocab("errors"), [
                ("new", "CapacityError", "g_av_cap_error_new", {}),
                ("element", "CapacityError", "g_av_cap_error_element", {}),
            ], HEADER % (version, ", TEST SOURCE $VERIF_REGISTRY" if override else "; the files equal the members of the checksummed .crate archive"),
                REQ, shapes))
            # ---- arrayvec.rs: what `impl ArrayVecImpl for ArrayVec` is made of -----------------------------------
            inh = {"trait": False}
            out.append(translate(av, vocab("arrayvec", lib), [
                ("len", "ArrayVec", "g_av_len", inh),
                ("capacity", "ArrayVec", "g_av_capacity", inh),
                ("len", "ArrayVec", "g_avi_len", {"trait": "ArrayVecImpl", "key": "ArrayVecImpl::len"}),
                ("set_len", "ArrayVec", "g_avi_set_len", {"trait": "ArrayVecImpl", "key": "ArrayVecImpl::set_len"}),
                ("as_ptr", "ArrayVec", "g_avi_as_ptr", {"trait": "ArrayVecImpl", "key": "ArrayVecImpl::as_ptr"}),
                ("as_mut_ptr", "ArrayVec", "g_avi_as_mut_ptr", {"trait": "ArrayVecImpl", "key": "ArrayVecImpl::as_mut_ptr"}),
            ], "", "", shapes))
            # ---- arrayvec_impl.rs: the default bodies of trait ArrayVecImpl, at Self = ArrayVec<T, CAP> ---------
            # inside the trait, `self.len()` / `self.set_len(..)` / `self.try_push(..)` are the TRAIT's methods
            tshapes = {"CapacityError::new": shapes["CapacityError::new"],
                       "ArrayVec::len": shapes["ArrayVecImpl::len"], "ArrayVec::set_len": shapes["ArrayVecImpl::set_len"]}
            emt = Emitter(vocab("trait", lib), impl_items)
            emt.fn_shapes = tshapes
            emt.av_ptr_shapes = {"as_ptr": shapes["ArrayVecImpl::as_ptr"], "as_mut_ptr": shapes["ArrayVecImpl::as_mut_ptr"]}
            tr = find_items(impl_items, "trait", "ArrayVecImpl")[0]
            out.append("(* trait ArrayVecImpl (arrayvec_impl.rs): the default bodies, Self = ArrayVec<T, CAP> *)")
            for name in TRAIT_DEFAULTS:
                f = [x for x in tr.items if x.kind == "fn" and x.name == name][0]
                text, shape = emit_one(emt, f, f, "ArrayVec", "g_avi_" + name, impl, "ArrayVecImpl::" + name)
                tshapes["ArrayVec::" + name] = shape
                shapes["ArrayVecImpl::" + name] = shape
                out.append(text)
            # ---- arrayvec.rs: the public methods anstyle-parse calls, and the trait impls it reaches --------------
            emn = Emitter(vocab("arrayvec", lib), av_items)
            emn.fn_shapes = shapes
            real = find_fn(av_items, "new", "ArrayVec", False)
            text, shape = emit_one(emn, desugar_new(real), real, "ArrayVec", "g_av_new", av, "ArrayVec::new")
            shapes["ArrayVec::new"] = shape
            out.append("(* ArrayVec::new (the uninitialised buffer read at value level, see desugar_new; assert_capacity_limit! expanded) *)")
            out.append(text)
            out.append(translate(av, vocab("arrayvec", lib), [
                ("is_empty", "ArrayVec", "g_av_is_empty", inh),
                ("is_full", "ArrayVec", "g_av_is_full", inh),
                ("remaining_capacity", "ArrayVec", "g_av_remaining_capacity", inh),
                ("push", "ArrayVec", "g_av_push", inh),
                ("try_push", "ArrayVec", "g_av_try_push", inh),
                ("push_unchecked", "ArrayVec", "g_av_push_unchecked", inh),
                ("truncate", "ArrayVec", "g_av_truncate", inh),
                ("clear", "ArrayVec", "g_av_clear", inh),
                ("set_len", "ArrayVec", "g_av_set_len", inh),
                ("as_slice", "ArrayVec", "g_av_as_slice", inh),
                ("as_ptr", "ArrayVec", "g_av_as_ptr", inh),
                ("as_mut_ptr", "ArrayVec", "g_av_as_mut_ptr", inh),
                ("deref", "ArrayVec", "g_av_deref", {"trait": "Deref", "key": "Deref::deref"}),
                ("default", "ArrayVec", "g_av_default", {"trait": "Default", "key": "Default::default"}),
                ("drop", "ArrayVec", "g_av_drop", {"trait": "Drop", "key": "Drop::drop"}),
            ], "", "", shapes))
            return "\n".join(out) + "\nEnd ArrayVec.\n"
        except TranslateError as e:
            raise gm.GenError(str(e))
        except KeyError as e:
            raise gm.GenError("function not found: %s" % e)
    generators["ArrayVecFn"] = gen
