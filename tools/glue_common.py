#!/usr/bin/env python3
"""Helpers shared by the function-translator plug-ins of the anstream glue (tools/gen_fn_glue.py, gen_fn_strip.py,
gen_fn_wincon.py, gen_fn_stream.py): `#[derive(Default)]` read off the source, canonical labels of impl targets."""
import re

from rs2v.emit import EmitError
from rs2v.rparser import find_items, find_fn, type_name


def target_label(ty):
    """canonical text of an impl target (`&mut T`, `Box<T>`, `dyn std::io::Write + Send`, `std::io::Stdout`)"""
    if ty.form == "ref":
        return ("&mut " if ty.mut else "&") + target_label(ty.inner)
    if ty.form == "opaque":
        return "dyn " + ty.text.replace(" :: ", "::")
    if ty.form == "path":
        a = ("<" + ", ".join(target_label(x) for x in ty.args) + ">") if ty.args else ""
        return "::".join(ty.segs) + a
    return ty.form


# -- #[derive(Default)] -------------------------------------------------------------------------------------
def derive_default(items, sname, ctor, field_default):
    """term for `<sname as Default>::default()` when the struct derives Default: the constructor applied to every
    field's default (field_default(field name, type AST) -> term), in the order `ctor[1]` lists the fields"""
    sts = find_items(items, "struct", sname)
    if len(sts) != 1:
        raise EmitError("struct %s: %d definitions" % (sname, len(sts)))
    st = sts[0]
    attrs = " ".join(st.attrs or [])
    m = re.search(r"derive\s*\(([^)]*)\)", attrs)
    derives = []
    for mm in re.finditer(r"derive\s*\(([^)]*)\)", attrs):
        derives += [x.strip() for x in mm.group(1).split(",")]
    if "Default" not in derives:
        raise EmitError("Default::default() of %s, which does not derive Default" % sname)
    fields = [(str(i) if st.tuple else f[0], f[1]) for i, f in enumerate(st.fields)]
    names = [f for f, _t in fields]
    if sorted(names) != sorted(ctor[1]):
        raise EmitError("struct %s has fields %r, the vocabulary's constructor takes %r" % (sname, names, ctor[1]))
    by = dict(fields)
    args = [field_default(f, by[f]) for f in ctor[1]]
    return "(%s %s)" % (ctor[0], " ".join(args)) if args else ctor[0]


def make_f_default(field_defaults):
    """`Default::default()` as the value of a function that returns `Self` (a struct that derives Default)"""
    def f(em, e, env, k):
        if e.args:
            raise EmitError("Default::default takes no argument")
        sname = em.self_struct
        if sname is None or sname not in em.v.get("structs", {}):
            raise EmitError("Default::default() outside an impl of a vocabulary struct")
        fname = em.cur_fn.split("::")[-1]
        fn = find_fn(em.items, fname, sname)
        if fn.ret is None or type_name(fn.ret) != "Self":
            raise EmitError("Default::default() in %s, which does not return Self" % em.cur_fn)
        st = em.v["structs"][sname]
        if "ctor" not in st:
            raise EmitError("struct %s has no constructor in the vocabulary" % sname)

        def fd(fname_, fty):
            t = em.ty_of_ast(fty)
            if repr(t) not in field_defaults:
                raise EmitError("Default::default() for field %s of %s (type %r): no default in the vocabulary" % (fname_, sname, t))
            d = field_defaults[repr(t)]
            # a callable: the default of a nested struct that derives Default itself
            return d(em) if callable(d) else d
        return k(derive_default(em.items, sname, st["ctor"], fd), ("struct", sname), env)
    return f


