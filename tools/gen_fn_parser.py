#!/usr/bin/env python3
"""Function translator, anstyle-parse: crates/anstyle-parse/src/{lib.rs,params.rs,state/mod.rs,
state/definitions.rs} -> coq/Generated/ParserFn.v (C02, C20, C04).

The Rust functions Parser::{new, advance, process_utf8, perform_state_change, perform_action,
osc_dispatch, params, intermediates}, Params::{len, is_empty, iter, is_full, clear, push, extend,
into_iter, fmt (Debug)}, ParamsIter::{new, next, size_hint}, AsciiParser::add, Utf8Parser::add,
VtUtf8Receiver::{codepoint, invalid_sequence}, the default bodies of trait Perform,
State::try_from, Action::try_from, state_change and state_change_ are TRANSLATED (tools/rs2v)
into Gallina over the record types of the hand model; the `#[derive(Default)]`s of Params /
Parser / State / Action / Utf8Parser / AsciiParser are EXPANDED by this plug-in from the struct
and enum items (every field its type's Default; the `#[default]` variant) into g_*_default.
Proofs/ParserGen.v and Proofs/ParserGen2.v prove the translations equal to the hand model
(Model/Parser.v) the theorems of C02 / C20 / C04 are about.  See HACKING.d/parser.md.
definitions::unpack: `mem::transmute::<u8, State | Action>` is read at value level as the discriminant decoder."""
import copy
import os
import re
import sys

sys.path.insert(0, os.path.dirname(os.path.abspath(__file__)))
from rs2v.driver import translate, TranslateError   # noqa: E402
from rs2v import driver as drv                      # noqa: E402
from rs2v.emit import Emitter, EmitError            # noqa: E402
from rs2v.rparser import N, parse_file, find_items, find_fn, parse_macro_args, ParseError   # noqa: E402
from rs2v.lexer import tokenize, LexError           # noqa: E402

U8, U16, USZ = ("int", "u8"), ("int", "u16"), ("int", "usize")
STATE, ACTION = ("enum", "State"), ("enum", "Action")
CHAR = ("int", "char")
OPT_CHAR = ("opt", CHAR)
BYTES = ("list", U8)
OPT_BYTES = ("opt", BYTES)
RECEIVER = ("struct", "VtUtf8Receiver")
FMT_RESULT = ("res", ("unit",))

STATES = ["Anywhere", "CsiEntry", "CsiIgnore", "CsiIntermediate", "CsiParam", "DcsEntry", "DcsIgnore", "DcsIntermediate", "DcsParam",
          "DcsPassthrough", "Escape", "EscapeIntermediate", "Ground", "OscString", "SosPmApcString", "Utf8"]
ACTIONS = ["Nop", "Clear", "Collect", "CsiDispatch", "EscDispatch", "Execute", "Hook", "Ignore", "OscEnd", "OscPut", "OscStart", "Param",
           "Print", "Put", "Unhook", "BeginUtf8"]


def m_is_full(em, e, rt, rty, env, k):
    return k("(raw_full c %s)" % rt, ("bool",), env)


def m_raw_push(em, e, rt, rty, env, k):
    """`self.osc_raw.push(byte)`: Vec::push appends; with the `core` feature the buffer is an ArrayVec, whose push PANICS
    when the buffer is full (arrayvec: `self.try_push(element).unwrap()`)"""
    if len(e.args) != 1 or not (e.recv.kind == "field" and e.recv.name == "osc_raw"):
        raise EmitError("push: only `self.osc_raw.push(byte)` is modelled")

    def k1(t, _ty, env1):
        return em.bind("(if (cfg_core c) && (raw_full c %s) then None else Some (%s ++ [%s]))" % (rt, rt, t), rty, env1,
                       lambda x, _t, env2: em.write_place(e.recv, x, env2, lambda env3: k("tt", ("unit",), env3)), hint="pushed")
    return em.expr(e.args[0], env, k1)


m_raw_push.mutates = True


# -- CharAccumulator: the utf8parse callback and the dispatch on the type parameter -----------------------

def f_receiver_new(em, e, env, k):
    """VtUtf8Receiver(&mut c): the receiver IS the borrowed Option<char>; its type remembers which Rust
    variable it borrows so that the callee's writes land there (as in gen_fn_strip.py, there over a bool)"""
    if len(e.args) != 1:
        raise EmitError("VtUtf8Receiver(..): expected 1 argument")
    a = e.args[0]
    if not (a.kind == "unary" and a.op == "&mut" and a.e.kind == "path" and len(a.e.segs) == 1):
        raise EmitError("VtUtf8Receiver(..): expected `&mut <variable>`")
    name = a.e.segs[0]
    v = env.get(name)
    if v is None or v.ty != OPT_CHAR:
        raise EmitError("VtUtf8Receiver(&mut %s): not an Option<char> variable" % name)
    return k("tt", ("borrow", name, RECEIVER), env)


def m_u8_advance(em, e, rt, rty, env, k):
    """utf8parse::Parser::advance(&mut receiver, byte): the hand model of the third-party decoder, then the
    TRANSLATED receiver method its outcome names (the callable of the strip area)"""
    from gen_fn_strip import m_u8_advance as strip_advance
    return strip_advance(em, e, rt, rty, env, k)


m_u8_advance.mutates = True

CHAR_ADD_SHAPE = {"coq": "g_char_add", "self": "inout", "params": [("in", U8)], "ret": OPT_CHAR, "total": False, "cfg": True}


# -- MaybeUninit (Parser::osc_dispatch), value level: a slot is an option -----------------------------------

def f_mu_new(em, e, env, k):
    """MaybeUninit::new(x): an initialised slot"""
    if len(e.args) != 1:
        raise EmitError("MaybeUninit::new: expected 1 argument")
    return em.expr(e.args[0], env, lambda t, ty, env1: k("(Some %s)" % t, ("opt", ty), env1))


def is_ty_path(ty, name):
    return ty is not None and ty.form == "path" and ty.segs[-1] == name


def is_bytes_ref(ty):
    return (ty is not None and ty.form == "ref" and not ty.mut and ty.inner.form == "slice"
            and is_ty_path(ty.inner.inner, "u8"))


def is_mu_bytes(ty):
    return is_ty_path(ty, "MaybeUninit") and len(ty.args) == 1 and is_bytes_ref(ty.args[0])


def cast_hook(em, e, env, k):
    """`<&[MaybeUninit<&[u8]>]> as *const [MaybeUninit<&[u8]>] as *const [&[u8]]`: reading the slots as
    initialised = mu_assume_init_slice (undefined behaviour if one is not: None).  Exactly this pair of casts."""
    if e.ty.form != "ptr":
        return None
    if not (not e.ty.mut and e.ty.inner.form == "slice" and is_bytes_ref(e.ty.inner.inner) and e.e.kind == "cast"
            and e.e.ty.form == "ptr" and not e.e.ty.mut and e.e.ty.inner.form == "slice" and is_mu_bytes(e.e.ty.inner.inner)):
        raise EmitError("pointer cast other than `as *const [MaybeUninit<&[u8]>] as *const [&[u8]]`")

    def k1(t, ty, env1):
        if ty != ("list", OPT_BYTES):
            raise EmitError("pointer cast of a value of type %r" % (ty,))
        return em.bind("mu_assume_init_slice %s" % t, ("list", BYTES), env1, k, hint="init")
    return em.expr(e.e.e, env, k1)


def mentions(node, name):
    """does the path `name` occur in the AST below node"""
    hit = []

    def walk(x):
        if isinstance(x, N):
            if x.kind == "path" and x.segs == [name]:
                hit.append(1)
            for v in x.__dict__.values():
                walk(v)
        elif isinstance(x, (list, tuple)):
            for y in x:
                walk(y)
    walk(node)
    return bool(hit)


def binds_name(node, name):
    hit = []

    def walk(x):
        if isinstance(x, N):
            if x.kind == "pident" and x.name == name:
                hit.append(1)
            for v in x.__dict__.values():
                walk(v)
        elif isinstance(x, (list, tuple)):
            for y in x:
                walk(y)
    walk(node)
    return bool(hit)


def desugar_osc_dispatch(fn):
    """The two MaybeUninit idioms of Parser::osc_dispatch that are not expressions of the subset, rewritten on
    the AST after an exact shape check (anything else is a GEN-ERROR):
      let mut V: [MaybeUninit<&[u8]>; LEN] = unsafe { MaybeUninit::uninit().assume_init() };
          -> let mut V = (mu_uninit_array LEN)                      (LEN slots, none initialised)
      for (I, S) in V.iter_mut().enumerate().take(E) { .. *S = X; .. }
          -> for (I, S) in mu_take_enum(V, E) { .. V[I] = X; .. }   (S is `&mut V[I]`: iter_mut + enumerate)
    The pointer casts are the vocabulary's cast_hook, MaybeUninit::new its `fns` entry."""
    fn = copy.deepcopy(fn)
    body = fn.body
    if body.kind != "block" or len(body.stmts) != 2 or body.tail is None:
        raise TranslateError("Parser::osc_dispatch: unexpected shape (expected the slot array, the fill loop, the unsafe block)")
    s0 = body.stmts[0]
    ok = (s0.kind == "let" and s0.pat.kind == "pident" and s0.pat.mut and s0.els is None and s0.ty is not None
          and s0.ty.form == "array" and is_mu_bytes(s0.ty.inner) and s0.ty.len.kind == "path" and len(s0.ty.len.segs) == 1
          and s0.ty.len.segs[0] in VOCAB["consts"] and s0.init is not None and s0.init.kind == "unsafe"
          and not s0.init.block.stmts and s0.init.block.tail is not None)
    if ok:
        t = s0.init.block.tail
        ok = (t.kind == "mcall" and t.name == "assume_init" and not t.args and t.recv.kind == "call" and not t.recv.args
              and t.recv.f.kind == "path" and t.recv.f.segs[-2:] == ["MaybeUninit", "uninit"])
    if not ok:
        raise TranslateError("Parser::osc_dispatch: the slot array is not `let mut v: [MaybeUninit<&[u8]>; CONST] = "
                             "unsafe { MaybeUninit::uninit().assume_init() }`")
    arr = s0.pat.name
    s0.init = N("rawterm", term="(mu_uninit_array %s)" % VOCAB["consts"][s0.ty.len.segs[0]][0], ty=("list", OPT_BYTES))
    s0.ty = None
    s1 = body.stmts[1]
    f = s1.e if s1.kind == "expr" else None
    ok = (f is not None and f.kind == "for" and f.pat.kind == "ptuple" and len(f.pat.elems) == 2
          and all(p.kind == "pident" and not p.mut and not p.by_ref for p in f.pat.elems))
    if ok:
        it = f.iter
        ok = (it.kind == "mcall" and it.name == "take" and len(it.args) == 1
              and it.recv.kind == "mcall" and it.recv.name == "enumerate" and not it.recv.args
              and it.recv.recv.kind == "mcall" and it.recv.recv.name == "iter_mut" and not it.recv.recv.args
              and it.recv.recv.recv.kind == "path" and it.recv.recv.recv.segs == [arr])
    if not ok:
        raise TranslateError("Parser::osc_dispatch: the fill loop is not `for (i, slot) in %s.iter_mut().enumerate().take(n)`" % arr)
    idx, slot = f.pat.elems[0].name, f.pat.elems[1].name
    if mentions(f.iter.args[0], arr) or binds_name(f.body, idx) or binds_name(f.body, slot) or binds_name(f.body, arr):
        raise TranslateError("Parser::osc_dispatch: the fill loop rebinds its variables")

    def walk(x):
        if isinstance(x, N):
            if x.kind == "assign" and x.lhs.kind == "unary" and x.lhs.op == "*" and x.lhs.e.kind == "path" and x.lhs.e.segs == [slot]:
                if x.op != "=":
                    raise TranslateError("Parser::osc_dispatch: `*%s %s ..`" % (slot, x.op))
                x.lhs = N("index", e=N("path", segs=[arr]), idx=N("path", segs=[idx]))
            for v in list(x.__dict__.values()):
                walk(v)
        elif isinstance(x, (list, tuple)):
            for y in x:
                walk(y)
    walk(f.body)
    if mentions(f.body, slot):
        raise TranslateError("Parser::osc_dispatch: the slot `%s` is used other than as `*%s = ..`" % (slot, slot))
    f.iter = N("call", f=N("path", segs=["mu_take_enum"]), args=[N("path", segs=[arr]), f.iter.args[0]])
    return fn


# -- core::fmt (Params as Debug): `f: &mut Formatter` is the text written so far, as in gen_fn_style.py --------

def write_parts(e):
    args = parse_macro_args(e.toks)
    if len(args) != 2 or args[0].kind != "path" or len(args[0].segs) != 1 or args[1].kind != "str":
        raise TranslateError("write!: expected write!(<formatter variable>, \"literal\")")
    fmt = bytes(args[1].val).decode("utf-8")
    if "{" in fmt or "}" in fmt:
        raise TranslateError("write!: format string %r is not a literal text" % fmt)
    return args[0], args[1]


def mac_write(em, e, env, k):
    dest, lit = write_parts(e)
    v = env.get(dest.segs[0])
    if v is None or v.ty != BYTES:
        raise TranslateError("write!: %s is not the formatter" % dest.segs[0])

    def k1(t, ty, env1):
        cur = env1.get(dest.segs[0]).coq
        return em.write_place(dest, "(pfmt_write_str %s %s)" % (cur, t), env1, lambda env2: k("(inl tt)", FMT_RESULT, env2))
    return em.expr(lit, env, k1)


def macro_writes(em, x):
    if x.name.split("::")[-1] == "write":
        return [write_parts(x)[0].segs[0]]
    return []


def m_u16_fmt(em, e, rt, rty, env, k):
    """<u16 as Debug>::fmt(f) with a flag-less formatter: the decimal digits are appended"""
    if len(e.args) != 1 or e.args[0].kind != "path" or len(e.args[0].segs) != 1:
        raise EmitError("<u16>.fmt(..): expected the formatter variable")
    dest = e.args[0]
    v = env.get(dest.segs[0])
    if v is None or v.ty != BYTES or rty != U16:
        raise EmitError("<%r>.fmt(%s): not a u16 written to the formatter" % (rty, dest.segs[0]))
    return em.write_place(dest, "(pfmt_u16 %s %s)" % (v.coq, rt), env, lambda env2: k("(inl tt)", FMT_RESULT, env2))


m_u16_fmt.mutates = True


def m_params_iter_enumerate(em, e, rt, rty, env, k):
    """`self.iter().enumerate()` in a `for`: the items of the translated ParamsIter::next, numbered"""
    return em.bind("iter_drain (g_params_iter_next c) (S (S (N.to_nat MAX_PARAMS))) %s" % rt, None, env,
                   lambda x, _t, env1: k("(penumerate %s)" % x, ("list", ("tuple", (USZ, ("list", U16)))), env1), hint="items")


def m_list_iter(em, e, rt, rty, env, k):
    return k(rt, rty, env)


def m_list_enumerate(em, e, rt, rty, env, k):
    return k("(penumerate %s)" % rt, ("list", ("tuple", (USZ, rty[1]))), env)


# -- TryFrom<u8> for State / Action ------------------------------------------------------------------------

def m_list_get(em, e, rt, rty, env, k):
    """<[T]>::get(i): None out of bounds"""
    if len(e.args) != 1:
        raise EmitError("get: expected 1 argument")
    return em.expr(e.args[0], env, lambda t, _ty, env1: k("(aget %s %s)" % (rt, t), ("opt", rty[1]), env1))


def m_opt_ok_or(em, e, rt, rty, env, k):
    if len(e.args) != 1:
        raise EmitError("ok_or: expected 1 argument")
    return em.expr(e.args[0], env, lambda t, _ty, env1: k("(opt_ok_or %s %s)" % (rt, t), ("res", rty[1]), env1))


def f_transmute(em, e, env, k):
    """mem::transmute::<u8, State>(x) / ::<u8, Action>(x), value level: the variant of the fieldless #[repr(u8)] enum
    whose discriminant is x (state_of_disc / action_of_disc of Generated/Table.v, read from the `= n` of the enum);
    no such variant = undefined behaviour: None"""
    ta = getattr(e.f, "targs", None)
    tab = {"<u8,State>": ("state_of_disc", STATE), "<u8,Action>": ("action_of_disc", ACTION)}
    if ta not in tab or len(e.args) != 1:
        raise EmitError("transmute%s: only ::<u8, State> and ::<u8, Action> are modelled" % (ta or ""))
    fn, ty = tab[ta]

    def k1(t, aty, env1):
        if aty != U8:
            raise EmitError("transmute%s of a value of type %r" % (ta, aty))
        return em.bind("%s %s" % (fn, t), ty, env1, k, hint="tm")
    return em.expr(e.args[0], env, k1)


def check_repr_u8(items, name):
    ens = find_items(items, "enum", name)
    if len(ens) != 1 or not any(a.replace(" ", "") == "#[repr(u8)]" for a in ens[0].attrs or []):
        raise TranslateError("enum %s is not #[repr(u8)] (transmute::<u8, %s> is read as the discriminant decoder)" % (name, name))
    if any(v[1] is not None for v in ens[0].variants):
        raise TranslateError("enum %s has a variant with data" % name)


STRUCT_PARAMS = {"coq": "params", "var": "q", "ctor": ("mkParams", ["subparams", "params", "current_subparams", "len"]), "fields": {
    "subparams": ("subparams", "set_subparams", ("list", U8)),
    "params": ("pvals", "set_pvals", ("list", U16)),
    "current_subparams": ("current_subparams", "set_cursub", U8),
    "len": ("plen", "set_plen", USZ),
}}
STRUCT_PARAMS_ITER = {"coq": "params_it", "var": "it", "ctor": ("mkPIt", ["params", "index"]), "fields": {
    "params": ("pit_params", "set_pit_params", ("struct", "Params")),
    "index": ("pit_index", "set_pit_index", USZ),
}}
PARSER_ORDER = ["state", "intermediates", "intermediate_idx", "params", "param", "osc_raw", "osc_params", "osc_num_params", "ignoring", "utf8_parser"]

VOCAB = {
    "config_param": ("c", "cfg"),
    "reserved": ["c"],
    "features": {"core": "(cfg_core c)", "utf8": "(utf8_on c)"},
    "type_alias": {"C": ("coq", "u8parser")},
    "enums": {
        "State": {"coq": "state", "eqb": "state_eqb", "disc": "state_disc", "variants": {s: s for s in STATES}},
        "Action": {"coq": "action", "eqb": "action_eqb", "disc": "action_disc", "variants": {a: "A" + a for a in ACTIONS}},
    },
    "structs": {
        "Parser": {"coq": "parser", "var": "p", "ctor": ("mkParser", PARSER_ORDER), "fields": {
            "state": ("pstate", "set_state", STATE),
            "intermediates": ("intermediates", "set_intermediates", ("list", U8)),
            "intermediate_idx": ("intermediate_idx", "set_intermediate_idx", USZ),
            "params": ("pparams", "set_params", ("struct", "Params")),
            "param": ("pparam", "set_param", U16),
            "osc_raw": ("osc_raw", "set_osc_raw", ("list", U8)),
            "osc_params": ("osc_params", "set_osc_params", ("list", ("tuple", (USZ, USZ)))),
            "osc_num_params": ("osc_num_params", "set_osc_num", USZ),
            "ignoring": ("ignoring", "set_ignoring", ("bool",)),
            "utf8_parser": ("utf8_parser", "set_utf8", ("coq", "u8parser")),
        }},
        "Params": STRUCT_PARAMS,
    },
    "consts": {
        "MAX_PARAMS": ("MAX_PARAMS", USZ),
        "MAX_INTERMEDIATES": ("MAX_INTERMEDIATES", USZ),
        "MAX_OSC_PARAMS": ("MAX_OSC_PARAMS", USZ),
        "STATE_CHANGES": ("state_changes", ("list", ("list", U8))),
    },
    "param_types": {"performer": ("sink", "Perform")},
    # the events a recording performer logs; a `&Params` argument is logged as what iterating it yields
    # (g_params_groups: the TRANSLATED ParamsIter::next, drained)
    "sinks": {"Perform": {"coq": "(list event)", "methods": {
        "print": ("EPrint", [None]),
        "execute": ("EExecute", [None]),
        "hook": ("EHook", [("g_params_groups c", True), None, None, None]),
        "put": ("EPut", [None]),
        "unhook": ("EUnhook", []),
        "csi_dispatch": ("ECsi", [("g_params_groups c", True), None, None, None]),
        "esc_dispatch": ("EEsc", [None, None, None]),
        "osc_dispatch": ("EOsc", [None, None]),
    }}},
    "fns": {
        "unpack": {"coq": "unpack", "self": None, "params": [("in", U8)], "ret": ("tuple", (STATE, ACTION)), "total": False, "cfg": False},
    },
    "methods": {
        ("list", "is_full"): m_is_full,
        ("list", "push"): m_raw_push,
    },
    # functions that are not translatable (unsafe code): modelled by hand, pinned by token hash
    "opaque": {},
}

HEADER = "(* GENERATED by tools/gen_fn_parser.py (tools/rs2v) from crates/anstyle-parse/src/{lib.rs,params.rs,state/mod.rs,state/definitions.rs} -- do not edit *)"
REQ = """From Coq Require Import NArith List Bool.
From AV Require Import Generated.Table Spec.Vt Model.Base Model.Imp Model.Utf8parse Model.Parser.
Import ListNotations.
Local Open Scope N_scope.
Local Open Scope bool_scope."""


# -- #[derive(Default)] ----------------------------------------------------------------------------------

def has_derive(item, what):
    for a in item.attrs or []:
        m = re.match(r"#\[derive\((.*)\)\]$", a.replace(" ", ""))
        if m and what in m.group(1).split(","):
            return True
    return False


def default_of(ty, named, who):
    """the Gallina term of <T as Default>::default() for a field type (AST)"""
    f = ty.form
    if f == "array":
        n = ty.len
        if n.kind == "path" and len(n.segs) == 1 and n.segs[0] in VOCAB["consts"]:
            ln = VOCAB["consts"][n.segs[0]][0]
        elif n.kind == "int":
            ln = str(n.val)
        else:
            raise TranslateError("%s: array length is neither a literal nor a known constant" % who)
        return "(repeat %s (N.to_nat %s))" % (default_of(ty.inner, named, who), ln)
    if f == "tuple" and ty.elems:
        return "(" + ", ".join(default_of(t, named, who) for t in ty.elems) + ")"
    if f == "path":
        name = ty.segs[-1]
        if name in ("u8", "u16", "u32", "u64", "usize"):
            return "0"
        if name == "bool":
            return "false"
        if name in ("Vec", "ArrayVec"):
            return "[]"
        if name in named:
            return named[name]
    raise TranslateError("%s: no Default known for a field of this type (%s)" % (who, getattr(ty, "segs", f)))


def derive_default_struct(items, name, ctor, order, named, coq_ty, coq_name):
    sts = find_items(items, "struct", name)
    if len(sts) != 1:
        raise TranslateError("struct %s: %d definitions" % (name, len(sts)))
    st = sts[0]
    if not has_derive(st, "Default"):
        raise TranslateError("struct %s no longer derives Default (a hand-written impl must be translated)" % name)
    vals = {}
    for fname, fty, _attrs in st.fields:
        t = default_of(fty, named, "%s.%s" % (name, fname))
        if vals.setdefault(fname, t) != t:
            raise TranslateError("struct %s.%s: the cfg-dependent declarations have different defaults" % (name, fname))
    if set(vals) != set(order):
        raise TranslateError("struct %s: fields %s, the vocabulary models %s" % (name, sorted(vals), sorted(order)))
    body = "(%s %s)" % (ctor, " ".join(vals[f] for f in order)) if order else ctor
    return "(* #[derive(Default)] struct %s: every field its type's Default *)\nDefinition %s (c : cfg) : %s :=\n  %s.\n" % (
        name, coq_name, coq_ty, body)


def derive_default_enum(items, name, variants, coq_ty, coq_name):
    ens = find_items(items, "enum", name)
    if len(ens) != 1:
        raise TranslateError("enum %s: %d definitions" % (name, len(ens)))
    en = ens[0]
    if not has_derive(en, "Default"):
        raise TranslateError("enum %s no longer derives Default" % name)
    dv = [v[0] for v in en.variants if any(a.replace(" ", "") == "#[default]" for a in (v[3] or []))]
    if len(dv) != 1 or dv[0] not in variants:
        raise TranslateError("enum %s: expected exactly one #[default] variant" % name)
    return "(* #[derive(Default)] enum %s: the #[default] variant *)\nDefinition %s (c : cfg) : %s :=\n  %s.\n" % (
        name, coq_name, coq_ty, variants[dv[0]])


def const_array(items, name, enum, variants, coq_ty, coq_name):
    """const NAME: [Enum; n] = [Enum::A, ..]  ->  Definition coq_name : list enum"""
    cs = find_items(items, "const", name)
    if len(cs) != 1:
        raise TranslateError("const %s: %d definitions" % (name, len(cs)))
    c = cs[0]
    ok = (c.ty is not None and c.ty.form == "array" and is_ty_path(c.ty.inner, enum) and c.ty.len.kind == "int"
          and c.val is not None and c.val.kind == "array")
    elems = getattr(c.val, "elems", None) if ok else None
    if elems is None or len(elems) != c.ty.len.val:
        raise TranslateError("const %s is not `[%s; n] = [..n elements..]`" % (name, enum))
    out = []
    for x in elems:
        if not (x.kind == "path" and len(x.segs) == 2 and x.segs[0] == enum and x.segs[1] in variants):
            raise TranslateError("const %s: element that is not a variant of %s" % (name, enum))
        out.append(variants[x.segs[1]])
    return "(* const %s *)\nDefinition %s : list %s :=\n  [%s].\n" % (name, coq_name, coq_ty, "; ".join(out))


def char_accumulator_alias(lib):
    """`#[cfg(feature = "utf8")] pub type DefaultCharAccumulator = Utf8Parser;` and, under
    `#[cfg(not(feature = "utf8"))]`, `= AsciiParser;` (type items are skipped by the parser: token scan);
    `struct Parser<C = DefaultCharAccumulator>`"""
    toks = [t for t in tokenize(lib) if t.kind != "eof"]
    found = []
    for i, t in enumerate(toks):
        if t.kind == "ident" and t.text == "type" and toks[i + 1].text == "DefaultCharAccumulator":
            if not (toks[i + 2].text == "=" and toks[i + 4].text == ";"):
                raise TranslateError("type DefaultCharAccumulator: unexpected shape")
            j = i - 1
            while j >= 0 and toks[j].kind != "attr":
                if toks[j].text not in ("pub",):
                    raise TranslateError("type DefaultCharAccumulator: unexpected shape")
                j -= 1
            found.append((toks[j].text.replace(" ", ""), toks[i + 3].text))
    want = [('#[cfg(feature="utf8")]', "Utf8Parser"), ('#[cfg(not(feature="utf8"))]', "AsciiParser")]
    if sorted(found) != sorted(want):
        raise TranslateError("type DefaultCharAccumulator: %r, expected Utf8Parser with the utf8 feature and AsciiParser without" % (found,))
    flat = " ".join(t.text for t in toks)
    if "struct Parser < C = DefaultCharAccumulator >" not in flat:
        raise TranslateError("struct Parser<C = DefaultCharAccumulator> not found")


def merged(a, b):
    d = dict(a)
    d.update(b)
    return d


def emit_one(em, fn, struct, coq_name, src, key):
    try:
        text, shape = em.emit_fn(fn, struct, coq_name)
    except EmitError as e:
        raise TranslateError("%s: %s" % (key, e))
    drv.REGISTRY.append(("translated", drv._sha(src), fn, coq_name))
    em.fn_shapes[key] = shape
    return "(* %s *)\n%s\n" % (key, text)


PERFORM_METHODS = ["print", "execute", "hook", "put", "unhook", "osc_dispatch", "csi_dispatch", "esc_dispatch"]


def register(generators, gm):
    def gen():
        try:
            lib = gm.read("crates/anstyle-parse/src/lib.rs")
            par = gm.read("crates/anstyle-parse/src/params.rs")
            smod = gm.read("crates/anstyle-parse/src/state/mod.rs")
            defs = gm.read("crates/anstyle-parse/src/state/definitions.rs")
            try:
                lib_items, par_items, defs_items = parse_file(lib), parse_file(par), parse_file(defs)
            except (ParseError, LexError) as e:
                raise TranslateError("parse error: %s" % e)
            out = []
            shapes = {}
            # ---- params.rs -----------------------------------------------------------------------------
            v = dict(VOCAB)
            v["structs"] = {"Params": STRUCT_PARAMS, "ParamsIter": STRUCT_PARAMS_ITER}
            v["type_alias"] = dict(VOCAB["type_alias"], IntoIter=("struct", "ParamsIter"), Item=("list", U16))
            v["no_transparent"] = ("iter",)
            out.append(translate(par, v, [
                ("len", "Params", "g_params_len", {}),
                ("is_empty", "Params", "g_params_is_empty", {}),
                ("is_full", "Params", "g_params_is_full", {}),
                ("clear", "Params", "g_params_clear", {}),
                ("push", "Params", "g_params_push", {}),
                ("extend", "Params", "g_params_extend", {}),
                ("new", "ParamsIter", "g_params_iter_new", {}),
                ("iter", "Params", "g_params_iter", {}),
                ("into_iter", "Params", "g_params_into_iter", {"trait": "IntoIterator"}),
                ("next", "ParamsIter", "g_params_iter_next", {"trait": "Iterator"}),
                ("size_hint", "ParamsIter", "g_params_iter_size_hint", {"trait": "Iterator"}),
            ], HEADER, REQ, shapes))
            out.append(derive_default_struct(par_items, "Params", "mkParams", STRUCT_PARAMS["ctor"][1], {}, "params", "g_params_default"))
            out.append("(* what a performer sees when it iterates a `&Params` (`for group in params`): IntoIterator::into_iter, then\n"
                       "   ParamsIter::next until None.  Every group but a degenerate empty one consumes a value, hence the fuel *)\n"
                       "Definition g_params_groups (c : cfg) (q : params) : option (list (list N)) :=\n"
                       "  iter_drain (g_params_iter_next c) (S (S (N.to_nat MAX_PARAMS))) (g_params_into_iter c q).\n")
            vd = dict(v)
            vd.update({
                "result": {"err": "unit"},
                "for_ret_state": True,
                "type_alias": dict(v["type_alias"], Formatter=BYTES, Result=FMT_RESULT, str=BYTES),
                "macros": {"write": mac_write},
                "macro_writes": macro_writes,
                "methods": merged(VOCAB["methods"], {("ParamsIter", "enumerate"): m_params_iter_enumerate, ("list", "iter"): m_list_iter,
                                                    ("list", "enumerate"): m_list_enumerate, ("int", "fmt"): m_u16_fmt}),
            })
            out.append(translate(par, vd, [("fmt", "Params", "g_params_debug_fmt", {"trait": "Debug"})], "", "", shapes))
            # ---- state/definitions.rs, state/mod.rs ----------------------------------------------------
            v2 = dict(VOCAB)
            v2["structs"] = {}
            v2["opaque"] = {}
            sv, av = VOCAB["enums"]["State"]["variants"], VOCAB["enums"]["Action"]["variants"]
            out.append(derive_default_enum(defs_items, "State", sv, "state", "g_state_default"))
            out.append(derive_default_enum(defs_items, "Action", av, "action", "g_action_default"))
            out.append(const_array(defs_items, "STATES", "State", sv, "state", "g_STATES"))
            out.append(const_array(defs_items, "ACTIONS", "Action", av, "action", "g_ACTIONS"))
            check_repr_u8(defs_items, "State")
            check_repr_u8(defs_items, "Action")
            vt = dict(v2)
            vt.update({
                "result": {"err": "N"},
                "consts": dict(VOCAB["consts"], STATES=("g_STATES", ("list", STATE)), ACTIONS=("g_ACTIONS", ("list", ACTION))),
                "methods": {("list", "get"): m_list_get, ("opt", "ok_or"): m_opt_ok_or},
                "fns": {"mem::transmute": f_transmute},
            })
            out.append(translate(defs, vt, [
                ("try_from", "State", "g_state_try_from", {"trait": "TryFrom"}),
                ("try_from", "Action", "g_action_try_from", {"trait": "TryFrom"}),
                ("unpack", None, "g_unpack", {}),
            ], "", "", shapes))
            v2["fns"] = {}     # state_change calls the TRANSLATED unpack
            out.append(translate(smod, v2, [
                ("state_change_", None, "g_state_change_", {}),
                ("state_change", None, "g_state_change", {}),
            ], "", "", shapes))
            # ---- lib.rs: the character accumulators ----------------------------------------------------
            char_accumulator_alias(lib)
            va = dict(VOCAB)
            va["structs"] = {
                # struct Utf8Parser { utf8_parser: utf8::Parser } == the decoder itself
                "Utf8Parser": {"coq": "u8parser", "var": "u", "fields": {"utf8_parser": ("pu_inner", "set_pu_inner", ("coq", "u8parser"))}},
                # pub struct AsciiParser; (no field: represented in the decoder's type, see Model/Parser.v)
                "AsciiParser": {"coq": "u8parser", "var": "u", "fields": {}},
                # struct VtUtf8Receiver<'a>(&'a mut Option<char>) == the slot it borrows
                "VtUtf8Receiver": {"coq": "(option N)", "var": "rcv", "fields": {"0": ("prcv_slot", "set_prcv_slot", OPT_CHAR)}},
            }
            va["type_alias"] = dict(VOCAB["type_alias"], Parser=("coq", "u8parser"))
            va["fns"] = dict(VOCAB["fns"], VtUtf8Receiver=f_receiver_new)
            va["methods"] = merged(VOCAB["methods"], {("coq", "advance"): m_u8_advance})
            va["local_types"] = {"Utf8Parser::add": {"c": OPT_CHAR}}
            # the two callbacks take no configuration parameter: m_u8_advance applies them to the borrowed slot directly
            vr = {k: x for k, x in va.items() if k not in ("config_param", "features")}
            out.append(translate(lib, vr, [
                ("codepoint", "VtUtf8Receiver", "g_receiver_codepoint", {"trait": "Receiver"}),
                ("invalid_sequence", "VtUtf8Receiver", "g_receiver_invalid_sequence", {"trait": "Receiver"}),
            ], "", "", shapes))
            out.append(translate(lib, va, [
                ("add", "Utf8Parser", "g_utf8_parser_add", {"trait": "CharAccumulator", "monadic": True}),
                ("add", "AsciiParser", "g_ascii_parser_add", {"trait": "CharAccumulator", "monadic": True}),
            ], "", "", shapes))
            out.append("(* C = DefaultCharAccumulator: Utf8Parser with the `utf8` feature, AsciiParser without *)\n"
                       "Definition g_char_add (c : cfg) (u : u8parser) (byte : N) : option (u8parser * (option N)) :=\n"
                       "  if (utf8_on c) then g_utf8_parser_add c u byte else g_ascii_parser_add c u byte.\n")
            for nm, want_fields in (("Utf8Parser", ["utf8_parser"]), ("AsciiParser", [])):
                sts = find_items(lib_items, "struct", nm)
                if len(sts) != 1 or not has_derive(sts[0], "Default") or [f[0] for f in sts[0].fields] != want_fields:
                    raise TranslateError("struct %s: expected #[derive(Default)] with the fields %r" % (nm, want_fields))
            if not is_ty_path(find_items(lib_items, "struct", "Utf8Parser")[0].fields[0][1], "Parser"):
                raise TranslateError("Utf8Parser.utf8_parser is not a utf8::Parser")
            out.append("(* #[derive(Default)] struct Utf8Parser { utf8_parser: utf8::Parser } (utf8::Parser::default(): third party, u8_new);\n"
                       "   #[derive(Default)] struct AsciiParser; *)\n"
                       "Definition g_utf8_parser_default (c : cfg) : u8parser := u8_new.\n"
                       "Definition g_ascii_parser_default (c : cfg) : u8parser := ascii_parser_unit.\n"
                       "Definition g_char_acc_default (c : cfg) : u8parser :=\n"
                       "  if (utf8_on c) then g_utf8_parser_default c else g_ascii_parser_default c.\n")
            # ---- lib.rs: the parser --------------------------------------------------------------------
            out.append(derive_default_struct(lib_items, "Parser", "mkParser", PARSER_ORDER,
                                             {"State": "(g_state_default c)", "Params": "(g_params_default c)", "C": "(g_char_acc_default c)"},
                                             "parser", "g_parser_default"))
            v3 = dict(VOCAB)
            v3["structs"] = dict(VOCAB["structs"])
            v3["structs"]["Params"] = dict(STRUCT_PARAMS, check=False)
            v3["fns"] = merged(VOCAB["fns"], {
                "Parser::default": {"coq": "g_parser_default", "self": None, "params": [], "ret": ("struct", "Parser"), "total": True, "cfg": True},
                "MaybeUninit::new": f_mu_new,
                "mu_take_enum": {"coq": "mu_take_enum", "self": None, "params": [("in", ("list", OPT_BYTES)), ("in", USZ)],
                                 "ret": ("list", ("tuple", (USZ, OPT_BYTES))), "total": True, "cfg": False},
            })
            v3["methods"] = merged(VOCAB["methods"], {("coq", "add"): CHAR_ADD_SHAPE})
            v3["cast_hook"] = cast_hook
            em = Emitter(v3, lib_items)
            em.fn_shapes = shapes
            drv.check_struct(lib_items, "Parser", v3["structs"]["Parser"]["fields"], em)
            real = find_fn(lib_items, "osc_dispatch", "Parser")
            osc = desugar_osc_dispatch(real)
            try:
                text, shape = em.emit_fn(osc, "Parser", "g_osc_dispatch")
            except EmitError as e:
                raise TranslateError("Parser::osc_dispatch: %s" % e)
            drv.REGISTRY.append(("translated", drv._sha(lib), real, "g_osc_dispatch"))
            shapes["Parser::osc_dispatch"] = shape
            out.append("(* Parser::osc_dispatch (MaybeUninit slots read at value level, see desugar_osc_dispatch) *)\n%s\n" % text)
            out.append(translate(lib, v3, [
                ("new", "Parser", "g_parser_new", {}),
                ("params", "Parser", "g_params", {}),
                ("intermediates", "Parser", "g_intermediates", {}),
                ("process_utf8", "Parser", "g_process_utf8", {}),
                ("perform_action", "Parser", "g_perform_action", {}),
                ("perform_state_change", "Parser", "g_perform_state_change", {}),
                ("advance", "Parser", "g_advance", {}),
            ], "", "", shapes))
            # ---- lib.rs: trait Perform, the default bodies (Self is abstract: the config parameter T) ----
            tr = find_items(lib_items, "trait", "Perform")
            if len(tr) != 1 or [f.name for f in tr[0].items if f.kind == "fn"] != PERFORM_METHODS:
                raise TranslateError("trait Perform: expected exactly the callbacks %r" % PERFORM_METHODS)
            vp = {"config_param": ("T", "Type"), "reserved": ["T"],
                  "structs": {"Perform": {"coq": "T", "var": "pf", "fields": {}, "check": False},
                              "Params": dict(STRUCT_PARAMS, check=False)},
                  "opaque": {}}
            emp = Emitter(vp, lib_items)
            out.append("(* trait Perform: the default bodies (what a performer that does not override a callback does) *)")
            for f in tr[0].items:
                if f.kind == "fn":
                    if f.body is None:
                        raise TranslateError("trait Perform: %s has no default body any more" % f.name)
                    out.append(emit_one(emp, f, "Perform", "g_perform_default_" + f.name, lib, "Perform::" + f.name))
            return "\n".join(out) + "\n"
        except TranslateError as e:
            raise gm.GenError(str(e))
    generators["ParserFn"] = gen


# token hash of definitions::unpack: no longer checked here (unpack is translated, g_unpack); still used by
# tools/gen_fn_strip.py, whose copy of state_change calls the hand model
PIN_UNPACK = "09d93a3576ae6881"
