"""Generator of SGR sequences inside and outside the grammar G of C07
(DESIGN.md section 6, C07)."""
from . import gen

SINGLE = [0, 1, 2, 3, 4, 7, 8, 9, 21, 39, 49] + list(range(30, 38)) + list(range(40, 48)) + list(range(90, 98)) + list(range(100, 108))
NOOP = [10, 11, 12, 19, 20, 50, 51, 53, 55, 60, 65, 75, 89, 98, 99, 108, 109, 200, 255, 256, 1000, 65535]
OUTSIDE = [5, 6, 22, 23, 24, 25, 27, 28, 29, 59]

UL_KIND = {4: "ul", 21: "dbl"}
SUB_KIND = {0: None, 1: "ul", 2: "dbl", 3: "curly", 4: "dot", 5: "dash"}


def num(rng, n):
    s = str(n)
    k = rng.randrange(8)
    if k == 0:
        s = "0" * rng.randint(1, 3) + s
    return s


class SgrState:
    """tracks which underline kind is set, to respect the ul_simple hypothesis"""

    def __init__(self):
        self.ul = set()
        self.last_rgb = None      # colour values are re-used across slots (fg = underline colour, fg = bg, ...)
        self.last_idx = None

    def group(self, rng, in_grammar=True):
        """returns (text of the group(s), number of parameter values it uses)"""
        k = rng.randrange(20)
        if k < 8:
            c = rng.choice(SINGLE)
            if c == 0 and rng.randrange(3) == 0:
                self.ul = set()
                return "", 1                      # empty parameter = 0
            if c in UL_KIND:
                return self.underline(rng, UL_KIND[c], num(rng, c))
            if c == 0:
                self.ul = set()
            return num(rng, c), 1
        if k < 10:
            n = rng.randrange(0, 6)
            return self.underline(rng, SUB_KIND[n], "4:%s" % num(rng, n))
        if k < 15:
            t = rng.choice([38, 48, 58])
            sep = rng.choice([";", ":"])
            if rng.randrange(2):
                idx = self.last_idx if (self.last_idx is not None and rng.randrange(3) == 0) else rng.choice([0, 1, 7, 8, 15, 16, 196, 255, rng.randrange(256)])
                self.last_idx = idx
                return sep.join([str(t), "5", num(rng, idx)]), 3
            rgb = self.last_rgb if (self.last_rgb is not None and rng.randrange(3) == 0) else [rng.choice([0, 1, 127, 255, rng.randrange(256)]) for _ in range(3)]
            self.last_rgb = rgb
            return sep.join([str(t), "2"] + [num(rng, v) for v in rgb]), 5
        if k < 18 or in_grammar:
            return num(rng, rng.choice(NOOP)), 1
        # outside the grammar (model = implementation must still hold)
        j = rng.randrange(7)
        if j == 6:
            # colour components / indices beyond their range, up to and past the parser's saturation point 65535
            big = [256, 300, 65534, 65535, 65536, 99999, 4294967296]
            t = rng.choice([38, 48, 58])
            sep = rng.choice([";", ":"])
            comps = [rng.randrange(256) for _ in range(3)]
            comps[rng.randrange(3)] = rng.choice(big)
            return sep.join([str(t), "2"] + [str(v) for v in comps]), 5
        if j == 0:
            return num(rng, rng.choice(OUTSIDE)), 1
        if j == 1:
            return "%d;%d" % (rng.choice([38, 48, 58]), rng.choice([0, 1, 3, 7, 31])), 2   # incomplete / unknown selector
        if j == 2:
            return "38:2::%d:%d:%d" % (rng.randrange(256), rng.randrange(256), rng.randrange(256)), 6
        if j == 3:
            return "38;5;%d" % rng.choice([256, 300, 65535]), 3
        if j == 4:
            return "4:%d" % rng.choice([6, 9, 255]), 2
        return "38:5", 2

    def underline(self, rng, kind, text):
        """emit an underline-changing group only when no other underline kind is set"""
        allowed = {kind} if kind else {"ul"}
        pre = ""
        n = 1 + text.count(":")
        if not self.ul <= allowed:
            pre = "0;"
            n += 1
        self.ul = {kind} if kind else set()
        return pre + text, n

    def sequence(self, rng, in_grammar=True, maxgroups=6):
        ngroups = rng.choice([0, 1, 1, 2, 3, maxgroups, 12])
        saved = set(self.ul)
        parts = []
        total = 0
        for _ in range(ngroups):
            before = set(self.ul)
            g, n = self.group(rng, in_grammar)
            if total + n > 32:
                self.ul = before          # the group is not emitted: forget its effect on the tracked state
                break
            parts.append(g)
            total += n
        if parts == [""]:
            self.ul = set()
        if rng.randrange(12) == 0:
            # private marker / intermediate: not SGR, changes nothing
            body = list(";".join(p for p in parts if ":" not in p).encode())
            self.ul = saved
            if rng.randrange(2):
                return [0x1B, 0x5B, rng.choice(b"<=>?")] + body + [0x6D]
            return [0x1B, 0x5B] + body + [rng.choice(b" !$")] + [0x6D]
        if not parts:
            self.ul = set()    # ESC[m = reset
        if parts and rng.randrange(25) == 0:
            # more than 32 parameter values: the parser raises its overflow flag and the sequence changes NOTHING
            # (not even its first 32 values); padded with simple codes
            pad = [str(rng.choice([1, 3, 7, 9, 31, 42, 0, 39])) for _ in range(33 - total + rng.randrange(0, 8))]
            self.ul = saved
            return [0x1B, 0x5B] + list(";".join(parts + pad).encode()) + [0x6D]
        return [0x1B, 0x5B] + list(";".join(parts).encode()) + [0x6D]


def styled_text(rng, in_grammar=True, pieces=None):
    st = SgrState()
    out = []
    for _ in range(pieces if pieces is not None else rng.choice([1, 2, 4, 8, 16])):
        k = rng.randrange(10)
        if k < 4:
            out += st.sequence(rng, in_grammar)
        elif k < 8:
            out += gen.utf8_text(rng, rng.randrange(1, 6))
        elif k == 8:
            out += rng.choice([gen.osc(rng), gen.esc_seq(rng), [0x1B, 0x5B, 0x32, 0x4A], [0x1B, 0x5B, 0x31, 0x3B, 0x31, 0x48], gen.dcs(rng)])
        else:
            out += [rng.choice([0x0A, 0x0D, 0x09, 0x07, 0x00])]
    # keep it valid UTF-8 and free of sequences cut by a following ESC
    return list(bytes(out).decode("utf-8", errors="ignore").encode("utf-8"))


_SIMPLE_SINGLE = set([0, 1, 2, 3, 7, 8, 9, 39, 49] + list(range(30, 38)) + list(range(40, 48)) + list(range(90, 98)) + list(range(100, 108)))


def simple_sgr_only(data):
    """conservative membership test used to decide whether a spec-level oracle applies to a byte
    string that was NOT produced by the grammar generator (concatenated literals): every ESC in
    it starts a complete `ESC [ <codes> m` sequence whose codes are single attributes without
    underline interplay or complete 38/48/58 ;5;n / ;2;r;g;b forms.  False = the oracle stays
    silent (the tie implementation = model is still checked)."""
    import re
    bs = bytes(data)
    rest = bs
    for m in re.finditer(rb"\x1b\[([0-9;]*)m", bs):
        codes = [int(x) if x else 0 for x in m.group(1).split(b";")]
        if len(codes) > 16 or any(c > 255 for c in codes):
            return False
        i = 0
        while i < len(codes):
            c = codes[i]
            if c in (38, 48, 58):
                if i + 2 < len(codes) and codes[i + 1] == 5:
                    i += 3
                elif i + 4 < len(codes) and codes[i + 1] == 2:
                    i += 5
                else:
                    return False
            elif c in _SIMPLE_SINGLE:
                i += 1
            else:
                return False
    rest = re.sub(rb"\x1b\[[0-9;]*m", b"", bs)
    if b"\x1b" in rest or any(b in rest for b in (b"\x9b", b"\x90", b"\x9d")):
        return False
    return True
