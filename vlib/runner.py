"""Generic decision procedure of a property (DESIGN.md section 5)."""
import json
import os
import random
import sys
import time

from . import core
from . import shapedeps


class Prop:
    """Base class; one subclass per property in vlib/props/."""
    pid = None
    title = ""
    prop_file = None            # e.g. "Props/C02.v"
    module = None               # e.g. "Props.C02"
    gen_deps = []               # names of Generated/*.v files the models depend on
    harness = ("h-core", "hcore")
    harness_features = None
    trusted = []                # extra trusted-base entries
    assumptions = []
    nontrivial_rule = ""
    level = "proof"
    shard_min = 2000            # case lists at least this long are sharded over processes (lower it for expensive cases)

    # --- hooks --------------------------------------------------------------
    def streams(self, tier, rng):
        """yield (stream_name, [case lines])"""
        raise NotImplementedError

    def nontrivial(self, line, impl_result):
        return True

    def in_known_class(self, line):
        return False

    def observe(self, ctx, stream_name, lines, results):
        """called after each stream's three-way run with results = {"model": [...],
        "spec": [...], "impl-<build>": [...]}; returns a list of failure dicts"""
        return []

    def extra_checks(self, ctx):
        """property-specific checks beyond the three-way comparison; returns a list
        of failure dicts (each becomes a violation candidate)"""
        return []

    def extra_coverage(self):
        """extra keys for the evidence's coverage object (measured by extra_checks)"""
        return {}

    def shrink_fields(self, line):
        """indices of the hex fields of a case line that may be shrunk"""
        parts = line.split(" ")
        return [i for i in range(1, len(parts)) if all(c in "0123456789abcdef" for c in parts[i]) and len(parts[i]) % 2 == 0 and parts[i]]

    def impl_builds(self, tier):
        """list of (label, build kwargs); the kwargs go to core.build_harness and may
        carry their own `features` / `target_suffix` (one harness crate built
        several times, e.g. once per feature set of the crate under test)"""
        if tier == "thorough":
            return [("debug", {}), ("release", {"release": True})]
        return [("debug", {})]

    def build_case(self, label, line):
        """the case line as implementation build `label` sees it.  When it differs
        from `line`, the model and the spec are run on the rewritten line too and
        that build is compared with those answers (default: every build sees the
        same line)"""
        return line

    def coverage_extra(self):
        """extra keys for the coverage section of the evidence file"""
        return {}


def shrink(prop, line, fails):
    """greedy delta debugging on the hex fields of a case line; fails(list of
    lines) -> list of bool, evaluated in batches"""
    best = line
    improved = True
    rounds = 0
    while improved and rounds < 40:
        improved = False
        rounds += 1
        parts = best.split(" ")
        cands = []
        budget = 64 << 20          # bytes of candidate text per round (a 100 KiB case has 10^5 one-byte deletions)
        for fi in prop.shrink_fields(best):
            h = parts[fi]
            n = len(h) // 2
            chunk = n
            while chunk >= 1 and budget > 0 and len(cands) < 4000:
                for start in range(0, n, chunk):
                    nh = h[:2 * start] + h[2 * (start + chunk):]
                    cand = list(parts)
                    cand[fi] = nh if nh else "-"
                    cands.append(" ".join(cand))
                    budget -= len(cands[-1])
                    if budget <= 0 or len(cands) >= 4000:
                        break
                chunk //= 2
        if not cands:
            break
        cands = list(dict.fromkeys(cands))[:4000]
        res = fails(cands)
        ok = [c for c, r in zip(cands, res) if r]
        if ok:
            ok.sort(key=len)
            if len(ok[0]) < len(best):
                best = ok[0]
                improved = True
    return best


def source_tie(pid):
    """How every library function of the files this property's model relies on is tied to the Coq development on THIS
    run (tools/inventory.py: the generators are run with a registry switched on): translated = body compiled to Gallina
    and proved equal to the hand model; inlined = helper inlined into a translated caller; pinned = hand-modelled, any
    edit is a GEN-ERROR; data = constants / arms / shapes regenerated, body tied by the correspondence runs; untied =
    correspondence only (or not compiled on this platform)."""
    rc, out = core.sh([sys.executable, os.path.join(core.VERIF, "tools", "inventory.py"), "--json", os.path.join(core.CACHE, "inventory-%s.json" % pid)], timeout=120)
    try:
        inv = json.load(open(os.path.join(core.CACHE, "inventory-%s.json" % pid)))
    except (OSError, ValueError):
        return {"error": "tools/inventory.py failed: " + out[-300:]}
    files = shapedeps.shape_files(pid)
    rows = [r for r in inv["functions"] if r["file"] in files]
    counts = {}
    for r in rows:
        counts[r["class"]] = counts.get(r["class"], 0) + 1
    return {"files": files, "functions": len(rows), "by_class": counts,
            "not_translated": ["%s %s (%s)" % (r["file"], r["fn"], r["class"]) for r in rows if r["class"] not in ("translated", "inlined")],
            "whole_workspace": inv["total"], "third_party_translated_from_registry": inv.get("third_party", {})}


def run(prop, tier, seed, replay=None):
    t0 = time.time()
    pid = prop.pid
    rng = random.Random(seed)
    log = []
    broken = []       # reasons the property is "no longer shown to hold"
    coverage = {}

    # 1. translator
    ok, failed, out = core.regenerate()
    shape = shapedeps.shape_deps(pid)
    gen_broken = [g for g in failed if g in prop.gen_deps or g in shape]
    if gen_broken:
        broken.append({"kind": "translator", "what": "source shape no longer recognised for Generated/%s.v" % ",".join(gen_broken),
                       "log": out[-1500:]})

    # 2. proofs
    pinfo = core.check_proofs(pid, prop.prop_file, prop.module, coqchk=(tier == "thorough" and os.environ.get("VERIF_COQCHK", "1") == "1"))
    if not pinfo["ok"]:
        broken.append({"kind": "proof", "what": "theorems of %s no longer check" % prop.prop_file, "broken_at": pinfo.get("broken_at"),
                       "log": pinfo["detail"][-2500:]})

    # 3. binaries
    driver, derr = core.build_driver()
    impls = []
    herr = ""
    for label, kw in prop.impl_builds(tier):
        kw = dict(kw)
        kw.setdefault("features", prop.harness_features)
        exe, err = core.build_harness(prop.harness[0], prop.harness[1], **kw)
        if exe is None:
            herr += "[%s] %s\n" % (label, err)
        else:
            impls.append((label, exe))
    if driver is None:
        broken.append({"kind": "model-build", "what": "extracted model does not build", "log": derr[-2500:]})
    if not impls:
        broken.append({"kind": "harness-build", "what": "harness does not build against /repo's working tree", "log": herr[-2500:]})

    violations = []   # concrete failing inputs
    tie_diffs = []
    stats = {}
    samples = []
    evaluations = 0
    nontrivial = set()
    extra_coverage = {}   # additional coverage keys recorded by extra_checks (e.g. "exhaustive")

    def three_sides(lines):
        res = {}
        sm = prop.shard_min
        memo = {}
        res["model"] = core.run_parallel([driver, "model"], lines, pid + "m", min_cases=sm)
        res["spec"] = core.run_parallel([driver, "spec"], lines, pid + "s", min_cases=sm)
        for label, exe in impls:
            own = [prop.build_case(label, l) for l in lines]
            res["impl-" + label] = core.run_parallel([exe], own, pid + "i" + label, min_cases=sm)
            if own != lines:
                key = "\n".join(own)      # builds that see the same rewritten lines share the model / spec run
                if key not in memo:
                    memo[key] = (core.run_parallel([driver, "model"], own, pid + "m" + label, min_cases=sm),
                                 core.run_parallel([driver, "spec"], own, pid + "s" + label, min_cases=sm))
                res["model-" + label], res["spec-" + label] = memo[key]
        return res

    def side(r, which, label):
        """model / spec answers that build `label` is compared with"""
        key = which + "-" + label if (which + "-" + label) in r else which
        if which == "spec":
            # "MERGED ..." answers are compared by the property's observe() hook, not literally
            fkey = "filtered:" + key
            if fkey not in r:
                r[fkey] = ["N/A" if v.startswith("MERGED") else v for v in r[key]]
            return r[fkey]
        return r[key]

    def impl_fails_spec(lines):
        r = three_sides(lines)
        out = []
        for i in range(len(lines)):
            bad = False
            for label, _ in impls:
                if side(r, "spec", label)[i] != "N/A" and r["impl-" + label][i] != side(r, "spec", label)[i]:
                    bad = True
            out.append(bad)
        return out

    if replay is not None:
        payload = json.load(open(replay))
        line = payload.get("case")
        if not line or driver is None or not impls:
            print("replay: nothing to run")
            return 2
        r = three_sides([line])
        for k, v in r.items():
            print("%-14s %s" % (k, v[0]))
        bad = impl_fails_spec([line])[0]
        # properties whose oracle is an observe() hook: evaluate it on the replayed case
        for o in prop.observe({"three_sides": three_sides, "impls": impls, "driver": driver, "rng": rng, "tier": tier}, payload.get("stream", "replay"), [line], r):
            print("%-14s %s" % ("oracle", o.get("spec")))
            bad = True
        print("REPRODUCED" if bad else "not reproduced")
        return 1 if bad else 0

    known = core.load_known_findings(pid)
    known_lines = []

    if driver is not None and impls:
        try:
            # corpus first
            corpus_dir = os.path.join(core.VERIF, "corpus", pid)
            all_streams = []
            if os.path.isdir(corpus_dir):
                cl = []
                for fn in sorted(os.listdir(corpus_dir)):
                    for l in open(os.path.join(corpus_dir, fn)):
                        l = l.strip()
                        if l and not l.startswith("#"):
                            cl.append(l)
                if cl:
                    all_streams.append(("corpus", cl))
            all_streams.extend(prop.streams(tier, rng))
            for name, lines in all_streams:
                lines = [l for l in lines if not prop.in_known_class(l)]
                if not lines:
                    continue
                r = three_sides(lines)
                st = {"cases": len(lines), "tie_diffs": 0, "spec_diffs": 0, "spec_applicable": 0, "panics": 0}
                for i, l in enumerate(lines):
                    evaluations += 1
                    m, s = r["model"][i], r["spec"][i]
                    if s.startswith("MERGED"):
                        s = "N/A"          # compared by the property's observe() hook
                    if s != "N/A":
                        st["spec_applicable"] += 1
                    first_impl = None
                    for label, _ in impls:
                        im = r["impl-" + label][i]
                        m, s = side(r, "model", label)[i], side(r, "spec", label)[i]
                        if first_impl is None:
                            first_impl = im
                        if im == "PANIC":
                            st["panics"] += 1
                        if im != m and m != "N/A":      # "N/A": the model has no answer for this kind (oracle by construction)
                            st["tie_diffs"] += 1
                            if len(tie_diffs) < 20:
                                tie_diffs.append({"stream": name, "case": prop.build_case(label, l), "build": label, "impl": im[:2000], "model": m[:2000]})
                        if s != "N/A" and im != s:
                            st["spec_diffs"] += 1
                            if len(violations) < 20:
                                violations.append({"stream": name, "case": prop.build_case(label, l), "build": label, "impl": im[:2000], "spec": s[:2000], "model": m[:2000]})
                    for label in ["*"] + [lb for lb, _ in impls]:
                        m, s = side(r, "model", label)[i], side(r, "spec", label)[i]
                        if m != s and s != "N/A" and len(violations) == 0 and len(tie_diffs) == 0:
                            # model and spec disagree although the implementation agrees with neither check above
                            tie_diffs.append({"stream": name, "case": l if label == "*" else prop.build_case(label, l), "build": "model-vs-spec",
                                              "impl": first_impl[:2000], "model": m[:2000], "spec": s[:2000]})
                    if prop.nontrivial(l, first_impl):
                        nontrivial.add(l)
                    if len(samples) < 6 and i in (0, len(lines) // 2):
                        samples.append({"stream": name, "case": l[:400], "impl": (first_impl or "")[:400]})
                stats[name] = st
                obs_ctx = {"three_sides": three_sides, "impls": impls, "driver": driver, "rng": rng, "tier": tier}
                for fdict in prop.observe(obs_ctx, name, lines, r):
                    st["spec_diffs"] += 1
                    if len(violations) < 20:
                        violations.append(fdict)
            # property-specific extra checks
            # ctx["coverage"] lets a check that runs outside the case-file protocol account for
            # what it executed (same meaning as the counters above); ctx["tie_diffs"] takes
            # implementation-vs-model differences (same dict shape as above)
            ctx = {"three_sides": three_sides, "impls": impls, "driver": driver, "rng": rng, "tier": tier, "tie_diffs": tie_diffs,
                   "coverage": {"evaluations": 0, "nontrivial": set(), "samples": [], "streams": {}, "extra": {}}}
            for f in prop.extra_checks(ctx):
                violations.append(f)
            evaluations += ctx["coverage"]["evaluations"]
            nontrivial |= set(ctx["coverage"]["nontrivial"])
            samples.extend(ctx["coverage"]["samples"])
            stats.update(ctx["coverage"]["streams"])
            extra_coverage.update(ctx["coverage"]["extra"])
            # known findings: run their witnesses separately
            for kf in known:
                if "case" not in kf:
                    continue
                line = kf["case"].replace("|", " ")
                bad = impl_fails_spec([line])[0]
                if bad:
                    known_lines.append("KNOWN-FINDING: property=%s %s" % (pid, kf["_line"].split(" ", 2)[2] if kf["_line"].count(" ") >= 2 else kf["_line"]))
        except RuntimeError as e:
            broken.append({"kind": "run", "what": "a correspondence run failed", "log": str(e)[-2500:]})

    if tie_diffs:
        broken.append({"kind": "correspondence", "what": "implementation and model differ on %d explored case(s)" % sum(s.get("tie_diffs", 0) for s in stats.values()),
                       "first": tie_diffs[0]})

    wall = time.time() - t0
    status = 0
    out_lines = []

    if violations or broken:
        status = 1
        if violations:
            v = violations[0]
            if "case" in v and driver is not None and impls:
                try:
                    small = shrink(prop, v["case"], impl_fails_spec)
                    if small != v["case"]:
                        r = three_sides([small])
                        v = dict(v)
                        v["original_case"] = v["case"]
                        v["case"] = small
                        lb = v.get("build") if any(v.get("build") == x for x, _ in impls) else impls[0][0]
                        v["model"] = side(r, "model", lb)[0][:2000]
                        v["spec"] = side(r, "spec", lb)[0][:2000]
                        v["impl"] = r["impl-" + lb][0][:2000]
                except RuntimeError:
                    pass
            payload = dict(v)
            payload["property"] = pid
            payload["kind"] = "failing-input"
            payload["replay_cmd"] = "./check %s --replay <this file>" % pid
            payload["broken_obligations"] = [{k: b[k] for k in b if k != "log"} for b in broken]
            rel = core.write_replay(pid, payload)
            out_lines.append("VIOLATION property=%s replay=%s" % (pid, rel))
        else:
            payload = {"property": pid, "kind": "no-failing-input-found",
                       "no_longer_checks": broken,
                       "searched": {"evaluations": evaluations, "streams": stats}}
            rel = core.write_replay(pid, payload)
            out_lines.append("VIOLATION property=%s replay=%s no-failing-input-found" % (pid, rel))

    coverage = {
        "obligations": pinfo["obligations"],
        "discharged": pinfo["discharged"],
        "checker_cmd": "make -C coq %so (coqc 8.16.1, full .vo build) + Print Assumptions on every theorem of %s%s" % (
            prop.prop_file, prop.prop_file, " + coqchk -o" if "coqchk" in pinfo else ""),
        "trusted_base": [
            "Coq 8.16.1 kernel incl. vm_compute (no native_compute)",
            "axioms per Print Assumptions: " + ("none (closed under the global context) for all %d theorems" % len(pinfo["axioms"]) if pinfo["axioms"] and not any(pinfo["axioms"].values()) else json.dumps(pinfo["axioms"])),
            "translator tools/gen_model.py (Generated/%s.v)" % ",".join(prop.gen_deps) if prop.gen_deps else "no generated tables used",
            "extraction with ExtrOcamlBasic only, ocaml/driver.ml (parsing/printing), Rust harness harness/%s" % prop.harness[0],
        ] + (["function translator tools/rs2v + tools/gen_fn_*.py (Generated/%s.v re-translated from the Rust functions on every run; Proofs/*Gen.v prove "
              "translation = hand model; usize + and * modelled unbounded, every other integer operation width-checked; unsafe / fmt plumbing functions "
              "hand-modelled and pinned by token hash)" % ",".join(g for g in prop.gen_deps if g.endswith("Fn"))] if any(g.endswith("Fn") for g in prop.gen_deps) else [])
        + ["item-skeleton pins tools/gen_shape.py (derives, trait impls and the methods each defines, signatures, fields, statics, macro_rules, "
           "cfg attributes of %s must equal the recorded skeleton tools/shape/*.txt the models were written against; any difference is a broken tie)"
           % ", ".join(shapedeps.shape_files(pid))]
        + list(prop.trusted),
        "theorems": pinfo["theorems"],
        "evaluations": evaluations,
        "distinct_nontrivial": len(nontrivial),
        "rule": prop.nontrivial_rule,
        "samples": samples if samples else [{"note": "no correspondence case was run"}],
        "streams": stats,
        "impl_builds": [l for l, _ in impls],
        "known_findings_reproduced": len(known_lines),
    }
    coverage["source_tie"] = source_tie(pid)
    coverage.update({k: v for k, v in extra_coverage.items() if k not in coverage})
    coverage.update(prop.extra_coverage())
    coverage.update(prop.coverage_extra())
    core.write_evidence(pid, tier, seed, coverage, list(prop.assumptions), wall, 1 if status else 0, level=prop.level)

    for l in known_lines:
        print(l)
    for l in out_lines:
        print(l)
    print("%s %s tier=%s seed=%d theorems=%d/%d cases=%d nontrivial=%d wall=%.1fs" % (
        pid, "FAIL" if status else "ok", tier, seed, pinfo["discharged"], pinfo["obligations"], evaluations, len(nontrivial), wall))
    if status and broken:
        for b in broken:
            print("  broken: %s: %s" % (b["kind"], b["what"]))
            if b.get("log"):
                print("    " + b["log"].replace("\n", "\n    ")[-1500:])
    sys.stdout.flush()
    return status
