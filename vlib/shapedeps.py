"""Which item-skeleton pins (tools/gen_shape.py) each property depends on: the files the property is
anchored in (properties.jsonl) plus the files whose item structure its model relies on."""
import json
import os
import sys

VERIF = os.path.dirname(os.path.dirname(os.path.abspath(__file__)))
sys.path.insert(0, os.path.join(VERIF, "tools"))

A, P, S = "crates/anstream/src/", "crates/anstyle-parse/src/", "crates/anstyle/src/"
STY = [S + "style.rs", S + "color.rs", S + "effect.rs"]
PSTATE = [P + "state/mod.rs", P + "state/table.rs", P + "state/definitions.rs"]
EXTRA = {
    "C01": [A + "auto.rs", A + "stream.rs", A + "adapter/mod.rs"] + PSTATE,
    "C02": [],
    "C03": [P + "lib.rs", P + "params.rs", A + "auto.rs", A + "adapter/mod.rs"] + PSTATE,
    "C04": [A + "strip.rs", "crates/anstyle-lossy/src/lib.rs", "crates/anstyle-roff/src/styled_str.rs"] + PSTATE,
    "C05": [],
    "C06": [A + "stream.rs", A + "buffer.rs"],
    "C07": [P + "lib.rs", A + "adapter/mod.rs"] + STY,
    "C08": [A + "buffer.rs", A + "fmt.rs", A + "adapter/strip.rs", A + "lib.rs"],
    "C09": [A + "lib.rs", A + "_macros.rs"],
    "C10": [S + "color.rs"],
    "C11": STY,
    "C12": STY,
    "C13": [],
    "C14": ["crates/anstyle-lossy/src/palette.rs"] + STY,
    "C15": ["crates/anstyle-lossy/src/lib.rs", "crates/anstyle-lossy/src/palette.rs"] + STY,
    "C16": STY,
    "C17": [S + "color.rs", S + "reset.rs", "crates/anstyle-wincon/src/lib.rs"],
    "C18": ["crates/anstyle-wincon/src/stream.rs", "crates/anstyle-wincon/src/ansi.rs", A + "stream.rs", A + "buffer.rs"],
    "C19": [A + "lib.rs", A + "wincon.rs", A + "buffer.rs", A + "fmt.rs"],
    "C20": [P + "params.rs"] + PSTATE,
}


def shape_files(pid):
    files = []
    for l in open(os.path.join(VERIF, "properties.jsonl"), encoding="utf-8"):
        if l.strip():
            d = json.loads(l)
            if d["id"] == pid:
                files = [f for f in d["anchors"]["files"] if f.endswith(".rs")]
    for f in EXTRA.get(pid, []):
        if f not in files:
            files.append(f)
    return files


def shape_deps(pid):
    import gen_shape
    files = shape_files(pid)
    crates = sorted(set(f.split("/")[1] for f in files))
    return [gen_shape.gen_name(f) for f in files] + [gen_shape.cargo_gen_name(c) for c in crates] + ["Shape_files", "Shape_lock"]
