"""Shared machinery of ./check: regeneration, proof build, harness build, running
the three sides (implementation, extracted model, extracted spec), comparison,
shrinking, evidence and violation reporting."""
import fcntl
import hashlib
import json
import os
import re
import shutil
import subprocess
import sys
import time

VERIF = os.path.dirname(os.path.dirname(os.path.abspath(__file__)))
REPO = os.environ.get("VERIF_REPO", "/repo")
CACHE = os.path.join(VERIF, ".cache")
COQ = os.path.join(VERIF, "coq")
NPROC = str(os.cpu_count() or 4)

ALLOWED_AXIOMS = set()  # no axiom is accepted (stdlib-only development)

FORBIDDEN = re.compile(
    r"\b(Admitted|admit|Axiom|Parameter|Conjecture|Admit Obligations|bypass_check)\b|Unset\s+Guard|type-in-type|impredicative-set|"
    r"Unset\s+Positivity|Unset\s+Universe\s+Checking"
)


class Lock:
    def __init__(self, name):
        os.makedirs(CACHE, exist_ok=True)
        self.path = os.path.join(CACHE, name + ".lock")

    def __enter__(self):
        self.f = open(self.path, "w")
        fcntl.flock(self.f, fcntl.LOCK_EX)
        return self

    def __exit__(self, *a):
        fcntl.flock(self.f, fcntl.LOCK_UN)
        self.f.close()


def _raise_stack():
    """the extracted model recurses once per input byte in places: give children the hard stack limit"""
    try:
        import resource
        soft, hard = resource.getrlimit(resource.RLIMIT_STACK)
        resource.setrlimit(resource.RLIMIT_STACK, (hard, hard))
    except Exception:
        pass


def sh(cmd, cwd=None, timeout=1800, env=None):
    e = dict(os.environ)
    scratch = os.path.join(CACHE, "scratch")
    os.makedirs(scratch, exist_ok=True)
    e.update({"CARGO_NET_OFFLINE": "true", "VERIF_SCRATCH": scratch})
    if env:
        e.update(env)
    try:
        p = subprocess.run(cmd, cwd=cwd, env=e, stdout=subprocess.PIPE, stderr=subprocess.STDOUT, timeout=timeout,
                           shell=isinstance(cmd, str), preexec_fn=_raise_stack)
        return p.returncode, p.stdout.decode("utf-8", "replace")
    except subprocess.TimeoutExpired as ex:
        return 124, (ex.stdout or b"").decode("utf-8", "replace") + "\nTIMEOUT"


# ---------------------------------------------------------------------------
# step 1: translator

def regenerate():
    """returns (ok, list of failing generator names, log)"""
    with Lock("gen"):
        rc, out = sh([sys.executable, os.path.join(VERIF, "tools", "gen_model.py")], timeout=120)
    sh([sys.executable, os.path.join(VERIF, "tools", "gen_extract.py")], timeout=60)
    failed = re.findall(r"^GEN-ERROR (\w+):", out, re.M)
    return rc == 0, failed, out


# ---------------------------------------------------------------------------
# step 2: proofs

def coq_makefile():
    mf = os.path.join(COQ, "Makefile")
    cp = os.path.join(COQ, "_CoqProject")
    if not os.path.exists(mf) or os.path.getmtime(mf) < os.path.getmtime(cp):
        rc, out = sh(["coq_makefile", "-f", "_CoqProject", "-o", "Makefile"], cwd=COQ)
        if rc != 0:
            raise RuntimeError("coq_makefile failed: " + out)


def build_coq(targets, timeout=1500):
    """full .vo build of the given targets (and their dependencies)"""
    with Lock("coq"):
        coq_makefile()
        rc, out = sh(["make", "-j" + NPROC] + targets, cwd=COQ, timeout=timeout)
    return rc == 0, out


def theorem_names(prop_file):
    src = open(os.path.join(COQ, prop_file), encoding="utf-8").read()
    return re.findall(r"^\s*Theorem\s+(\w+)", src, re.M)


def scan_forbidden():
    bad = []
    for root, _dirs, files in os.walk(COQ):
        for fn in files:
            if not fn.endswith(".v"):
                continue
            p = os.path.join(root, fn)
            text = open(p, encoding="utf-8").read()
            text_nc = strip_coq_comments(text)
            for m in FORBIDDEN.finditer(text_nc):
                bad.append("%s: %s" % (os.path.relpath(p, COQ), m.group(0)))
    return bad


def strip_coq_comments(text):
    out = []
    depth = 0
    i = 0
    while i < len(text):
        if text.startswith("(*", i):
            depth += 1
            i += 2
        elif text.startswith("*)", i) and depth:
            depth -= 1
            i += 2
        else:
            if depth == 0:
                out.append(text[i])
            i += 1
    return "".join(out)


def print_assumptions(pid, module, names):
    """compile a throw-away file that prints the assumptions of every property
    theorem; returns {name: [axioms]}"""
    d = os.path.join(CACHE, "assump")
    os.makedirs(d, exist_ok=True)
    path = os.path.join(d, "Assump_%s.v" % pid)
    with open(path, "w") as f:
        f.write("From AV Require Import %s.\n" % module)
        for n in names:
            f.write('Goal True. idtac "@@BEGIN %s". Abort.\nPrint Assumptions %s.\n' % (n, n))
        f.write('Goal True. idtac "@@END". Abort.\n')
    rc, out = sh(["coqc", "-Q", COQ, "AV", "-noglob", path], cwd=d, timeout=600)
    res = {}
    if rc != 0:
        return None, out
    blocks = re.split(r"@@BEGIN (\w+)\n", out)
    # blocks: [pre, name1, text1, name2, text2...]
    for i in range(1, len(blocks) - 1, 2):
        name = blocks[i]
        text = blocks[i + 1].split("@@END")[0]
        if "Closed under the global context" in text:
            res[name] = []
        else:
            axs = re.findall(r"^(\S+)\s*:", text, re.M)
            res[name] = axs if axs else ["<unparsed>"]
    return res, out


def check_proofs(pid, prop_file, module, timeout=1500, coqchk=False):
    """returns dict(ok, obligations, discharged, detail, axioms)"""
    info = {"ok": False, "obligations": 0, "discharged": 0, "detail": "", "axioms": {}, "theorems": []}
    try:
        names = theorem_names(prop_file)
    except OSError as e:
        info["detail"] = "cannot read %s: %s" % (prop_file, e)
        return info
    info["obligations"] = len(names)
    info["theorems"] = names
    if not names:
        info["detail"] = "no theorem in " + prop_file
        return info
    ok, out = build_coq([prop_file + "o"], timeout=timeout)
    if not ok:
        info["detail"] = "proof build failed:\n" + out[-3000:]
        m = re.search(r'File "\./([^"]+)", line (\d+)', out)
        if m:
            info["broken_at"] = "%s:%s" % (m.group(1), m.group(2))
        return info
    bad = scan_forbidden()
    if bad:
        info["detail"] = "forbidden constructs: " + "; ".join(bad[:10])
        return info
    axioms, out = print_assumptions(pid, module, names)
    if axioms is None:
        info["detail"] = "Print Assumptions run failed:\n" + out[-2000:]
        return info
    info["axioms"] = axioms
    bad_ax = {n: a for n, a in axioms.items() if any(x not in ALLOWED_AXIOMS for x in a)}
    missing = [n for n in names if n not in axioms]
    info["discharged"] = len([n for n in names if n in axioms and n not in bad_ax])
    if bad_ax or missing:
        info["detail"] = "axioms outside the allow-list: %r; missing: %r" % (bad_ax, missing)
        return info
    if coqchk:
        rc, out = sh(["coqchk", "-silent", "-o", "-Q", COQ, "AV", "AV." + module], cwd=COQ, timeout=3000)
        info["coqchk"] = out[-1500:]
        if rc != 0:
            info["detail"] = "coqchk failed:\n" + out[-2000:]
            return info
    info["ok"] = True
    return info


# ---------------------------------------------------------------------------
# step 3: binaries

def build_driver():
    """extraction (coqc Extract.v) + ocamlopt; rebuilt when any input changed"""
    with Lock("ocaml"):
        ok, out = build_coq(["Extract.vo"], timeout=1500)
        if not ok:
            return None, "extraction build failed:\n" + out[-3000:]
        d = os.path.join(CACHE, "ocaml")
        os.makedirs(d, exist_ok=True)
        odir = os.path.join(VERIF, "ocaml")
        drvs = sorted(fn for fn in os.listdir(odir) if fn.startswith("drv_") and fn.endswith(".ml"))
        names = ["extracted.mli", "extracted.ml", "util.ml"] + drvs + ["driver.ml"]
        srcs = [os.path.join(odir, "gen", n) if n.startswith("extracted") else os.path.join(odir, n) for n in names]
        for s in srcs:
            if not os.path.exists(s):
                return None, "missing " + s
        h = hashlib.sha256()
        for s in srcs:
            h.update(open(s, "rb").read())
        stamp = os.path.join(d, "stamp")
        exe = os.path.join(d, "driver")
        if os.path.exists(exe) and os.path.exists(stamp) and open(stamp).read() == h.hexdigest():
            return exe, ""
        for fn in os.listdir(d):
            if fn.endswith((".ml", ".mli", ".cmi", ".cmx", ".o")):
                os.remove(os.path.join(d, fn))
        for s in srcs:
            shutil.copy(s, d)
        rc, out = sh(["ocamlfind", "ocamlopt", "-O3", "-w", "-a"] + names + ["-o", "driver"], cwd=d, timeout=900)
        if rc != 0:
            return None, "ocamlopt failed:\n" + out[-3000:]
        open(stamp, "w").write(h.hexdigest())
        return exe, ""


def build_harness(name, binary, release=False, features=None, target_suffix="", rustflags=None):
    """cargo build of harness/<name> against /repo's working tree"""
    hdir = os.path.join(VERIF, "harness", name)
    tdir = os.path.join(CACHE, "target-" + name + target_suffix)
    cmd = ["cargo", "build", "--offline", "--quiet"]
    if release:
        cmd.append("--release")
    if features is not None:
        cmd += ["--no-default-features", "--features", features]
    env = {"CARGO_TARGET_DIR": tdir}
    if rustflags:
        env["RUSTFLAGS"] = rustflags
    with Lock("cargo-" + name + target_suffix):
        rc, out = sh(cmd, cwd=hdir, timeout=2400, env=env)
    if rc != 0:
        return None, out[-4000:]
    return os.path.join(tdir, "release" if release else "debug", binary), ""


def run_side(cmd_prefix, cases, tag, timeout=1200):
    """cases: list of lines. returns list of result lines (same length) or raises"""
    d = os.path.join(CACHE, "run")
    os.makedirs(d, exist_ok=True)
    uid = "%s-%d-%s" % (tag, os.getpid(), hashlib.md5(("".join(cases[:50]) + str(len(cases)) + str(time.time())).encode()).hexdigest()[:8])
    cf = os.path.join(d, uid + ".cases")
    of = os.path.join(d, uid + ".out")
    with open(cf, "w") as f:
        f.write("\n".join(cases))
        f.write("\n")
    try:
        rc, out = sh(cmd_prefix + [cf, of], timeout=timeout)
        if rc != 0 or not os.path.exists(of):
            raise RuntimeError("%s failed (rc=%s): %s" % (cmd_prefix, rc, out[-2000:]))
        res = open(of, encoding="utf-8", errors="replace").read().split("\n")
        if res and res[-1] == "":
            res.pop()
        if len(res) != len(cases):
            raise RuntimeError("%s: %d results for %d cases" % (tag, len(res), len(cases)))
        return res
    finally:
        for p in (cf, of):
            try:
                os.remove(p)
            except OSError:
                pass


def run_parallel(cmd_prefix, cases, tag, shards=16, timeout=1200, min_cases=2000):
    """shard a large case list (at least min_cases lines) over several processes"""
    import concurrent.futures
    n = len(cases)
    if n < min_cases or shards <= 1:
        return run_side(cmd_prefix, cases, tag, timeout)
    size = (n + shards - 1) // shards
    parts = [cases[i:i + size] for i in range(0, n, size)]
    with concurrent.futures.ThreadPoolExecutor(max_workers=shards) as ex:
        futs = [ex.submit(run_side, cmd_prefix, p, "%s%d" % (tag, i), timeout) for i, p in enumerate(parts)]
        out = []
        for f in futs:
            out.extend(f.result())
    return out


# ---------------------------------------------------------------------------
# known findings

def load_known_findings(pid):
    path = os.path.join(VERIF, "known_findings.txt")
    out = []
    if not os.path.exists(path):
        return out
    for line in open(path, encoding="utf-8"):
        line = line.strip()
        if line.startswith("finding:") and ("property=%s " % pid) in line + " ":
            kv = dict(re.findall(r"(\w+)=(\S+)", line))
            kv["_line"] = line
            out.append(kv)
    return out


# ---------------------------------------------------------------------------
# reporting

def write_replay(pid, payload):
    os.makedirs(os.path.join(VERIF, "replays"), exist_ok=True)
    blob = json.dumps(payload, indent=1, sort_keys=True)
    h = hashlib.sha256(blob.encode()).hexdigest()[:12]
    rel = os.path.join("replays", "%s-%s.json" % (pid, h))
    with open(os.path.join(VERIF, rel), "w") as f:
        f.write(blob + "\n")
    return rel


def write_evidence(pid, tier, seed, coverage, assumptions, wall_s, violations, level="proof"):
    os.makedirs(os.path.join(VERIF, "evidence"), exist_ok=True)
    ev = {
        "property_id": pid,
        "tier": tier,
        "seed": seed,
        "level": level,
        "coverage": coverage,
        "assumptions": assumptions,
        "wall_s": round(wall_s, 2),
        "violations": violations,
    }
    with open(os.path.join(VERIF, "evidence", pid + ".json"), "w") as f:
        json.dump(ev, f, indent=1)
        f.write("\n")
