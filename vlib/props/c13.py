"""C13 -- style, effects and colour values obey their algebra."""
from ..runner import Prop

NSETS = 4096
SINGLETONS = ",".join(str(1 << k) for k in range(12))


def rand_color(rng):
    k = rng.randrange(6)
    if k < 2:
        return "-"
    if k == 2:
        return "a%d" % rng.randrange(16)
    if k == 3:
        return "i%d" % rng.choice([0, 7, 8, 15, 16, 231, 232, 255, rng.randrange(256)])
    return "r%02x%02x%02x" % (rng.randrange(256), rng.randrange(256), rng.randrange(256))


def rand_set(rng):
    k = rng.randrange(8)
    if k == 0:
        return 0
    if k == 1:
        return 1 << rng.randrange(12)
    if k == 2:
        return 4095
    return rng.randrange(NSETS)


class C13(Prop):
    pid = "C13"
    prop_file = "Props/C13.v"
    module = "Props.C13"
    gen_deps = ["Style", "StyleFn"]
    harness = ("h-core", "hcore")
    nontrivial_rule = ("cases: every one of the 4096 effect sets (built from the twelve public constants) through is_plain/clear/contains/iter/Debug (eff1); "
                       "every set x the 12 singletons and a seeded sample of 10^5 pairs through insert/remove/contains/set/|/-/|=/-= with full results (effx); "
                       "thorough: all 4096x4096 pairs, one FNV digest per operation and row (effrow); all 16 colours (bright/is_bright/from_ansi/into_ansi, fg/bg escape strings), "
                       "all 256 indices; seeded random styles through every setter, getter, convenience method, operator with Effects, ==Effects, From<Effects>, is_plain. "
                       "non-trivial = distinct case whose set / style / colour is not the empty one")
    trusted = ["the harness reads the raw u16 of an Effects through its derived Hash and names a set by its mask over the twelve public constants "
               "(theorem c13_mask_of_constants: that naming is the identity for the translated constants)",
               "effrow compares 32-bit FNV-1a digests of 4096 results per operation (thorough tier only; the quick streams compare full results)",
               "function translation (Generated/StyleFn.v): core::fmt::Formatter in <Effects as Debug>::fmt is modelled as the text written so far over an "
               "infallible sink (write! appends and answers Ok(())); `1 << index` on u16 panics for index >= 16 (debug-build semantics)"]
    assumptions = ["Effects values are built through the public API only, hence below 2^12 (theorems c13_valid_*)",
                   "Ansi256 indices and RGB components are u8"]

    def streams(self, tier, rng):
        yield "sets-unary-4096", ["eff1 %d" % a for a in range(NSETS)]
        yield "sets-x-singletons-4096x12", ["effx %d %s" % (a, SINGLETONS) for a in range(NSETS)]
        per = 25
        lines = []
        for _ in range(100000 // per):
            a = rng.randrange(NSETS)
            lines.append("effx %d %s" % (a, ",".join(str(rng.randrange(NSETS)) for _ in range(per))))
        yield "pairs-seeded-1e5", lines
        if tier == "thorough":
            yield "pairs-all-4096x4096", ["effrow %d 0 %d" % (a, NSETS) for a in range(NSETS)]
        yield "colours-16", ["col16 %d" % i for i in range(16)] + ["colstr %d" % i for i in range(16)]
        yield "indices-256", ["col256 %d" % i for i in range(256)]
        n = 30000 if tier == "thorough" else 5000
        lines = []
        for _ in range(n):
            lines.append("sty %s %s %s %d %s %d" % (rand_color(rng), rand_color(rng), rand_color(rng), rand_set(rng), rand_color(rng), rand_set(rng)))
        # corner styles: plain, effects only, every field set
        lines.append("sty - - - 0 - 0")
        lines.append("sty - - - 4095 - 4095")
        lines.append("sty a0 i0 r000000 0 - 0")
        yield "styles-seeded", lines

    def shrink_fields(self, line):
        return []   # fields are decimal masks / colour tokens, not hex byte strings

    def nontrivial(self, line, impl):
        p = line.split(" ")
        if p[0] in ("eff1", "effx", "effrow"):
            return p[1] != "0"
        if p[0] == "sty":
            return p[1:5] != ["-", "-", "-", "0"]
        return True
