"""C20 -- parser feature configurations differ only by their documented limits.

One harness crate (harness/h-parsecfg) is built once per feature set of
anstyle-parse; every case `pc <label> <hex>` is run through all four binaries,
each against the model at its own configuration and against the spec's answer for
its own label (Spec/ParseCfg: Williams' events of the input, cut at the limit for
the fixed-buffer builds; N/A unless the input is 7-bit).  On 7-bit inputs whose
OSC payloads fit, the four binaries are also compared with each other."""
import json

from .. import core, gen
from ..runner import Prop

ESC, BEL, CAN, SUB = 0x1B, 0x07, 0x18, 0x1A
LIMIT = 1024

# label -> cargo features of harness/h-parsecfg
FEATURE_SETS = [
    ("default", "default-parse"),
    ("core", "core"),
    ("core-utf8", "core,utf8"),
    ("none", ""),
]

SEVEN_ALPHABET = [b for b in gen.CLASS_ALPHABET if b < 0x80]


def payload_bytes(rng, n, high=False):
    """n payload bytes other than ';' (20..7E, sometimes DEL; high: also 80..FF)"""
    style = rng.randrange(3)
    out = []
    for i in range(n):
        if style == 0:
            b = 0x41 + (i % 26)
        else:
            b = rng.randrange(0x20, 0x7F)
            if rng.randrange(200) == 0:
                b = 0x7F
        if high and rng.randrange(6) == 0:
            b = rng.randrange(0x80, 0x100)
        if b == 0x3B:
            b = 0x3A
        out.append(b)
    return out


def terminator(rng):
    t = rng.randrange(8)
    if t < 3:
        return [BEL]
    if t < 5:
        return [ESC, 0x5C]
    if t == 5:
        return [CAN]
    if t == 6:
        return [SUB]
    return [ESC, 0x5B, 0x31, 0x6D]  # ESC starts the next sequence: ends the string too


def big_osc(rng, high=False):
    """an OSC string whose payload has 1000..1100 bytes and 0..20 separators,
    biased towards the 1024 limit"""
    total = rng.randrange(1000, 1101)
    nsep = rng.randrange(0, 21)
    k = rng.randrange(8)
    if k == 0:
        nsep = rng.choice([0, 1, 15, 16, 17, 20])
    n = max(0, total - nsep)          # stored bytes
    if k == 1:
        n = rng.choice([1021, 1022, 1023, 1024, 1025, 1026])
    body = payload_bytes(rng, n, high)
    # separator positions (index into body before which a ';' goes)
    pos = []
    for _ in range(nsep):
        m = rng.randrange(6)
        if m == 0:
            pos.append(rng.randrange(max(0, LIMIT - 4), min(n, LIMIT + 4) + 1) if n >= LIMIT - 4 else n)
        elif m == 1:
            pos.append(n)                       # trailing
        elif m == 2:
            pos.append(rng.randrange(0, 8))     # early
        else:
            pos.append(rng.randrange(0, n + 1))
    pos.sort()
    out = [ESC, 0x5D]
    j = 0
    for i in range(n + 1):
        while j < len(pos) and pos[j] == i:
            out.append(0x3B)
            j += 1
        if i < n:
            out.append(body[i])
            if rng.randrange(400) == 0:
                out.append(rng.choice([0x00, 0x0A, 0x0D]))   # ignored inside the string
    out.extend(terminator(rng))
    return out


def small_osc(rng):
    out = [ESC, 0x5D]
    for i in range(rng.randrange(1, 5)):
        if i:
            out.append(0x3B)
        out.extend(rng.randrange(0x41, 0x5B) for _ in range(rng.randrange(0, 4)))
    out.append(BEL)
    return out


def big_case(rng, high=False):
    out = []
    if rng.randrange(3) == 0:
        out.extend(gen.grammar_stream(rng, pieces=rng.randrange(1, 4), seven_bit=True))
    out.extend(big_osc(rng, high))
    # what follows: text, further sequences, often another OSC (stale bookkeeping)
    for _ in range(rng.randrange(1, 5)):
        k = rng.randrange(6)
        if k == 0:
            out.extend(small_osc(rng))
        elif k == 1:
            out.extend(gen.csi(rng))
        elif k == 2 and rng.randrange(3) == 0:
            out.extend(big_osc(rng, high))
        elif k == 3:
            out.extend(gen.grammar_stream(rng, pieces=rng.randrange(1, 4), seven_bit=True))
        else:
            out.extend(rng.randrange(0x20, 0x7F) for _ in range(rng.randrange(1, 8)))
    if high:
        out.extend(gen.utf8_text(rng, rng.randrange(1, 6)))
    return [b for b in out if high or b < 0x80]


def boundary_cases():
    """hand-built inputs around the limit"""
    A = [0x41]
    tail = list(b"Z\x1b[1;2mq\x1b]a;b;c\x07r")
    out = []
    for n in (1022, 1023, 1024, 1025, 1030, 1100, 2048):
        for term in ([BEL], [ESC, 0x5C], [CAN]):
            out.append([ESC, 0x5D] + A * n + term + tail)
            out.append([ESC, 0x5D] + A * n + [0x3B] + term + tail)
            out.append([ESC, 0x5D, 0x30, 0x3B] + A * n + [0x3B, 0x78] + term + tail)
    # separators exactly at / after the limit
    out.append([ESC, 0x5D] + A * 1024 + [0x3B] * 3 + A * 5 + [BEL] + tail)
    out.append([ESC, 0x5D] + A * 1023 + [0x3B] + A + [0x3B] + A + [BEL] + tail)
    # more than 16 fields, then overflow
    out.append([ESC, 0x5D] + (A + [0x3B]) * 20 + A * 1010 + [0x3B, 0x42, BEL] + tail)
    out.append([ESC, 0x5D] + A * 1020 + (A + [0x3B]) * 20 + [BEL] + tail)
    # two oversize strings back to back; oversize then a short one with more fields
    out.append(([ESC, 0x5D] + A * 1030 + [0x3B, 0x42, BEL]) * 2 + tail)
    out.append([ESC, 0x5D] + [0x42, 0x3B] * 3 + A * 1030 + [BEL, ESC, 0x5D] + [0x43, 0x3B] * 6 + [BEL] + tail)
    # unterminated oversize string; oversize string cut by ESC ] (restart)
    out.append([ESC, 0x5D] + A * 1100)
    out.append([ESC, 0x5D] + A * 1100 + [ESC, 0x5D] + A * 3 + [BEL])
    return out


class C20(Prop):
    pid = "C20"
    prop_file = "Props/C20.v"
    module = "Props.C20"
    gen_deps = ["Table", "ParseCfg", "ParserFn", "Utf8parseFn", "ArrayVecFn"]
    harness = ("h-parsecfg", "hparsecfg")
    shard_min = 48    # a 1100-byte OSC payload costs the list-based model / spec tens of milliseconds
    nontrivial_rule = ("cases `pc <label> <hex>`, each run through the FOUR builds of anstyle-parse {default, core, core+utf8, no default features} "
                       "(one harness crate built per feature set), each build compared with the model at its own configuration and with the spec's answer for its label; "
                       "on 7-bit inputs that fit the four builds are also compared with each other, and the model's and the spec's fit / truncation functions are compared on every case. "
                       "Inputs: every string up to length L over the 20 seven-bit symbols of the class alphabet (exhaustive; L=3 quick, 4 thorough); 7-bit grammar streams; "
                       "hand-built limit cases; OSC payloads of 1000..1100 bytes with 0..20 separators (BEL / ESC \\ / CAN / SUB / ESC-restart terminators) followed by text and further sequences; "
                       "a few inputs with high bytes (spec N/A; the no-utf8 builds panic where the model says PANIC). "
                       "non-trivial = distinct case whose callback trace (default build) holds at least one event other than print/execute")
    trusted = ["third-party utf8parse automaton (translated from the registry source of the version Cargo.lock pins and proved equal to Model/Utf8parse.v: tools/gen_fn_utf8parse.py, "
               "Proofs/Utf8parseGen.v; only reached on the high-byte cases; trusted: cargo builds the harness from the directory translated)",
               "cargo feature resolution: each binary is built with --no-default-features --features <set>; `default` through anstyle-parse/default",
               "arrayvec 0.7.6 ArrayVec (the `core` buffer): new / Default, len, capacity, is_full, push, try_push, push_unchecked, truncate, clear, set_len, as_slice, Deref, Drop, the default bodies of trait ArrayVecImpl they reach, CapacityError::new and the macro assert_capacity_limit! are TRANSLATED from the registry source of the version Cargo.lock pins (tools/gen_fn_arrayvec.py: unpacked source = the .crate archive of the lock file's checksum = the directory `cargo metadata --all-features` reports for harness/h-parsecfg) and proved to behave, on the representation invariant (slots [0, len) initialised, len <= CAP), as the list the parser translation uses (raw_full, len, guarded `++ [b]`, [], slice) and to preserve the invariant (Proofs/ArrayVecGen.v, c20_translated_arrayvec_*). Trusted: the VALUE-LEVEL reading of its unsafe code (coq/Model/ArrayVec.v: a MaybeUninit slot is an option, a pointer into the buffer is a slot index bound to the vector it came from, ptr::write / from_raw_parts / drop_in_place act on those slots, undefined behaviour = None; size_of::<usize>() = 8), that cargo builds the harness from that directory, and the Clone / PartialEq / Debug impls of ArrayVec (reached by Parser's derives only; differential runs)"]
    assumptions = ["input bytes are < 256 (the Rust type u8)",
                   "osc_fit is defined on the run: no byte reaches OscPut while osc_raw already holds MAX_OSC_RAW bytes "
                   "(a payload of exactly 1024 stored bytes followed by ';' does NOT fit: the fixed buffer drops that ';')"]

    def __init__(self):
        self.counts = {"seven_bit_fit": 0, "seven_bit_oversize": 0, "high_bytes": 0, "cross_build_comparisons": 0,
                       "fit_and_trunc_model_vs_spec": 0, "panics_by_build": {}}

    def impl_builds(self, tier):
        out = []
        for label, feats in FEATURE_SETS:
            out.append((label, {"features": feats, "target_suffix": "-" + label}))
        if tier == "thorough":
            for label, feats in FEATURE_SETS:
                out.append((label + "-release", {"features": feats, "target_suffix": "-" + label, "release": True}))
        return out

    def build_case(self, label, line):
        if not line.startswith("pc "):
            return line
        parts = line.split(" ")
        parts[1] = label[:-len("-release")] if label.endswith("-release") else label
        return " ".join(parts)

    def streams(self, tier, rng):
        def pc(bs):
            return "pc default " + gen.hexs(bs)
        L = 4 if tier == "thorough" else 3
        yield "exhaustive-7bit-len<=%d" % L, [pc(s) for s in gen.exhaustive(SEVEN_ALPHABET, L)]
        n = 20000 if tier == "thorough" else 3000
        yield "grammar-7bit", [pc(gen.grammar_stream(rng, seven_bit=True)) for _ in range(n)]
        yield "limit-handbuilt", [pc(c) for c in boundary_cases()]
        n = 2500 if tier == "thorough" else 400
        yield "osc-1000..1100", [pc(big_case(rng)) for _ in range(n)]
        n = 1500 if tier == "thorough" else 250
        hb = [pc(gen.grammar_stream(rng)) for _ in range(n)]
        hb += [pc(big_case(rng, high=True)) for _ in range(n // 5)]
        yield "high-bytes", hb

    def nontrivial(self, line, impl):
        return any(tok[:1] not in ("p", "x", "-") for tok in impl.split(" ") if tok) and impl != "PANIC"

    def observe(self, ctx, name, lines, results):
        fails = []
        hexes = [l.split(" ")[2] for l in lines]
        drv = ctx["driver"]
        fit_m = core.run_parallel([drv, "model"], ["pcfit " + h for h in hexes], "C20fm", min_cases=self.shard_min)
        fit_s = core.run_parallel([drv, "spec"], ["pcfit " + h for h in hexes], "C20fs", min_cases=self.shard_min)
        tr_m = core.run_parallel([drv, "model"], ["pctrunc " + h for h in hexes], "C20tm", min_cases=self.shard_min)
        tr_s = core.run_parallel([drv, "spec"], ["pctrunc " + h for h in hexes], "C20ts", min_cases=self.shard_min)
        labels = [lb for lb, _ in ctx["impls"]]
        for i, h in enumerate(hexes):
            self.counts["fit_and_trunc_model_vs_spec"] += 1
            if fit_m[i] != fit_s[i]:
                fails.append({"stream": name, "case": "pcfit " + h, "what": "model (pc_fitb) and spec (pc_spec_fits) disagree on whether the input fits",
                              "model": fit_m[i], "spec": fit_s[i]})
                continue
            if tr_m[i] != tr_s[i]:
                fails.append({"stream": name, "case": "pctrunc " + h, "what": "model (pc_trunc) and spec (pc_spec_trunc) cut the input differently",
                              "model": tr_m[i][:2000], "spec": tr_s[i][:2000]})
                continue
            seven, fits = fit_m[i].split(" ")
            if (tr_m[i] == h) != (fits == "1"):
                fails.append({"stream": name, "case": "pctrunc " + h, "what": "fit and truncation disagree (fits <-> nothing is cut)",
                              "model": tr_m[i][:2000], "spec": fit_m[i]})
                continue
            for lb in labels:
                if results["impl-" + lb][i] == "PANIC":
                    self.counts["panics_by_build"][lb] = self.counts["panics_by_build"].get(lb, 0) + 1
            if seven != "1":
                self.counts["high_bytes"] += 1
                continue
            if fits != "1":
                self.counts["seven_bit_oversize"] += 1
                continue
            self.counts["seven_bit_fit"] += 1
            self.counts["cross_build_comparisons"] += 1
            answers = {lb: results["impl-" + lb][i] for lb in labels}
            if len(set(answers.values())) > 1:
                fails.append({"stream": name, "case": lines[i], "what": "7-bit input that fits, but the builds emit different callbacks",
                              "impl": json.dumps({k: v[:600] for k, v in answers.items()}), "spec": results["spec"][i][:2000]})
        return fails

    def coverage_extra(self):
        return {"c20": self.counts, "feature_sets": [{"label": l, "harness_features": f} for l, f in FEATURE_SETS]}
