"""C15 -- roff rendering preserves text, colours and font per segment."""
import itertools

from ..runner import Prop

ESC = "\x1b"
EFFECT_DIGITS = "12345789"          # bold faint italic underline blink invert hidden strike (SGR codes)

# segment-text atoms: characters special to roff at the start of a line or inline, and ordinary ones
ATOMS = [".", "'", "\\", "-", "\"", "\n", "\n", "\t", " ", "a", "b", "Z", "0", "&", "f", "B", "R", "\\&", "\\fB", "\\-", "--", "..", "''",
         "\n.", "\n'", "\n\n", ".\n", "'\n", "\r", "\r\n", "é", "ü", "→", "\U0001f600", " ", "\x07", "\x7f", "[", "m", ";", "1"]
SPECIAL_TEXTS = ["X", ".x", "'x", "a-b", "a\\b", "x\n.y", "x\n'y", "\n", ".\n.", "don't", "\\&.", "-\n-", "é.", "\t'", "\"q\"", "a\n\n.b\n"]


def hx(s):
    b = s.encode("utf-8")
    return b.hex() if b else "-"


def fg_code(i):
    return 30 + i if i < 8 else 90 + (i - 8)


def bg_code(i):
    return 40 + i if i < 8 else 100 + (i - 8)


def print_seg(seg):
    eff, fg, bg, text = seg
    codes = ["0"] + list(eff)
    if fg is not None:
        codes.append(str(fg_code(fg)))
    if bg is not None:
        codes.append(str(bg_code(bg)))
    return ESC + "[" + ";".join(codes) + "m" + text


def seg_field(seg):
    eff, fg, bg, text = seg
    return "%s:%s:%s:%s" % (eff or "-", "-" if fg is None else fg, "-" if bg is None else bg, hx(text))


def known_class(seg):
    """finding F15-3: bold and faint requested together"""
    return "1" in seg[0] and "2" in seg[0]


def d_case(segs):
    """a member of D: three-way; a member of the recorded class of F15-3: implementation vs model only"""
    text = "".join(print_seg(s) for s in segs)
    if any(known_class(s) for s in segs):
        return "roffo " + hx(text)
    return "roff %s %s" % (hx(text), ",".join(seg_field(s) for s in segs) if segs else "-")


def rand_text(rng, maxlen=10):
    n = rng.choice([0, 1, 1, 2, 3, 4, 6, maxlen])
    return "".join(rng.choice(ATOMS) for _ in range(n))


def rand_seg(rng):
    k = rng.choice([0, 0, 1, 1, 2, 3, 5])
    eff = "".join(rng.choice(EFFECT_DIGITS) for _ in range(k))
    fg = rng.choice([None, None] + list(range(16)))
    bg = rng.choice([None, None] + list(range(16)))
    return (eff, fg, bg, rand_text(rng))


def rand_sgr(rng):
    """an SGR-like sequence outside D"""
    k = rng.randrange(12)
    if k == 0:
        return ESC + "[" + str(rng.choice([1, 3, 4, 22, 23, 31, 44, 91, 107, 39, 49, 6, 21, 53])) + "m"       # no reset: accumulates
    if k == 1:
        return ESC + "[" + rng.choice(["38", "48"]) + ";5;" + str(rng.randrange(256)) + "m"
    if k == 2:
        return ESC + "[" + rng.choice(["38", "48"]) + ";2;" + ";".join(str(rng.randrange(256)) for _ in range(3)) + "m"
    if k == 3:
        return ESC + "[" + ";".join(rng.choice(["", "0", "00", "01", "1", "3", "031", "31", "+1", " 1", "1 ", "x", "é", "108", "255", "256", "22", "23", "27"])
                                    for _ in range(rng.randint(0, 4))) + "m"
    if k == 4:
        return ESC + "[" + rng.choice(["", "1", "1;3", "31;1", "2"]) + rng.choice("KHJABCDfhlsu@~`{|}")        # not SGR: cansi reads it as SGR
    if k == 5:
        return ESC + rng.choice(["", "]", "(B", "c", "[?25", "[1", "[31;", "[\n", "\\", ESC])                # unterminated / other escapes
    if k == 6:
        return ESC + "[" + rng.choice([ESC + "[1m", "é1m", "\n1m", ":1m", "1:2m", "4:3m", "?1m", ">4;2m", "1 m"])
    if k == 7:
        return ESC + "[0m"
    if k == 8:
        return ESC + "[" + ";".join(str(rng.choice([0, 1, 2, 3, 4, 5, 7, 8, 9, 22, 23, 24, 25, 27, 28, 29] + list(range(30, 38)) + list(range(40, 48))
                                                   + list(range(90, 98)) + list(range(100, 108)))) for _ in range(rng.randint(1, 6))) + "m"
    if k == 9:
        return ESC + "[1m" + ESC + "[" + str(rng.choice([31, 3, 44, 91])) + "m"
    if k == 10:
        return ESC + "[" + str(rng.randrange(0, 120)) + "m"
    return ESC + "[;" + str(rng.choice([1, 3, 31])) + rng.choice(["", ";"]) + "m"


def rand_outside(rng):
    parts = []
    for _ in range(rng.randint(1, 5)):
        if rng.randrange(4):
            parts.append(rand_sgr(rng))
        if rng.randrange(5):
            parts.append(rand_text(rng, 6))
    return "roffo " + hx("".join(parts))


SNAPSHOTS = [ESC + "[31;44mtest", ESC + "[1mtest", ESC + "[3mtest", ESC + "[91;44mtest", ESC + "[44;31mtest" + ESC + "[0m"]


class C15(Prop):
    pid = "C15"
    prop_file = "Props/C15.v"
    module = "Props.C15"
    gen_deps = ["Roff", "Palette", "Style", "RoffFn", "RoffCrateFn", "CansiFn"]
    harness = ("h-roff", "hroff")
    nontrivial_rule = ("cases: ONE segment, every pair of foreground/background in {unset, 0..15} (17 x 17) x every subset of the 8 effects (codes 1 2 3 4 5 7 8 9) "
                       "-- exhaustive, the segment text cycling through 16 texts with leading '.', ''', '\\', '-', newlines; seeded random texts of 1-5 segments "
                       "(effect codes in any order with repetitions, segment text of 0-10 atoms over an alphabet with leading '.' and ''', '\\', '-', '\"', newline, tab, CR, "
                       "'\\&', '\\fB', non-ASCII, controls); the snapshot inputs of crates/anstyle-roff/tests; all three sides (anstyle_roff::to_roff(..).to_roff(), extracted "
                       "Model/Roff.rf_to_roff, extracted Spec/RoffSpec.rf_spec_doc cross-checked against the general expectation) on every member of D outside the recorded class "
                       "of F15-3 (bold and faint together). Outside D (accumulated styles, 256-colour / RGB forms, other CSI sequences, malformed or unterminated sequences, "
                       "the F15-3 class): implementation vs model only. add_color_to_roff alone (private; through a shadow copy of lib.rs): unset, the 16 colours, all 256 "
                       "indexed colours, RGB colours, x both requests, three-way. non-trivial = distinct case whose document is not empty")
    trusted = ["cansi 2.2.1 (parse, categorise_text_v3, handle_seq, adjust_sgr, CategorisedSlice::with_sgr) and roff 0.2.1 (Roff::new/control/text/to_roff, Line::render, "
               "escape_inline, escape_leading_cc, escape_spaces, starts_with_cc, bold/italic/roman) are third-party crates outside /repo: they are now TRANSLATED on every run from the cargo "
               "registry source of exactly the version /repo/Cargo.lock pins (tools/gen_fn_cansi.py, tools/gen_fn_roffcrate.py via tools/thirdparty.py: the registry directory must exist once, "
               "harness/h-roff/Cargo.lock must name the same version and `cargo metadata --offline` in harness/h-roff must resolve the package to that directory) and PROVED equal to the "
               "model the C15 theorems use (Proofs/CansiGen.v, Proofs/RoffCrateGen.v, Proofs/RoffDepsGen.v: c15_translated_cansi_*, c15_translated_roffcrate_*, "
               "c15_translated_dependencies_*); trusted there: the cargo registry copy is the code that is linked (checked through cargo metadata, not by checksum), the std vocabulary "
               "(str::starts_with / chars().next() / len_utf8 on UTF-8 bytes, str::split(char), str::replace, slicing, Vec as a list, a Vec<u8> writer that never fails); the translated cansi "
               "equals the hand model on every string of UTF-8 shaped chars (rf_utf8_ok: proved for the encoding of every code-point list), char-wise and byte-wise stepping differ elsewhere; "
               "the deprecated cansi v2 API, line_iter and roff's From/FromIterator/Extend impls are not used by anstyle-roff and not translated; the differential tie is kept",
               "translator tools/gen_roff.py (cansi->anstyle colour arms, create_effects chain, roff colour names, is_bright list, request names and literals of lib.rs; "
               "cansi's Color/Intensity numbering is fixed in the translator)",
               "Rust std str::replace / str::split transcribed (rf_replace1, rf_replace2, rf_split)"]
    assumptions = ["the input is a Rust &str (valid UTF-8); the model works on its bytes, every byte the code inspects is ASCII",
                   "domain D of the theorems: segments each introduced by ESC[0;<effect codes>;<fg>;<bg>m, colours 0..15 or unset, segment text without ESC; "
                   "a segment with empty text is invisible and contributes nothing to the document",
                   "recorded findings outside the theorems: F15-1 (no accumulation across sequences), F15-2 (256-colour/RGB forms ignored) -- outside D; "
                   "F15-3 (bold and faint in one sequence: cansi keeps one intensity, the last one) -- excluded from document_shape by hypothesis",
                   "a bright colour is named by its base colour (roff has eight named colours); a bright foreground is shown by the bold font"]

    def in_known_class(self, line):
        parts = line.split(" ")
        if parts[0] != "roff" or len(parts) < 3 or parts[2] == "-":
            return False
        for seg in parts[2].split(","):
            eff = seg.split(":")[0]
            if "1" in eff and "2" in eff:
                return True
        return False

    def shrink_fields(self, line):
        parts = line.split(" ")
        if parts[0] == "roff" and len(parts) >= 3:
            return []       # the text and its segment list must stay in step
        return Prop.shrink_fields(self, line)

    def streams(self, tier, rng):
        colours = [None] + list(range(16))
        lines = []
        i = 0
        for k in range(len(EFFECT_DIGITS) + 1):
            for eff in itertools.combinations(EFFECT_DIGITS, k):
                for fg in colours:
                    for bg in colours:
                        lines.append(d_case([("".join(eff), fg, bg, SPECIAL_TEXTS[i % len(SPECIAL_TEXTS)])]))
                        i += 1
        yield "single-segment-17x17xeffect-subsets", lines
        lines = [d_case([]), d_case([("", None, None, "")]), d_case([("1", 9, None, ""), ("3", None, 4, "x")])]
        for t in SPECIAL_TEXTS:
            for eff, fg in (("", None), ("1", None), ("3", None), ("3", 12), ("31", None), ("4", 3)):
                lines.append(d_case([(eff, fg, None, t)]))
        for a, b in itertools.product(ATOMS, repeat=2):
            lines.append(d_case([("", None, None, a + b)]))
            lines.append(d_case([("1", None, None, a + b)]))
        yield "special-texts", lines
        n = 30000 if tier == "thorough" else 5000
        yield "random-multi-segment", [d_case([rand_seg(rng) for _ in range(rng.randint(1, 5))]) for _ in range(n)]
        # several segments, one of them (first, inner or LAST) with a text that is special on its own: a lone newline,
        # CR LF, empty, blank, a lone '.', a lone apostrophe, a lone backslash -- in a plain or a styled segment
        lone = ["\n", "\r\n", "", " ", ".", "'", "\\", "-", "\n\n", " \n", "x\n", "\n."]
        lines = []
        for t in lone:
            for pos in ("first", "inner", "last"):
                for plain in (True, False):
                    for _ in range(3 if tier == "thorough" else 1):
                        special = ("", None, None, t) if plain else (rng.choice(["1", "3", ""]), rng.choice([None, 1, 9]), rng.choice([None, 4]), t)
                        others = [rand_seg(rng) for _ in range(rng.randint(1, 3))]
                        segs = [special] + others if pos == "first" else others + [special] if pos == "last" else others[:1] + [special] + others[1:] + [rand_seg(rng)]
                        lines.append(d_case(segs))
        yield "special-text-at-a-segment-position", lines
        # neighbouring segments that are identical (same text, same style) must both appear
        lines = []
        for _ in range(n // 10):
            seg = rand_seg(rng)
            k = rng.choice([2, 2, 3])
            segs = [rand_seg(rng) for _ in range(rng.randrange(0, 2))] + [seg] * k + [rand_seg(rng) for _ in range(rng.randrange(0, 2))]
            lines.append(d_case(segs))
        yield "repeated-identical-segments", lines
        yield "snapshots", ["roff " + hx(s) for s in SNAPSHOTS]
        yield "outside-D", [rand_outside(rng) for _ in range(n)] + ["roffo " + hx(s) for s in
                                                                      [ESC + "[1m" + ESC + "[31mhi", ESC + "[38;5;196mX", ESC + "[38;2;1;2;3mX", "plain", "", ESC + "[", "a" + ESC + "[1",
                                                                       "a" + ESC + "[1Kb", ESC + "[" + ESC + "[1mX", ESC + "[01mX", ESC + "[;1mX", ESC + "[mX", ESC + "[0;1;2mX",
                                                                       ESC + "[0;2;1mX", ESC, "x" + ESC, ESC + "x[1m", ESC + "[31;39mX"]]
        reqs = ["gcolor", "fcolor"]
        lines = []
        for r in reqs:
            lines.append("roffcolor %s none" % hx(r))
            lines += ["roffcolor %s a%d" % (hx(r), i) for i in range(16)]
            lines += ["roffcolor %s x%d" % (hx(r), i) for i in range(256)]
            for c in [(0, 0, 0), (255, 255, 255), (255, 0, 0), (0, 255, 0), (0, 0, 255), (1, 2, 3), (15, 16, 17), (16, 0, 160), (9, 10, 171)]:
                lines.append("roffcolor %s r%d,%d,%d" % ((hx(r),) + c))
            for _ in range(2000 if tier == "thorough" else 300):
                lines.append("roffcolor %s r%d,%d,%d" % (hx(r), rng.randrange(256), rng.randrange(256), rng.randrange(256)))
        lines.append("roffcolor %s r1,2,3" % hx("my req"))
        yield "add-color-to-roff", lines

    def nontrivial(self, line, impl):
        return impl not in ("-", "PANIC", "INVALID-UTF8")
