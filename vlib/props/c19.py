"""C19 -- the output of one print call is never interleaved with another thread's;
the process-wide colour choice is an atomic register.

Proof (partial): Props/C19.v over Model/Locking.v.  Tie: (a) translator plug-in
tools/gen_locking.py (source shapes of the lock calls, AtomicChoice's arms and
orderings), (b) the lock-recording probe: every Write method of AutoStream<Probe> /
StripStream<Probe> (shadow copy of the working-tree sources) against the model's
trace.  The stress runs in `extra_checks` are a SANITY TEST of the runtime
assumptions (std's lock, SeqCst, pipe order), not evidence of the theorem."""
import itertools
import os
import re
import subprocess
import time

from .. import gen
from ..runner import Prop

METHODS = ["write", "write_vectored", "flush", "write_all", "write_fmt"]
MODES = ["never", "always_ansi", "strip"]
# the same streams over pointer-wrapped raw streams (`&mut S`, `Box<S>`: blanket AsLockedWrite impls)
WRAPPED = [m + w for m in MODES for w in ("@mut", "@box")]

# representative fragments: text, pieces of escape sequences cut at every interesting
# point, a whole CSI / OSC, multi-byte text, C1 CSI (as UTF-8), newline
REP = [b"", b"a", b"\x1b", b"[", b"1m", b"\x1b[1m", b"b\x1b[", b"3;4", b"\xc3\xa9", b"\xc2\x9b", b"\n", b"\x1b]0;t\x07", b"m"]


def fr(fragments):
    """hex field of a fragment list: `-` = no fragment, `_` = an empty fragment"""
    if not fragments:
        return "-"
    return ",".join(bytes(f).hex() if f else "_" for f in fragments)


def char_boundaries(bs):
    return [i for i in range(1, len(bs)) if bs[i] & 0xC0 != 0x80]


def cut_fragments(rng, bs, utf8):
    """cut a byte string into fragments (at character boundaries when utf8), some of them empty"""
    pos = char_boundaries(bs) if utf8 else list(range(1, len(bs)))
    k = rng.randrange(6)
    if not pos or k == 0:
        cuts = []
    elif k == 1:
        cuts = pos
    elif k == 2:
        cuts = pos[::rng.randrange(1, 5)]
    else:
        cuts = sorted(set(rng.choice(pos) for _ in range(rng.randrange(1, 12))))
    out = gen.apply_cuts(bs, cuts)
    for _ in range(rng.randrange(3)):
        out.insert(rng.randrange(len(out) + 1), [])
    return out


def expected_line(t, i, stripped):
    c = (t + i) % 8
    a = "x" * (1 + i % 7)
    b = "éy" * (t % 5)
    if stripped:
        return "<%d:%d>%s%s</%d:%d>" % (t, i, a, b, t, i)
    return "<%d:%d>\x1b[3%dm%s%s\x1b[0m</%d:%d>" % (t, i, c, a, b, t, i)


LINE_ID = re.compile(rb"^<(\d+):(\d+)>")


class C19(Prop):
    pid = "C19"
    prop_file = "Props/C19.v"
    module = "Props.C19"
    gen_deps = ["Table", "Locking", "StreamFn", "AutoFn", "GlueFn", "MacrosFn", "FmtFn"]
    harness = ("h-core", "hcore")
    nontrivial_rule = ("cases: (1) every Write method x {AutoStream::never, AutoStream::always_ansi, StripStream} x exhaustively all lists of up to 2 (3 for "
                       "write_fmt / write_vectored; thorough: 3 / 4) fragments over a 13-element representative set (empty fragment, text, escape sequences cut at every "
                       "point, multi-byte, C1); (2) seeded escape-rich UTF-8 / raw streams cut into up to ~40 fragments (empty ones inserted); (3) seeded sequences of "
                       "2..6 calls on ONE stream value (strip state carried from call to call); (4) exhaustively all get/set sequences of up to 4 (thorough 5) operations "
                       "on the colour choice from every initial value, single-threaded.  Compared: the probe's log ACQ / W: / WA: / WV: / F / REL per call vs "
                       "Model/Locking.lk_prog_ops (kind lk), and its lock events alone vs the specification's profile `ACQ REL` per call (kind lkp, same calls, "
                       "never counted as non-trivial).  non-trivial = distinct lk case in which some call performs at least two inner calls under its one lock "
                       "acquisition (the calls interleaving could tear), or distinct reg case with at least two reads")
    trusted = [
        "translator plug-in tools/gen_locking.py (Generated/Locking.v; regex shape checks: AsLockedWrite for Stdout/Stderr = self.lock(), one as_locked_write() per "
        "Write method, SeqCst load/store)",
        "shadow build: harness/h-core/build.rs copies the working-tree anstream/src/{stream,strip,auto,fmt,buffer}.rs (dropping `//!` and `#![` lines only) and "
        "src/shadow.rs adds the probe impls of the sealed traits; the probe's guard accepts every write in full and uses std's default write_fmt like StdoutLock",
        "ASSUMED (runtime, outside the theorem): std's stdout/stderr ReentrantLock is a mutual-exclusion lock -- it is the enabling condition of Acquire in "
        "Model/Locking.lk_step",
        "ASSUMED (runtime): AtomicUsize accesses with Ordering::SeqCst are linearisable -- a run of the choice cell is modelled as a list of operations",
        "ASSUMED (runtime): the pipe / terminal delivers bytes in the order of the write calls made under the lock",
    ]
    assumptions = [
        "PARTIAL: the theorems carry the logical core (lock taken once around all inner writes of a call => no schedule interleaves two calls; legal register "
        "history; to_choice o from_choice total); mutual exclusion of std's lock, SeqCst linearisability and pipe write order are assumed, the model cannot exhibit "
        "a failure of those",
        "the inner writer is taken to accept every write in full (short writes / errors are C06's subject; they change which inner calls happen, not where the "
        "lock is taken: strip.rs's free functions receive the guard and never lock)",
        "each thread uses its own stream value (anstream::stdout() / the print macros create one per call); a stream value shared between threads needs &mut, "
        "which Rust excludes",
    ]

    def __init__(self):
        self._sanity = []

    # ------------------------------------------------------------------ streams
    def streams(self, tier, rng):
        thorough = tier == "thorough"
        lines = []
        for mode in MODES:
            for m in METHODS:
                if m == "flush":
                    lines.append("lk %s flush -" % mode)
                    continue
                multi = m in ("write_fmt", "write_vectored")
                k = (3 if multi else 2) + (1 if thorough else 0)
                if not multi:
                    k = min(k, 3)
                for n in range(0, k + 1):
                    if n > 1 and not multi:
                        # write / write_all take one buffer: concatenations of n representatives
                        for combo in itertools.product(REP, repeat=n):
                            lines.append("lk %s %s %s" % (mode, m, fr([b"".join(combo)])))
                        continue
                    for combo in itertools.product(REP, repeat=n):
                        lines.append("lk %s %s %s" % (mode, m, fr(list(combo))))
        lines = list(dict.fromkeys(lines))
        yield "methods-x-modes-exhaustive", lines
        # the same calls, lock events only, against the specification's profile (one take, one give per call)
        yield "methods-x-modes-exhaustive(lock-profile-vs-spec)", ["lkp" + l[2:] for l in lines]

        n = 6000 if thorough else 1500
        lines = []
        for _ in range(n):
            m = rng.choice(["write_fmt", "write_fmt", "write_fmt", "write_vectored", "write_all", "write"])
            utf8 = m == "write_fmt" or rng.randrange(2) == 0
            s = gen.grammar_stream(rng, valid_utf8=utf8)
            frs = cut_fragments(rng, s, utf8) if m in ("write_fmt", "write_vectored") else [s]
            lines.append("lk %s %s %s" % (rng.choice(MODES + WRAPPED), m, fr(frs)))
        yield "escape-rich-fragment-lists", lines

        lines = []
        for _ in range(n):
            s = gen.grammar_stream(rng, valid_utf8=True)
            parts = cut_fragments(rng, s, True)
            ops = []
            while parts and len(ops) < 6:
                m = rng.choice(METHODS)
                if m == "flush":
                    ops.append("flush -")
                elif m in ("write_fmt", "write_vectored"):
                    k = rng.randrange(1, 5)
                    ops.append("%s %s" % (m, fr(parts[:k])))
                    parts = parts[k:]
                else:
                    ops.append("%s %s" % (m, fr(parts[:1])))
                    parts = parts[1:]
            if not ops:
                ops = ["flush -"]
            lines.append("lk %s %s" % (rng.choice(MODES + WRAPPED), " ".join(ops)))
        yield "call-sequences-on-one-stream", lines
        yield "call-sequences-on-one-stream(lock-profile-vs-spec)", ["lkp" + l[2:] for l in lines]

        lines = []
        alphabet = ["g", "s0", "s1", "s2", "s3"]
        for init in range(4):
            for k in range(1, (5 if thorough else 4) + 1):
                for combo in itertools.product(alphabet, repeat=k):
                    lines.append("reg %d %s" % (init, ",".join(combo)))
        yield "choice-register-sequential-exhaustive", lines

    def nontrivial(self, line, impl):
        if line.startswith("lkp "):
            return False      # the same calls as the lk case next to it: not counted twice
        if line.startswith("reg "):
            return len(impl.split(" ")) >= 2 and "s" in line
        for call in impl.split(" | "):
            toks = call.split(" ")
            if len(toks) >= 4 and toks[0] == "ACQ" and toks[-1] == "REL":
                return True
        return False

    def shrink_fields(self, line):
        return []

    # ------------------------------------------------------ sanity: stress runs
    def _stress_once(self, exe, threads, iters, mode, stream):
        p = subprocess.run([exe, "--c19-stress", str(threads), str(iters), mode, stream], stdout=subprocess.PIPE, stderr=subprocess.PIPE,
                           timeout=300)
        data = p.stdout if stream == "stdout" else p.stderr
        other = p.stderr if stream == "stdout" else p.stdout
        cfg = "threads=%d iters=%d mode=%s stream=%s" % (threads, iters, mode, stream)
        if p.returncode != 0:
            return cfg, "exit status %d: %s" % (p.returncode, other[-300:].decode("utf-8", "replace")), 0
        if other:
            return cfg, "unexpected bytes on the other stream: %r" % other[:200], 0
        lines = data.split(b"\n")
        if lines[-1] != b"":
            return cfg, "output does not end with a newline: %r" % lines[-1][-200:], 0
        lines.pop()
        literal = {"never": [b"<L>literal line</L>"], "always_ansi": [b"<L>\x1b[35mliteral line\x1b[0m</L>"]}
        literal["mixed"] = literal["never"] + literal["always_ansi"]
        n_lit = threads * len([i for i in range(iters) if i % 4 == 3])
        if len(lines) != threads * iters + n_lit:
            return cfg, "%d lines, expected %d" % (len(lines), threads * iters + n_lit), len(lines)
        nxt = [0] * threads
        for ln in lines:
            if ln.startswith(b"<L>"):
                # the argument-free println! / eprintln! of every fourth iteration
                if ln not in literal[mode]:
                    return cfg, "torn line %r" % ln[:300], len(lines)
                n_lit -= 1
                continue
            m = LINE_ID.match(ln)
            if not m:
                return cfg, "torn line %r" % ln[:300], len(lines)
            t, i = int(m.group(1)), int(m.group(2))
            if t >= threads or i != nxt[t]:
                return cfg, "line out of program order or torn: %r (thread %d expected call %d)" % (ln[:300], t, nxt[t] if t < threads else -1), len(lines)
            nxt[t] += 1
            want = {"never": [True], "always_ansi": [False], "mixed": [True, False]}[mode]
            if not any(ln == expected_line(t, i, s).encode("utf-8") for s in want):
                return cfg, "line is not a whole message of thread %d call %d: %r" % (t, i, ln[:300]), len(lines)
        if n_lit != 0:
            return cfg, "%d argument-free lines missing" % n_lit, len(lines)
        return cfg, None, len(lines)

    def extra_checks(self, ctx):
        tier = ctx["tier"]
        fails = []
        runs = []
        t0 = time.time()
        thorough = tier == "thorough"
        threads_list = list(range(2, 17)) if thorough else [2, 3, 4, 8, 12, 16]
        iters = 4000 if thorough else 2000
        seeds = 3 if thorough else 1
        total_lines = 0
        label, exe = ctx["impls"][-1]
        for rep in range(seeds):
            for th in threads_list:
                for mode in ("never", "always_ansi", "mixed"):
                    for stream in ("stdout", "stderr"):
                        if stream == "stderr" and not thorough and th not in (2, 16):
                            continue
                        try:
                            cfg, err, n = self._stress_once(exe, th, iters, mode, stream)
                        except (subprocess.TimeoutExpired, OSError) as e:
                            cfg, err, n = "threads=%d mode=%s stream=%s" % (th, mode, stream), "run failed: %s" % e, 0
                        total_lines += n
                        runs.append(cfg)
                        if err and len(fails) < 3:
                            fails.append({"stream": "stress-sanity(print)", "what": "SANITY TEST of the runtime assumptions failed: " + err, "config": cfg,
                                          "build": label, "replay_hint": "%s --c19-stress %s" % (exe, cfg)})
        reg = []
        for (w, r) in ([(1, 1), (2, 2), (4, 4), (8, 8)] if not thorough else [(1, 1), (1, 8), (2, 2), (4, 4), (8, 1), (8, 8), (12, 4)]):
            it = 400000 if thorough else 100000
            try:
                p = subprocess.run([exe, "--c19-regstress", str(w), str(r), str(it)], stdout=subprocess.PIPE, stderr=subprocess.STDOUT, timeout=300)
                out = p.stdout.decode("utf-8", "replace").strip()
                rc = p.returncode
            except (subprocess.TimeoutExpired, OSError) as e:
                out, rc = "run failed: %s" % e, 1
            reg.append("writers=%d readers=%d iters=%d: %s" % (w, r, it, out))
            if (rc != 0 or not out.startswith("REG ok")) and len(fails) < 3:
                fails.append({"stream": "stress-sanity(register)", "what": "SANITY TEST of the runtime assumptions failed: " + out[:400], "build": label})
        self._sanity = [{
            "label": "SANITY TEST of the assumed runtime facts (std's stdout/stderr lock, SeqCst atomics, pipe order) -- NOT evidence of the theorem; "
                     "a failure here would mean an assumption of the partial proof is false",
            "print_stress": {"runs": len(runs), "lines_checked": total_lines, "build": label,
                             "what": "N threads x iters multi-fragment prints (println!/print!/writeln!/write! with a per-fragment Display/write_all) through "
                                     "anstream::stdout()/stderr() of the real crate into a pipe; every line must be exactly one expected whole message, every thread's "
                                     "lines in program order; mode mixed = another thread keeps flipping the global choice",
                             "configs": runs[:6] + (["..."] if len(runs) > 6 else [])},
            "register_stress": reg,
            "failures": len(fails),
            "wall_s": round(time.time() - t0, 1),
        }]
        return fails

    def extra_coverage(self):
        return {"sanity_runs_not_evidence": self._sanity} if self._sanity else {}
