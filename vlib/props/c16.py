"""C16 -- conversions to other styling crates preserve colours and effects.

Two-stage case lines.  What a library prints for a style is not a function the
specification could compute (many byte strings have the same interpretation): the
specification is an ACCEPTANCE test of a rendering.  So `streams` first runs the
harness (the real adapters and the real target libraries) on first-stage lines and
appends the rendered bytes to each line; on the second-stage line the
implementation renders afresh, the specification answers with the same bytes iff
their interpretation by Spec/Vt + Spec/Sgr is what it demands (otherwise MISMATCH),
see ocaml/drv_adapters.ml."""
from .. import core
from ..runner import Prop

LIBS = ["ansi_term", "crossterm", "owo", "termcolor", "yansi"]
LATTICE = [0, 51, 102, 153, 204, 255]
UNDERLINES = [3, 4, 5, 6, 7]
EXPRESSIBLE = {"ansi_term": 3855, "crossterm": 4095, "owo": 3855, "termcolor": 15, "yansi": 3855}


def slots(lib):
    return ["fg", "bg", "ul"] if lib == "crossterm" else ["fg", "bg"]


def colour_pool():
    """none, the 16 colours, the 256 indices, a 6x6x6 RGB lattice"""
    return (["-"] + ["a%d" % i for i in range(16)] + ["x%d" % i for i in range(256)]
            + ["r%d.%d.%d" % (r, g, b) for r in LATTICE for g in LATTICE for b in LATTICE])


def rand_colour(rng):
    k = rng.random()
    if k < 0.15:
        return "-"
    if k < 0.50:
        return "a%d" % rng.randrange(16)
    if k < 0.75:
        return "x%d" % rng.randrange(256)
    return "r%d.%d.%d" % (rng.randrange(256), rng.randrange(256), rng.randrange(256))


def one_underline(eff, rng):
    """the same effect set with at most one underline kind (a terminal has one underline attribute)"""
    kinds = [k for k in UNDERLINES if eff >> k & 1]
    if len(kinds) <= 1:
        return eff
    keep = rng.choice(kinds)
    for k in kinds:
        if k != keep:
            eff &= ~(1 << k)
    return eff


class C16(Prop):
    pid = "C16"
    prop_file = "Props/C16.v"
    module = "Props.C16"
    gen_deps = ["Adapters", "AdaptersFn", "YansiFn", "TermcolorFn", "AnsiTermFn", "OwoFn", "CrosstermFn", "Style", "Render"]
    harness = ("h-adapters", "hadapters")
    nontrivial_rule = (
        "Case kinds: adm = meaning-table validation (one colour constructor or attribute, built with the target library's own API, rendered by the library; "
        "the specification accepts the bytes iff their Spec/Vt+Spec/Sgr interpretation is the table entry); adv = the adapter's result as a canonical value vs the "
        "Coq model of the conversion; adr = the library's rendering of the adapter's result, accepted by the specification iff it interprets as ad_project (the property's "
        "expectation) and by the model iff it interprets as ad_meaning (ad_convert s); ads = anstyle_syntect::to_anstyle vs model vs spec. "
        "adm is EXHAUSTIVE: every named constructor and attribute that the model conversions can produce or that the meaning tables list, every index 0..255 and a 6x6x6 "
        "RGB lattice, in every colour slot of every library. adv/adr per adapter: every colour of {none, 16, 256, 216-point RGB lattice} in every slot (alone and with "
        "random company), all 4096 effect sets over fixed colour settings, the full product of {none + 16 colours} over the slots, a seeded random sample "
        "(quick 20000, thorough 100000 styles); thorough adds the full product {none, 16, 256} x {none, 16, 256} over foreground x background with the underline colour and the effect set cycling; adr lines of crossterm carry at most one underline kind (the rest of the effect set unchanged). "
        "non-trivial = adm/ads always (distinct constructor / style); adv/adr: the style has at least one colour or effect")
    trusted = [
        "the canonical value of an owo_colors::Style and the attribute set of a yansi::Style are read off their derived Debug output (private fields); "
        "owo-colors' StyleFlags bit positions are mirrored in the harness",
        "meaning tables (Spec/Targets.v) are written from the libraries' documentation and validated entry by entry against ansi_term 0.12.1, crossterm 0.28.1, "
        "owo-colors 4.0.0, termcolor 1.4.1, yansi 1.0.1 (the versions /repo/Cargo.lock pins)",
    ]
    assumptions = [
        "16-colour values are the 16 AnsiColor variants, indexed colours and RGB components are u8, the effect set is one of the 4096 subsets of the twelve effects",
        "expressible effects per target as decided in DESIGN.md section 6 / Spec/Targets.v (termcolor: bold, dimmed, italic, underline only, named colours hue only; "
        "ansi_term: named colours hue only, a bright foreground additionally sets bold)",
        "rendered colours are compared modulo the identification of 256-palette entries 0..15 with the sixteen ANSI colours (crossterm renders its named colours as 38;5;n)",
        "renderings of styles with two or more underline kinds are not compared with the specification (a terminal has one underline attribute); their converted VALUES are",
        "owo-colors 4.0.0 (the pinned version) renders a style that has a background, no foreground and at least one effect without the `;` separator "
        "(bg red + bold = ESC[411m): renderings of that class are excluded from the adr comparison while the witness still misrenders; the converted values are compared (adv)",
    ]

    owo_defect = False

    def shrink_fields(self, line):
        return []

    def in_known_class(self, line):
        # the owo-colors 4.0.0 rendering defect (see assumptions); only while it reproduces
        if not self.owo_defect or not line.startswith("adr owo - "):
            return False
        p = line.split(" ")
        return p[3] != "-" and int(p[5]) & EXPRESSIBLE["owo"] != 0

    # -- helpers -------------------------------------------------------------
    def _tools(self):
        exe, err = core.build_harness(self.harness[0], self.harness[1])
        drv, derr = core.build_driver()
        if exe is None or drv is None:
            raise RuntimeError("C16 prepare: harness or driver not built: %s %s" % (err, derr))
        return exe, drv

    def _render(self, exe, lines):
        """second-stage lines: first-stage line + the bytes the real library renders"""
        out = core.run_parallel([exe], lines, "C16prep")
        return ["%s %s" % (l, b) for l, b in zip(lines, out)]

    def streams(self, tier, rng):
        thorough = tier == "thorough"
        exe, drv = self._tools()

        # is the owo-colors defect still there?
        w = self._render(exe, ["adr owo - a1 - 1"])
        reproduces = core.run_side([drv, "spec"], w, "C16w")[0].startswith("MISMATCH")
        # the class is excluded only if the finding is listed in known_findings.txt (F16-1); an unlisted
        # misrendering stays in the comparison and is reported as a violation
        listed_f = any(k.get("id") == "F16-1" for k in core.load_known_findings("C16"))
        self.owo_defect = reproduces and listed_f
        if self.owo_defect:
            print("KNOWN-FINDING: property=C16 id=F16-1 case=adr|owo|-|a1|-|1 owo-colors 4.0.0 renders bg + effect without fg as ESC[411m "
                  "(missing ';'): the rendering of the converted style does not interpret to the style (third-party defect, adapter conforms)")

        # ---- (a) meaning tables, exhaustive ---------------------------------
        ask = ["adl %s" % lib for lib in LIBS]
        produced = core.run_side([drv, "model"], ask, "C16l")
        listed = core.run_side([drv, "spec"], ask, "C16l")
        lines = []
        lattice = ["r:%d.%d.%d" % (r, g, b) for r in LATTICE for g in LATTICE for b in LATTICE]
        for lib, pm, ps in zip(LIBS, produced, listed):
            cols, attrs = [], []
            for res in (pm, ps):
                c, a = res.split(" ")
                cols += [x for x in c[2:].split(",") if x]
                attrs += [x for x in a[2:].split(",") if x]
            cols = list(dict.fromkeys(cols))
            attrs = list(dict.fromkeys(attrs))
            for slot in slots(lib):
                lines += ["adm %s %s n:%s" % (lib, slot, c) for c in cols]
                lines += ["adm %s %s x:%d" % (lib, slot, i) for i in range(256)]
                lines += ["adm %s %s %s" % (lib, slot, c) for c in lattice]
            lines += ["adm %s at %s" % (lib, a) for a in attrs]
        yield "meaning tables: every constructor / attribute / index / lattice RGB x slot x library, rendered by the library", self._render(exe, lines)

        # ---- (b) end to end --------------------------------------------------
        pool = colour_pool()
        fixed = [("-", "-", "-"), ("a12", "a3", "x200")]
        if thorough:
            fixed += [("a9", "-", "-"), ("-", "a14", "-"), ("r1.2.3", "x15", "a5"), ("x7", "r255.0.128", "r0.0.0"), ("a0", "a8", "a15"), ("x16", "x255", "x8")]
        nrand = 100000 if thorough else 20000
        ansi17 = ["-"] + ["a%d" % i for i in range(16)]
        for lib in LIBS:
            styles = []
            for si in range(3):
                for c in pool:
                    alone = ["-", "-", "-"]
                    alone[si] = c
                    styles.append((alone[0], alone[1], alone[2], 0))
                    comp = [rand_colour(rng), rand_colour(rng), rand_colour(rng)]
                    comp[si] = c
                    styles.append((comp[0], comp[1], comp[2], rng.randrange(4096)))
            for f in fixed:
                styles += [(f[0], f[1], f[2], e) for e in range(4096)]
            uls = ansi17 if lib == "crossterm" else ["-", "a%d" % rng.randrange(16)]
            k = 0
            for fg in ansi17:
                for bg in ansi17:
                    for ul in uls:
                        styles.append((fg, bg, ul, (1 << (k % 12)) if k % 13 else rng.randrange(4096)))
                        k += 1
            styles += [(rand_colour(rng), rand_colour(rng), rand_colour(rng), rng.randrange(4096)) for _ in range(nrand)]
            if thorough:
                c273 = pool[:273]
                k = rng.randrange(4096)
                for fg in c273:
                    for bg in c273:
                        styles.append((fg, bg, pool[k % len(pool)], k % 4096))
                        k += 4097
            yield ("%s: converted VALUE vs model; every colour per slot, 4096 effect sets x %d colour settings, {none+16}^slots, %d random" % (lib, len(fixed), nrand),
                   ["adv %s %s %s %s %d" % ((lib,) + s) for s in styles])
            first = ["adr %s %s %s %s %d" % (lib, s[0], s[1], s[2], one_underline(s[3], rng) if lib == "crossterm" else s[3]) for s in styles]
            first = list(dict.fromkeys(first))
            yield ("%s: library RENDERING of the converted value vs specification and model meaning (same styles)" % lib, self._render(exe, first))

        # ---- syntect ----------------------------------------------------------
        lines = []
        ext = [0, 1, 127, 128, 254, 255]
        for i in range(2000 if thorough else 400):
            if i % 4 == 0:
                cs = [rng.choice(ext) for _ in range(8)]
            else:
                cs = [rng.randrange(256) for _ in range(8)]
            for bits in range(8):
                lines.append("ads %02x%02x%02x%02x %02x%02x%02x%02x %d" % (tuple(cs) + (bits,)))
        yield "syntect -> anstyle: all 8 font styles x %d colour pairs" % (len(lines) // 8), lines

    def nontrivial(self, line, impl):
        p = line.split(" ")
        if p[0] in ("adv", "adr"):
            return not (p[2] == "-" and p[3] == "-" and p[4] == "-" and p[5] == "0")
        return True
