"""C05 -- rendered styles are pure SGR and round-trip through SGR interpretation."""
from .. import core
from ..runner import Prop

NO_FLAGS = "0:-:32:-:-"
UL_MASK = 0xF8          # bits 3..7: the five underline kinds


def flag_grid():
    """width {none,0,1,8} x fill {space,'*'} x align {none,<,^,>} x precision {none,0,2} x alternate
    (a fill can only be written together with an alignment)"""
    out = []
    for alt in (0, 1):
        for width in ("-", "0", "1", "8"):
            for fill, align in [(32, "-")] + [(f, a) for f in (32, 42) for a in "<^>"]:
                for prec in ("-", "0", "2"):
                    out.append("%d:%s:%d:%s:%s" % (alt, width, fill, align, prec))
    return out


GRID = flag_grid()


def rand_color(rng, none_ok=True):
    k = rng.randrange(7 if none_ok else 5)
    if k >= 5:
        return "-"
    if k == 0:
        return "a%d" % rng.randrange(16)
    if k == 1:
        return "x%d" % rng.choice([0, 5, 9, 10, 15, 16, 99, 100, 199, 200, 255, rng.randrange(256)])
    if k == 2:
        return "x%d" % rng.randrange(256)
    edge = [0, 1, 9, 10, 99, 100, 101, 199, 200, 249, 250, 255]
    return "r%d.%d.%d" % tuple(rng.choice(edge) if rng.randrange(2) else rng.randrange(256) for _ in range(3))


def rand_effects(rng):
    k = rng.randrange(8)
    if k == 0:
        return 0
    if k == 1:
        return 1 << rng.randrange(12)
    if k == 2:
        return 4095
    if k == 3:                      # at most one underline kind
        e = rng.randrange(4096) & ~UL_MASK
        return e | (1 << rng.randrange(3, 8))
    return rng.randrange(4096)


def rand_style(rng):
    return "%s,%s,%s,%d" % (rand_color(rng), rand_color(rng), rand_color(rng), rand_effects(rng))


# ---- the property's expectation, from its text -----------------------------------

def norm_effects(e):
    """a terminal has one underline attribute: of several kinds the last one selected
    (the highest bit, effects are emitted in bit order) stays"""
    ul = e & UL_MASK
    if ul == 0:
        return e
    return (e & ~UL_MASK) | (1 << (ul.bit_length() - 1))


def norm_style(style):
    """what interpreting the rendered style must give back: the style itself, a
    16-colour underline colour as the same index of the 256-colour palette"""
    fg, bg, ul, e = style.split(",")
    if ul.startswith("a"):
        ul = "x" + ul[1:]
    return "%s,%s,%s,%d" % (fg, bg, ul, norm_effects(int(e)))


def fields(result):
    d = {}
    for tok in result.split(" "):
        if "=" in tok:
            k, v = tok.split("=", 1)
            d[k] = "" if v == "-" else v
    return d


DEFAULT = "-,-,-,0"


class C05(Prop):
    pid = "C05"
    prop_file = "Props/C05.v"
    module = "Props.C05"
    gen_deps = ["Style", "StyleFn", "Render", "RenderFn"]
    harness = ("h-core", "hcore")
    nontrivial_rule = ("cases: every one of the 4096 effect sets through Style and through Effects::render; all 16 palette and all 256 indexed colours in each of "
                       "the three slots (and through Color / AnsiColor / Ansi256Color ::render_fg/bg); every value 0..255 of each RGB component in each slot; seeded "
                       "full combinations under seeded flags; the whole flag grid (width {none,0,1,8} x fill {space,*} x align {none,<,^,>} x precision {none,0,2} x "
                       "alternate = 168 literal format strings) on a few dozen styles, on colours, effect sets and Reset. Each case compares format!(flags), "
                       "render()/render_reset() under the flags, render().to_string(), every inner write of write_to, render_reset().to_string(), write_reset_to "
                       "with the extracted model; the oracle reads the IMPLEMENTATION's bytes with the specification (Spec/Strip: nothing is left; Spec/Vt + Spec/Sgr: "
                       "the rendition is the style, 16-colour underline as 256-colour index, last underline kind wins; style + reset form = default; reset form empty "
                       "iff plain; all paths and flags give the same bytes). non-trivial = distinct case whose style / colour / effect set is not the empty one")
    trusted = ["core::fmt::Formatter / format! (std, third party): that `Formatter::write_str` neither pads nor truncates and that `#` only sets the alternate flag "
               "is tied by the flag-grid correspondence (168 literal format strings), not proved",
               "std::io::Write::write_all hands a buffer that is accepted in full to the writer in one `write` call (the recording writer of the harness)",
               "the oracle's expectation (norm_style in vlib/props/c05.py) restates rn_norm_general of Spec/Render.v in Python"]
    assumptions = ["Effects values are built through the public API only, hence below 2^12 (C13, theorems c13_valid_*)",
                   "Ansi256 indices and RGB components are u8",
                   "the writer / formatter sink accepts everything (String, Vec): io / fmt errors are outside the model",
                   "round trip as the same style: at most one underline kind is set (a terminal has one underline attribute); otherwise the last kind in bit order stays (c05_render_roundtrip_general)"]

    def streams(self, tier, rng):
        g = len(GRID)
        # all effect sets: through Style (no flags) and through Effects::render (flags walk over the grid)
        lines = ["rnd -,-,-,%d %s" % (e, NO_FLAGS) for e in range(4096)]
        lines += ["rne %d %s" % (e, GRID[e % g]) for e in range(4096)]
        yield "effects-4096", lines
        # all 16 + 256 colours in each slot
        cols = ["a%d" % i for i in range(16)] + ["x%d" % i for i in range(256)]
        lines = []
        for k, c in enumerate(cols):
            lines.append("rnd %s,-,-,0 %s" % (c, NO_FLAGS))
            lines.append("rnd -,%s,-,0 %s" % (c, NO_FLAGS))
            lines.append("rnd -,-,%s,0 %s" % (c, NO_FLAGS))
            lines.append("rnc %s %s" % (c, GRID[(7 * k) % g]))
        yield "colours-16+256-x-3-slots", lines
        # every value of each RGB component in each slot (the other two components seeded)
        lines = []
        for slot in range(3):
            for comp in range(3):
                for v in range(256):
                    rgb = [rng.randrange(256), rng.randrange(256), rng.randrange(256)]
                    rgb[comp] = v
                    c = "r%d.%d.%d" % tuple(rgb)
                    st = ["-", "-", "-"]
                    st[slot] = c
                    lines.append("rnd %s,0 %s" % (",".join(st), NO_FLAGS))
                    if slot == 0:
                        lines.append("rnc %s %s" % (c, GRID[(v + comp) % g]))
        yield "rgb-components-256-x-3-x-3-slots", lines
        # seeded full combinations under seeded flags
        n = 40000 if tier == "thorough" else 6000
        lines = ["rnd %s %s" % (rand_style(rng), rng.choice(GRID)) for _ in range(n)]
        lines += ["rnd %s %s" % (DEFAULT, NO_FLAGS), "rnd a0,a0,a0,0 %s" % NO_FLAGS, "rnd r255.255.255,r255.255.255,r255.255.255,4095 %s" % NO_FLAGS,
                  "rnd x0,x0,x0,0 %s" % NO_FLAGS]
        yield "styles-seeded", lines
        # the whole flag grid
        m = 120 if tier == "thorough" else 30
        styles = [DEFAULT, "-,-,-,1", "a1,-,-,0", "-,-,a15,0", "r255.255.255,x255,a7,4095", "x7,r1.2.3,-,32"]
        styles += [rand_style(rng) for _ in range(m - len(styles))]
        lines = ["rnd %s %s" % (s, fl) for s in styles for fl in GRID]
        lines += ["rnr %s" % fl for fl in GRID]
        for c in ["a0", "a9", "x0", "x200", "r0.0.0", "r255.255.255", rand_color(rng, False), rand_color(rng, False)]:
            lines += ["rnc %s %s" % (c, fl) for fl in GRID]
        for e in [0, 1, 32, 4095, rand_effects(rng)]:
            lines += ["rne %d %s" % (e, fl) for fl in GRID]
        yield "flag-grid-168", lines

    # ---- the oracle: the implementation's bytes, read by the specification ----------
    def observe(self, ctx, name, lines, results):
        out = []
        spec_cache = {}

        def ask(kind, hexes):
            todo = sorted(set(h for h in hexes if (kind, h) not in spec_cache))
            if todo:
                res = core.run_parallel([ctx["driver"], "spec"], ["%s %s" % (kind, h or "-") for h in todo], "C05o")
                for h, r in zip(todo, res):
                    spec_cache[(kind, h)] = r
        for label, _ in ctx["impls"]:
            impl = results["impl-" + label]
            parsed = []
            want_strip, want_int = set(), set()
            for l, r in zip(lines, impl):
                p = l.split(" ")
                d = fields(r)
                parsed.append((p, d))
                if p[0] == "rnd" and "render" in d:
                    want_strip.add(d["render"]); want_int.add(d["render"]); want_int.add(d["render"] + d.get("reset", ""))
                    want_strip.add(d.get("reset", ""))
                elif p[0] == "rnc" and "fg" in d:
                    for k in ("fg", "bg"):
                        want_strip.add(d[k]); want_int.add(d[k])
                elif p[0] == "rne" and "eff" in d:
                    want_strip.add(d["eff"]); want_int.add(d["eff"])
                elif p[0] == "rnr" and "reset" in d:
                    want_strip.add(d["reset"]); want_int.add(d["reset"])
                    # from a non-default state as well: a fully styled terminal, then Reset
                    want_int.add("1b5b316d1b5b343a336d1b5b39316d1b5b34383b353b30356d1b5b35383b323b30313b30323b33306d" + d["reset"])
            ask("sbcat", want_strip)
            ask("sgrint", want_int)

            def stripped(h):
                return spec_cache[("sbcat", h)]

            def meaning(h):
                return spec_cache[("sgrint", h)]
            for l, (p, d) in zip(lines, parsed):
                why = None
                if p[0] == "rnd":
                    need = ("fmt", "rfmt", "zfmt", "render", "write", "reset", "wreset")
                    if any(k not in d for k in need):
                        why = "no rendering (panic?)"
                    else:
                        style, alt = p[1], p[2].startswith("1")
                        render, reset = d["render"], d["reset"]
                        if stripped(render) != "-":
                            why = "stripping the rendered style leaves %s" % stripped(render)
                        elif meaning(render) != norm_style(style):
                            why = "rendered style is interpreted as %s, expected %s" % (meaning(render), norm_style(style))
                        elif (reset == "") != (style == DEFAULT):
                            why = "reset form empty <-> plain style fails"
                        elif stripped(reset) != "-" or meaning(render + reset) != DEFAULT:
                            why = "style followed by its reset form leaves %s" % meaning(render + reset)
                        elif d["fmt"] != (reset if alt else render):
                            why = "format! with flags %s differs from %s" % (p[2], "render_reset" if alt else "render")
                        elif d["rfmt"] != render or d["zfmt"] != reset:
                            why = "render() / render_reset() depend on the flags %s" % p[2]
                        elif d["write"].replace("/", "") != render or d["wreset"].replace("/", "") != reset:
                            why = "io::Write path differs from the Display path"
                elif p[0] == "rnc":
                    if any(k not in d for k in ("fg", "bg", "tfg", "tbg")):
                        why = "no rendering (panic?)"
                    else:
                        for k, want in (("fg", "%s,-,-,0" % p[1]), ("bg", "-,%s,-,0" % p[1])):
                            if stripped(d[k]) != "-" or meaning(d[k]) != want:
                                why = "render_%s is interpreted as %s, expected %s" % (k, meaning(d[k]), want)
                        if d["tfg"] != d["fg"] or d["tbg"] != d["bg"]:
                            why = "typed colour renders differently from Color"
                elif p[0] == "rne":
                    if "eff" not in d:
                        why = "no rendering (panic?)"
                    elif stripped(d["eff"]) != "-" or meaning(d["eff"]) != "-,-,-,%d" % norm_effects(int(p[1])):
                        why = "Effects::render is interpreted as %s" % meaning(d["eff"])
                elif p[0] == "rnr":
                    if "reset" not in d or "render" not in d:
                        why = "no rendering (panic?)"
                    elif d["reset"] == "" or d["render"] != d["reset"] or stripped(d["reset"]) != "-" or meaning(d["reset"]) != DEFAULT or \
                            meaning("1b5b316d1b5b343a336d1b5b39316d1b5b34383b353b30356d1b5b35383b323b30313b30323b33306d" + d["reset"]) != DEFAULT:
                        why = "Reset does not return the terminal to its default state (or is padded)"
                if why and len(out) < 5:
                    out.append({"stream": name, "case": l, "build": label, "impl": results["impl-" + label][lines.index(l)][:2000],
                                "spec": why, "model": results["model"][lines.index(l)][:2000]})
        return out

    def shrink_fields(self, line):
        return []   # fields are style / colour tokens, not hex byte strings

    def nontrivial(self, line, impl):
        p = line.split(" ")
        if p[0] == "rnd":
            return p[1] != DEFAULT
        if p[0] == "rne":
            return p[1] != "0"
        return True
