"""C10 -- lossy colour conversion is total, exact on exact matches and nearest otherwise."""
import re

from ..runner import Prop

VGA = [(0, 0, 0), (170, 0, 0), (0, 170, 0), (170, 85, 0), (0, 0, 170), (170, 0, 170), (0, 170, 170), (170, 170, 170),
       (85, 85, 85), (255, 85, 85), (85, 255, 85), (255, 255, 85), (85, 85, 255), (255, 85, 255), (85, 255, 255), (255, 255, 255)]
WIN10 = [(12, 12, 12), (197, 15, 31), (19, 161, 14), (193, 156, 0), (0, 55, 218), (136, 23, 152), (58, 150, 221), (204, 204, 204),
         (118, 118, 118), (231, 72, 86), (22, 198, 12), (249, 241, 165), (59, 120, 255), (180, 0, 158), (97, 214, 214), (242, 242, 242)]


def shipped_palettes():
    """the two shipped palettes, read from the working tree (fallback: the published values)"""
    import os
    out = {}
    try:
        src = open(os.path.join(os.environ.get("VERIF_REPO", "/repo"), "crates/anstyle-lossy/src/palette.rs"), encoding="utf-8").read()
        for name in ("VGA", "WIN10_CONSOLE"):
            m = re.search(r"pub const %s\s*:\s*Palette\s*=\s*Palette\(\[(.*?)\]\);" % name, src, re.S)
            ents = [tuple(int(x) for x in t) for t in re.findall(r"Rgb\(\s*(\d+)\s*,\s*(\d+)\s*,\s*(\d+)\s*\)", m.group(1))]
            if len(ents) == 16 and all(0 <= v < 256 for e in ents for v in e):
                out[name] = ents
    except Exception:
        pass
    return out.get("VGA", VGA), out.get("WIN10_CONSOLE", WIN10)


def xterm_fixed():
    """the 240 fixed colours of the 256-colour palette, from the xterm layout (not from the crate)"""
    lv = [0, 95, 135, 175, 215, 255]
    cube = [(lv[r], lv[g], lv[b]) for r in range(6) for g in range(6) for b in range(6)]
    grey = [(8 + 10 * k,) * 3 for k in range(24)]
    return cube + grey


def hexpal(p):
    return "".join("%02x%02x%02x" % c for c in p)


def hexcols(cs):
    return "".join("%02x%02x%02x" % c for c in cs) if cs else "-"


def clip(v):
    return 0 if v < 0 else 255 if v > 255 else v


def seeded_palettes(rng, vga):
    """8 palettes: duplicates, extremes, near-duplicates, greys, random"""
    corners = [(r, g, b) for r in (0, 255) for g in (0, 255) for b in (0, 255)]
    ext = [0, 1, 254, 255]
    base = (rng.randrange(256), rng.randrange(256), rng.randrange(256))
    four = [(rng.randrange(256), rng.randrange(256), rng.randrange(256)) for _ in range(4)]
    near = []
    for k in range(16):
        d = [0, 0, 0]
        d[k % 3] = (k // 3) - 2
        near.append(tuple(clip(base[i] + d[i]) for i in range(3)))
    pals = [
        ("all-black", [(0, 0, 0)] * 16),
        ("corners-twice", [corners[k % 8] for k in rng.sample(range(16), 16)]),
        ("random", [(rng.randrange(256), rng.randrange(256), rng.randrange(256)) for _ in range(16)]),
        ("four-repeated", [four[rng.randrange(4)] for _ in range(16)]),
        ("vga-normal-twice", list(vga[:8]) + list(vga[:8])),
        ("near-duplicates", near),
        ("greys", sorted(((v, v, v) for v in (rng.randrange(256) for _ in range(16))), reverse=True)),
        ("extreme-components", [(rng.choice(ext), rng.choice(ext), rng.choice(ext)) for _ in range(16)]),
        # every entry far from the opposite corner (the largest distances the metric can produce)
        ("dark-corner", [(k, k, k) for k in range(16)]),
        ("light-corner", [(255 - rng.randrange(12), 255 - rng.randrange(12), 255 - rng.randrange(12)) for _ in range(16)]),
    ]
    return pals


BIASED = [0, 1, 2, 3, 42, 43, 84, 85, 86, 94, 95, 96, 127, 128, 129, 134, 135, 169, 170, 171, 214, 215, 216, 252, 253, 254, 255]


def sample_colours(rng, n, anchors):
    """stratified sample: uniform, boundary-biased components, neighbours of the
    candidate colours, neighbourhoods of midpoints between two candidates (where
    ties and near-ties live)"""
    comps = sorted(set(BIASED) | set(v for a in anchors for v in a))
    out = []
    for k in range(n):
        s = k & 3
        if s == 0:
            c = (rng.randrange(256), rng.randrange(256), rng.randrange(256))
        elif s == 1:
            c = (rng.choice(comps), rng.choice(comps), rng.choice(comps))
        elif s == 2:
            a = rng.choice(anchors)
            c = tuple(clip(a[i] + rng.randint(-3, 3)) for i in range(3))
        else:
            a, b = rng.choice(anchors), rng.choice(anchors)
            c = tuple(clip((a[i] + b[i] + rng.randint(0, 1)) // 2 + rng.randint(-2, 2)) for i in range(3))
        out.append(c)
    return out


class C10(Prop):
    pid = "C10"
    prop_file = "Props/C10.v"
    module = "Props.C10"
    gen_deps = ["Palette", "LossyFn"]
    harness = ("h-lossy", "hlossy")
    nontrivial_rule = (
        "ONE CASE LINE IS A BATCH: a palette plus a list (or arithmetic range) of RGB colours, answered by the list of result indices; `cases`/`evaluations` "
        "count batches, the colours per batch are given in each stream name. Streams: every exact entry of every palette and the 240 fixed colours (plus the 16 "
        "placeholder slots) of the 256 palette; all 256 indices and all 16 colours x every palette through every public conversion, Palette::get and Palette[..]; "
        "stratified RGB samples (uniform, boundary-biased components, neighbours of candidates, neighbourhoods of midpoints between candidates) x {VGA, WIN10_CONSOLE, "
        "8 seeded palettes incl. all-equal, duplicated, near-duplicate, grey-only and extreme entries} for the 16-colour target (quick: 2*10^5 colours per palette) "
        "and for the 256-colour target (quick: 5*10^4 colours). Thorough: ALL 2^24 RGB values x {VGA, WIN10_CONSOLE} for the 16-colour target and a 2^20 "
        "low-discrepancy sample for the 256-colour target, each through implementation (debug and release), extracted model and extracted spec "
        "(the spec side is an independent two-pass minimum search over Spec/Lossy.redmean_distance); the 2^24 sweep of the 256-colour target is NOT run "
        "(about 4*10^9 distance evaluations in the extracted arithmetic), the theorem c10_rgb_to_xterm_argmin covers it; the thorough tier takes about 8 minutes on 16 cores. "
        "non-trivial = distinct batch whose implementation result names at least two different target indices, or a single index >= 16 (answered through find_match)")
    trusted = ["the distance function itself is private to the crate: it is tied only through the arg-min results it induces (any weight change that alters a result on an explored colour is a difference)"]
    assumptions = ["RGB components and palette entries are < 256 (u8), a palette has exactly 16 entries ([Rgb; 16]), a 16-colour value is one of the 16 AnsiColor variants (ANSI number < 16), "
                   "a 256-colour index is < 256 (u8)",
                   "the distance specified is the crate's own integer scale (2*512+S, 4*256, 2*767-S); relative to the cited compuphase formula the green weight is halved "
                   "(see Spec/Lossy.v); the property text does not fix the weights"]

    def shrink_fields(self, line):
        parts = line.split(" ")
        if parts[0] in ("a16l", "lrgb"):
            return [2]
        if parts[0] == "x256l":
            return [1]
        return []

    def streams(self, tier, rng):
        thorough = tier == "thorough"
        vga, win10 = shipped_palettes()
        pals = [("VGA", vga), ("WIN10_CONSOLE", win10)] + seeded_palettes(rng, vga)
        fixed = xterm_fixed()

        # exact entries
        lines = []
        for _name, p in pals:
            lines.append("a16l %s %s" % (hexpal(p), hexcols(p)))
            lines.append("lrgb %s %s" % (hexpal(p), hexcols(p)))
            lines.append("a16l %s %s" % (hexpal(p), hexcols(fixed)))
        lines.append("x256l %s" % hexcols(fixed))
        lines.append("x256l %s" % hexcols(vga + win10))
        lines.append("lrgb %s %s" % (hexpal(vga), hexcols(fixed)))
        yield "exact-entries (16 or 240 colours per case)", lines

        # all indices, all colours, every palette
        lines = []
        for _name, p in pals:
            hp = hexpal(p)
            lines.extend("lidx %s %d" % (hp, i) for i in range(256))
            lines.extend("lans %s %d" % (hp, a) for a in range(16))
        yield "all-256-indices-and-16-colours x 10 palettes", lines

        # 16-colour target, sampled
        per_pal = 300000 if thorough else 200000
        batch = 500
        lines = []
        for _name, p in pals:
            hp = hexpal(p)
            cols = sample_colours(rng, per_pal, p)
            for i in range(0, len(cols), batch):
                lines.append("a16l %s %s" % (hp, hexcols(cols[i:i + batch])))
        yield "rgb_to_ansi stratified sample, 10 palettes x %d colours (%d colours per case)" % (per_pal, batch), lines

        # the same colour looked up in two palettes that differ in ONE slot, back to back in one process:
        # a result may not depend on an earlier call (a memo keyed on the colour / on part of the palette)
        lines = []
        for i in range(800 if thorough else 400):
            base = list(pals[i % len(pals)][1])
            col = tuple(rng.randrange(256) for _ in range(3)) if i % 3 else base[rng.randrange(16)]
            j = rng.randrange(16)
            other = list(base)
            other[j] = col if i % 2 == 0 else tuple(min(255, max(0, c + rng.choice([-1, 0, 1]))) for c in col)
            k = "a16l" if i % 4 else "lrgb"
            lines.append("%s %s %s" % (k, hexpal(base), hexcols([col])))
            lines.append("%s %s %s" % (k, hexpal(other), hexcols([col])))
            lines.append("%s %s %s" % (k, hexpal(base), hexcols([col])))
        yield "same colour, palettes differing in one slot, consecutive calls (1 colour per case)", lines

        # generic conversions of RGB colours (color_to_*), smaller sample
        lines = []
        for _name, p in pals:
            hp = hexpal(p)
            cols = sample_colours(rng, 2000, p + fixed)
            for i in range(0, len(cols), 10):
                lines.append("lrgb %s %s" % (hp, hexcols(cols[i:i + 10])))
        yield "color_to_{rgb,xterm,ansi}(Rgb) sample, 10 palettes x 2000 colours (10 colours per case)", lines

        # 256-colour target, sampled
        n256 = 100000 if thorough else 50000
        batch = 25
        cols = sample_colours(rng, n256, fixed)
        lines = ["x256l %s" % hexcols(cols[i:i + batch]) for i in range(0, len(cols), batch)]
        yield "rgb_to_xterm stratified sample, %d colours (%d colours per case)" % (n256, batch), lines

        if thorough:
            # all 2^24 colours, both shipped palettes, 16-colour target
            for name, p in pals[:2]:
                hp = hexpal(p)
                yield ("rgb_to_ansi ALL 2^24 colours x %s (4096 colours per case)" % name,
                       ["a16r %s %d 4096 1" % (hp, k * 4096) for k in range(4096)])
            # 2^20 colours of a full-period sequence (odd step), 256-colour target
            step = 0x9E3779 | 1
            s0 = rng.randrange(1 << 24)
            yield ("rgb_to_xterm 2^20 colours of the sequence s0 + k*%d mod 2^24 (256 colours per case)" % step,
                   ["x256r %d 256 %d" % ((s0 + 256 * j * step) & 0xFFFFFF, step) for j in range(4096)])

    def nontrivial(self, line, impl):
        kind = line.split(" ", 1)[0]
        if kind in ("a16l", "a16r"):
            return len(set(impl)) >= 2 and impl not in ("PANIC", "BADCASE")
        if kind in ("x256l", "x256r"):
            return len(set(impl[i:i + 2] for i in range(0, len(impl), 2))) >= 2 and impl not in ("PANIC", "BADCASE")
        if kind == "lrgb":
            return len(set(t.split(":")[-1] for t in impl.split(","))) >= 2
        if kind == "lidx":
            return int(line.rsplit(" ", 1)[1]) >= 16
        return False
