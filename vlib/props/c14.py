"""C14 -- SVG rendering is well-formed, text-preserving and style-faithful.

Three observations per input (case kinds of harness/h-render and ocaml/drv_svg.ml):
  svgdoc   the document an INDEPENDENT XML parser (expat, vlib/svgparse.py, run by the
           harness on the real output) recovers -- height, style rules, spans per row,
           every class defined once with the palette's RGB -- against the model's
           abstract document svg_doc;
  svgtext  the text of the foreground rows recovered the same way, against the model
           AND against the specification (Spec/Sgr.spec_runs split by
           Spec/SvgSpec.svg_split_nl_dropping_cr): the property's oracle;
  svgcls   the (foreground classes, background class, text) pieces of every row
           recovered the same way, neighbouring pieces of equal classes merged, against
           the model AND against the specification (Spec/SvgSpec.svg_spec_rows of
           spec_runs under the configured defaults: invert swapped against them, the
           documented class names); the spec side abstains where C07's link
           (model runs = spec_runs) does not hold;
  svgraw   the real bytes against the model's whole rendering (Model/SvgWidth.v
           svg_m_render_uw), byte for byte; the quantities that depend on unicode_width
           (the width attribute, the length of every background fill) are COMPUTED by
           the translated crate (Generated/UnicodeWidthFn.v), nothing is read off the
           real output any more;
  uwidth   UnicodeWidthStr::width of the real crate against the extracted translation, on
  uwchars  every text of the streams + directed Unicode sequences; UnicodeWidthChar::width
           of every code point 0 .. 0x10FFFF (272 cases of 4096).
"""
from .. import core, gen, sgrgen, svgparse
from ..runner import Prop

XML_SPECIALS = ["&", "<", ">", '"', "'", "&amp;", "&lt;", "]]>", "<!--", "-->", "&#13;", "<tspan>", "</tspan>", "<![CDATA[", "&&", "<<", "a&b<c>d"]
WIDE = ["\u4e2d", "\u6587", "\uff21", "\U0001f600", "\u3042", "\uac00", "\U00020000"]
ZERO_WIDTH = ["\u200b", "\u200d", "\u0301", "\ufe0f", "\u00ad", "\u2060", "\U000e0100"]
EDGE = ["\x7f", "\u0080", "\u0085", "\u009f", "\u00a0", "\u2028", "\u2029", "\ufffd", "\ufffc", "\ud7ff", "\ue000", "\U00010000", "\U0010ffff",
        "\t", " ", "  ", "\u2588", "\u00e9", "e\u0301"]
NOT_PRINTED = ["\x0b", "\x01", "\x08", "\x1f", "\x00", "\x07", "\x0e"]
EXCLUDED = {0x0C, 0xFFFE, 0xFFFF}            # not XML 1.0 characters: outside the property's domain

DEFAULTS = [("a7", "a0"), ("a0", "a15"), ("x200", "x17"), ("r1.2.3", "r250.251.252"), ("a9", "x3"), ("x7", "r0.0.0")]
EFFECT_CODES = ["1", "2", "3", "4", "21", "4:2", "4:3", "4:4", "4:5", "8", "9", "7"]


def colour_code(rng, base):
    """one SGR colour selection for fg (30/38), bg (40/48) or underline (58), or nothing"""
    k = rng.randrange(6)
    if k == 0:
        return None
    if base == 58:
        k = rng.choice([3, 4])
    if k == 1:
        return str(base + rng.randrange(8))
    if k == 2:
        return str(base + 60 + rng.randrange(8))
    sep = rng.choice([";", ":"])
    if k in (3, 5):
        return sep.join([str(base + 8 if base != 58 else 58), "5", str(rng.choice([0, 1, 7, 8, 9, 15, 16, 17, 200, 231, 232, 255, rng.randrange(256)]))])
    return sep.join([str(base + 8 if base != 58 else 58), "2"] + [str(rng.choice([0, 1, 10, 127, 170, 255, rng.randrange(256)])) for _ in range(3)])


def style_seq(rng, invert=None):
    """a reset followed by an explicit combination: colours of all three kinds in the
    three slots, effects, invert with or without explicit colours"""
    parts = ["0"]
    for base in (30, 40, 58):
        c = colour_code(rng, base)
        if c:
            parts.append(c)
    n_eff = rng.choice([0, 0, 1, 1, 2, 3])
    ul_done = False
    for e in rng.sample(EFFECT_CODES[:-1], n_eff):
        if e in ("4", "21") or e.startswith("4:"):
            if ul_done:
                continue
            ul_done = True
        parts.append(e)
    if invert if invert is not None else rng.randrange(3) == 0:
        parts.insert(rng.randrange(1, len(parts) + 1), "7")
    return "\x1b[" + ";".join(parts) + "m"


def text_piece(rng):
    k = rng.randrange(12)
    if k < 3:
        return "".join(chr(rng.randrange(0x20, 0x7F)) for _ in range(rng.randrange(1, 6)))
    if k < 5:
        return rng.choice(XML_SPECIALS)
    if k == 5:
        return rng.choice(WIDE) * rng.randrange(1, 3)
    if k == 6:
        return rng.choice(["a", "", "\u4e2d"]) + rng.choice(ZERO_WIDTH)
    if k == 7:
        return rng.choice(EDGE)
    if k == 8:
        return rng.choice(NOT_PRINTED)
    if k == 9:
        return bytes(gen.utf8_text(rng, rng.randrange(1, 5))).decode("utf-8").replace("\r", "")
    return rng.choice(["x", "ab", "&"])


def newline_piece(rng, cr_corners):
    """line ends: LF, CR LF, empty lines, a CR separated from its LF by a style change;
    with cr_corners also the carriage returns that are NOT directly before a newline"""
    forms = ["\n", "\n", "\r\n", "\r\n", "\n\n", "\r\n\r\n", "\r" + style_seq(rng) + "\n", "\r\x1b[m\n", "\r\x1b[1m\n\n", "\n\r\n"]
    if cr_corners:
        forms += ["\r", "\r\r\n", "\r" + style_seq(rng) + "\r\n", "\ra", "\r\r", "\r\n\r", "\r\x1b]0;t\x07\n", "\r\x0b\n"]
    return rng.choice(forms)


def cr_round_trip(rng):
    """CR and LF separated by style changes that END IN THE STYLE THE CR WAS WRITTEN IN (the extractor still
    cuts the text there): s T CR s' s LF, s T CR 1 0 LF after a reset, and the invert spellings of one style"""
    s1 = style_seq(rng)
    k = rng.randrange(5)
    t1, t2 = text_piece(rng) or "ab", text_piece(rng)
    if k == 0:
        return s1 + t1 + "\r" + style_seq(rng) + s1 + "\n" + t2
    if k == 1:
        return "\x1b[0m" + t1 + "\r\x1b[1m\x1b[0m\n" + t2
    if k == 2:
        return s1 + t1 + "\r" + style_seq(rng) + style_seq(rng) + s1 + "\r\n" + t2
    if k == 3:
        return "\x1b[0;30;47m" + t1 + "\r\x1b[0;7m\n" + t2 + "\x1b[0;37;40m" + t1 + "\r\x1b[0;7m\n"
    return s1 + t1 + "\r" + s1 + "\n" + t2 + "\r\x1b[3m" + s1 + "\n"


def directed(rng, cr_corners=False):
    out = []
    for _ in range(rng.choice([1, 2, 3, 5, 8])):
        k = rng.randrange(10)
        if k < 3:
            out.append(style_seq(rng))
        elif k < 7:
            out.append(text_piece(rng))
        elif k < 9:
            out.append(newline_piece(rng, cr_corners))
        else:
            out.append(rng.choice(["\x1b[m", "\x1b[0m", "\x1b[7m", "\x1b[39;49m", "\x1b]8;;http://x\x1b\\", "\x1b[2J", "\x1b[27m"]))
    return "".join(out)


def clean(s):
    """keep the excluded characters out (anywhere: simpler than only out of the visible text)"""
    return "".join(c for c in s if ord(c) not in EXCLUDED)


def from_sgrgen(rng, cr_corners):
    """C07's in-grammar styled texts, salted with XML specials and line ends"""
    b = bytes(sgrgen.styled_text(rng, True))
    s = b.decode("utf-8", errors="ignore")
    if not cr_corners:
        s = s.replace("\r", "\r\n" if rng.randrange(2) else "")
    pos = rng.randrange(len(s) + 1)
    # never inside an escape sequence: only splice at the very start or the very end
    extra = text_piece(rng) + newline_piece(rng, cr_corners)
    return extra + s if pos * 2 < len(s) else s + extra


def exhaustive_styles():
    """every combination of colour kind per slot x invert, one effect each in turn"""
    fg = [None, "31", "94", "38;5;200", "38:2:1:2:3"]
    bg = [None, "42", "103", "48;5;17", "48;2;250;251;252"]
    ul = [None, "58;5;9", "58:2:4:5:6"]
    out = []
    i = 0
    for f in fg:
        for b in bg:
            for u in ul:
                for inv in (False, True):
                    parts = [p for p in (f, b, u) if p]
                    parts.append(EFFECT_CODES[i % (len(EFFECT_CODES) - 1)])
                    i += 1
                    if inv:
                        parts.append("7")
                    out.append("a&\x1b[" + ";".join(parts) + "mb<c>\r\n\x1b[0m\"d'")
    return out


def invert_defaults(rng):
    """SGR 7 with the foreground / background unset, set on one side, set on both:
    what is drawn depends on the CONFIGURED default colours"""
    out = []
    for _ in range(rng.choice([1, 2, 3])):
        parts = ["0"] if rng.randrange(2) else []
        parts.append("7")
        k = rng.randrange(4)
        if k in (1, 3):
            parts.append(colour_code(rng, 30) or "31")
        if k in (2, 3):
            parts.append(colour_code(rng, 40) or "42")
        rng.shuffle(parts)
        if "0" in parts:
            parts.remove("0")
            parts.insert(0, "0")
        out.append("\x1b[" + ";".join(parts) + "m" + rng.choice(["x", "ab", "&", "a\nb", "\u4e2d"]))
        if rng.randrange(3) == 0:
            out.append("\x1b[0m" + rng.choice(["y", "\n", "\r\n"]))
    return "".join(out)


# unicode-width: the sequences its look-ahead machine treats specially (tables.rs width_in_str), around their boundaries
UW_ATOMS = (["\r", "\n", "a", " ", "#", "*", "0", "9", "\u00a0", "\u00a1", "\u200d", "\ufe0f", "\ufe0e", "\u20e3", "\u0338", "\u034f", "\u0301",
             "\u05d0", "\u05dc", "\u0644", "\u0622", "\u0627", "\u06b5", "\u0882", "\u064b", "\u0605", "\u0890", "\u08e2", "\u070f",
             "\u17d2", "\u1780", "\u17af", "\u17a4", "\u17d8", "\u17b4", "\u1a10", "\u1a15", "\u1a17", "\u2d31", "\u2d65", "\u2d6f", "\u2d7f",
             "\ua4f8", "\ua4fb", "\ua4fc", "\ua4fd", "\U00010c03", "\U00010c32", "\u115f", "\u1160", "\u11a8", "\ua8fa", "\u0cc0", "\u1b3b",
             "\U0001f1e6", "\U0001f1fa", "\U0001f1f8", "\U0001f1ff", "\U0001f3fb", "\U0001f3ff", "\U0001f44d", "\U0001f468", "\U0001f469", "\U0001f466",
             "\U0001f3f4", "\U000e0067", "\U000e0062", "\U000e0065", "\U000e006e", "\U000e0030", "\U000e0039", "\U000e007f", "\U000e0061", "\U000e007a",
             "\u2764", "\u231a", "\u23e9", "\u2614", "\u2b50", "\u26a1", "\u2603", "\u2122", "\U0001f004", "\U0001f200", "\U0001f600", "\U0001f9d1", "\U0001fa70",
             "\u4e2d", "\uff21", "\u3000", "\u00ad", "\u2060", "\U000e0100", "\U000e01ef", "\ufe00", "\u180b", "\u180f", "\ud7ff", "\ue000", "\U0010ffff", "\x00", "\x7f", "\x9f"])
UW_FIXED = ["\U0001f468\u200d\U0001f469\u200d\U0001f467\u200d\U0001f466", "\U0001f1fa\U0001f1f8", "\U0001f1fa\U0001f1f8\U0001f1e6", "#\ufe0f\u20e3", "1\ufe0f\u20e3\u200d\U0001f600",
            "\U0001f3f4\U000e0067\U000e0062\U000e0065\U000e006e\U000e0067\U000e007f", "\U0001f3f4\U000e0067\U000e0062\U000e0065\U000e006e\U000e0067\U000e007f\u200d\U0001f600",
            "\U0001f44d\U0001f3fb", "\u2764\ufe0f", "\u2764\ufe0e", "\u231a\ufe0e", "\U0001f004\ufe0e", "\u0644\u0627", "\u0644\u064b\u0627", "\u05d0\u200d\u05dc", "\u1780\u17d2\u1780",
            "\u1a15\u1a17\u200d\u1a10", "\u2d31\u2d7f\u2d31", "\u2d31\u200d\u2d31", "\ua4f8\ua4fc", "\U00010c32\u200d\U00010c03", "\r\n", "\n\r", "\r\r\n", "", "<\u0338",
            "\U0001f1fa\u200d\U0001f1f8\U0001f1fa\U0001f1f8\U0001f1fa", "\U0001f600\u200d\U0001f1fa\U0001f1f8\U0001f1fa\U0001f1f8"]


def uw_directed(rng, n):
    out = list(UW_FIXED)
    out += [a + b for a in UW_ATOMS[:40] for b in ("\u200d", "\ufe0f", "\ufe0e")]
    for _ in range(n):
        k = rng.randrange(4)
        if k == 0:
            out.append("".join(rng.choice(UW_ATOMS) for _ in range(rng.randrange(1, 7))))
        elif k == 1:
            t = rng.choice(UW_FIXED)
            i = rng.randrange(len(t) + 1)
            out.append(t[:i] + rng.choice(UW_ATOMS) + t[i:])
        elif k == 2:
            out.append(rng.choice(UW_FIXED) + rng.choice(UW_FIXED))
        else:
            out.append("".join(chr(rng.choice([rng.randrange(0x20, 0x3000), rng.randrange(0x1F000, 0x1FB00), rng.randrange(0xE0000, 0xE0200), rng.randrange(0x110000)]))
                               for _ in range(rng.randrange(1, 5))).encode("utf-8", "ignore").decode("utf-8"))
    return [t for t in out if all(not 0xD800 <= ord(c) <= 0xDFFF for c in t)]


def configs(rng, n_random_palettes):
    pals = ["vga", "win10"] + ["".join("%02x" % rng.randrange(256) for _ in range(48)) for _ in range(n_random_palettes)]
    return pals


class C14(Prop):
    pid = "C14"
    prop_file = "Props/C14.v"
    module = "Props.C14"
    gen_deps = ["Table", "Style", "Palette", "Svg", "ParserFn", "WinconFn", "LossyFn", "SvgFn", "HtmlEscapeFn", "UnicodeWidthFn"]
    harness = ("h-render", "hrender")
    nontrivial_rule = ("cases: C07's in-grammar styled texts salted with XML specials and line ends; directed texts (XML-special characters and look-alike markup, "
                       "wide / zero-width / boundary characters, C0 controls that are executed but not printed, LF / CR LF / empty lines / CR separated from LF by a "
                       "style change, invert with and without explicit colours, all three colour kinds in the fg / bg / underline slots, every effect); every "
                       "combination of colour kind per slot x invert; invert with unset / half-set colours under non-default default colours; "
                       "x {VGA, Win10, random palettes} x six default-colour pairs x background on/off; U+000C, U+FFFE, U+FFFF excluded; carriage returns that are NOT directly before a newline (lone CR, CR CR LF, CR / style change / CR LF, CR at the end) included.  "
                       "Four observations per input (recovered document, recovered text, recovered class pieces against the specification's, raw bytes).  "
                       "non-trivial = distinct input whose recovered document has a colour or effect rule in its style sheet")
    trusted = ["third-party html-escape 0.2.13 (encode_text): TRANSLATED from the cargo registry source of the version Cargo.lock pins (tools/gen_fn_htmlescape.py: "
               "the macro_rules tables escape_impl! / encode_impl! expanded from their own text by tools/rs2v/mexpand.py, then tools/rs2v) and proved equal to "
               "the model's svg_encode_text on every byte string and, through UTF-8, on every code-point string (Proofs/HtmlEscapeGen.v, "
               "c14_translated_htmlescape_*); trusted there: the macro expander, a &str / String / Cow<str> read as its UTF-8 bytes (from_utf8_unchecked, "
               "String::from_utf8_unchecked, Cow::from = identities), Vec::extend_from_slice = append; the byte comparison stays as the second tie",
               "third-party unicode-width: NOT an oracle any more -- `<str as UnicodeWidthStr>::width` and everything it reaches (tables.rs) is translated on every run from "
               "the registry source of the version Cargo.lock pins (tools/gen_fn_unicodewidth.py), proved panic-free, and the svg model computes the width attribute and the "
               "background fills with it; trusted there: the registry copy is what cargo links (tools/thirdparty.py), core's binary_search_by as bisection on lists proved sorted "
               "(only is_ok / is_err are used), 64-bit usize in wrapping_add_signed; still a parameter of the theorems: the f64 expression (x as f64 * 8.4).ceil(), which the "
               "correspondence driver evaluates as ceil(42 x / 5) and the byte comparison checks",
               "expat (Python binding) as the independent XML parser; vlib/svgparse.py (structure recovery from parse events)"]
    assumptions = ["visible text consists of XML 1.0 characters (no U+000C, U+FFFE, U+FFFF); the input is a Rust &str (UTF-8)",
                   "the link from the model's runs to the SGR specification is C07's (in-grammar SGR sequences)"]

    def _inputs(self, tier, rng):
        n = 12000 if tier == "thorough" else 3000
        groups = []
        groups.append(("styled-texts(C07 generator + XML specials)", [clean(from_sgrgen(rng, False)) for _ in range(n)]))
        groups.append(("directed(specials,wide,zero-width,line-ends,invert,colour-kinds)", [clean(directed(rng)) for _ in range(n)]))
        groups.append(("colour-kind-per-slot x invert", exhaustive_styles()))
        groups.append(("invert-against-configured-defaults", [invert_defaults(rng) for _ in range(n // 3)]))
        groups.append(("cr-lf-separated-by-a-style-round-trip", [clean(cr_round_trip(rng)) for _ in range(n // 4)]))
        groups.append(("carriage-return-corners", [clean(directed(rng, True)) for _ in range(n // 3)] + [clean(from_sgrgen(rng, True)) for _ in range(n // 3)]))
        return groups

    def streams(self, tier, rng):
        exe, err = core.build_harness(self.harness[0], self.harness[1], features=self.harness_features)
        if exe is None:
            raise RuntimeError("C14 first stage: " + err)
        pals = configs(rng, 6 if tier == "thorough" else 2)
        for name, texts in self._inputs(tier, rng):
            cases = []
            for i, s in enumerate(texts):
                pal = pals[i % 2] if rng.randrange(4) else rng.choice(pals)
                fg, bg = DEFAULTS[0] if rng.randrange(3) == 0 and not name.startswith("invert") else rng.choice(DEFAULTS[1:] if name.startswith("invert") else DEFAULTS)
                flag = rng.randrange(2)
                cases.append("%s %s %s %d %s" % (pal, fg, bg, flag, gen.hexs(list(s.encode("utf-8")))))
            # (no first stage any more: the width-dependent quantities are computed by the translated unicode-width)
            lines = []
            for c in cases:
                lines += ["svgdoc " + c, "svgtext " + c, "svgcls " + c, "svgraw " + c]
            if lines:
                yield name, lines
            # unicode-width by itself on the same texts (escape sequences and all: any &str is in its domain)
            yield "unicode-width:" + name, sorted(set("uwidth " + c.split(" ")[4] for c in cases))
        yield "unicode-width:directed-sequences", sorted(set("uwidth " + gen.hexs(list(t.encode("utf-8"))) for t in uw_directed(rng, 4000 if tier == "thorough" else 1500)))
        yield "unicode-width:every-code-point", ["uwchars %d 4096" % lo for lo in range(0, 0x110000, 4096)]

    def nontrivial(self, line, impl):
        if not line.startswith("svgdoc "):
            return False
        for tok in impl.split(" "):
            if tok.startswith("rules="):
                return len(tok.split(",")) > 4
        return False

    def shrink_fields(self, line):
        return [5] if line.startswith(("svgtext ", "svgcls ")) else []
