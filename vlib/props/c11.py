"""C11 -- the git colour parser accepts exactly git's syntax and denotes the right style."""
import itertools

from .. import gen
from ..runner import Prop

ATTRS = ["bold", "dim", "ul", "blink", "reverse", "italic", "strike"]
ATTR_WORDS = [p + a for a in ATTRS for p in ("", "no", "no-")]
NAMES = ["black", "red", "green", "yellow", "blue", "magenta", "cyan", "white"]
COLOR_WORDS = NAMES + ["normal", "-1"]
NUMBERS = ["0", "7", "8", "16", "255", "007", "0255"]
HEXES = ["#abc", "#a1b2c3", "#ABC", "#09F", "#000000", "#FfFfFf"]
JUNK = ["256", "-2", "-0", "+5", "+0255", "+256", "+", "-", "no", "no-", "nored", "no-red", "nonormal", "brightred", "default", "bolt",
        "#", "#12", "#1234", "#12345", "#1234567", "#abg", "#+12", "#-12345", "0x1f", "1e2", "é", "ｒｅｄ"]
VOCAB = ATTR_WORDS + COLOR_WORDS + NUMBERS + HEXES + JUNK

# Unicode White_Space
WS = [0x09, 0x0A, 0x0B, 0x0C, 0x0D, 0x20, 0x85, 0xA0, 0x1680] + list(range(0x2000, 0x200B)) + [0x2028, 0x2029, 0x202F, 0x205F, 0x3000]
# not white space, but close to it (ZWSP, NEL neighbours, MVS, BOM, control characters that are not White_Space)
NEAR_WS = [0x08, 0x0E, 0x1C, 0x1F, 0x84, 0x86, 0x200B, 0x200C, 0x2060, 0x180E, 0xFEFF, 0x2027, 0x202A, 0x3001]

# excluded from every generator (DESIGN C11, `assumptions`): the two characters whose Unicode lower case holds an ASCII letter
EXCLUDED = {0x212A, 0x0130}

HEX_ALPHABET = ["0", "9", "a", "f", "A", "F", "g", "G", "+", "-", "/", ":", "@", "`", "x", "é", "€", "\U0001f600", "٣"]
HEX_SMALL = ["0", "a", "F", "g", "+", "é", "€", "\U0001f600"]
LEN_ALPHABET = ["1", "c", "g", "é", "€", "\U0001f600"]

UPPER_SAMPLES = ["É", "Σ", "ΑΣ", "ΣΑ", "ẞ", "Ⱥ", "Å", "Ω", "Ǆ", "Ი", "Ａ", "𐐀", "ǅ", "ᾈ"]


def case(s):
    for cp in EXCLUDED:   # belt and braces: no generator may emit them
        s = s.replace(chr(cp), "?")
    return "git " + gen.hexs(list(s.encode("utf-8")))


def rand_case(rng, w):
    k = rng.randrange(5)
    if k == 0:
        return w
    if k == 1:
        return w.upper()
    if k == 2:
        return w.capitalize()
    return "".join(c.upper() if rng.randrange(2) else c.lower() for c in w)


def rand_ws(rng, allow_empty=False):
    n = rng.choice([0, 1, 1, 1, 2, 3]) if allow_empty else rng.choice([1, 1, 1, 2, 3])
    if rng.randrange(3) == 0:
        return "".join(chr(rng.choice(WS)) for _ in range(n))
    return "".join(rng.choice(" \t\n\r") for _ in range(n))


def rand_color_word(rng):
    k = rng.randrange(8)
    if k < 3:
        return rng.choice(COLOR_WORDS)
    if k < 5:
        v = rng.choice([0, 1, 7, 8, 9, 10, 99, 100, 199, 200, 249, 250, 255, rng.randrange(256)])
        return "0" * rng.choice([0, 0, 0, 1, 2, 7]) + str(v)
    if k < 7:
        return "#" + "".join(rng.choice("0123456789abcdefABCDEF") for _ in range(6))
    return "#" + "".join(rng.choice("0123456789abcdefABCDEF") for _ in range(3))


def grammar_words(rng):
    ncol = rng.choice([0, 1, 1, 2, 2, 2, 3])
    nattr = rng.choice([0, 1, 2, 3, 5, 9])
    ws = [rand_color_word(rng) for _ in range(ncol)] + [rng.choice(ATTR_WORDS) for _ in range(nattr)]
    rng.shuffle(ws)
    return ws


def layout(rng, ws):
    out = [rand_ws(rng, True)]
    for i, w in enumerate(ws):
        if i:
            out.append(rand_ws(rng))
        out.append(w)
    out.append(rand_ws(rng, True))
    return "".join(out)


def rand_cp(rng):
    while True:
        k = rng.randrange(8)
        if k < 2:
            cp = rng.randrange(0x20, 0x7F)
        elif k == 2:
            cp = rng.randrange(0x80, 0x800)
        elif k == 3:
            cp = rng.randrange(0x800, 0x10000)
        elif k == 4:
            cp = rng.randrange(0x10000, 0x110000)
        elif k == 5:
            cp = rng.choice(WS + NEAR_WS)
        elif k == 6:
            cp = rng.randrange(0x2100, 0x2200)  # letterlike symbols (KELVIN SIGN lives here and is skipped)
        else:
            cp = rng.randrange(0x00, 0x20)
        if 0xD800 <= cp < 0xE000 or cp in EXCLUDED:
            continue
        return cp


def mutate(rng, w):
    alphabet = "abcdefghijklmnopqrstuvwxyzABCDEFGHIJKLMNOPQRSTUVWXYZ0123456789-#+_. éÉſıσΣ"
    k = rng.randrange(4)
    if k == 0 and w:
        i = rng.randrange(len(w))
        return w[:i] + w[i + 1:]
    if k == 1:
        i = rng.randrange(len(w) + 1)
        return w[:i] + rng.choice(alphabet) + w[i:]
    if k == 2 and w:
        i = rng.randrange(len(w))
        return w[:i] + rng.choice(alphabet) + w[i + 1:]
    if len(w) >= 2:
        i = rng.randrange(len(w) - 1)
        return w[:i] + w[i + 1] + w[i] + w[i + 2:]
    return w + w


def near_number(rng):
    v = rng.choice([0, 1, 9, 10, 99, 100, 254, 255, 256, 257, 260, 300, 999, 1000, 65535, 2 ** 32, 10 ** 25, rng.randrange(0, 600)])
    s = "0" * rng.choice([0, 0, 1, 3, 30]) + str(v)
    k = rng.randrange(12)
    if k == 0:
        return "+" + s
    if k == 1:
        return "-" + s
    if k == 2:
        return "+" + "+" + s
    if k == 3:
        return s + rng.choice(["a", "_", ".", ",", "e0", "u8", "-1", "+"])
    if k == 4:
        return rng.choice(["0x", "0b", "0o", "#", "x"]) + s
    if k == 5:
        return "".join(chr(0x660 + int(c)) for c in str(v))  # Arabic-Indic digits
    if k == 6:
        return "".join(chr(0xFF10 + int(c)) for c in str(v))  # full-width digits
    if k == 7:
        return s[:1] + rng.choice(["_", " ", "​", " "]) + s[1:]
    if k == 8:
        return rng.choice(["+", "-", "+-1", "-+1", "--1", "+ 1", "1+", "1-"])
    return s


def py_print_style(fg, bg, effs):
    def col(c):
        kind, v = c
        if kind == "a":
            return NAMES[v]
        if kind == "x":
            return str(v)
        return "#%02x%02x%02x" % v
    ws = []
    if fg is None and bg is not None:
        ws = ["normal", col(bg)]
    elif fg is not None:
        ws = [col(fg)] + ([col(bg)] if bg is not None else [])
    return " ".join(ws + [a for a in ["bold", "dim", "ul", "blink", "reverse", "italic", "strike"] if a in effs])


def rand_expr_color(rng):
    k = rng.randrange(4)
    if k == 0:
        return None
    if k == 1:
        return ("a", rng.randrange(8))
    if k == 2:
        return ("x", rng.randrange(256))
    return ("r", (rng.randrange(256), rng.choice([0, 9, 10, 15, 16, 255, rng.randrange(256)]), rng.randrange(256)))


class C11(Prop):
    pid = "C11"
    prop_file = "Props/C11.v"
    module = "Props.C11"
    gen_deps = ["Git", "GitFn"]
    harness = ("h-text", "htext")
    nontrivial_rule = ("cases: a scan of all of `char` for std's White_Space set and for characters whose lower case holds an ASCII letter (against the model's literal list and its two exclusions); every one- and two-word description over a %d-word vocabulary (all 21 attribute words, the 10 colour words, numbers, '#' words, near misses) "
                       "and every three-colour description (exhaustive; thorough: every three-word description); every 3-character '#' word over a 19-symbol "
                       "hex / non-hex / multi-byte alphabet (exhaustive), 6-character ones sampled (quick) or exhaustive over an 8-symbol alphabet (thorough), every '#' word of "
                       "1..5 characters over a 6-symbol alphabet with 1-, 2-, 3- and 4-byte characters; grammar-generated descriptions with random letter case and all 25 "
                       "White_Space characters; printed expressible styles (round trip); single-edit mutants of valid words; near-miss numbers (signs, leading zeros, > 255, "
                       "non-ASCII digits); arbitrary Unicode incl. near-white-space and non-ASCII upper-case letters. All three sides (anstyle_git::parse, extracted "
                       "Model/Git.git_parse, extracted Spec/GitSyntax.spec_git) on every case. non-trivial = distinct input whose result is an error or a style with at "
                       "least one colour or effect" % len(VOCAB))
    trusted = ["Rust std: str::split_whitespace / char::is_whitespace, str::to_lowercase, str::parse::<u8>, u8::from_str_radix, str slicing, str::len: transcribed "
               "(Model/Text.v), tied by the correspondence streams",
               "translator tools/gen_text.py (keyword arms of parse, name arms of parse_color, '#', the lengths 3/6, radix 16; effect bit numbers and AnsiColor order from anstyle)",
               "UTF-8 decoding / encoding of case inputs and error words in ocaml/drv_text.ml"]
    assumptions = ["the input is a Rust &str (valid UTF-8, no surrogates); the model reads its code points",
                   "code-point lower-casing is taken as the identity off ASCII in the model; U+212A KELVIN SIGN (lower case 'k') and U+0130 (lower case 'i' + U+0307) are "
                   "excluded from every generator: words spelt with them are left open by the statement ('any letter case')",
                   "words of the form '+' followed by a number in 0-255 (accepted by Rust's parse::<u8>) are left open by the statement: spec side N/A, the model follows "
                   "the code and is compared with it",
                   "'#rgb' denotes RgbColor(r, g, b) with the single-digit values 0..15 (pinned by the crate's own tests)"]

    def streams(self, tier, rng):
        # std's Unicode tables against the model's two assumptions (all of `char`)
        yield "std-unicode-tables", ["lowerscan x", "wsscan x"]
        lines = [case(""), case(" ")]
        for w in VOCAB:
            lines.append(case(w))
        for a, b in itertools.product(VOCAB, repeat=2):
            lines.append(case(a + " " + b))
        cols = COLOR_WORDS + ["0", "255", "#abc", "#a1b2c3"]
        if tier == "thorough":
            for t in itertools.product(VOCAB, repeat=3):
                lines.append(case(" ".join(t)))
        else:
            for t in itertools.product(cols, repeat=3):
                lines.append(case(" ".join(t)))
            for t in itertools.product(cols[:4] + ATTR_WORDS[:6], repeat=4):
                if sum(1 for w in t if w in cols) >= 3:
                    lines.append(case(" ".join(t)))
        yield "vocabulary-combinations", lines

        lines = []
        for t in itertools.product(HEX_ALPHABET, repeat=3):
            lines.append(case("#" + "".join(t)))
        for n in range(0, 6):
            for t in itertools.product(LEN_ALPHABET, repeat=n):
                lines.append(case("#" + "".join(t)))
        if tier == "thorough":
            for t in itertools.product(HEX_SMALL, repeat=6):
                lines.append(case("#" + "".join(t)))
            nsample = 100000
        else:
            nsample = 20000
        for _ in range(nsample):
            n = 6 if rng.randrange(8) else rng.choice([4, 5, 7, 9, 12])
            bias = rng.randrange(3)
            alpha = HEX_ALPHABET if bias == 0 else (HEX_ALPHABET[:6] * 3 + HEX_ALPHABET)
            lines.append(case(rng.choice(["#", "#", "#", "red #"]) + "".join(rng.choice(alpha) for _ in range(n))))
        # '#' words whose length is another multiple of 3 (or near one), every component zero-padded so that its VALUE still
        # fits a byte: only three and six hexadecimal digits make a colour, however the components would parse
        for k in (3, 4, 5, 6, 8):
            for _ in range(60 if tier == "thorough" else 20):
                comps = ["%0*x" % (k, rng.randrange(256)) for _ in range(3)]
                w = "".join(comps)
                if rng.randrange(3) == 0:
                    w = w.upper()
                lines.append(case(rng.choice(["#", "#", "blue #", "red green #"]) + w))
                lines.append(case("#" + w[:-1]))
                lines.append(case("#" + w + "0"))
        yield "hash-words", lines

        n = 40000 if tier == "thorough" else 6000
        lines = []
        for _ in range(n):
            ws = [rand_case(rng, w) for w in grammar_words(rng)]
            lines.append(case(layout(rng, ws)))
        yield "grammar", lines

        lines = []
        for _ in range(n // 2):
            effs = [a for a in ATTRS if rng.randrange(2)]
            lines.append(case(py_print_style(rand_expr_color(rng), rand_expr_color(rng), effs)))
        yield "printed-styles", lines

        lines = []
        for _ in range(n):
            ws = grammar_words(rng) or ["red"]
            i = rng.randrange(len(ws))
            ws[i] = mutate(rng, ws[i])
            if rng.randrange(4) == 0:
                ws[i] = mutate(rng, ws[i])
            lines.append(case(layout(rng, [rand_case(rng, w) if rng.randrange(3) == 0 else w for w in ws])))
        yield "mutants", lines

        lines = []
        for _ in range(n // 2):
            ws = grammar_words(rng)[:2]
            ws.insert(rng.randrange(len(ws) + 1), near_number(rng))
            lines.append(case(layout(rng, ws)))
        yield "near-miss-numbers", lines

        lines = []
        for _ in range(n):
            k = rng.randrange(4)
            if k == 0:
                s = "".join(chr(rand_cp(rng)) for _ in range(rng.randint(1, 12)))
            elif k == 1:
                ws = grammar_words(rng) or ["blue"]
                i = rng.randrange(len(ws))
                j = rng.randrange(len(ws[i]) + 1)
                ws[i] = ws[i][:j] + chr(rand_cp(rng)) + ws[i][j:]
                s = " ".join(ws)
            elif k == 2:
                ws = grammar_words(rng)
                ws.insert(rng.randrange(len(ws) + 1), rng.choice(UPPER_SAMPLES) + rng.choice(["", "red", "#", "1"]))
                s = chr(rng.choice(NEAR_WS)).join(ws) if rng.randrange(3) == 0 else " ".join(ws)
            else:
                s = "".join(rng.choice(["red", "bold", "#abc", "1", chr(rand_cp(rng)), chr(rng.choice(WS)), chr(rng.choice(NEAR_WS))])
                            for _ in range(rng.randint(1, 8)))
            lines.append(case(s))
        yield "unicode", lines

    def nontrivial(self, line, impl):
        if not line.startswith("git "):
            return True
        return impl.startswith("ERR") or (impl.startswith("fg=") and impl != "fg=none bg=none ul=none eff=0")
