"""C17 -- ANSI fallback for coloured writes frames the data and reports true progress."""
import itertools

from .. import gen
from ..runner import Prop

COLOURS = ["-"] + [str(i) for i in range(16)]
PAIRS = [(f, b) for f in COLOURS for b in COLOURS]
SCRIPTED_SINKS = ["box", "send", "sync", "ref", "fn"]

# data the generators always include: empty, ASCII, UTF-8, complete escape
# sequences inside, SGR of its own, ending inside a sequence / inside a character
FIXED_DATA = [
    [],
    list(b"hi"),
    list(b"plain text\n"),
    list("naïve € \U0001F600".encode()),
    list(b"a\x1b[1mb\x1b[0mc"),
    list(b"x\x1b]0;title\x07y\x1bPq\x1b\\z"),
    list(b"tail\x1b[3"),             # ends inside a CSI sequence
    list(b"tail\x1b"),               # ends after ESC
    list(b"osc\x1b]0;unterminated"),  # ends inside an OSC string
    list(b"cut\xe2\x82"),            # ends inside a multi-byte character
    [0x1B, 0x5B, 0x30, 0x6D],        # the reset itself
    [0x18, 0x9C, 0x7F, 0x00],
]


def case(sink, fg, bg, pre, data, script):
    return "wc %s %s %s %s %s %s" % (sink, fg, bg, gen.hexs(pre), gen.hexs(data), ",".join(script) if script else "-")


def rand_data(rng):
    k = rng.randrange(8)
    if k == 0:
        return []
    if k == 1:
        return gen.utf8_text(rng, rng.randrange(1, 20))
    if k == 2:
        return [rng.randrange(0x20, 0x7F) for _ in range(rng.randrange(1, 12))]
    if k == 3:
        d = gen.grammar_stream(rng, pieces=rng.choice([1, 2, 3, 5]))
        return d[:rng.randrange(0, len(d) + 1)]          # cut anywhere: may end mid-sequence
    if k == 4:
        return gen.grammar_stream(rng, pieces=rng.choice([1, 2, 3]), valid_utf8=True)
    if k == 5:
        return gen.csi(rng) + gen.utf8_text(rng, 3)
    if k == 6:
        return gen.malformed_utf8(rng) + [rng.randrange(256) for _ in range(rng.randrange(0, 4))]
    return [rng.randrange(256) for _ in range(rng.randrange(1, 10))]


def rand_script(rng, data_len, maxlen=8):
    n = rng.randrange(0, maxlen + 1)
    out = []
    for _ in range(n):
        k = rng.randrange(10)
        if k < 5:
            out.append("a%d" % rng.choice([0, 1, 1, 2, 3, 4, 5, 6, 7, data_len, max(0, data_len - 1), data_len + 1, 1000]))
        elif k < 7:
            out.append("eI")
        elif k == 7:
            out.append("eW")
        elif k == 8:
            out.append("eO")
        else:
            out.append(rng.choice(["eZ", "a0"]))
    return out


class C17(Prop):
    pid = "C17"
    prop_file = "Props/C17.v"
    module = "Props.C17"
    gen_deps = ["Style", "WinconAnsi", "WinconAnsiFn"]
    harness = ("h-core", "hcore")
    nontrivial_rule = ("cases: all 17x17 colour pairs x fixed data (empty, ASCII, UTF-8, data with escape sequences, data ending inside a CSI / OSC / after ESC / inside a "
                       "multi-byte character) over Vec<u8>, std::fs::File and an accept-all Box<dyn Write>; all 17x17 pairs x short data x every accepted prefix length of the "
                       "data; all 17x17 pairs x a failure (Interrupted, WouldBlock, Other, WriteZero, Ok(0)) at each of the up to four inner operations; exhaustive inner-writer "
                       "scripts (accept 0/1/3/all, fail I/W/O) up to depth 4 (thorough: 5, larger alphabet) on short data for the four colour shapes, through Box<dyn Write>, "
                       "Box<dyn Write + Send>, Box<dyn Write + Send + Sync>, &mut dyn Write and ansi::write_colored directly; seeded random pairs x generated data x random "
                       "scripts x pre-filled writers. non-trivial = distinct case with at least one colour given")
    trusted = ["scripted inner writer of the harness (harness/h-core/src/c17.rs: one script entry per `write`, exhausted script accepts everything) "
               "mirrors Spec/Io.w_write",
               "std's default Write::write_all / write_fmt as described in Spec/Io.v (tied by the scripted runs: the call history is compared call by call)",
               "translator plug-in tools/gen_wincon_ansi.py (RESET, one-fragment Display impls, list of WinconStream impls) and the function translator "
               "tools/gen_fn_wincon_ansi.py + tools/rs2v (the body of ansi.rs write_colored, proved equal to the hand model in Proofs/WinconAnsiGen.v; vocabulary: "
               "stream = the scripted writer, write!(stream, \"{}\", x) = write_all of the one fragment x displays as, io::Result = T + ekind)"]
    assumptions = ["non-Windows build: Stdout/Stderr and their locks are tied by the translator only (their impls delegate to ansi::write_colored); they are not executed",
                   "c17_interp: the accepted part of the data is parsed from Ground back to Ground and contains no SGR sequence of its own (explicit hypotheses)",
                   "c17_strip second part: the accepted part of the data is printable ASCII / TAB / LF / FF / CR"]

    def streams(self, tier, rng):
        thorough = tier == "thorough"

        # 1. every colour pair x fixed data x accept-all writers of every kind
        lines = []
        for fg, bg in PAIRS:
            for d in FIXED_DATA:
                lines.append(case("vec", fg, bg, [], d, []))
                lines.append(case("file", fg, bg, [], d, []))
                lines.append(case("box", fg, bg, [], d, []))
        for fg, bg in PAIRS:                       # pre-filled writers
            lines.append(case("vec", fg, bg, list(b"old\x1b["), list(b"new"), []))
            lines.append(case("file", fg, bg, list(b"old"), list(b"new"), []))
        yield "pairs-x-data-accept-all(vec,file,box)", lines
        # data lengths around 1 KiB on every sink (File, Vec, boxed): nothing may depend on a buffer size
        lines = []
        for n_ in list(range(1000, 1031)) + [4095, 4096, 4097, 8192, 65536]:
            d = [0x61 + (i % 26) for i in range(n_)]
            for fg, bg in [(rng.choice(PAIRS)) for _ in range(3)] + [("9", "12"), ("-", "15"), ("7", "-")]:
                for sink in ("file", "vec", "box"):
                    lines.append(case(sink, fg, bg, [], d, []))
        yield "kib-sized-data", lines
        # data beyond 4 GiB (a zeroed allocation whose pages are never touched, an accept-all writer that keeps only
        # lengths): the count reported is the number of data bytes accepted -- no 32-bit narrowing anywhere
        # (the allocation is virtual, but the kernel may refuse an obvious overcommit: sizes the machine cannot map are left out)
        avail = 0
        try:
            for l in open("/proc/meminfo"):
                if l.startswith("MemAvailable:"):
                    avail = int(l.split()[1]) * 1024
        except OSError:
            pass
        sizes = [(lg, extra) for (lg, extra) in [(16, 1), (31, 0), (32, 0), (32, 5), (33, 17)] if (1 << lg) + extra < avail // 2]
        yield "gib-sized-data", ["wchuge %s %s %d %d" % (fg, bg, lg, extra)
                                  for (fg, bg) in [("9", "12"), ("-", "4"), ("1", "-"), ("-", "-")] for (lg, extra) in sizes]
        # a real File that cannot be written (/dev/full, read-only descriptor): the failure reaches the caller
        lines = []
        for fg, bg in PAIRS[::7] + [("-", "-"), ("1", "-"), ("-", "4")]:
            for d in FIXED_DATA + [[0x61] * 100, [0x62] * 9000]:
                for sink in ("full", "ro"):
                    lines.append(case(sink, fg, bg, [], d, []))
        yield "files-that-fail", lines
        # the impls for std::io::Stdout / Stderr (child process, pipes captured)
        lines = []
        for i, (fg, bg) in enumerate(PAIRS[::5] + [("-", "-"), ("9", "-"), ("-", "12")]):
            for d in FIXED_DATA[:6] if not thorough else FIXED_DATA:
                lines.append(case("out" if i % 2 else "err", fg, bg, [], d, []))
        yield "real-std-streams", lines

        # 2. every pair x every accepted prefix of the data (codes accepted whole)
        lines = []
        for fg, bg in PAIRS:
            ncodes = (fg != "-") + (bg != "-")
            for d in (list(b"abc"), list("€x".encode()), list(b"a\x1b[1m")):
                for k in range(0, len(d) + 2):
                    lines.append(case("box", fg, bg, [], d, ["a99"] * ncodes + ["a%d" % k]))
        yield "pairs-x-accepted-prefix", lines

        # 3. every pair x a failure at each of the up to four inner operations
        lines = []
        for fg, bg in PAIRS:
            for d in ([], list(b"ab")):
                for pos in range(4):
                    for bad in ("eI", "eW", "eO", "eZ", "a0", "a1"):
                        lines.append(case("box", fg, bg, [], d, ["a99"] * pos + [bad]))
        yield "pairs-x-failure-at-each-operation", lines

        # 4. exhaustive scripts on short data for the four colour shapes
        alphabet = ["a0", "a1", "a3", "a99", "eI", "eW", "eO"]
        depth = 4
        if thorough:
            alphabet = ["a0", "a1", "a2", "a4", "a99", "eI", "eW", "eO", "eZ"]
            depth = 5
        shapes = [("-", "-"), ("1", "-"), ("-", "12"), ("3", "9")]
        lines = []
        sinks = itertools.cycle(SCRIPTED_SINKS)
        for fg, bg in shapes:
            for d in (list(b"ab"), []):
                for n in range(0, depth + 1):
                    for sc in itertools.product(alphabet, repeat=n):
                        lines.append(case(next(sinks), fg, bg, [], d, list(sc)))
        yield "exhaustive-scripts<=%d" % depth, lines

        # 5. seeded random
        n = 60000 if thorough else 6000
        lines = []
        for _ in range(n):
            fg, bg = rng.choice(COLOURS), rng.choice(COLOURS)
            d = rand_data(rng)
            pre = [] if rng.randrange(3) else rand_data(rng)[:6]
            k = rng.randrange(12)
            if k == 0:
                lines.append(case("vec", fg, bg, pre, d, []))
            elif k == 1:
                lines.append(case("file", fg, bg, pre, d, []))
            else:
                lines.append(case(rng.choice(SCRIPTED_SINKS), fg, bg, pre, d, rand_script(rng, len(d), 12 if thorough else 8)))
        yield "random-pairs-data-scripts", lines

    def nontrivial(self, line, impl):
        p = line.split(" ")
        if p[0] == "wchuge":
            return p[1] != "-" or p[2] != "-"
        return p[2] != "-" or p[3] != "-"

    def shrink_fields(self, line):
        # pre and data
        parts = line.split(" ")
        if parts[0] == "wchuge":
            return []
        return [i for i in (4, 5) if parts[i] != "-"]
