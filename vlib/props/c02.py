"""C02 -- the parser reports exactly the events of the VT500 state machine."""
from .. import gen
from ..runner import Prop


class C02(Prop):
    pid = "C02"
    prop_file = "Props/C02.v"
    module = "Props.C02"
    gen_deps = ["Table", "ParserFn", "Utf8parseFn", "ArrayVecFn"]
    harness = ("h-core", "hcore")
    nontrivial_rule = ("cases: the 16 rows of the public state_change function (16x256, exhaustive); every byte string up to length L over the "
                       "28-symbol class alphabet (exhaustive; L=3 quick, 4 thorough); boundary-biased grammar streams; each stream again after a random prefix + CAN/SUB. "
                       "non-trivial = distinct case whose callback trace holds at least one event other than print/execute")
    trusted = ["third-party utf8parse automaton: TRANSLATED from the registry source of the version Cargo.lock pins (tools/gen_fn_utf8parse.py: unpacked source = the archive of the lock file's checksum = the directory cargo metadata reports for the harness crates) and proved equal to Model/Utf8parse.v (Proofs/Utf8parseGen.v); also tied by every UTF-8 case. Trusted: cargo builds the harness from that directory; a Receiver = the list of calls it gets; char::from_u32_unchecked = identity (precondition proved)",
               "the value-level reading of the two unsafe idioms in the translation (tools/gen_fn_parser.py): a MaybeUninit slot is an option "
               "(uninitialised slot read back = None), transmute::<u8, State|Action> is the discriminant decoder",
               "arrayvec 0.7.6 ArrayVec (the `core` buffer): new / Default, len, capacity, is_full, push, try_push, push_unchecked, truncate, clear, set_len, as_slice, Deref, Drop, the default bodies of trait ArrayVecImpl they reach, CapacityError::new and the macro assert_capacity_limit! are TRANSLATED from the registry source of the version Cargo.lock pins (tools/gen_fn_arrayvec.py: unpacked source = the .crate archive of the lock file's checksum = the directory `cargo metadata --all-features` reports for harness/h-parsecfg) and proved to behave, on the representation invariant (slots [0, len) initialised, len <= CAP), as the list the parser translation uses (raw_full, len, guarded `++ [b]`, [], slice) and to preserve the invariant (Proofs/ArrayVecGen.v, c20_translated_arrayvec_*). Trusted: the VALUE-LEVEL reading of its unsafe code (coq/Model/ArrayVec.v: a MaybeUninit slot is an option, a pointer into the buffer is a slot index bound to the vector it came from, ptr::write / from_raw_parts / drop_in_place act on those slots, undefined behaviour = None; size_of::<usize>() = 8), that cargo builds the harness from that directory, and the Clone / PartialEq / Debug impls of ArrayVec (reached by Parser's derives only; differential runs)"]
    assumptions = ["input bytes are < 256 (the Rust type u8)"]

    def streams(self, tier, rng):
        yield "table-16x256", ["tbl %d" % d for d in range(16)]
        L = 4 if tier == "thorough" else 3
        yield "exhaustive-len<=%d" % L, ["c02 " + gen.hexs(s) for s in gen.exhaustive(gen.CLASS_ALPHABET, L)]
        n = 20000 if tier == "thorough" else 3000
        streams = [gen.grammar_stream(rng) for _ in range(n)]
        yield "grammar", ["c02 " + gen.hexs(s) for s in streams]
        after = []
        for s in streams[: n // 2]:
            prefix = gen.grammar_stream(rng, pieces=rng.randrange(1, 4))
            cut = rng.randrange(0, len(prefix) + 1)
            after.append("c02after %s %s" % (gen.hexs(prefix[:cut] + [rng.choice([0x18, 0x1A])]), gen.hexs(s)))
        yield "after-cancel", after
        yield "huge-osc", self.streams_extra(tier, rng)

    def huge_osc(self, rng):
        """OSC strings far beyond 64 KiB (clipboard / image payloads): the extracted model is quadratic in
        the payload length, so the expected callbacks are known BY CONSTRUCTION of the input instead"""
        nf = rng.randrange(1, 6)
        fields = [bytes(rng.choice(b"ABCDEFabcdef0123456789+/=") for _ in range(rng.choice([0, 3, 40000, 66000, 70000]))) for _ in range(nf)]
        if max(len(f) for f in fields) < 66000:
            fields[rng.randrange(nf)] = b"Q" * 70001
        bell = rng.randrange(2) == 0
        data = b"a\x1b]" + b";".join(fields) + (b"\x07" if bell else b"\x1b\\") + b"z"
        want = "p:97 o:%d:%s:%d" % (nf, ",".join(f.hex() for f in fields), 1 if bell else 0)
        want += (" " if bell else " e:0::0:92 ") + "p:122"
        return "c02big " + data.hex(), want

    def streams_extra(self, tier, rng):
        self._big = dict(self.huge_osc(rng) for _ in range(6 if tier == "thorough" else 3))
        return list(self._big)

    def observe(self, ctx, name, lines, results):
        if name != "huge-osc":
            return []
        out = []
        for label, _ in ctx["impls"]:
            for l, r in zip(lines, results["impl-" + label]):
                if r != self._big[l] and len(out) < 3:
                    out.append({"stream": name, "case": l[:200] + "...(%d bytes)" % (len(l) // 2), "build": label, "impl": r[:300] + "...",
                                "spec": "by construction: " + self._big[l][:300] + "...", "model": "N/A"})
        return out

    def nontrivial(self, line, impl):
        if line.startswith("tbl"):
            return True
        return any(tok[:1] not in ("p", "x", "-") for tok in impl.split(" ") if tok)
