"""C02 -- the parser reports exactly the events of the VT500 state machine."""
from .. import gen
from ..runner import Prop


class C02(Prop):
    pid = "C02"
    prop_file = "Props/C02.v"
    module = "Props.C02"
    gen_deps = ["Table"]
    harness = ("h-core", "hcore")
    nontrivial_rule = ("cases: the 16 rows of the public state_change function (16x256, exhaustive); every byte string up to length L over the "
                       "28-symbol class alphabet (exhaustive; L=3 quick, 4 thorough); boundary-biased grammar streams; each stream again after a random prefix + CAN/SUB. "
                       "non-trivial = distinct case whose callback trace holds at least one event other than print/execute")
    trusted = ["third-party utf8parse automaton: transcribed (Model/Utf8parse.v), tied by every UTF-8 case"]
    assumptions = ["input bytes are < 256 (the Rust type u8)"]

    def streams(self, tier, rng):
        yield "table-16x256", ["tbl %d" % d for d in range(16)]
        L = 4 if tier == "thorough" else 3
        yield "exhaustive-len<=%d" % L, ["c02 " + gen.hexs(s) for s in gen.exhaustive(gen.CLASS_ALPHABET, L)]
        n = 20000 if tier == "thorough" else 3000
        streams = [gen.grammar_stream(rng) for _ in range(n)]
        yield "grammar", ["c02 " + gen.hexs(s) for s in streams]
        after = []
        for s in streams[: n // 2]:
            prefix = gen.grammar_stream(rng, pieces=rng.randrange(1, 4))
            cut = rng.randrange(0, len(prefix) + 1)
            after.append("c02after %s %s" % (gen.hexs(prefix[:cut] + [rng.choice([0x18, 0x1A])]), gen.hexs(s)))
        yield "after-cancel", after

    def nontrivial(self, line, impl):
        if line.startswith("tbl"):
            return True
        return any(tok[:1] not in ("p", "x", "-") for tok in impl.split(" ") if tok)
