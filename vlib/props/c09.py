"""C09 -- colour auto-detection follows the documented precedence for every environment.

The decision reads process-global state (environment, the global atomic, isatty of
stdout / stderr), so the implementation is observed in single-threaded child
processes of the harness binary (harness/h-core/src/c09.rs):

* in the normal case-file protocol, `c09 <global> <tty> <bindings>` makes hcore run one
  child per case, on /dev/null or on the slave of a pty it opens with posix_openpt;
* `extra_checks` runs the child in batch mode over the whole cross product, with
  stdout / stderr connected by THIS process to a pipe, /dev/null or the slave of a
  pty from os.openpty() -- also mixed (one stream a terminal, the other not) --
  and compares with the extracted model and spec; it also runs the command-line
  flag through the separate clap harness (harness/h-clap).
"""
import itertools
import os
import subprocess

from .. import core
from ..runner import Prop

GLOBALS = ["Auto", "AlwaysAnsi", "Always", "Never"]
# the property's quantifier, in the order of its text
PRODUCT = [
    ("NO_COLOR", [None, "", "0", "1"]),
    ("CLICOLOR_FORCE", [None, "", "0", "1"]),
    ("CLICOLOR", [None, "", "0", "1"]),
    ("TERM", [None, "", "dumb", "xterm-256color"]),
    ("CI", [None, "", "true"]),
]
COLORTERM = [None, "", "truecolor", "24bit", "other"]
NAMES = [n for n, _ in PRODUCT] + ["COLORTERM"]
# names that must not be mistaken for the real ones (case, prefix, suffix)
DECOYS = ["NOCOLOR", "no_color", "CLICOLOR_FORCED", "CLI_COLOR", "TERMINAL", "COLORTERM2", "ci", "CI_"]
# values beyond the sampled ones: near misses of every literal the probes compare with
VALUES = ["", "0", "1", "00", "0 ", " 0", "-0", "false", "true", "no", "dumb", "DUMB", "dumb ", "dum", "dumber", "xterm", "xterm-256color",
          "cygwin", "truecolor", "Truecolor", "truecolor ", "24bit", "24bits", "24", "other", " ", "\t", "woodpecker"]
RAW_VALUES = [b"\xff", b"\xff\xfe0", b"0\xff", b"\xc3\xa9", b"dumb\xff", b"\x01"]
MEMORY_STREAMS = ["Vec<u8>", "dyn std::io::Write", "dyn std::io::Write + Send", "dyn std::io::Write + Send + Sync", "crate::Buffer"]
PROBES = ["no_color", "clicolor_force", "clicolor", "term_supports_color", "term_supports_ansi_color", "truecolor", "is_ci"]
FLAG_WORDS = ["auto", "always", "never"]
NOT_FLAG_WORDS = ["", "Auto", "ALWAYS", "Never", "always-ansi", "alwaysansi", "always_ansi", "ansi", "true", "false", "0", "1", "yes", "no", "on", "off",
                  "auto ", " auto", "never\n", "aut", "autom", "alway", "-", "--", "-x", "=always", "always=", "auto,never", "tty", "if-tty"]


def hx(b):
    if isinstance(b, str):
        b = b.encode("utf-8")
    return b.hex() if b else "-"


def binds(pairs):
    """[(name, value)] -> the bindings part of a case line (unset variables are left out)"""
    return " ".join("%s=%s" % (hx(n), hx(v)) for n, v in pairs if v is not None)


def join(*parts):
    return " ".join(p for p in parts if p)


def product_configs():
    """the full cross product of the property's quantifier, without the stream kind:
    [(global, bindings)] -- 4 x 4 x 4 x 4 x 4 x 3 = 3072"""
    out = []
    for g in GLOBALS:
        for vals in itertools.product(*[vs for _, vs in PRODUCT]):
            out.append((g, binds(zip([n for n, _ in PRODUCT], vals))))
    return out


def random_value(rng):
    k = rng.randrange(10)
    if k < 7:
        return rng.choice(VALUES)
    if k < 8:
        return rng.choice(RAW_VALUES)
    # arbitrary bytes without NUL (std::env::set_var rejects NUL)
    return bytes(rng.randrange(1, 256) for _ in range(rng.randint(1, 6)))


def random_env(rng):
    pairs = []
    for n in NAMES:
        if rng.randrange(3):
            pairs.append((n, random_value(rng) if rng.randrange(4) else rng.choice(["", "0", "1", "dumb"])))
    for n in rng.sample(DECOYS, rng.choice([0, 0, 1, 2])):
        pairs.append((n, random_value(rng)))
    rng.shuffle(pairs)
    return binds(pairs)


def choice_part(result, which):
    """`stdout=X stderr=Y` -> X or Y"""
    for tok in result.split(" "):
        if tok.startswith(which + "="):
            return tok[len(which) + 1:]
    return "?" + result


class C09(Prop):
    pid = "C09"
    prop_file = "Props/C09.v"
    module = "Props.C09"
    gen_deps = ["Choice", "ChoiceFn", "Table", "StreamFn", "FmtFn", "AutoFn", "GlueFn", "MacrosFn", "IsTerminalFn"]
    harness = ("h-core", "hcore")
    nontrivial_rule = (
        "cases: the full cross product global {Auto, AlwaysAnsi, Always, Never} x NO_COLOR {unset,'','0','1'} x CLICOLOR_FORCE {unset,'','0','1'} x "
        "CLICOLOR {unset,'','0','1'} x TERM {unset,'','dumb','xterm-256color'} x CI {unset,'','true'} x stream {non-terminal, terminal (pty)} = 6144 "
        "configurations, exhaustively, executed twice over: (a) stream 'product-one-child-per-case': one child process per configuration, stdout and stderr "
        "on /dev/null or on a pty the harness opens (posix_openpt); (b) streams 'batch-*' (extra_checks): one child per run walking all 3072 "
        "global x environment configurations with stdout / stderr connected by the check to pipe + /dev/null, to a pty from os.openpty(), and mixed "
        "(stdout pty / stderr pipe, stdout /dev/null / stderr pty); every AutoStream::choice call on stdout and on stderr is one evaluation, compared with the "
        "extracted Model/Choice.choice_model and Spec/Choice.choice_spec. Plus: the same 3072 configurations on every in-memory stream type whose is_terminal "
        "is the constant false (Vec<u8>, Box<dyn Write [+Send[+Sync]]>, Buffer) and on std::fs::File over /dev/null and over a pty; seeded random "
        "environments with values outside the sampled ones (near misses of '0', 'dumb', 'truecolor', '24bit', non-UTF-8 bytes, decoy variable names); "
        "every anstyle_query probe on every variable x value; COLORTERM {unset,'','truecolor','24bit','other'} against truecolor(); write_global/global for the "
        "4 choices in every order of two; the clap flag words {auto, always, never} and ~30 non-words through colorchoice_clap::Color (separate harness h-clap). "
        "non-trivial = distinct case line whose outcome is not fixed by an explicit choice: global = Auto for configurations; for a probe, an answer other than "
        "the one for an empty environment; for the flag, a word clap accepts; every write_global case")
    trusted = [
        "translator tools/gen_choice.py (variable names and literals of the anstyle_query probes, from_choice/to_choice arms, as_choice arms, "
        "IsTerminal impl classification) and the function translator tools/gen_fn_choice.py + tools/rs2v (the bodies of the probes, of the "
        "AtomicChoice / ColorChoice::global / write_global plumbing, of Color::write_global and of anstream::auto::choice, proved equal to the "
        "hand model in Proofs/ChoiceGen.v; vocabulary: std::env::var_os = the abstract environment, AtomicUsize = a register, "
        "static USER = a threaded parameter, raw.is_terminal() = a boolean, #[cfg(windows)] blocks skipped)",
        "the child mode of harness/h-core/src/c09.rs (std::env::set_var/remove_var on one thread, result file instead of stdout) and harness/h-clap",
        "clap's own value parser (third party): only its observable accept/reject behaviour on the tested words is compared",
        "third-party is_terminal_polyfill 1.48.1 and is-terminal 0.4.13 (the crate the polyfill forwards to in the version Cargo.lock pins; NOT "
        "std::io::IsTerminal, that is polyfill 1.70.x): TRANSLATED from the cargo registry (tools/gen_fn_htmlescape.py generator IsTerminalFn: "
        "impl_is_terminal! expanded from its own text; is-terminal's generic impl for the unix configuration) and proved to ask isatty about the descriptor "
        "of the handle they are called on (Proofs/IsTerminalGen.v, c09_translated_polyfill_*); vocabulary: AsFd::as_fd / as_raw_fd and libc::isatty are the "
        "operating system (Model/Glue.v pf_os)",
    ]
    assumptions = [
        "std::env::var_os and isatty (is_terminal_polyfill) report the child process's real environment and descriptors; a pty slave is a terminal, "
        "a pipe, /dev/null and in-memory writers are not (checked by the child itself with std::io::IsTerminal before every run)",
        "non-Windows build: the #[cfg(windows)] blocks of term_supports_color / term_supports_ansi_color and the wincon arms are compiled out and not modelled",
        "environment values are byte strings without NUL (what a Unix environment can hold); comparing an OsString with a &str is byte equality",
        "the model's notion of 'terminal' for stdout/stderr is the single boolean raw.is_terminal(); which descriptors are terminals is the operating system's business",
    ]

    # ------------------------------------------------------------------ streams
    def streams(self, tier, rng):
        configs = product_configs()
        yield "product-one-child-per-case", [join("c09", g, t, b) for t in ("0", "1") for g, b in configs]
        lines = []
        for ty in MEMORY_STREAMS:
            lines.extend(join("c09s", hx(ty), "0", g, b) for g, b in configs)
        for t in ("0", "1"):
            lines.extend(join("c09s", hx("std::fs::File"), t, g, b) for g, b in configs)
        yield "product-on-stream-types", lines
        # probes: every probe against every (variable or decoy) x value, one variable set
        lines = []
        for p in PROBES:
            lines.append(join("c09p", p))
            for n in NAMES + DECOYS:
                for v in VALUES + RAW_VALUES:
                    lines.append(join("c09p", p, binds([(n, v)])))
        for v in COLORTERM:
            lines.append(join("c09p", "truecolor", binds([("COLORTERM", v)])))
            for t in (None, "dumb", "xterm-256color"):
                lines.append(join("c09p", "truecolor", binds([("COLORTERM", v), ("TERM", t)])))
        yield "probes-single-variable", lines
        n = 20000 if tier == "thorough" else 3000
        yield "probes-random-environment", [join("c09p", rng.choice(PROBES), random_env(rng)) for _ in range(n)]
        lines = []
        for _ in range(n):
            ty, t = rng.choice([(m, "0") for m in MEMORY_STREAMS] + [("std::fs::File", "0"), ("std::fs::File", "1")] * 3)
            g = rng.choice(["Auto"] * 5 + GLOBALS)
            lines.append(join("c09s", hx(ty), t, g, random_env(rng)))
        yield "random-environment-on-stream-types", lines
        n = 6000 if tier == "thorough" else 1000
        yield "random-environment-one-child-per-case", [join("c09", rng.choice(["Auto"] * 5 + GLOBALS), rng.choice("01"), random_env(rng)) for _ in range(n)]
        yield "global-write-then-read", [join("c09g", x) for a in GLOBALS for b in GLOBALS for x in (a, b)]
        # the five macros on the real streams, stdout and stderr EACH a terminal (a pty of its own) or a pipe: the stream
        # the macro writes to decides (print / println: stdout; eprint / eprintln / panic: stderr), not the other one
        payloads = ["a\x1b[1mb\x1b[0mc", "\x1b[38;5;9mred\x1b[39m", "plain", "x\x1b]0;t\x07y"]
        envs = [[], [("TERM", "xterm-256color")], [("TERM", "dumb")], [("NO_COLOR", "1"), ("TERM", "xterm")], [("CLICOLOR_FORCE", "1")],
                [("CLICOLOR", "1")], [("CI", "true")], [("CLICOLOR", "0"), ("TERM", "xterm")]]
        lines = []
        k = 0
        for mac in ("print", "println", "eprint", "eprintln", "panic"):
            for ot in "01":
                for et in "01":
                    for env in envs:
                        g = "Auto" if k % 5 else rng.choice(GLOBALS)
                        lines.append(join("c09m", mac, ot, et, hx(payloads[k % len(payloads)]), g, binds(env)))
                        k += 1
        if tier == "thorough":
            for _ in range(600):
                lines.append(join("c09m", rng.choice(["print", "println", "eprint", "eprintln", "panic"]), rng.choice("01"), rng.choice("01"),
                                  hx(rng.choice(payloads)), rng.choice(["Auto"] * 5 + GLOBALS), random_env(rng)))
        yield "macros-each-stream-of-its-own-kind", lines

    def nontrivial(self, line, impl):
        f = line.split(" ")
        if f[0] == "c09":
            return f[1] == "Auto"
        if f[0] == "c09s":
            return f[3] == "Auto"
        if f[0] == "c09m":
            return f[5] == "Auto" and f[2] != f[3]
        if f[0] == "c09p":
            return impl not in ("0", "none")
        if f[0] == "c09f":
            return impl != "ERR"
        return True

    def shrink_fields(self, line):
        return []     # configurations are enumerated, not shrunk

    # ------------------------------------------------------------- extra checks
    def _run_child(self, exe, configs, out_kind, err_kind, tag):
        """one batch run of `hcore --c09-child`; returns (header, [result lines])"""
        d = os.path.join(core.CACHE, "run")
        os.makedirs(d, exist_ok=True)
        res = os.path.join(d, "c09-%s-%d.res" % (tag, os.getpid()))
        opened = []
        pty = None

        def connect(kind):
            nonlocal pty
            if kind == "pty":
                if pty is None:
                    pty = os.openpty()       # (master, slave)
                    opened.extend(pty)
                return pty[1]
            if kind == "devnull":
                return subprocess.DEVNULL
            if kind == "pipe":
                return subprocess.PIPE
            raise ValueError(kind)
        try:
            p = subprocess.Popen([exe, "--c09-child", res], stdin=subprocess.PIPE, stdout=connect(out_kind), stderr=connect(err_kind),
                                 env={}, close_fds=True)
            try:
                so, se = p.communicate(("\n".join(join(g, b) for g, b in configs) + "\n").encode("ascii"), timeout=600)
            except subprocess.TimeoutExpired:
                p.kill()
                raise RuntimeError("c09 child (%s) timed out" % tag)
            if p.returncode != 0 or not os.path.exists(res):
                raise RuntimeError("c09 child (%s) failed: rc=%s" % (tag, p.returncode))
            if so or se:
                raise RuntimeError("c09 child (%s) wrote to the streams under test: %r %r" % (tag, so, se))
            lines = open(res, encoding="utf-8").read().split("\n")
            if lines and lines[-1] == "":
                lines.pop()
            if len(lines) != len(configs) + 1:
                raise RuntimeError("c09 child (%s): %d result lines for %d configurations" % (tag, len(lines) - 1, len(configs)))
            return lines[0], lines[1:]
        finally:
            for fd in opened:
                try:
                    os.close(fd)
                except OSError:
                    pass
            try:
                os.remove(res)
            except OSError:
                pass

    def extra_checks(self, ctx):
        failures = []
        cov = ctx["coverage"]
        driver = ctx["driver"]
        configs = product_configs()

        def oracle(side, lines):
            return core.run_parallel([driver, side], lines, self.pid + "x" + side[0])

        # model / spec answers for every configuration x stream kind
        expect = {}
        for t in ("0", "1"):
            lines = [join("c09", g, t, b) for g, b in configs]
            m = oracle("model", lines)
            s = oracle("spec", lines)
            expect[t] = (lines, [choice_part(x, "stdout") for x in m], [choice_part(x, "stdout") for x in s])
        init_model = oracle("model", ["c09init"])[0]

        runs = [("batch-pipe+devnull", "pipe", "devnull"), ("batch-pty+pty", "pty", "pty"),
                ("batch-pty+pipe", "pty", "pipe"), ("batch-devnull+pty", "devnull", "pty")]
        for label, exe in ctx["impls"]:
            for name, ok, ek in runs:
                header, results = self._run_child(exe, configs, ok, ek, name + "-" + label)
                to, te = ("1" if ok == "pty" else "0"), ("1" if ek == "pty" else "0")
                want_header = "init=%s stdout_tty=%s stderr_tty=%s" % (init_model, to, te)
                st = cov["streams"].setdefault(name, {"cases": 0, "tie_diffs": 0, "spec_diffs": 0, "spec_applicable": 0, "panics": 0,
                                                       "choice_calls": 0, "decisions": {}})
                if header != want_header:
                    if header.split(" ")[1:] != want_header.split(" ")[1:]:
                        raise RuntimeError("c09 %s: the streams are not what the check connected: %r (wanted %r)" % (name, header, want_header))
                    st["tie_diffs"] += 1
                    ctx["tie_diffs"].append({"stream": name, "case": "c09init", "build": label, "impl": header.split(" ")[0][5:], "model": init_model})
                for i, r in enumerate(results):
                    st["cases"] += 1
                    if r == "PANIC":
                        st["panics"] += 1
                    for which, t in (("stdout", to), ("stderr", te)):
                        lines, m, s = expect[t]
                        im = choice_part(r, which)
                        cov["evaluations"] += 1
                        st["choice_calls"] += 1
                        st["spec_applicable"] += 1
                        key = "%s tty=%s -> %s" % (configs[i][0], t, im)
                        st["decisions"][key] = st["decisions"].get(key, 0) + 1
                        if self.nontrivial(lines[i], im):
                            cov["nontrivial"].add(lines[i])
                        if im != m[i]:
                            st["tie_diffs"] += 1
                            if len(ctx["tie_diffs"]) < 20:
                                ctx["tie_diffs"].append({"stream": name, "case": lines[i], "build": label, "observed_on": which,
                                                         "impl": r, "model": "%s=%s" % (which, m[i])})
                        if im != s[i]:
                            st["spec_diffs"] += 1
                            if len(failures) < 20:
                                failures.append({"stream": name, "case": lines[i], "build": label, "observed_on": which,
                                                 "impl": r, "spec": "%s=%s" % (which, s[i]), "model": "%s=%s" % (which, m[i])})
                if results:
                    for i in (len(results) // 7, len(results) // 5):      # two configurations with global = Auto
                        cov["samples"].append({"stream": name, "case": "stdout->%s stderr->%s: %s" % (ok, ek, join(*configs[i])), "impl": results[i]})

        # the command-line flag, through clap (separate crate: clap is not a dependency of h-core)
        exe, err = core.build_harness("h-clap", "hclap")
        if exe is None:
            raise RuntimeError("harness h-clap does not build: " + err[-1500:])
        rng = ctx["rng"]
        words = [w.encode() for w in FLAG_WORDS + NOT_FLAG_WORDS] + [b"\xff", b"auto\xff"]
        for _ in range(200):
            w = bytearray(rng.choice(FLAG_WORDS).encode())
            k = rng.randrange(4)
            if k == 0 and w:
                del w[rng.randrange(len(w))]
            elif k == 1:
                w.insert(rng.randrange(len(w) + 1), rng.randrange(1, 256))
            elif k == 2:
                j = rng.randrange(len(w))
                w[j] = w[j] ^ 0x20
            else:
                w = bytearray(rng.randrange(1, 256) for _ in range(rng.randint(1, 8)))
            words.append(bytes(w))
        lines = list(dict.fromkeys(join("c09f", hx(w)) for w in words))
        im = core.run_side([exe], lines, self.pid + "clap")
        m = oracle("model", lines)
        s = oracle("spec", lines)
        st = {"cases": len(lines), "tie_diffs": 0, "spec_diffs": 0, "spec_applicable": 0, "panics": 0, "accepted": 0}
        for i, l in enumerate(lines):
            cov["evaluations"] += 1
            st["spec_applicable"] += 1
            if im[i] == "PANIC":
                st["panics"] += 1
            if self.nontrivial(l, im[i]):
                cov["nontrivial"].add(l)
                st["accepted"] += 1
            if im[i] != m[i]:
                st["tie_diffs"] += 1
                ctx["tie_diffs"].append({"stream": "clap-flag", "case": l, "build": "h-clap", "impl": im[i], "model": m[i]})
            if im[i] != s[i]:
                st["spec_diffs"] += 1
                failures.append({"stream": "clap-flag", "case": l, "build": "h-clap", "impl": im[i], "spec": s[i], "model": m[i],
                                 "note": "run with .cache/target-h-clap/debug/hclap <cases> <out>"})
        cov["streams"]["clap-flag"] = st
        cov["samples"].append({"stream": "clap-flag", "case": lines[1], "impl": im[1]})
        cov["extra"]["exhaustive"] = True
        cov["extra"]["exhaustive_over"] = ("the %d configurations of the property's quantifier (3072 global x environment combinations x 2 stream kinds), "
                                           "each observed on stdout and on stderr; the random and probe streams are samples" % (2 * len(configs)))
        return failures
