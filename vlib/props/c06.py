"""C06 -- the strip stream keeps the Write contract under short writes and errors."""
import itertools

from .. import core, gen
from ..runner import Prop

SHORT_INPUTS = [
    list(b"ab\x1b[0mZ"),
    list(b"ab\x1b["),
    list(b"\x1b[1mx\x1b[0my"),
    list("a€b\x1b]0;t\x07c".encode()),
    list(b"x\x1b[\n3my"),
    [0x61, 0xE2, 0x1B, 0x5B, 0x6D, 0x62, 0xC3],
]

ENTRIES = ["a0", "a1", "a2", "a3", "a999", "eI", "eW", "eO"]


# harness/common/lits.rs knows the same list: an `f:` op with ONE fragment equal to an entry is made
# through `write!(w, "<literal>")` (a format string without arguments)
LITS = ["\x1b[", "1m", "31mred", "\x1b", "[0m", "\x1b]0;t", "itle\x07", "plain", "\x1b[38;5;", "9mX", "a\x1b[1", ";4mb",
        "\x1bP", "q\x1b\\", "\u00e9", "\u20ac\x1b[", "0;1m\u20ac", "\x1b[1mbold\x1b[0m", "\x1b[38;2;1;", "2;3mrgb", "x\x1b[4", "4my\n",
        "\x1b[0", "m", "tail\x1b[3",
        "a\x7fb", "\x7f", "a\x08b\x00c", "\x07bel", " ~\x7f~ ", "tab\there\r\n", "\x1f", "\u009cx", "\x0cff\x0b"]


def literal_ops(rng, n=None):
    """formatted writes of argument-free format strings, mixed with the other write calls"""
    ops = []
    for _ in range(n if n is not None else rng.randrange(2, 7)):
        k = rng.randrange(8)
        if k < 5:
            ops.append("f:" + gen.hexs(list(rng.choice(LITS).encode())))
        elif k == 5:
            ops.append("a:" + gen.hexs(list(rng.choice(LITS).encode())))
        elif k == 6:
            ops.append("w:" + gen.hexs(list(rng.choice(LITS).encode())))
        else:
            ops.append("F")
    return ",".join(ops)


def strm_spec_observe(name, lines, results, impls):
    """`strm` cases whose specification-level answer exists (stripping stream over an accept-all Vec / File,
    only write_all / write_fmt / write): the bytes delivered must be Spec/Strip of the data, whatever the chunking"""
    out = []
    for label, _ in impls:
        for i, l in enumerate(lines):
            if not l.startswith("strm "):
                continue
            sp = results["spec"][i]
            if not sp.startswith("MERGED"):
                continue
            r = results["impl-" + label][i]
            parts = r.split(" | ")
            got = parts[1] if len(parts) > 1 else "?"
            want = sp[7:] or "-"
            if got != want and len(out) < 5:
                out.append({"stream": name, "case": l, "build": label, "impl": r[:2000], "spec": "delivered bytes = " + want[:2000], "model": results["model"][i][:2000]})
    return out


def big_chunk_cases(rng, thorough):
    """write_all / write_fmt chunks at and beyond 64 KiB that end inside a sequence or a character, followed by the rest"""
    lines = []
    sizes = [65535, 65536, 65537, 70001, 131072 + 3, 262144 + 1] if thorough else [65536, 65537]
    tails = [(list(b"\x1b[1"), list(b"mX\x1b[0mY")), (list(b"\x1b]0;ti"), list(b"tle\x07Z")), (list("\u20ac".encode())[:2], list("\u20ac".encode())[2:] + list(b"!")),
             (list(b"\x1b"), list(b"[31mR")), (list(b"ab"), list(b"cd"))]
    for size in sizes:
        for j, (end, rest) in enumerate(tails if thorough else tails[:3]):
            body = []
            while len(body) < size - len(end):
                body += gen.grammar_stream(rng, valid_utf8=True, pieces=5) + list(b"plain text 0123456789 ")
            body = body[:size - len(end)]
            # do not cut the padding inside a character
            while body and 0x80 <= body[-1] <= 0xBF or (body and body[-1] >= 0xC0):
                body.pop()
            body += [0x78] * (size - len(end) - len(body))
            first = body + end

            def utf8(bs):
                try:
                    bytes(bs).decode("utf-8")
                    return True
                except UnicodeDecodeError:
                    return False
            for mode in ("strip", "never"):
                for op in ("a", "f"):
                    if op == "f" and not (utf8(first) and utf8(rest)):
                        continue
                    lines.append("strm %s vec - %s:%s,%s:%s" % (mode, op, gen.hexs(first), op, gen.hexs(rest)))
    return lines


def frag_split(rng, bs):
    """split valid UTF-8 bytes into fragments at character boundaries"""
    cb = [i for i in range(1, len(bs)) if not (0x80 <= bs[i] <= 0xBF)]
    cuts = sorted(set(rng.choice(cb) for _ in range(rng.randrange(0, 4)))) if cb else []
    return gen.apply_cuts(bs, cuts)


def random_ops(rng, n=None, utf8=True):
    ops = []
    for _ in range(n if n is not None else rng.randrange(1, 7)):
        k = rng.randrange(10)
        data = gen.grammar_stream(rng, pieces=rng.choice([1, 2, 3]), valid_utf8=True)
        if k < 3:
            raw = data if rng.randrange(3) else gen.grammar_stream(rng, pieces=2)
            ops.append("w:" + gen.hexs(raw))
        elif k < 6:
            raw = data if rng.randrange(3) else gen.grammar_stream(rng, pieces=2)
            ops.append("a:" + gen.hexs(raw))
        elif k < 7:
            bufs = [[]] * rng.randrange(0, 2) + [data] + [gen.utf8_text(rng, 3)] * rng.randrange(0, 2)
            ops.append("v:" + "/".join(gen.hexs(b) for b in bufs))
        elif k < 9:
            ops.append("f:" + "/".join(gen.hexs(fr) for fr in frag_split(rng, data)))
        else:
            ops.append("F")
    return ",".join(ops)


def random_script(rng, n=None):
    return ",".join(rng.choice(ENTRIES + ["a5", "a17"]) for _ in range(n if n is not None else rng.randrange(0, 8))) or "-"


class C06(Prop):
    pid = "C06"
    prop_file = "Props/C06.v"
    module = "Props.C06"
    gen_deps = ["Table", "StripFn", "StreamFn", "FmtFn", "Utf8parseFn"]
    harness = ("h-core", "hcore")
    nontrivial_rule = ("cases: the standard caller protocol over StripStream::write for EVERY script over {accept 0,1,2,3,all} u {Interrupted, WouldBlock, Other} up to depth 4 "
                       "(quick) / 5 (thorough) against six short escape-rich inputs, and seeded random scripts against long grammar inputs; sequences of write / write_all / "
                       "write_vectored / write_fmt / flush over scripted boxed writers. For each protocol run the bytes the inner writer received must be a prefix of "
                       "Spec/Strip of the input, and equal to it when the protocol ends with success. non-trivial = distinct case whose script holds a short accept or an error")
    trusted = ["std::io::Write::{write_all, write_fmt} default loops as transcribed in Spec/Io.v", "third-party utf8parse automaton: translated from the registry source of the version Cargo.lock pins and proved equal to Model/Utf8parse.v (Generated/Utf8parseFn.v, Proofs/Utf8parseGen.v; theorems under C01-C04, C20); also tied by the correspondence runs"]
    assumptions = ["inner writers follow the Write contract (accept count <= buffer length)", "input bytes are < 256"]

    def streams(self, tier, rng):
        depth = 5 if tier == "thorough" else 4
        lines = []
        for inp in SHORT_INPUTS:
            h = gen.hexs(inp)
            for d in range(0, depth + 1):
                for sc in itertools.product(ENTRIES, repeat=d):
                    lines.append("drv %s %s" % (",".join(sc) if sc else "-", h))
        yield "protocol-exhaustive-scripts<=%d" % depth, lines
        n = 6000 if tier == "thorough" else 1500
        yield "protocol-random", ["drv %s %s" % (random_script(rng, rng.randrange(0, 30)), gen.hexs(gen.grammar_stream(rng))) for _ in range(n)]
        lines = []
        for _ in range(n):
            data = gen.grammar_stream(rng, pieces=rng.choice([2, 3, 5]))
            bufs = gen.apply_cuts(data, gen.random_cuts(rng, len(data))) if data else [[]]
            if rng.randrange(3) == 0:
                bufs.insert(rng.randrange(len(bufs) + 1), [])
            lines.append("drvv %s %s" % (random_script(rng, rng.randrange(0, 12)), "/".join(gen.hexs(b) for b in bufs)))
        for inp in SHORT_INPUTS:
            for d in range(0, 3):
                for sc in itertools.product(ENTRIES, repeat=d):
                    for cut in range(1, len(inp)):
                        lines.append("drvv %s %s/%s" % (",".join(sc) if sc else "-", gen.hexs(inp[:cut]), gen.hexs(inp[cut:])))
        yield "protocol-vectored", lines
        yield "ops-scripted", ["strm strip %s %s %s" % (rng.choice(["boxed", "boxed", "send", "sync"]), random_script(rng), random_ops(rng)) for _ in range(n)]
        lines = ["strm strip vec - f:%s,f:%s" % (gen.hexs(list(a.encode())), gen.hexs(list(b.encode()))) for a, b in itertools.product(LITS, repeat=2)]
        lines += ["strm strip boxed %s %s" % (random_script(rng) if i % 2 else "-", literal_ops(rng)) for i in range(n // 2)]
        yield "literal-formatted-writes", lines
        # StripStream over the real stdout / stderr, `.lock()` between two writes (child process, pipe captured)
        lines = []
        for i in range(150 if tier == "thorough" else 40):
            data = gen.grammar_stream(rng, pieces=rng.choice([2, 3, 5]))
            if i % 3 == 0:
                data = list("<<a\x1b[1mb\x1b]0;t\x07\u20acc>>".encode())
            if not data:
                continue
            cut = rng.randrange(0, len(data) + 1)
            lines.append("lk8 strip %s %s %s" % (rng.choice(["out", "err"]), gen.hexs(data[:cut]), gen.hexs(data[cut:])))
        yield "locked-std-streams", lines
        # a write cut right after a prefix that leaves a rare state behind, then a long plain run at a power-of-two length
        lines = []
        for data, cuts in gen.threshold_cases(rng, tier == "thorough"):
            chunks = [ch for ch in gen.apply_cuts(data, cuts) if ch]
            lines.append("strm strip %s - %s" % (rng.choice(["vec", "boxed"]), ",".join("%s:%s" % (rng.choice("aw"), gen.hexs(ch)) for ch in chunks)))
        yield "threshold-runs-after-rare-states", lines

    def observe(self, ctx, name, lines, results):
        if not name.startswith("protocol"):
            return strm_spec_observe(name, lines, results, ctx["impls"])
        def whole(l):
            f = l.split(" ")[2]
            return "".join(x for x in f.split("/") if x != "-") or "-"
        inputs = sorted(set(whole(l) for l in lines))
        spec = dict(zip(inputs, core.run_parallel([ctx["driver"], "spec"], ["sbcat " + h for h in inputs], "C06s")))
        out = []
        for label, _ in ctx["impls"]:
            for l, r in zip(lines, results["impl-" + label]):
                if " | " not in r:
                    continue
                outcome, received = r.split(" | ")
                want = spec[whole(l)]
                received = "" if received == "-" else received
                want = "" if want == "-" else want
                ok = want.startswith(received) and (outcome != "ok" or received == want) and outcome != "livelock"
                if not ok and len(out) < 5:
                    out.append({"stream": name, "case": l, "build": label, "impl": r, "spec": "outcome ok => received = %s; always a prefix of it" % (want or "-"),
                                "model": results["model"][lines.index(l)]})
        return out

    def nontrivial(self, line, impl):
        parts = line.split(" ")
        script = parts[1] if parts[0] in ("drv", "drvv", "drvn") else parts[3]
        return any(t.startswith("e") or t in ("a0", "a1", "a2", "a3", "a5", "a17") for t in script.split(","))

    def shrink_fields(self, line):
        return []
