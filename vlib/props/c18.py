"""C18 -- the legacy-console stream hands over each text run once with 16-colour fg/bg."""
from .. import gen, sgrgen
from ..runner import Prop
from .c06 import ENTRIES, frag_split, random_script


def merge_calls(history):
    """console calls -> list of (fg, bg, hex text) with neighbouring equal colours merged; only fully
    meaningful for accept-all consoles"""
    out = []
    if history == "-":
        return out
    for c in history.split(";"):
        if not c.startswith("c"):
            continue
        head, res = c[1:].rsplit("=", 1)
        fg, bg, data = head.split("/")
        if res.startswith("e"):
            continue
        n = int(res)
        data = "" if data == "-" else data[: 2 * n]
        if out and out[-1][0] == fg and out[-1][1] == bg:
            out[-1][2] += data
        else:
            out.append([fg, bg, data])
    return out


class C18(Prop):
    pid = "C18"
    prop_file = "Props/C18.v"
    module = "Props.C18"
    gen_deps = ["Table", "ParserFn", "WinconFn", "WinconStreamFn", "FmtFn", "Utf8parseFn"]
    harness = ("h-wincon", "hwincon")
    nontrivial_rule = ("cases: UTF-8 texts with grammar SGR sequences (C07's generator), other escape sequences and chunkings, through WinconStream::{write, write_all, write_vectored, "
                       "write_fmt, flush} over a scripted console writer (recording every write_colored(fg, bg, text) call; short counts, Interrupted / WouldBlock / Other errors; "
                       "all scripts up to depth 3 on short inputs). The working-tree wincon.rs is compiled into the harness by build.rs (two mechanical text edits). "
                       "With an accept-all console the merged calls must equal the capped runs of Spec/Sgr over Spec/Vt. non-trivial = distinct case with a colour change or a non-empty script")
    trusted = ["harness/h-wincon/build.rs: drops inner attributes and rewrites `all(windows, feature = \"wincon\")` to `feature = \"wincon\"` in the copied anstream sources",
               "third-party utf8parse automaton: translated from the registry source of the version Cargo.lock pins and proved equal to Model/Utf8parse.v (Generated/Utf8parseFn.v, Proofs/Utf8parseGen.v; theorems under C01-C04, C20); also tied by the correspondence runs"]
    assumptions = ["the console writer follows the Write contract (count <= length)", "SGR sequences are inside the grammar of C07 for the spec-level comparison"]

    def streams(self, tier, rng):
        import itertools
        lines = []
        shorts = [list(b"hello\x1b[31mworld"), list(b"a\x1b[38;5;9mb\x1b[48;5;200mc\x1b[0md"), list("x\x1b[1;44m€\x1b[38;2;1;2;3my".encode())]
        depth = 3
        for s in shorts:
            h = gen.hexs(s)
            for d in range(depth + 1):
                for sc in itertools.product(ENTRIES, repeat=d):
                    script = ",".join(sc) if sc else "-"
                    lines.append("wcs %s w:%s" % (script, h))
                    lines.append("wcs %s a:%s" % (script, h))
        yield "scripts<=%d" % depth, lines
        n = 6000 if tier == "thorough" else 1500
        lines = []
        for i in range(n):
            s = sgrgen.styled_text(rng, True)
            if not s:
                continue
            chunks = gen.apply_cuts(s, [c for c in gen.random_cuts(rng, len(s))])
            ops = []
            valid = all(self._utf8(c) for c in chunks)
            for c in chunks:
                k = rng.randrange(4)
                if k == 0:
                    ops.append("w:" + gen.hexs(c))
                elif k == 1 and valid:
                    ops.append("f:" + "/".join(gen.hexs(fr) for fr in frag_split(rng, c)))
                else:
                    ops.append("a:" + gen.hexs(c))
            lines.append("wcs - " + ",".join(ops))
        yield "grammar-accept-all", lines
        lines = []
        for i in range(n):
            s = sgrgen.styled_text(rng, i % 3 != 0)
            ops = []
            for c in gen.apply_cuts(s, gen.random_cuts(rng, len(s))) if s else []:
                k = rng.randrange(6)
                ops.append(("w:" if k < 2 else "a:") + gen.hexs(c) if k < 5 else "F")
                if k == 5:
                    ops.append("v:-/" + gen.hexs(c))
            lines.append("%s %s %s" % ("wcs" if i % 3 != 0 else "wcsx", random_script(rng), ",".join(ops) if ops else "-"))
        yield "grammar-scripted", lines
        from .c06 import literal_ops
        lo = []
        for i in range(n // 3):
            ops = literal_ops(rng)
            data = b"".join(bytes.fromhex(o[2:]) for o in ops.split(",") if len(o) > 2 and o[2:] != "-")
            # concatenated literals may leave the SGR grammar (e.g. "ESC[38;2;1;" + "31mred"): the spec-level
            # oracle applies only when they do not (kind wcs); otherwise implementation = model only (wcsx)
            lo.append("%s %s %s" % ("wcs" if sgrgen.simple_sgr_only(data) else "wcsx", random_script(rng) if i % 3 == 0 else "-", ops))
        yield "literal-formatted-writes", lo
        # single calls far above any internal buffer or console limit (a `write` must consume all it reports)
        lines = []
        sizes = [40000, 70000, (1 << 20) + 4097] + ([(1 << 22) + 17] if tier == "thorough" else [])
        for size in sizes:
            s = []
            while len(s) < size:
                s += sgrgen.styled_text(rng, True, pieces=5) or [0x61]
            tail = list(b"\x1b[35mtail")
            lines.append("wcs - w:%s,a:%s" % (gen.hexs(s), gen.hexs(tail)))
            lines.append("wcs - a:%s,w:%s" % (gen.hexs(s), gen.hexs(tail)))
        yield "huge-single-calls", lines
        # the console stream over the real stdout / stderr, locked between two writes (child process)
        lines = []
        for i in range(150 if tier == "thorough" else 50):
            s = sgrgen.styled_text(rng, True, pieces=rng.choice([2, 3, 5]))
            if i % 3 == 0:
                s = list(b"a\x1b[31;44mb\x1b[32mc")
            if not s:
                continue
            cut = rng.randrange(0, len(s) + 1) if i % 3 else rng.choice([3, 6, 11, 13])
            lines.append("wlk %s %s %s" % (rng.choice(["out", "err"]), gen.hexs(s[:cut]), gen.hexs(s[cut:])))
        yield "locked-std-streams", lines

    @staticmethod
    def _utf8(bs):
        try:
            bytes(bs).decode("utf-8")
            return True
        except UnicodeDecodeError:
            return False

    def observe(self, ctx, name, lines, results):
        """spec-level comparison (accept-all consoles): merged calls = capped runs, merged again"""
        out = []
        if name == "locked-std-streams":
            # `wlk`: what reaches the real stdout / stderr is the console calls in ANSI framing (C17); whatever the framing,
            # its visible text (Spec/Strip) must be the visible text of the input: every run once, in order, no escape byte
            # passed on as text -- also when the stream is locked between the two writes
            from .. import core as _core
            idx = [i for i, l in enumerate(lines) if l.startswith("wlk ")]
            inputs = ["".join(x for x in lines[i].split(" ")[2:4] if x != "-") or "-" for i in idx]
            want = _core.run_parallel([ctx["driver"], "spec"], ["sbcat " + d for d in inputs], "C18w")
            for label, _ in ctx["impls"]:
                got_raw = [results["impl-" + label][i] for i in idx]
                ok = [all(c in "0123456789abcdef-" for c in g) for g in got_raw]
                got = _core.run_parallel([ctx["driver"], "spec"], ["sbcat " + (g if o else "-") for g, o in zip(got_raw, ok)], "C18g")
                for j, i in enumerate(idx):
                    if (not ok[j] or got[j] != want[j]) and len(out) < 5:
                        out.append({"stream": name, "case": lines[i], "build": label, "impl": got_raw[j],
                                    "spec": "visible text " + want[j], "model": results["model"][i]})
            return out
        for label, _ in ctx["impls"]:
            for i, l in enumerate(lines):
                sp = results["spec"][i]
                if not sp.startswith("MERGED"):
                    continue
                want = []
                for item in sp[7:].split(";") if len(sp) > 7 else []:
                    fg, bg, t = item.split("/")
                    t = "" if t == "-" else t
                    if want and want[-1][0] == fg and want[-1][1] == bg:
                        want[-1][2] += t
                    else:
                        want.append([fg, bg, t])
                r = results["impl-" + label][i]
                got = merge_calls(r.split(" | ")[1]) if " | " in r else None
                if got != want and len(out) < 5:
                    out.append({"stream": name, "case": l, "build": label, "impl": r, "spec": sp, "model": results["model"][i]})
        return out

    def nontrivial(self, line, impl):
        p = line.split(" ")
        if p[0] == "wlk":
            return "1b5b" in impl
        return p[1] != "-" or impl.count(";c") > 0

    def shrink_fields(self, line):
        return []
