"""C08 -- AutoStream modes: never strips, always-ansi forwards unchanged."""
from .. import core, gen
from ..runner import Prop
from .c06 import random_ops, random_script

MODES = ["never", "ansi", "always", "auto-never", "auto-ansi", "auto-always"]


class C08(Prop):
    pid = "C08"
    prop_file = "Props/C08.v"
    module = "Props.C08"
    gen_deps = ["Table", "StripFn", "StreamFn", "AutoFn", "GlueFn", "MacrosFn", "FmtFn"]
    harness = ("h-core", "hcore")
    nontrivial_rule = ("cases: seeded random sequences of write / write_all / write_vectored / write_fmt (fragment-controlled Display) / flush through AutoStream created with each of "
                       "Never, AlwaysAnsi, Always and Auto (with the global choice fixed), over Vec<u8>, files, the deprecated anstream::Buffer and scripted writers behind Box<dyn Write>, Box<dyn Write + Send> and Box<dyn Write + Send + Sync> (short writes and errors); formatted writes include argument-free format strings (`write!(s, 'literal')`) cut inside escape sequences; every Never case "
                       "is run again through StripStream directly and must give the identical inner history. Compared: per-call results, bytes delivered, inner call history, reported "
                       "mode, bytes returned by into_inner. non-trivial = distinct case whose operations carry at least one escape byte")
    trusted = ["std::io::Write default methods as transcribed in Spec/Io.v / Model/Stream.v (pass_op)"]
    assumptions = ["non-Windows build: Always = AlwaysAnsi (the Windows console arm is C18's)", "AutoStream::choice for Auto is C09's; here the global choice is set explicitly"]

    def streams(self, tier, rng):
        n = 4000 if tier == "thorough" else 1000
        lines = []
        for i in range(n):
            ops = random_ops(rng)
            mode = MODES[i % len(MODES)]
            wk = rng.choice(["boxed", "boxed", "vec", "file", "send", "sync", "buffer"])
            script = random_script(rng) if wk in ("boxed", "send", "sync") else "-"
            lines.append("strm %s %s %s %s" % (mode, wk, script, ops))
            if mode in ("never", "auto-never"):
                lines.append("strm strip %s %s %s" % (wk, script, ops))
        yield "mixed-ops", lines
        # formatted writes of argument-free format strings (`write!(s, 'literal')`) cut inside escape sequences
        from .c06 import LITS, literal_ops
        lines = []
        for mode in ("never", "ansi", "auto-never"):
            for a in LITS:
                for b in LITS:
                    lines.append("strm %s vec - f:%s,f:%s" % (mode, gen.hexs(list(a.encode())), gen.hexs(list(b.encode()))))
        for i in range(n // 2):
            lines.append("strm %s boxed %s %s" % (MODES[i % len(MODES)], random_script(rng) if i % 2 else "-", literal_ops(rng)))
        yield "literal-formatted-writes", lines
        # the caller protocol over AutoStream::never(..).write: what arrives must be Spec/Strip of the input
        import itertools
        from .c06 import ENTRIES, SHORT_INPUTS
        lines = []
        for inp in SHORT_INPUTS + [list("naïve café €".encode())]:
            for d in range(0, 4):
                for sc in itertools.product(ENTRIES, repeat=d):
                    lines.append("drvn %s %s" % (",".join(sc) if sc else "-", gen.hexs(inp)))
        for _ in range(n // 2):
            lines.append("drvn %s %s" % (random_script(rng, rng.randrange(0, 20)), gen.hexs(gen.grammar_stream(rng, valid_utf8=rng.randrange(2) == 0))))
        yield "never-protocol", lines
        # the real stdout / stderr, locked between two writes (child process, output captured from a pipe)
        lines = []
        for i in range(200 if tier == "thorough" else 60):
            data = gen.grammar_stream(rng, pieces=rng.choice([2, 3, 5]))
            if not data:
                continue
            cut = rng.randrange(0, len(data) + 1)
            if i % 3 == 0:
                data = list(b"<<a\x1b[1mb\x1b[0mc>>")
                cut = rng.choice([5, 6, 7])
            lines.append("lk8 %s %s %s %s" % (rng.choice(["never", "strip", "ansi", "always"]), rng.choice(["out", "err"]), gen.hexs(data[:cut]), gen.hexs(data[cut:])))
        yield "locked-std-streams", lines
        # print! / println! / eprint! / eprintln! on the real stdout / stderr (child process, pipes): every call is a
        # fresh AutoStream::auto stream, the mode comes from the environment (C09's decision, no terminal)
        from .c06 import frag_split as _fs
        envs = [[], [("NO_COLOR", "1")], [("CLICOLOR_FORCE", "1")], [("CLICOLOR", "0")], [("TERM", "dumb")], [("TERM", "xterm-256color")],
                [("CLICOLOR_FORCE", "1"), ("NO_COLOR", "1")], [("CLICOLOR_FORCE", "0")], [("CLICOLOR_FORCE", "")], [("NO_COLOR", "")],
                [("CLICOLOR_FORCE", "1"), ("TERM", "dumb")], [("CI", "true")], [("CLICOLOR", "1"), ("TERM", "xterm")]]
        lines = []
        for i in range(240 if tier == "thorough" else 80):
            calls = []
            for _ in range(rng.choice([1, 1, 2, 3])):
                data = gen.grammar_stream(rng, pieces=rng.choice([1, 2, 3]), valid_utf8=True)
                if i % 4 == 0:
                    data = list(rng.choice(["a\x1b[1mb", "\x1b[31", "mred\x1b[0m", "\x1b]0;t", "x\x07y\u20ac"]).encode())
                calls.append("/".join(gen.hexs(fr) for fr in _fs(rng, data)) if data else "-")
            env = envs[i % len(envs)]
            lines.append(" ".join(["pm", rng.choice(["out", "err"]), str(i // 2 % 2), ",".join(calls)] +
                                  ["%s=%s" % (gen.hexs(list(k.encode())), gen.hexs(list(v.encode())) if v else "-") for k, v in env]))
        yield "print-macros", lines
        # to_adapted_string (what print!/println! use under test): strips or forwards per the decided choice
        from .c06 import frag_split
        lines = []
        for _ in range(n // 4):
            data = gen.grammar_stream(rng, pieces=rng.choice([1, 2, 4]), valid_utf8=True)
            lines.append("tas %s %s" % (rng.choice(["never", "ansi"]), "/".join(gen.hexs(fr) for fr in frag_split(rng, data))))
        yield "to-adapted-string", lines

    def observe(self, ctx, name, lines, results):
        if name == "never-protocol":
            from .c06 import C06
            return C06.observe(self, ctx, "protocol-never", lines, results)
        from .c06 import strm_spec_observe
        return self.observe_modes(ctx, name, lines, results) + strm_spec_observe(name, lines, results, ctx["impls"])

    def observe_modes(self, ctx, name, lines, results):
        """never == strip: the inner history under AutoStream::never equals that under StripStream"""
        out = []
        for label, _ in ctx["impls"]:
            res = results["impl-" + label]
            for i in range(len(lines) - 1):
                a, b = lines[i].split(" "), lines[i + 1].split(" ")
                if a[1] in ("never", "auto-never") and b[1] == "strip" and a[2:] == b[2:]:
                    ra = res[i].rsplit(" | ", 1)[0]
                    rb = res[i + 1].rsplit(" | ", 1)[0]
                    if ra != rb and len(out) < 5:
                        out.append({"stream": name, "case": lines[i], "build": label, "impl": res[i], "spec": "same results / bytes / history as StripStream: " + res[i + 1],
                                    "model": results["model"][i]})
                    if not res[i].endswith("| never") and len(out) < 5:
                        out.append({"stream": name, "case": lines[i], "build": label, "impl": res[i], "spec": "reported mode never", "model": results["model"][i]})
        # always-ansi: with an accept-all writer the delivered bytes are the concatenated data, unchanged
        for label, _ in ctx["impls"]:
            res = results["impl-" + label]
            for l, r in zip(lines, res):
                p = l.split(" ")
                if p[1] in ("ansi", "always", "auto-ansi", "auto-always") and p[2] in ("vec", "file"):   # (Buffer: std's default write_vectored)
                    want = ""
                    for op in p[4].split(","):
                        if op[:1] in ("w", "a"):
                            want += "" if op[2:] == "-" else op[2:]
                        elif op[:1] == "f":
                            want += "".join("" if x == "-" else x for x in op[2:].split("/"))
                        elif op[:1] == "v":
                            want += "".join(x for x in op[2:].split("/") if x != "-")   # Vec / File write every buffer
                    got = r.split(" | ")[1]
                    got = "" if got == "-" else got
                    if (got != want or not r.endswith("| ansi")) and len(out) < 5:
                        out.append({"stream": name, "case": l, "build": label, "impl": r, "spec": "bytes forwarded unchanged: %s, mode ansi" % (want or "-"), "model": "-"})
        # never / strip: with an accept-all writer the delivered bytes are Spec/Strip of the concatenated data
        idx, asks = [], []
        for i, l in enumerate(lines):
            p = l.split(" ")
            # (a vectored write may stop after its first non-empty buffer: those cases are left to the never == strip comparison)
            if p[0] == "strm" and p[1] in ("never", "auto-never", "strip") and p[2] in ("vec", "file", "buffer") and ",v:" not in "," + p[4]:
                parts = []
                for op in p[4].split(","):
                    if op[:1] in ("w", "a"):
                        parts.append(op[2:])
                    elif op[:1] in ("f", "v"):
                        parts += op[2:].split("/")
                parts = [x for x in parts if x and x != "-"]
                idx.append(i)
                asks.append("tas never %s" % ("/".join(parts) if parts else "-"))
        if asks:
            drv, _ = core.build_driver()
            wants = core.run_parallel([drv, "spec"], asks, "C08strip")
            for label, _ in ctx["impls"]:
                res = results["impl-" + label]
                for i, want in zip(idx, wants):
                    got = res[i].split(" | ")[1] if " | " in res[i] else res[i]
                    if got != want and len(out) < 5:
                        out.append({"stream": name, "case": lines[i], "build": label, "impl": res[i], "spec": "delivered bytes = Spec/Strip of the data: " + want,
                                    "model": results["model"][i]})
        return out

    def nontrivial(self, line, impl):
        p = line.split(" ")
        return "1b" in (p[4] if p[0] == "strm" else (p[3] + p[4]) if p[0] == "lk8" else p[3] if p[0] == "pm" else p[2])

    def shrink_fields(self, line):
        return []
