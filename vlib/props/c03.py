"""C03 -- incremental processing equals one-shot processing for every chunking."""
from .. import gen, sgrgen
from ..runner import Prop
from .c01 import is_utf8


def char_boundaries(bs):
    return [i for i in range(1, len(bs)) if not (0x80 <= bs[i] <= 0xBF)]


SHORT_INPUTS = [
    [0x1B, 0x5B, 0x33, 0x32, 0x6D, 0x66, 0x6F, 0x6F],            # ESC[32mfoo
    [0x61, 0x1B, 0x5B, 0x0A, 0x33, 0x6D, 0x58],                  # a ESC[ LF 3 m X
    [0x1B, 0x5D, 0x30, 0x3B, 0x61, 0x07, 0x62, 0xC3, 0xA9],      # OSC 0;a BEL b e-acute
    [0xE2, 0x82, 0xAC, 0x1B, 0x5B, 0x6D, 0xE2, 0x82, 0xAC],      # euro ESC[m euro
    [0x61, 0x1B, 0x50, 0x71, 0x78, 0x1B, 0x5C, 0x62],            # DCS q x ST b
    [0xF0, 0x9F, 0x98, 0x80, 0x1B, 0x5B, 0x31, 0x6D, 0x0D, 0x0A],
    [0x1B, 0x1B, 0x5B, 0x3B, 0x3A, 0x6D, 0x09, 0x7F, 0x41],
    [0x41, 0x18, 0x1B, 0x5B, 0x18, 0x42, 0x1B, 0x58, 0x43, 0x9C, 0x44],
]


class C03(Prop):
    pid = "C03"
    prop_file = "Props/C03.v"
    module = "Props.C03"
    gen_deps = ["Table", "StripFn", "ParserFn", "WinconFn", "StreamFn", "Utf8parseFn"]
    harness = ("h-core", "hcore")
    nontrivial_rule = ("cases: all 2^(n-1) partitions of short escape-rich inputs (n<=11) and of random grammar inputs (n<=9 quick, 12 thorough); seeded random "
                       "partitions (single-byte, fixed stride, random cuts) of long grammar streams; byte API cut anywhere, text API cut at character boundaries. "
                       "non-trivial = distinct case with at least one cut whose input loses at least one byte to stripping")
    trusted = ["third-party utf8parse automaton: TRANSLATED from the registry source of the version Cargo.lock pins (tools/gen_fn_utf8parse.py: unpacked source = the archive of the lock file's checksum = the directory cargo metadata reports for the harness crates) and proved equal to Model/Utf8parse.v (Proofs/Utf8parseGen.v); also tied by every multi-byte case. Trusted: cargo builds the harness from that directory; a Receiver = the list of calls it gets; char::from_u32_unchecked = identity (precondition proved)"]
    assumptions = ["input bytes are < 256 (u8)", "text chunks are valid UTF-8 (type &str)"]

    def streams(self, tier, rng):
        maxn = 12 if tier == "thorough" else 9
        lines = []
        shorts = list(SHORT_INPUTS)
        for _ in range(30 if tier == "thorough" else 12):
            s = gen.grammar_stream(rng, pieces=2)[:maxn]
            shorts.append(s)
        for s in shorts:
            h = gen.hexs(s)
            utf = is_utf8(s)
            cb = set(char_boundaries(s))
            for cuts in gen.partitions_all(len(s)):
                c = ",".join(map(str, cuts)) if cuts else "-"
                lines.append("sbc %s %s" % (h, c))
                lines.append("sbccat %s %s" % (h, c))
                if utf and all(x in cb for x in cuts):
                    lines.append("ssc %s %s" % (h, c))
                    lines.append("ssccat %s %s" % (h, c))
        yield "all-partitions", lines
        # styled-run extractor: merged runs must not depend on the chunking
        lines = []
        wshort = [list(b"a\x1b[31mb\x1b[1;4:3mc"), list(b"\x1b[38;5;9mx\x1b[0my"), list("\u20ac\x1b[48;2;1;2;3mz".encode())]
        for _ in range(10 if tier == "thorough" else 4):
            wshort.append(sgrgen.styled_text(rng, True, pieces=3)[:maxn + 2])
        for s in wshort:
            h = gen.hexs(s)
            for cuts in gen.partitions_all(len(s)):
                lines.append("wxm %s %s" % (h, ",".join(map(str, cuts)) if cuts else "-"))
        yield "wincon-all-partitions", lines
        lines = []
        for _ in range(1500 if tier == "thorough" else 400):
            s = sgrgen.styled_text(rng, True)
            if not s:
                continue
            cuts = gen.random_cuts(rng, len(s))
            lines.append("wxm %s %s" % (gen.hexs(s), ",".join(map(str, cuts)) if cuts else "-"))
        yield "wincon-random-partitions", lines
        n = 6000 if tier == "thorough" else 1500
        lines = []
        for i in range(n):
            utf = i % 2 == 0
            s = gen.grammar_stream(rng, valid_utf8=utf)
            if not s:
                continue
            h = gen.hexs(s)
            cuts = gen.random_cuts(rng, len(s))
            if utf:
                cb = set(char_boundaries(s))
                cuts = [x for x in cuts if x in cb]
            c = ",".join(map(str, cuts)) if cuts else "-"
            lines.append("sbc %s %s" % (h, c))
            lines.append("sbccat %s %s" % (h, c))
            if utf:
                lines.append("ssc %s %s" % (h, c))
                lines.append("ssccat %s %s" % (h, c))
        yield "random-partitions", lines
        # one-shot iterator continued with `extend` on the next slice (cuts anywhere, also inside characters)
        lines = []
        for s in shorts:
            for cut in range(0, len(s) + 1):
                lines.append("sbxcat %s %s %d" % (gen.hexs(s[:cut]), gen.hexs(s[cut:]), rng.randrange(0, 3)))
        for _ in range(n // 3):
            s = gen.grammar_stream(rng, pieces=rng.choice([2, 3, 5])) + gen.utf8_text(rng, 4)
            cut = rng.randrange(0, len(s) + 1)
            lines.append("sbxcat %s %s %d" % (gen.hexs(s[:cut]), gen.hexs(s[cut:]), rng.randrange(0, 3)))
        yield "extend-next-slice", lines
        # the strip stream, write_all / write_fmt per chunk: seeded chunkings of grammar streams, and chunks at and
        # beyond 64 KiB that end inside a sequence or a character (Spec/Strip oracle on the delivered bytes)
        from .c06 import big_chunk_cases
        lines = []
        for i in range(n // 3):
            s = gen.grammar_stream(rng, valid_utf8=True)
            if not s:
                continue
            cb = set(char_boundaries(s))
            cuts = [x for x in gen.random_cuts(rng, len(s)) if (i % 2 or x in cb)]
            chunks = gen.apply_cuts(s, cuts)
            op = "a" if i % 2 else "f"
            if op == "f" and not all(is_utf8(c) for c in chunks):
                op = "a"
            lines.append("strm %s vec - %s" % (rng.choice(["strip", "never"]), ",".join("%s:%s" % (op, gen.hexs(c)) for c in chunks if c)))
        yield "stream-chunked-write_all", [l for l in lines if not l.endswith(" - ")]
        yield "stream-chunks-beyond-64KiB", big_chunk_cases(rng, tier == "thorough")
        # a chunk cut right after a prefix that leaves a rare state behind, then a long plain run at a power-of-two length
        lines = []
        for data, cuts in gen.threshold_cases(rng, tier == "thorough"):
            c = ",".join(map(str, cuts)) if cuts else "-"
            lines.append("sbccat %s %s" % (gen.hexs(data), c))
            chunks = [ch for ch in gen.apply_cuts(data, cuts) if ch]
            lines.append("strm strip vec - " + ",".join("a:" + gen.hexs(ch) for ch in chunks))
        yield "threshold-runs-after-rare-states", lines
        # two chunks through a StripStream / never-stream over the REAL stdout / stderr (child process, pipe captured) with
        # `.lock()` between them: handing the stream over is not a chunk boundary the result may depend on
        lines = []
        for i in range(120 if tier == "thorough" else 40):
            data = gen.grammar_stream(rng, pieces=rng.choice([2, 3, 5]))
            if i % 3 == 0:
                data = list("<<a\x1b[1mb\x1b]0;t\x07\u20acc>>".encode())
            if not data:
                continue
            cut = rng.randrange(0, len(data) + 1)
            lines.append("lk8 %s %s %s %s" % (rng.choice(["strip", "never"]), rng.choice(["out", "err"]), gen.hexs(data[:cut]), gen.hexs(data[cut:])))
        yield "locked-std-streams", lines

    def observe(self, ctx, name, lines, results):
        from .c06 import strm_spec_observe
        return strm_spec_observe(name, lines, results, ctx["impls"])

    def nontrivial(self, line, impl):
        parts = line.split(" ")
        if parts[0] == "strm":
            return "1b" in parts[4]
        if parts[0] == "lk8":
            return "1b" in parts[3] + parts[4]
        if parts[0] in ("sbccat", "ssccat"):
            return parts[2] != "-" and impl != parts[1]
        if parts[0] == "sbxcat":
            return impl != ((parts[1] if parts[1] != "-" else "") + (parts[2] if parts[2] != "-" else "") or "-")
        if parts[0] == "wxm":
            return parts[2] != "-" and impl.count("=") > 1
        return False

    def shrink_fields(self, line):
        return []  # cut positions refer to offsets in the data; no byte-level shrinking
