"""C01 -- stripping removes exactly the escape sequences and nothing else."""
from .. import core, gen
from ..runner import Prop


def is_utf8(bs):
    try:
        bytes(bs).decode("utf-8")
        return True
    except UnicodeDecodeError:
        return False


class C01(Prop):
    pid = "C01"
    prop_file = "Props/C01.v"
    module = "Props.C01"
    gen_deps = ["Table", "StripFn", "StreamFn", "Utf8parseFn"]
    harness = ("h-core", "hcore")
    nontrivial_rule = ("cases: every byte string up to length L over the 28-symbol class alphabet (exhaustive; L=3 quick, 4 thorough) through strip_bytes "
                       "(pieces with offsets, and concatenation vs Spec/Strip), its valid-UTF-8 subset through strip_str; grammar streams (escape sequences, "
                       "truncations, controls inside sequences, C1 bytes, malformed UTF-8) up to several KiB. non-trivial = distinct input from which at least one byte is removed")
    trusted = ["third-party utf8parse automaton: TRANSLATED from the registry source of the version Cargo.lock pins (tools/gen_fn_utf8parse.py: unpacked source = the archive of the lock file's checksum = the directory cargo metadata reports for the harness crates) and proved equal to Model/Utf8parse.v (Proofs/Utf8parseGen.v); also tied by every multi-byte case. Trusted: cargo builds the harness from that directory; a Receiver = the list of calls it gets; char::from_u32_unchecked = identity (precondition proved)"]
    assumptions = ["input bytes are < 256 (u8)", "the text API is only given valid UTF-8 (type &str)"]

    def streams(self, tier, rng):
        L = 4 if tier == "thorough" else 3
        ex = list(gen.exhaustive(gen.CLASS_ALPHABET, L))
        lines = []
        for s in ex:
            h = gen.hexs(s)
            lines.append("sb " + h)
            lines.append("sbcat " + h)
            if is_utf8(s):
                lines.append("ss " + h)
                lines.append("sscat " + h)
        yield "exhaustive-len<=%d" % L, lines
        n = 12000 if tier == "thorough" else 2500
        lines = []
        for i in range(n):
            s = gen.grammar_stream(rng)
            h = gen.hexs(s)
            lines.append("sb " + h)
            lines.append("sbcat " + h)
        yield "grammar-bytes", lines
        lines = []
        for i in range(n):
            s = gen.grammar_stream(rng, valid_utf8=True)
            h = gen.hexs(s)
            lines.append("ss " + h)
            lines.append("sscat " + h)
            lines.append("sbcat " + h)
        yield "grammar-utf8", lines
        lines = []
        for i in range(n // 2):
            s = []
            for _ in range(rng.randrange(1, 10)):
                k = rng.randrange(4)
                if k == 0:
                    s += gen.malformed_utf8(rng)
                elif k == 1:
                    s += gen.csi(rng)
                elif k == 2:
                    s += gen.utf8_text(rng, 3)
                else:
                    s += [rng.choice([0x1B, 0x7F, 0x07, 0x0A, 0x18, 0x9C, 0x80])]
            h = gen.hexs(s)
            lines.append("sb " + h)
            lines.append("sbcat " + h)
        yield "malformed-utf8", lines

        # the incremental adapters and the never-colour stream, fed chunk by chunk
        lines = []
        for i in range(n):
            s = gen.grammar_stream(rng, pieces=rng.choice([2, 4, 8]))
            if rng.randrange(3) == 0:
                s = s + gen.malformed_utf8(rng) + gen.utf8_text(rng, 4) + gen.csi(rng) + gen.utf8_text(rng, 3)
            if not s:
                continue
            h = gen.hexs(s)
            for cuts in (gen.random_cuts(rng, len(s)), list(range(1, len(s))) if len(s) < 40 else gen.random_cuts(rng, len(s))):
                c = ",".join(map(str, cuts)) if cuts else "-"
                lines.append("sbccat %s %s" % (h, c))
                chunks = gen.apply_cuts(s, cuts)
                lines.append("strm never vec - " + ",".join("a:" + gen.hexs(ch) for ch in chunks))
        for data, cuts in gen.threshold_cases(rng, tier == "thorough"):
            c = ",".join(map(str, cuts)) if cuts else "-"
            lines.append("sbccat %s %s" % (gen.hexs(data), c))
            lines.append("strm never vec - " + ",".join("a:" + gen.hexs(ch) for ch in gen.apply_cuts(data, cuts) if ch))
        yield "incremental-and-never-stream", lines
        # the never-colour stream over the REAL stdout / stderr (child process, pipe captured), `.lock()` between two writes:
        # what arrives is still exactly the visible text of the whole input
        lines = []
        for i in range(90 if tier == "thorough" else 30):
            data = gen.grammar_stream(rng, pieces=rng.choice([2, 3, 5]))
            if i % 3 == 0:
                data = list("<<a\x1b[1mb\x1b]0;t\x07\u20acc>>".encode())
            if not data:
                continue
            cut = rng.randrange(0, len(data) + 1)
            lines.append("lk8 never %s %s %s" % (rng.choice(["out", "err"]), gen.hexs(data[:cut]), gen.hexs(data[cut:])))
        yield "locked-never-stream", lines
        # partly consumed one-shot iterators: Display / to_string / into_vec / is_empty / extend
        lines = []
        for i in range(n // 2):
            s = gen.grammar_stream(rng, pieces=rng.choice([2, 4, 8]), valid_utf8=True)
            if rng.randrange(2):
                s = s + [0x1B, 0x5B, 0x33] + [rng.choice([0x0A, 0x09, 0x0D])] + list(b"1mX") + gen.utf8_text(rng, 3)
            k = rng.randrange(0, 4)
            lines.append("ssd %s %d" % (gen.hexs(s), k))
            lines.append("ssdcat %s %d" % (gen.hexs(s), k))
            t = gen.grammar_stream(rng, pieces=2)
            lines.append("sbx %s %s %d" % (gen.hexs(gen.grammar_stream(rng, pieces=3)), gen.hexs(t), k))
            # one input cut anywhere (inside a sequence, inside a character): drained, (for odd k: cloned,) extended, drained --
            # everything yielded, concatenated, is Spec/Strip of the whole input
            u = gen.grammar_stream(rng, pieces=rng.choice([2, 3, 5]), valid_utf8=bool(rng.randrange(4)))
            if u:
                cut = rng.randrange(0, len(u) + 1)
                lines.append("sbxcat %s %s %d" % (gen.hexs(u[:cut]), gen.hexs(u[cut:]), k))
            w = gen.utf8_text(rng, 2) + [0xF0, 0x9F, 0x98, 0x80] + gen.utf8_text(rng, 1) + [0xE2, 0x82, 0xAC]
            cut = len(w) - rng.choice([1, 2, 4, 5, 6])
            lines.append("sbxcat %s %s %d" % (gen.hexs(w[:cut]), gen.hexs(w[cut:]), rng.choice([1, 3, 0])))
        yield "partly-consumed-iterators", lines

    def observe(self, ctx, name, lines, results):
        """a never-colour stream fed by write_all delivers exactly Spec/Strip of the whole input"""
        if name != "incremental-and-never-stream":
            return []
        idx = [i for i, l in enumerate(lines) if l.startswith("strm ")]
        datas = ["".join("" if op[2:] == "-" else op[2:] for op in lines[i].split(" ")[4].split(",")) or "-" for i in idx]
        spec = core.run_parallel([ctx["driver"], "spec"], ["sbcat " + d for d in datas], "C01n")
        out = []
        for label, _ in ctx["impls"]:
            for j, i in enumerate(idx):
                got = results["impl-" + label][i].split(" | ")[1]
                if got != spec[j] and len(out) < 5:
                    out.append({"stream": name, "case": lines[i], "build": label, "impl": results["impl-" + label][i],
                                "spec": "delivered = " + spec[j], "model": results["model"][i]})
        return out

    def nontrivial(self, line, impl):
        parts = line.split(" ")
        if parts[0] in ("sbcat", "sscat", "sbccat"):
            return impl != parts[1]
        if parts[0] == "lk8":
            return "1b" in parts[3] + parts[4]
        return False
