"""C01 -- stripping removes exactly the escape sequences and nothing else."""
from .. import gen
from ..runner import Prop


def is_utf8(bs):
    try:
        bytes(bs).decode("utf-8")
        return True
    except UnicodeDecodeError:
        return False


class C01(Prop):
    pid = "C01"
    prop_file = "Props/C01.v"
    module = "Props.C01"
    gen_deps = ["Table"]
    harness = ("h-core", "hcore")
    nontrivial_rule = ("cases: every byte string up to length L over the 28-symbol class alphabet (exhaustive; L=3 quick, 4 thorough) through strip_bytes "
                       "(pieces with offsets, and concatenation vs Spec/Strip), its valid-UTF-8 subset through strip_str; grammar streams (escape sequences, "
                       "truncations, controls inside sequences, C1 bytes, malformed UTF-8) up to several KiB. non-trivial = distinct input from which at least one byte is removed")
    trusted = ["third-party utf8parse automaton: transcribed (Model/Utf8parse.v), tied by every multi-byte case"]
    assumptions = ["input bytes are < 256 (u8)", "the text API is only given valid UTF-8 (type &str)"]

    def streams(self, tier, rng):
        L = 4 if tier == "thorough" else 3
        ex = list(gen.exhaustive(gen.CLASS_ALPHABET, L))
        lines = []
        for s in ex:
            h = gen.hexs(s)
            lines.append("sb " + h)
            lines.append("sbcat " + h)
            if is_utf8(s):
                lines.append("ss " + h)
                lines.append("sscat " + h)
        yield "exhaustive-len<=%d" % L, lines
        n = 12000 if tier == "thorough" else 2500
        lines = []
        for i in range(n):
            s = gen.grammar_stream(rng)
            h = gen.hexs(s)
            lines.append("sb " + h)
            lines.append("sbcat " + h)
        yield "grammar-bytes", lines
        lines = []
        for i in range(n):
            s = gen.grammar_stream(rng, valid_utf8=True)
            h = gen.hexs(s)
            lines.append("ss " + h)
            lines.append("sscat " + h)
            lines.append("sbcat " + h)
        yield "grammar-utf8", lines
        lines = []
        for i in range(n // 2):
            s = []
            for _ in range(rng.randrange(1, 10)):
                k = rng.randrange(4)
                if k == 0:
                    s += gen.malformed_utf8(rng)
                elif k == 1:
                    s += gen.csi(rng)
                elif k == 2:
                    s += gen.utf8_text(rng, 3)
                else:
                    s += [rng.choice([0x1B, 0x7F, 0x07, 0x0A, 0x18, 0x9C, 0x80])]
            h = gen.hexs(s)
            lines.append("sb " + h)
            lines.append("sbcat " + h)
        yield "malformed-utf8", lines

    def nontrivial(self, line, impl):
        parts = line.split(" ")
        if parts[0] in ("sbcat", "sscat"):
            return impl != parts[1]
        return False
