"""C07 -- styled-run extraction follows standard SGR semantics."""
import itertools

from .. import gen, sgrgen
from ..runner import Prop

REP_GROUPS = ["", "0", "1", "3", "4", "9", "21", "31", "39", "44", "49", "93", "104", "4:3", "4:0", "38;5;9", "38:5:9", "48;2;1;2;3",
              "58:2:4:5:6", "58;5;1", "12", "200"]


class C07(Prop):
    pid = "C07"
    prop_file = "Props/C07.v"
    module = "Props.C07"
    gen_deps = ["Table", "ParserFn", "WinconFn", "Utf8parseFn"]
    harness = ("h-core", "hcore")
    nontrivial_rule = ("cases: exhaustively all single SGR sequences of up to 3 attribute groups over a 22-element representative set (both spellings), each followed "
                       "by text and preceded by text; seeded UTF-8 texts interleaved with grammar SGR sequences (<=32 values, leading zeros, empty params, unknown codes), "
                       "other CSI/OSC/ESC/DCS sequences and chunkings; out-of-grammar streams compared implementation vs model only. "
                       "non-trivial = distinct case whose result has at least one run with a non-default style")
    trusted = ["third-party utf8parse automaton: translated from the registry source of the version Cargo.lock pins and proved equal to Model/Utf8parse.v (Generated/Utf8parseFn.v, Proofs/Utf8parseGen.v; theorems under C01-C04, C20); also tied by the correspondence runs"]
    assumptions = ["SGR sequences are drawn from the grammar G of DESIGN.md C07 (components <= 255, complete extended-colour forms, underline changes only when no "
                   "other underline kind is set); outside G only implementation = model is checked"]

    def streams(self, tier, rng):
        lines = []
        k = 3 if tier == "thorough" else 2
        for n in range(1, k + 1):
            for combo in itertools.product(REP_GROUPS, repeat=n):
                # respect ul_simple: at most one underline-changing group unless a reset precedes
                ulc = [g for g in combo if g in ("4", "21", "4:3", "4:0")]
                if len(ulc) > 1:
                    continue
                seq = [0x41, 0x1B, 0x5B] + list(";".join(combo).encode()) + [0x6D, 0x42]
                h = gen.hexs(seq)
                lines.append("wx %s -" % h)
                lines.append("wxm %s -" % h)
        yield "exhaustive-sequences<=%d" % k, lines
        n = 8000 if tier == "thorough" else 2000
        lines = []
        for _ in range(n):
            s = sgrgen.styled_text(rng, True)
            h = gen.hexs(s)
            cuts = gen.random_cuts(rng, len(s))
            c = ",".join(map(str, cuts)) if cuts else "-"
            lines.append("wx %s %s" % (h, c))
            lines.append("wxm %s %s" % (h, c))
            lines.append("wxm %s -" % h)
        yield "grammar-texts", lines
        lines = []
        for _ in range(n):
            s = sgrgen.styled_text(rng, False) if rng.randrange(2) else gen.grammar_stream(rng)
            cuts = gen.random_cuts(rng, len(s))
            c = ",".join(map(str, cuts)) if cuts else "-"
            lines.append("wx %s %s" % (gen.hexs(s), c))
        yield "out-of-grammar(model-only)", lines

    def nontrivial(self, line, impl):
        return any(not tok.startswith("-,-,-,0=") for tok in impl.split(" ") if "=" in tok)

    def shrink_fields(self, line):
        return []   # byte-level shrinking would leave the SGR grammar the specification is stated on
