"""C12 -- the LS_COLORS parser applies SGR codes left to right."""
import itertools

from .. import gen
from ..runner import Prop

EXT_ATOMS = ["38;5;0", "38;5;201", "38;2;1;2;3", "48;5;17", "48;2;255;0;128", "58;5;9", "58;2;0;0;0", "58;2;10;200;30"]
KNOWN = [0] + list(range(1, 10)) + [22, 23, 24, 25, 27, 28, 29] + list(range(30, 38)) + [39] + list(range(40, 48)) + [49, 59] \
    + list(range(90, 98)) + list(range(100, 108))
NON_ASCII_DIGITS = ["٣", "１", "²", "१", "\U0001d7d9"]


def case(s):
    return "ls " + gen.hexs(list(s.encode("utf-8")))


def wf_codes(rng, maxlen=40):
    """a well-formed code list as a list of printed fields (leading zeros allowed)"""
    out = []
    n = rng.randint(1, maxlen)
    while len(out) < n:
        k = rng.randrange(10)
        if k < 5:
            fields = [rng.choice(KNOWN)]
        elif k < 7:
            fields = [rng.randrange(0, 256)]
            if fields[0] in (38, 48, 58):
                fields = [rng.choice([10, 21, 26, 50, 60, 99, 108, 255])]
        elif k == 7:
            fields = [rng.choice([38, 48, 58]), 5, rng.randrange(0, 256)]
        elif k == 8:
            fields = [rng.choice([38, 48, 58]), 2, rng.randrange(0, 256), rng.randrange(0, 256), rng.randrange(0, 256)]
        else:
            fields = [rng.choice([0, 22, 24, 39, 49, 59])]
        for v in fields:
            z = rng.choice([0, 0, 0, 1, 1, 2, 5]) if rng.randrange(3) == 0 else 0
            out.append("0" * z + str(v))
    return out


def malformed(rng):
    fields = wf_codes(rng, 6)
    for _ in range(rng.randint(1, 2)):
        i = rng.randrange(len(fields))
        k = rng.randrange(16)
        if k == 0:
            fields[i] = ""
        elif k == 1:
            fields[i] = "+" + fields[i]
        elif k == 2:
            fields[i] = "-" + fields[i]
        elif k == 3:
            fields[i] = rng.choice([" ", "\t", " "]) + fields[i]
        elif k == 4:
            fields[i] = fields[i] + rng.choice([" ", "\n", "　"])
        elif k == 5:
            fields[i] = str(rng.choice([256, 257, 260, 299, 300, 999, 1000, 65535, 65536, 4294967296, 10 ** 30]))
        elif k == 6:
            fields[i] = "0" * rng.randint(1, 30) + str(rng.choice([0, 7, 255, 256, 31]))
        elif k == 7:
            fields[i] = rng.choice(NON_ASCII_DIGITS) + (fields[i] if rng.randrange(2) else "")
        elif k == 8:
            fields[i] = fields[i] + rng.choice(["a", "x", "m", ":", ",", ".", "e1", "_", "é", "\U0001f600"])
        elif k == 9:
            fields[i] = rng.choice(["+", "-", "++1", "+-1", "-+1", "+ 1", "+0", "+00", "+255", "+256", "-0", "0x1f", "1e1", "١"])
        elif k == 10:
            fields.insert(i, "")
        elif k == 11:
            # truncated / unknown extended-colour forms
            fields[i:] = [rng.choice(["38", "48", "58"])] + rng.choice([[], ["5"], ["2"], ["2", "1"], ["2", "1", "2"], ["7", "1", "1"], ["0", "3"], ["5", "300"]])
        elif k == 12:
            fields.append("")
        elif k == 13:
            fields[i] = fields[i].replace("", ";", 1) if rng.randrange(2) else fields[i] + ";"
        elif k == 14:
            fields[i] = "".join(rng.choice("0123456789+-; ;;") for _ in range(rng.randint(0, 6)))
        else:
            fields[i] = gen_unicode(rng)
    return ";".join(fields)


def gen_unicode(rng):
    out = []
    for _ in range(rng.randint(1, 4)):
        k = rng.randrange(5)
        if k == 0:
            out.append(chr(rng.randrange(0x20, 0x7F)))
        elif k == 1:
            out.append(chr(rng.randrange(0x80, 0x800)))
        elif k == 2:
            cp = rng.randrange(0x800, 0x10000)
            out.append(chr(cp if not 0xD800 <= cp < 0xE000 else 0x20AC))
        elif k == 3:
            out.append(chr(rng.randrange(0x10000, 0x110000)))
        else:
            out.append(rng.choice("0123456789;"))
    return "".join(out)


class C12(Prop):
    pid = "C12"
    prop_file = "Props/C12.v"
    module = "Props.C12"
    gen_deps = ["Ls", "LsFn"]
    harness = ("h-text", "htext")
    nontrivial_rule = ("cases: every list of up to L atoms (L=2 quick, 3 thorough) where an atom is a code 0..=110 or one of 8 complete extended-colour forms "
                       "(38/48/58 with ;5;n and ;2;r;g;b) -- exhaustive; every code 0..=255 alone with 0-3 leading zeros; seeded random well-formed lists of up to 40 "
                       "codes with leading zeros; malformed inputs (empty fields, '+'/'-' signs, spaces, values > 255, huge digit strings, non-ASCII digits, "
                       "truncated or unknown extended forms, arbitrary Unicode). All three sides (anstyle_ls::parse, extracted Model/Ls.ls_parse, extracted "
                       "Spec/SgrCodes.spec_ls) on every case. non-trivial = distinct input for which the crate returns a style with at least one colour or effect set")
    trusted = ["Rust std str::parse::<u8> and str::split: transcribed (Model/Text.v), tied by the malformed-number cases",
               "translator tools/gen_text.py (match arms of anstyle_ls::parse, literals of the early return, separator; effect bit numbers and AnsiColor order from anstyle)"]
    assumptions = ["the input is a Rust &str (valid UTF-8); the model reads its bytes (< 256)",
                   "fields of the form '+' followed by a number in 0-255 (accepted by Rust's parse::<u8>) are left open by the statement: the spec side answers N/A there, "
                   "the model follows the code and is compared with it",
                   "a 38/48/58 code not followed by a complete ;5;n or ;2;r;g;b form is outside the statement (the crate stops parsing there and keeps the style so far): "
                   "spec N/A, model = code compared"]

    def streams(self, tier, rng):
        L = 3 if tier == "thorough" else 2
        atoms = [str(i) for i in range(0, 111)] + EXT_ATOMS
        lines = [case("")]
        for n in range(1, L + 1):
            for t in itertools.product(atoms, repeat=n):
                lines.append(case(";".join(t)))
        yield "exhaustive-atoms<=%d" % L, lines
        lines = []
        for c in range(256):
            for z in range(4):
                lines.append(case("0" * z + str(c)))
        for z in range(0, 6):
            lines.append(case("0" * z))
            lines.append(case("0" * z + ";" + "0" * z))
            lines.append(case("31;" + "0" * z))
        yield "single-code-leading-zeros", lines
        n = 40000 if tier == "thorough" else 6000
        yield "random-well-formed", [case(";".join(wf_codes(rng))) for _ in range(n)]
        yield "malformed", [case(malformed(rng)) for _ in range(n)]
        # very long lists (hundreds of fields): late codes, late resets and late malformed fields count
        lines = []
        for i in range(40 if tier == "thorough" else 12):
            fields = wf_codes(rng, maxlen=rng.choice([250, 300, 600]))
            lines.append(case(";".join(fields)))
            lines.append(case(";".join(fields + ["0", "1"])))
            lines.append(case(";".join(fields + [rng.choice(["", "x", "256", "-1"])])))
        yield "very-long-lists", lines
        # lists past every 16-bit count: the field that decides comes after position 65535 / 70000
        lines = []
        for count in ([66000, 70001] if tier == "thorough" else [66000]):
            fields = [rng.choice(["1", "3", "4", "31", "42", "0", "22", "39"]) for _ in range(count)]
            lines.append(case(";".join(fields + ["0", "1", "35"])))
            lines.append(case(";".join(fields + ["0", "4", "x"])))
        yield "lists-beyond-65535-fields", lines

    def nontrivial(self, line, impl):
        return impl.startswith("fg=") and impl != "fg=none bg=none ul=none eff=0"
