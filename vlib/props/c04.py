"""C04 -- no panic, overflow or memory error on any untrusted input.

The correspondence of this property is "the implementation never answers PANIC, in a
build with overflow checks and debug assertions AND in a release build, and agrees
with the extracted model" on HOSTILE inputs, through EVERY harness binary:

  h-core      c02 c02after tbl | sb sbcat sbc sbccat ss sscat ssc ssccat | wx | strm drv drvn drvv | rnd rnc rne rnr
  h-wincon    wcsx (the legacy-console stream over scripted consoles)
  h-text      git ls
  h-lossy     a16l x256l lrgb lidx lans (extreme palettes)
  h-render    svgraw (byte for byte; the widths are computed by the translated unicode-width, the extra fields are ignored)
  h-roff      roffo roffcolor
  h-parsecfg  pc default, c02 (the crate's default feature set)

The h-core part runs through the runner's ordinary three-way path (`streams`), the other
harnesses through `extra_checks`; every case is judged by the same rule (`judge`):
PANIC in any build = violation, implementation != model = violation (the tie), a harness
that does not know the kind = broken check."""
import hashlib
import json
import os
import sys
import time

from .. import core, gen, svgparse
from ..runner import Prop
from . import c05, c10, c11, c12, c14, c15, c20
from .c01 import is_utf8
from .c03 import char_boundaries

# ---------------------------------------------------------------------------------------
# hostile inputs

# code points with a reputation: NUL, C0 / C1 controls, DEL, NBSP, soft hyphen, combining marks,
# zero-width and bidi controls, line / paragraph separators, variation selectors, BOM, the
# neighbours of the surrogate gap, the specials block, non-characters, astral planes, the last
# scalar value
SPECIAL_CPS = [0x00, 0x01, 0x07, 0x08, 0x09, 0x0A, 0x0B, 0x0C, 0x0D, 0x0E, 0x18, 0x1A, 0x1B, 0x1F, 0x20, 0x22, 0x23, 0x26, 0x27, 0x2B, 0x2D,
               0x3A, 0x3B, 0x3C, 0x3E, 0x5B, 0x5C, 0x5D, 0x6D, 0x7F, 0x80, 0x84, 0x85, 0x8D, 0x90, 0x9B, 0x9C, 0x9D, 0x9F, 0xA0, 0xAD,
               0xDF, 0x131, 0x17F, 0x300, 0x301, 0x338, 0x20D7, 0x0E49, 0x1AB0, 0x200B, 0x200C, 0x200D, 0x200E, 0x202E, 0x2028, 0x2029, 0x2060,
               0x3000, 0x3099, 0xAC00, 0xD7FF, 0xE000, 0xF8FF, 0xFE0F, 0xFEFF, 0xFF10, 0xFF21, 0xFFF9, 0xFFFC, 0xFFFD, 0xFFFE, 0xFFFF,
               0x10000, 0x1D7D9, 0x1F600, 0x1F1E6, 0x2FFFE, 0xE0001, 0xE0100, 0xE01EF, 0xF0000, 0x10FFFD, 0x10FFFE, 0x10FFFF]


def rand_cp(rng, exclude=()):
    while True:
        k = rng.randrange(10)
        if k < 3:
            cp = rng.choice(SPECIAL_CPS)
        elif k == 3:
            cp = rng.randrange(0x20, 0x7F)
        elif k == 4:
            cp = rng.randrange(0x00, 0x100)
        elif k == 5:
            cp = rng.randrange(0x100, 0x800)
        elif k == 6:
            cp = rng.randrange(0x800, 0x10000)
        elif k == 7:
            cp = rng.randrange(0x10000, 0x110000)
        elif k == 8:
            cp = rng.choice([0xD7FF - rng.randrange(4), 0xE000 + rng.randrange(4), 0x10FFFF - rng.randrange(4), 0xFFFD - rng.randrange(3)])
        else:
            cp = rng.randrange(0x300, 0x370)      # combining diacritical marks
        if 0xD800 <= cp < 0xE000 or cp in exclude:
            continue
        return cp


def unicode_text(rng, n, exclude=()):
    """n arbitrary Unicode scalar values (no surrogates: a Rust &str cannot hold them), as a str"""
    return "".join(chr(rand_cp(rng, exclude)) for _ in range(n))


def utf8(s):
    return list(s.encode("utf-8"))


def to_utf8(bs):
    """the valid-UTF-8 part of a byte string"""
    return list(bytes(bs).decode("utf-8", errors="ignore").encode("utf-8"))


def number(rng):
    k = rng.randrange(8)
    if k == 0:
        return ""
    if k == 1:
        return str(rng.choice([65534, 65535, 65536, 65537, 99999, 4294967295, 4294967296, 2 ** 63, 2 ** 64]))
    if k == 2:
        return "".join(rng.choice("0123456789") for _ in range(rng.choice([20, 24, 25, 26, 40])))
    if k == 3:
        return "0" * rng.randrange(1, 30) + str(rng.randrange(300))
    if k == 4:
        return str(rng.choice([0, 1, 2, 5, 30, 37, 38, 39, 48, 58, 90, 107, 255, 256]))
    return str(rng.randrange(0, 70000))


def many_params(rng):
    """a CSI / DCS with a parameter count around the limit of 32, values around 65535, 25-digit
    numbers, sub-parameters and up to four intermediates"""
    out = [0x1B, rng.choice([0x5B, 0x5B, 0x5B, 0x50])]
    if rng.randrange(5) == 0:
        out.append(rng.choice(b"<=>?"))
    n = rng.choice([28, 30, 31, 32, 33, 34, 35, 40, 64, 200])
    for i in range(n):
        if i:
            out.append(0x3A if rng.randrange(4) == 0 else 0x3B)
        out.extend(number(rng).encode())
    for _ in range(rng.choice([0, 0, 1, 2, 3, 4])):
        out.append(rng.randrange(0x20, 0x30))
    if rng.randrange(8):
        out.append(rng.choice([0x6D, 0x6D, 0x48, 0x71, 0x7E, 0x40]))
    return out


def many_fields(rng):
    """an OSC with 14..40 fields and up to ~1500 payload bytes (7-bit, high bytes, UTF-8)"""
    out = [0x1B, 0x5D]
    nf = rng.choice([14, 15, 16, 17, 18, 20, 33, 40])
    total = rng.choice([0, 10, 100, 1000, 1023, 1024, 1025, 1100, 1500])
    per = total // nf
    for i in range(nf):
        if i:
            out.append(0x3B)
        m = per if rng.randrange(3) else rng.randrange(0, 2 * per + 1)
        k = rng.randrange(4)
        if k == 0:
            out.extend(utf8(unicode_text(rng, m // 3, exclude=range(0, 0x20))))
        elif k == 1:
            out.extend(rng.randrange(0x80, 0x100) for _ in range(m))
        else:
            out.extend(rng.randrange(0x20, 0x7F) for _ in range(m))
    out.extend(rng.choice([[0x07], [0x1B, 0x5C], [0x18], [0x1A], [0x9C, 0x07], [], [0x1B, 0x5B, 0x6D]]))
    return out


def hostile_bytes(rng):
    """one hostile byte string (a few bytes to a few KiB)"""
    k = rng.randrange(16)
    if k < 4:
        return gen.grammar_stream(rng)
    if k == 4:
        return [rng.randrange(256) for _ in range(rng.choice([1, 2, 3, 5, 8, 16, 64, 300]))]
    if k == 5:
        return [rng.choice(gen.CLASS_ALPHABET) for _ in range(rng.randrange(1, 40))]
    if k == 6:
        return c20.big_case(rng, high=True)
    if k == 7:
        return many_params(rng) + gen.utf8_text(rng, 3)
    if k == 8:
        return gen.utf8_text(rng, 2) + many_fields(rng) + gen.utf8_text(rng, 3)
    if k == 9:
        s = []
        for _ in range(rng.randrange(1, 12)):
            j = rng.randrange(5)
            if j == 0:
                s += gen.malformed_utf8(rng)
            elif j == 1:
                s += gen.csi(rng)
            elif j == 2:
                s += gen.utf8_text(rng, 3)
            elif j == 3:
                s += utf8(unicode_text(rng, 2))
            else:
                s += [rng.choice([0x1B, 0x7F, 0x07, 0x0A, 0x18, 0x9C, 0x80, 0x9B, 0x90, 0x9D, 0x98, 0xC2, 0xF4, 0xED])]
        return s
    if k == 10:
        # arbitrary Unicode interleaved with sequence introducers, never completed properly
        s = []
        for _ in range(rng.randrange(1, 10)):
            s += utf8(unicode_text(rng, rng.randrange(1, 6)))
            if rng.randrange(2):
                s += rng.choice([[0x1B], [0x1B, 0x5B], [0x1B, 0x5D], [0x1B, 0x50], [0x1B, 0x58], [0x9B], [0x1B, 0x5B, 0x33, 0x38, 0x3B, 0x35],
                                 [0x1B, 0x5B, 0x34, 0x3A], [0x1B, 0x5B, 0x33, 0x38, 0x3B, 0x32, 0x3B, 0x39, 0x39, 0x39], [0x1B, 0x5B, 0x3B, 0x3B, 0x6D]])
        return s
    if k == 11:
        # SGR-rich: colour forms cut short, out-of-range components, unknown codes
        s = []
        for _ in range(rng.randrange(1, 8)):
            parts = [rng.choice(["38", "48", "58", "38;5", "38;2", "48;2;1", "58:2::1:2", "38:5", "4:9", "4:", "0", "", "1", "7", "39", "107", "30",
                                 number(rng), number(rng)]) for _ in range(rng.randrange(0, 6))]
            s += [0x1B, 0x5B] + list((rng.choice([";", ":"])).join(parts).encode()) + [0x6D]
            s += utf8(unicode_text(rng, rng.randrange(0, 4)))
        return s
    if k == 12:
        return [0x1B, 0x5D] + [rng.choice([0x3B, 0x3B, 0x41, 0x07, 0x1B, 0x5C, 0x80, 0xE2]) for _ in range(rng.randrange(1, 80))]
    if k == 13:
        return gen.dcs(rng) + gen.sos(rng) + gen.esc_seq(rng) + many_params(rng)
    return gen.grammar_stream(rng, pieces=rng.choice([1, 2, 3])) + utf8(unicode_text(rng, rng.randrange(1, 8)))


def hostile_utf8(rng):
    """a hostile string that is valid UTF-8 (what the text APIs can be handed), as bytes"""
    k = rng.randrange(4)
    if k == 0:
        return utf8(unicode_text(rng, rng.choice([1, 2, 3, 8, 40])))
    return to_utf8(hostile_bytes(rng))


def long_bytes(rng, n=65536, utf=False):
    """~64 KiB: escape-rich pieces end to end (OSC payloads stay short: the list-based model
    appends to osc_raw in quadratic time)"""
    out = []
    while len(out) < n:
        k = rng.randrange(6)
        if k == 0:
            out += utf8(unicode_text(rng, 20))
        elif k == 1:
            out += many_params(rng)
        else:
            out += gen.grammar_stream(rng)
    return to_utf8(out) if utf else out


def cuts_field(cuts):
    return ",".join(map(str, cuts)) if cuts else "-"


def boundary_cuts(rng, bs):
    cb = set(char_boundaries(bs))
    return [x for x in gen.random_cuts(rng, len(bs)) if x in cb]


def frag_split(rng, bs):
    cb = char_boundaries(bs)
    cuts = sorted(set(rng.choice(cb) for _ in range(rng.randrange(0, 4)))) if cb else []
    return gen.apply_cuts(bs, cuts)


SCRIPT_ENTRIES = ["a0", "a1", "a2", "a3", "a5", "a17", "a999", "a70000", "eI", "eW", "eO"]


def hostile_script(rng, n=None):
    n = rng.randrange(0, 12) if n is None else n
    return ",".join(rng.choice(SCRIPT_ENTRIES) for _ in range(n)) or "-"


def hostile_ops(rng, nops=None, data=None):
    """write / write_all / write_vectored / write! / flush over hostile data (a `write!`
    fragment is a &str: valid UTF-8)"""
    ops = []
    for _ in range(rng.randrange(1, 7) if nops is None else nops):
        k = rng.randrange(10)
        raw = data(rng) if data else hostile_bytes(rng)
        if len(raw) > 4000:
            raw = raw[:4000]
        if k < 3:
            ops.append("w:" + gen.hexs(raw))
        elif k < 6:
            ops.append("a:" + gen.hexs(raw))
        elif k < 7:
            bufs = [[]] * rng.randrange(0, 3) + gen.apply_cuts(raw, gen.random_cuts(rng, len(raw))[:6]) + [[]] * rng.randrange(0, 2)
            ops.append("v:" + "/".join(gen.hexs(b) for b in bufs))
        elif k < 9:
            ops.append("f:" + "/".join(gen.hexs(fr) for fr in frag_split(rng, to_utf8(raw))))
        else:
            ops.append("F")
    return ",".join(ops)


EXTREME_PALETTES = [
    ("all-black", [(0, 0, 0)] * 16),
    ("all-white", [(255, 255, 255)] * 16),
    ("all-one-grey", [(128, 128, 128)] * 16),
    ("black-then-white", [(0, 0, 0)] * 8 + [(255, 255, 255)] * 8),
    ("corners", [(r, g, b) for r in (0, 255) for g in (0, 255) for b in (0, 255)] * 2),
    ("red-ramp", [(17 * i, 0, 0) for i in range(16)]),
    ("off-by-one", [(254 + (i & 1), 255 - ((i >> 1) & 1), 1 - ((i >> 2) & 1) + 0) for i in range(16)]),
]
EXTREME_COLOURS = [(r, g, b) for r in (0, 1, 127, 128, 254, 255) for g in (0, 128, 255) for b in (0, 1, 255)]

# kinds whose last field is a freely shrinkable hex byte string
SHRINKABLE = {"c02", "sb", "sbcat", "ss", "sscat", "git", "ls", "roffo", "pc", "svg", "svgraw"}


class _Shrinker:
    def shrink_fields(self, line):
        parts = line.split(" ")
        if parts[0] in ("svg", "svgraw"):
            return [5]
        if parts[0] == "pc":
            return [2]
        if parts[0] in ("wx", "wxm"):
            return [1] if parts[2] == "-" else []
        return [1] if parts[0] in SHRINKABLE and len(parts) == 2 else []


SHRINK_BUDGET_S = 40


def shrink_line(line, fields, fails, deadline):
    """greedy delta debugging on the given hex fields (runner.shrink with a time budget and
    smaller batches: a candidate costs a model run)"""
    best = line
    improved = True
    while improved and time.time() < deadline:
        improved = False
        parts = best.split(" ")
        for fi in fields:
            h = parts[fi]
            n = len(h) // 2
            chunk = n
            while chunk >= 1 and time.time() < deadline:
                cands = []
                for start in range(0, n, chunk):
                    nh = h[:2 * start] + h[2 * (start + chunk):]
                    cand = list(parts)
                    cand[fi] = nh if nh else "-"
                    cands.append(" ".join(cand))
                cands = list(dict.fromkeys(cands))[:64]
                ok = [c for c, r in zip(cands, fails(cands)) if r]
                if ok:
                    best = min(ok, key=len)
                    improved = True
                    break
                chunk //= 2
            if improved:
                break
    return best


# ---------------------------------------------------------------------------------------

# name -> (crate, binary, build kwargs shared by debug and release)
GROUPS = {
    "h-core": ("h-core", "hcore", {}),
    "h-wincon": ("h-wincon", "hwincon", {}),
    "h-text": ("h-text", "htext", {}),
    "h-lossy": ("h-lossy", "hlossy", {}),
    "h-render": ("h-render", "hrender", {}),
    "h-roff": ("h-roff", "hroff", {}),
    "h-parsecfg": ("h-parsecfg", "hparsecfg", {"features": "default-parse", "target_suffix": "-default"}),
}
BUILDS = [("debug", {}), ("release", {"release": True})]


class C04(Prop):
    pid = "C04"
    prop_file = "Props/C04.v"
    module = "Props.C04"
    gen_deps = ["Table", "Style", "Render", "Palette", "Svg", "Roff", "Git", "Ls", "ParseCfg",
                "ParserFn", "StripFn", "WinconFn", "LossyFn", "LsFn", "GitFn", "RoffFn", "Utf8parseFn", "ArrayVecFn",
                "UnicodeWidthFn"]      # svgraw: the model computes the widths with the translated unicode-width
    harness = ("h-core", "hcore")
    shard_min = 400
    nontrivial_rule = (
        "every case line goes through the extracted model and through TWO builds of its harness (dev profile: overflow checks + debug assertions on; release profile: both off); "
        "a case fails when either build answers PANIC (every harness wraps each case in catch_unwind; the strip harness also asserts str::from_utf8 and the pointer range of every "
        "returned piece) or differs from the model.  Inputs: the bounded-exhaustive sets of C01/C02 (every string up to length 3 over the 28-symbol class alphabet through c02 / sb / ss, "
        "the 16x256 table); seeded hostile byte strings (grammar streams with truncations, embedded controls, C1 bytes, malformed UTF-8; uniform random bytes; parameter counts 28..200 "
        "around the limit of 32, values around 65535 and 2^32 / 2^64, 25-digit numbers, up to 4 intermediates; OSC strings with 14..40 fields and payloads up to ~1500 bytes around the "
        "1024 limit incl. high bytes; cut-short SGR colour forms) and their valid-UTF-8 parts plus arbitrary Unicode (U+0000, the neighbours of the surrogate gap, U+FFFD..U+FFFF, "
        "U+10FFFF, combining marks, zero-width / bidi / line-separator characters) through c02, sb / sbcat / sbc (random cuts), ss / sscat / ssc (cuts at character boundaries), wx (wxm is left to C07: its spec side is defined on the SGR grammar only), "
        "strm (StripStream and AutoStream in every mode over boxed scripted writers, Vec and File; write / write_all / write_vectored / write! / flush), drv / drvn / drvv (caller protocol "
        "over scripts with short accepts, over-long accepts and errors), wcsx (console stream), git (C11's generators + arbitrary Unicode, '#' words with multi-byte characters, signs, "
        "thousands of words), ls (C12's malformed generator + arbitrary Unicode, thousands of codes), the lossy kinds over the shipped, C10's seeded and 7 extreme palettes (all-equal, "
        "two-valued, corners, off-by-one), svgraw (byte-for-byte) over extreme palettes / default colours, roffo / roffcolor, rnd / rnc / rne / rnr (extreme styles x the whole flag grid), "
        "pc default; strings of ~64 KiB through c02 / sb / ss / wx / drv / strm / git / ls / roffo / svgraw / pc.  "
        "non-trivial = distinct case line whose byte-string fields hold ESC, a control, DEL or a byte >= 0x80 (for the token kinds rnd.. / lossy: every distinct line)")
    trusted = ["cansi 2.2.1, roff 0.2.1: translated from the registry source of the pinned versions and proved equal to the models (CansiFn, RoffCrateFn: theorems under C15); html-escape: transcribed in the model, tied by these runs; unicode-width: translated from the registry source of the pinned version (UnicodeWidthFn: theorems under C14), the svgraw model computes the widths with it (the width / fills fields of the case line are ignored)",
               "third-party utf8parse automaton: translated from the registry source of the version Cargo.lock pins (tools/gen_fn_utf8parse.py; source = checksummed archive = what cargo metadata "
               "reports for the harness crates) and proved equal to Model/Utf8parse.v; trusted: cargo builds the harness from that directory, char::from_u32_unchecked = identity (precondition proved: "
               "c04_translated_utf8parse_unchecked_char_is_scalar)",
               "arrayvec 0.7.6 ArrayVec (the `core` buffer): new / Default, len, capacity, is_full, push, try_push, push_unchecked, truncate, clear, set_len, as_slice, Deref, Drop, the default bodies of trait ArrayVecImpl they reach, CapacityError::new and the macro assert_capacity_limit! are TRANSLATED from the registry source of the version Cargo.lock pins (tools/gen_fn_arrayvec.py: unpacked source = the .crate archive of the lock file's checksum = the directory `cargo metadata --all-features` reports for harness/h-parsecfg) and proved to behave, on the representation invariant (slots [0, len) initialised, len <= CAP), as the list the parser translation uses (raw_full, len, guarded `++ [b]`, [], slice) and to preserve the invariant (Proofs/ArrayVecGen.v, c20_translated_arrayvec_*). Trusted: the VALUE-LEVEL reading of its unsafe code (coq/Model/ArrayVec.v: a MaybeUninit slot is an option, a pointer into the buffer is a slot index bound to the vector it came from, ptr::write / from_raw_parts / drop_in_place act on those slots, undefined behaviour = None; size_of::<usize>() = 8), that cargo builds the harness from that directory, and the Clone / PartialEq / Debug impls of ArrayVec (reached by Parser's derives only; differential runs)",
               "std::panic::catch_unwind in every harness: a panic inside a case is the result PANIC (an abort -- stack overflow, allocation failure, double panic -- ends the harness "
               "process: the run then fails as a whole, which the runner reports as a broken run, never as a pass)",
               "cargo profiles of the harness crates: dev = opt-level 1, overflow-checks = true, debug-assertions = true; release = opt-level 2, both false"]
    assumptions = ["input bytes are < 256 (u8); the text entry points (strip_str, StripStr, write!, git / ls / roff / svg) are handed valid UTF-8 (the type &str)",
                   "palettes have 16 entries of u8 components, colour values are those an anstyle::Color can hold, Effects are built through the public API (below 2^12)",
                   "inner writers keep the io::Write contract (an accepted count never exceeds the buffer length: the scripted writers clamp)",
                   "the parser is built with its default features; without `utf8` a byte C2..F4 in the ground state reaches `unreachable!` (documented limit of that configuration, "
                   "characterised by c04_no_utf8_panics_only_on_high_bytes and exercised by C20)",
                   "git: U+212A and U+0130 excluded from the generators (C11: the model lower-cases ASCII only)",
                   "PARTIAL: panic-freedom, overflow-freedom and the unsafe-block preconditions are proved on the models; undefined behaviour that is not a consequence of those "
                   "preconditions (miscompilation, UB inside dependencies, allocator, stack exhaustion) is outside the models"]

    def __init__(self):
        self.per = {}          # harness -> counters
        self.miri = None
        self.group = "h-core"
        # --replay of a case of another harness: run the ordinary replay path over that harness
        if "--replay" in sys.argv:
            try:
                payload = json.load(open(sys.argv[sys.argv.index("--replay") + 1]))
                g = payload.get("harness")
                if g in GROUPS:
                    self.group = g
                    self.harness = GROUPS[g][:2]
            except (OSError, ValueError, IndexError):
                pass

    # ---- builds -------------------------------------------------------------------------
    def impl_builds(self, tier):
        kw = GROUPS[self.group][2]
        return [(label, dict(kw, **b)) for label, b in BUILDS]

    def setup_builds(self):
        """(crate, binary, kwargs) built by ./check --setup in addition to impl_builds"""
        out = []
        for g, (crate, binary, kw) in GROUPS.items():
            for _label, b in BUILDS:
                out.append((crate, binary, dict(kw, **b)))
        return out

    def shrink_fields(self, line):
        """the runner shrinks its first violation against the SPEC side: only meaningful for the
        h-core kinds that have a spec answer on every input; everything else is shrunk by
        `shrunk` below against the C04 rule itself (PANIC / model)"""
        parts = line.split(" ")
        if self.group == "h-core" and parts[0] in ("c02", "sbcat", "sscat") and len(parts) == 2 and len(line) < 8000:
            return [1]
        return []

    # ---- the rule -----------------------------------------------------------------------
    def counters(self, g):
        return self.per.setdefault(g, {"cases": 0, "by_kind": {}, "builds": [], "panics": {}, "tie_diffs": 0, "nontrivial": 0, "max_input_bytes": 0})

    @staticmethod
    def nontrivial_line(line):
        parts = line.split(" ")
        if parts[0] in ("rnd", "rnc", "rne", "rnr", "a16l", "x256l", "lrgb", "lidx", "lans", "roffcolor", "tbl"):
            return True
        for f in parts[1:]:
            for h in f.replace(",", "/").replace(":", "/").split("/"):
                if len(h) >= 2 and len(h) % 2 == 0 and all(c in "0123456789abcdef" for c in h):
                    b = bytes.fromhex(h)
                    if any(x < 0x20 or x >= 0x7F for x in b):
                        return True
        return False

    def nontrivial(self, line, impl):
        return self.nontrivial_line(line)

    @staticmethod
    def bad_answer(impl, model):
        if impl == "PANIC":
            return "the implementation panicked"
        if impl.startswith("UNKNOWN-KIND") or impl.startswith("WRONG-BUILD") or impl == "BADCASE":
            return "the harness does not know this case (check defect)"
        if impl != model:
            return "implementation and model differ"
        return None

    def judge(self, g, name, lines, model, impls, tie_diffs=None, count=True):
        """impls: [(label, results)].  Returns failure dicts; updates the per-harness counters"""
        cnt = self.counters(g)
        fails = []
        if count:
            cnt["cases"] += len(lines)
            for lb, _ in impls:
                if lb not in cnt["builds"]:
                    cnt["builds"].append(lb)
            for l in lines:
                k = l.split(" ", 1)[0]
                cnt["by_kind"][k] = cnt["by_kind"].get(k, 0) + 1
                n = max((len(f) for f in l.split(" ")[1:]), default=0) // 2
                if n > cnt["max_input_bytes"]:
                    cnt["max_input_bytes"] = n
        for label, res in impls:
            for i, l in enumerate(lines):
                why = self.bad_answer(res[i], model[i])
                if why is None:
                    continue
                if res[i] == "PANIC":
                    cnt["panics"][label] = cnt["panics"].get(label, 0) + 1
                else:
                    cnt["tie_diffs"] += 1
                    if tie_diffs is not None and len(tie_diffs) < 20:
                        tie_diffs.append({"stream": name, "case": l[:4000], "build": label, "impl": res[i][:2000], "model": model[i][:2000], "harness": g})
                if len(fails) < 5:
                    fails.append({"stream": name, "case": l, "build": label, "impl": res[i][:2000], "model": model[i][:2000], "harness": g,
                                  "spec": "%s (C04: every build answers what the model answers, never PANIC)" % why})
        return fails

    def shrunk(self, fail, driver, exes):
        """greedy shrinking of a failing case against the C04 rule itself"""
        line = fail["case"]
        exe = dict(exes).get(fail["build"])
        if exe is None or not _Shrinker().shrink_fields(line):
            return fail
        want_panic = fail["impl"] == "PANIC"

        def fails(cands):
            m = core.run_parallel([driver, "model"], cands, "C04zm", min_cases=8)
            r = core.run_parallel([exe], cands, "C04zi", min_cases=8)
            return [(x == "PANIC") if want_panic else (x != y and x not in ("INVALID-UTF8", "PANIC") and not x.startswith("UNKNOWN")) for x, y in zip(r, m)]
        try:
            small = shrink_line(line, _Shrinker().shrink_fields(line), fails, time.time() + SHRINK_BUDGET_S)
        except RuntimeError:
            return fail
        if small == line:
            return fail
        out = dict(fail)
        out["original_case"] = line[:4000]
        out["case"] = small
        out["impl"] = core.run_side([exe], [small], "C04zr")[0][:2000]
        out["model"] = core.run_side([driver, "model"], [small], "C04zq")[0][:2000]
        return out

    # ---- h-core: the ordinary path ------------------------------------------------------
    def streams(self, tier, rng):
        if self.group != "h-core":
            return
        thorough = tier == "thorough"
        # the bounded-exhaustive sets of C01 / C02
        lines = ["tbl %d" % d for d in range(16)]
        for s in gen.exhaustive(gen.CLASS_ALPHABET, 3):
            h = gen.hexs(s)
            lines.append("c02 " + h)
            lines.append("sb " + h)
            if is_utf8(s):
                lines.append("ss " + h)
            if thorough:
                lines.append("wx %s -" % h)
        yield "core:exhaustive-class-alphabet<=3", lines

        n = 8000 if thorough else 2000
        lines = []
        for _ in range(n):
            s = hostile_bytes(rng)
            h = gen.hexs(s)
            c = cuts_field(gen.random_cuts(rng, len(s)))
            lines += ["c02 " + h, "sb " + h, "sbcat " + h, "sbc %s %s" % (h, c), "sbccat %s %s" % (h, c), "wx %s %s" % (h, c), "wx %s -" % h]
            if rng.randrange(4) == 0:
                prefix = hostile_bytes(rng)[:200]
                lines.append("c02after %s %s" % (gen.hexs(prefix + [rng.choice([0x18, 0x1A])]), h))
        yield "core:hostile-bytes", lines

        lines = []
        for _ in range(n):
            s = hostile_utf8(rng)
            h = gen.hexs(s)
            c = cuts_field(boundary_cuts(rng, s))
            lines += ["ss " + h, "sscat " + h, "ssc %s %s" % (h, c), "ssccat %s %s" % (h, c), "wx %s %s" % (h, c), "sb " + h]
        yield "core:hostile-utf8", lines

        lines = []
        modes = ["strip", "never", "ansi", "always", "auto-never", "auto-ansi", "auto-always"]
        for i in range(n):
            wk = rng.choice(["boxed", "boxed", "boxed", "vec", "file"])
            lines.append("strm %s %s %s %s" % (modes[i % len(modes)] if i % 3 else "strip", wk, hostile_script(rng) if wk == "boxed" else "-", hostile_ops(rng)))
            s = hostile_bytes(rng)
            lines.append("drv %s %s" % (hostile_script(rng, rng.randrange(0, 30)), gen.hexs(s)))
            if i % 3 == 0:
                lines.append("drvn %s %s" % (hostile_script(rng, rng.randrange(0, 20)), gen.hexs(hostile_utf8(rng))))
            if i % 2 == 0:
                bufs = gen.apply_cuts(s, gen.random_cuts(rng, len(s))[:12]) if s else [[]]
                if rng.randrange(3) == 0:
                    bufs.insert(rng.randrange(len(bufs) + 1), [])
                lines.append("drvv %s %s" % (hostile_script(rng, rng.randrange(0, 12)), "/".join(gen.hexs(b) for b in bufs)))
        yield "core:streams-scripted", lines

        lines = []
        for i in range(24 if thorough else 4):
            s = long_bytes(rng)
            u = long_bytes(rng, utf=True)
            h, hu = gen.hexs(s), gen.hexs(u)
            lines += ["c02 " + h, "sb " + h, "sbcat " + h, "ss " + hu, "sscat " + hu, "wx %s -" % h, "wx %s %s" % (hu, cuts_field(gen.random_cuts(rng, len(u)))),
                      "sbc %s %s" % (h, cuts_field(gen.random_cuts(rng, len(s)))),
                      "drv %s %s" % (hostile_script(rng, 25), h), "drv - " + h,
                      "strm strip boxed %s a:%s,w:%s,F" % (hostile_script(rng, 6), h, hu), "strm auto-never vec - f:%s,a:%s" % (hu, h)]
        yield "core:long-64KiB", lines

        # Style / Color / Effects Display: extreme values x the whole flag grid
        styles = [c05.DEFAULT, "r255.255.255,r255.255.255,r255.255.255,4095", "x255,x255,x255,4095", "a15,a15,a15,4095", "r0.0.0,x0,a0,0", "r200.100.9,x199,r99.100.255,2730",
                  "-,-,r255.255.255,248"]
        styles += [c05.rand_style(rng) for _ in range(40 if thorough else 10)]
        lines = ["rnd %s %s" % (s, fl) for s in styles for fl in c05.GRID]
        lines += ["rnd %s %s" % (c05.rand_style(rng), rng.choice(c05.GRID)) for _ in range(4 * n)]
        lines += ["rnr %s" % fl for fl in c05.GRID]
        for c in ["a0", "a15", "x0", "x9", "x10", "x99", "x100", "x255", "r0.0.0", "r255.255.255", "r9.10.100", "r199.200.255"]:
            lines += ["rnc %s %s" % (c, fl) for fl in c05.GRID[::3]]
        lines += ["rne %d %s" % (e, c05.GRID[e % len(c05.GRID)]) for e in [0, 1, 2048, 4095, 248, 2730, 1365] + [rng.randrange(4096) for _ in range(200)]]
        yield "core:display-extremes", lines

    def observe(self, ctx, name, lines, results):
        g = self.group
        impls = [(label, results["impl-" + label]) for label, _ in ctx["impls"]]
        fails = self.judge(g, name, lines, results["model"], impls)     # tie differences are recorded by the runner itself
        if "--replay" in sys.argv:
            return fails
        return [self.shrunk(f, ctx["driver"], ctx["impls"]) for f in fails[:1]] + fails[1:]

    # ---- the other harnesses --------------------------------------------------------------
    def group_streams(self, g, tier, rng, exes):
        thorough = tier == "thorough"
        n = 6000 if thorough else 2000
        if g == "h-wincon":
            lines = []
            for i in range(n):
                lines.append("wcsx %s %s" % (hostile_script(rng) if i % 2 else "-", hostile_ops(rng)))
            for i in range(8 if thorough else 2):
                lines.append("wcsx %s a:%s,w:%s" % (hostile_script(rng, 5), gen.hexs(long_bytes(rng, 20000)), gen.hexs(hostile_bytes(rng))))
            yield "wincon:console-stream", lines
        elif g == "h-text":
            ex = c11.EXCLUDED
            lines = [c11.case(""), c11.case("#"), c11.case("#\u00e91"), c11.case("#+f+f+f"), c11.case("+256"), c11.case("-1"), c11.case("#\U0010ffff\U0010ffff"),
                     c11.case("\x00"), c11.case("\ufffd"), c11.case("#\u0301\u0301\u0301"), c11.case("#a\u0301b"), c11.case("#12345\u00e9"), c11.case("#\u20ac\u20ac")]
            for _ in range(3 * n):
                k = rng.randrange(10)
                if k == 0:
                    s = unicode_text(rng, rng.randint(1, 12), ex)
                elif k == 1:
                    s = "#" + unicode_text(rng, rng.choice([1, 2, 3, 4, 5, 6, 7]), ex)
                elif k == 2:
                    alpha = c11.HEX_ALPHABET + ["\u0301", "\U0010ffff", "\x00", "\ufffd", "\ud7ff", "\ue000"]
                    s = rng.choice(["#", "#", "red #", "\u3000#"]) + "".join(rng.choice(alpha) for _ in range(rng.choice([2, 3, 3, 5, 6, 6, 7, 12])))
                elif k == 3:
                    s = c11.near_number(rng)
                elif k == 4:
                    s = rng.choice(["+", "-", "+-", "#+", "#-", "+#", ""]) + number(rng) + rng.choice(["", "\u0660", "a", " ", "\u00a0"])
                elif k == 5:
                    ws = c11.grammar_words(rng) or ["red"]
                    i = rng.randrange(len(ws))
                    j = rng.randrange(len(ws[i]) + 1)
                    ws[i] = ws[i][:j] + unicode_text(rng, 1, ex) + ws[i][j:]
                    s = c11.layout(rng, ws)
                elif k == 6:
                    s = c11.layout(rng, [c11.mutate(rng, w) for w in (c11.grammar_words(rng) or ["bold"])])
                elif k == 7:
                    s = bytes(to_utf8(hostile_bytes(rng))).decode("utf-8")
                elif k == 8:
                    s = "".join(rng.choice(["red", "bold", "#abc", "#", "1", "no", "no-", "-1", unicode_text(rng, 1, ex), chr(rng.choice(c11.WS)), chr(rng.choice(c11.NEAR_WS))])
                                for _ in range(rng.randint(1, 10)))
                else:
                    s = c11.layout(rng, [c11.rand_case(rng, w) for w in c11.grammar_words(rng)])
                lines.append(c11.case(s))
            for _ in range(6 if thorough else 2):
                words = [rng.choice(c11.ATTR_WORDS) if rng.randrange(60) else rng.choice(["#\u00e9\u00e9\u00e9", unicode_text(rng, 3, ex), c11.near_number(rng), "red"])
                         for _ in range(9000)]
                lines.append(c11.case(" ".join(words)))
                lines.append(c11.case(" ".join(rng.choice(c11.ATTR_WORDS) for _ in range(9000)) + " #\u00e91"))
            yield "text:git", lines
            lines = [c12.case(""), c12.case(";"), c12.case("38;5"), c12.case("38;2;1;2"), c12.case("\x00"), c12.case("+0"), c12.case("256"), c12.case("\u0663")]
            for _ in range(3 * n):
                k = rng.randrange(6)
                if k < 2:
                    s = c12.malformed(rng)
                elif k == 2:
                    s = ";".join(rng.choice([number(rng), number(rng), unicode_text(rng, 1), "38", "48", "58", "5", "2", ""]) for _ in range(rng.randint(1, 12)))
                elif k == 3:
                    s = unicode_text(rng, rng.randint(1, 10))
                elif k == 4:
                    s = bytes(to_utf8(hostile_bytes(rng))).decode("utf-8")
                else:
                    s = ";".join(c12.wf_codes(rng))
                lines.append(c12.case(s))
            for _ in range(6 if thorough else 2):
                lines.append(c12.case(";".join(c12.wf_codes(rng, 40)[0] if rng.randrange(50) else rng.choice(["38;5;255", "58;2;255;255;255", "48;5;0"]) for _ in range(20000))))
                lines.append(c12.case(";".join(str(rng.randrange(256)) for _ in range(16000)) + ";" + number(rng)))
            yield "text:ls", lines
        elif g == "h-lossy":
            vga, win10 = c10.shipped_palettes()
            pals = [("VGA", vga), ("WIN10_CONSOLE", win10)] + c10.seeded_palettes(rng, vga) + EXTREME_PALETTES
            lines = []
            for _name, p in pals:
                hp = c10.hexpal(p)
                lines.extend("lidx %s %d" % (hp, i) for i in range(256))
                lines.extend("lans %s %d" % (hp, a) for a in range(16))
                lines.append("a16l %s %s" % (hp, c10.hexcols(EXTREME_COLOURS)))
                lines.append("a16l %s %s" % (hp, c10.hexcols(p)))
                lines.append("lrgb %s %s" % (hp, c10.hexcols(EXTREME_COLOURS[:40])))
                cols = c10.sample_colours(rng, 4000 if thorough else 1000, p)
                for i in range(0, len(cols), 250):
                    lines.append("a16l %s %s" % (hp, c10.hexcols(cols[i:i + 250])))
                for i in range(0, 200, 10):
                    lines.append("lrgb %s %s" % (hp, c10.hexcols(cols[i:i + 10])))
            lines.append("x256l %s" % c10.hexcols(EXTREME_COLOURS))
            cols = c10.sample_colours(rng, 8000 if thorough else 2000, c10.xterm_fixed())
            lines += ["x256l %s" % c10.hexcols(cols[i:i + 25]) for i in range(0, len(cols), 25)]
            yield "lossy:extreme-palettes", lines
        elif g == "h-render":
            pals = ["vga", "win10", "00" * 48, "ff" * 48, "00" * 24 + "ff" * 24, c10.hexpal(EXTREME_PALETTES[6][1])] + c14.configs(rng, 2)[2:]
            cols = ["a0", "a7", "a15", "x0", "x15", "x16", "x255", "r0.0.0", "r255.255.255", "r1.2.3"]
            texts = []
            for _ in range(n):
                k = rng.randrange(6)
                if k == 0:
                    t = unicode_text(rng, rng.choice([1, 3, 10]))
                elif k == 1:
                    t = c14.directed(rng, True)
                elif k == 2:
                    t = "".join(rng.choice([c14.style_seq(rng), unicode_text(rng, 2), "\n", "\r\n", "\r", "&<>\"'", "\x1b[7m", "\x1b[38;5;%dm" % rng.randrange(300), "]]>", "\x00"])
                                for _ in range(rng.randrange(1, 10)))
                else:
                    t = bytes(hostile_utf8(rng)).decode("utf-8")
                if len(t) > 3000:
                    t = t[:3000]
                texts.append(t)
            for _ in range(6 if thorough else 2):
                texts.append(bytes(long_bytes(rng, 20000, utf=True)).decode("utf-8"))
            cases = ["%s %s %s %d %s" % (rng.choice(pals), rng.choice(cols), rng.choice(cols), rng.randrange(2), gen.hexs(utf8(t))) for t in texts]
            # first stage: what unicode_width contributed, read off the real (debug build) output
            raw = core.run_parallel([exes[0][1]], ["svg " + c for c in cases], "C04o", min_cases=self.shard_min)
            lines = []
            for c, r in zip(cases, raw):
                if r == "PANIC":
                    lines.append("svg " + c)       # judged below: PANIC is a violation in any case
                    continue
                try:
                    width, fills = svgparse.oracle(bytes.fromhex(r))
                except ValueError:
                    width, fills = 0, {}
                fl = ",".join("%s=%d" % (k.hex(), v) for k, v in sorted(fills.items()) if k) or "-"
                lines.append("svgraw %s %d %s" % (c, width, fl))
            yield "render:svg-byte-for-byte", lines
        elif g == "h-roff":
            lines = []
            for _ in range(2 * n):
                k = rng.randrange(6)
                if k == 0:
                    t = unicode_text(rng, rng.choice([1, 3, 10]))
                elif k == 1:
                    t = "".join(rng.choice([c15.rand_sgr(rng), c15.rand_text(rng, 6), unicode_text(rng, 2), "\x1b", "\x1b[", "\x1b[;", ".", "'", "\\", "\n."]) for _ in range(rng.randrange(1, 8)))
                elif k == 2:
                    t = "\x1b[" + ";".join(number(rng) for _ in range(rng.choice([1, 2, 5, 33, 100]))) + rng.choice(["m", "", "K", "\u00e9m"]) + "x"
                else:
                    t = bytes(hostile_utf8(rng)).decode("utf-8")
                lines.append("roffo " + c15.hx(t))
            for _ in range(4 if thorough else 1):
                lines.append("roffo " + gen.hexs(long_bytes(rng, 16000, utf=True)))
            for req in ["gcolor", "fcolor", "", "\u00e9 \\", ".x\n'y"]:
                lines += ["roffcolor %s %s" % (c15.hx(req), c) for c in ["none", "a0", "a15", "x0", "x15", "x16", "x255", "r0,0,0", "r255,255,255", "r1,2,3"]]
            yield "roff:arbitrary-text", lines
        elif g == "h-parsecfg":
            lines = ["pc default " + gen.hexs(c) for c in c20.boundary_cases()]
            for _ in range(n):
                lines.append("pc default " + gen.hexs(hostile_bytes(rng)))
            for _ in range(n // 4):
                lines.append("pc default " + gen.hexs(c20.big_case(rng, high=True)))
                lines.append("c02 " + gen.hexs(many_fields(rng) + many_params(rng)))
            for _ in range(6 if thorough else 2):
                lines.append("pc default " + gen.hexs(long_bytes(rng)))
            yield "parsecfg:default-features", lines

    def extra_checks(self, ctx):
        if self.group != "h-core":
            return []
        cov = ctx["coverage"]
        rng, tier, driver = ctx["rng"], ctx["tier"], ctx["driver"]
        out = []
        for g in GROUPS:
            if g == "h-core":
                continue
            crate, binary, kw = GROUPS[g]
            exes = []
            for label, b in BUILDS:
                exe, err = core.build_harness(crate, binary, **dict(kw, **b))
                if exe is None:
                    raise RuntimeError("C04: harness %s (%s) does not build:\n%s" % (g, label, err))
                exes.append((label, exe))
            for name, lines in self.group_streams(g, tier, rng, exes):
                t0 = time.time()
                model = core.run_parallel([driver, "model"], lines, "C04m", min_cases=self.shard_min)
                impls = [(label, core.run_parallel([exe], lines, "C04i" + label, min_cases=self.shard_min)) for label, exe in exes]
                fails = self.judge(g, name, lines, model, impls, tie_diffs=ctx["tie_diffs"])
                st = {"cases": len(lines), "tie_diffs": sum(1 for f in fails if f["impl"] != "PANIC"), "spec_diffs": len(fails), "spec_applicable": len(lines),
                      "panics": sum(self.counters(g)["panics"].values()), "harness": g, "wall_s": round(time.time() - t0, 1)}
                cov["streams"][name] = st
                cov["evaluations"] += len(lines)
                for l in lines:
                    if self.nontrivial_line(l):
                        cov["nontrivial"].add(hashlib.md5(l.encode()).hexdigest())
                for i in (0, len(lines) // 2):
                    if len(cov["samples"]) < 14 and lines:
                        cov["samples"].append({"stream": name, "harness": g, "case": lines[i][:300], "impl": impls[0][1][i][:300]})
                if fails:
                    out.append(self.shrunk(fails[0], driver, exes))
                    out.extend(fails[1:3])
        if tier == "thorough" and os.environ.get("VERIF_MIRI") == "1":
            self.miri = self.run_miri(ctx)
        return out

    # ---- optional: miri over a small h-core case file (validation of the tie, decides nothing) --
    def run_miri(self, ctx):
        rng = ctx["rng"]
        lines = []
        for _ in range(12):
            s = hostile_bytes(rng)[:120]
            u = to_utf8(s)
            lines += ["c02 " + gen.hexs(s), "sb " + gen.hexs(s), "ss " + gen.hexs(u), "wx %s -" % gen.hexs(s), "drv a1,eI,a3 " + gen.hexs(s)]
        lines += ["rnd r255.255.255,x255,a15,4095 " + c05.NO_FLAGS]
        d = os.path.join(core.CACHE, "miri")
        os.makedirs(d, exist_ok=True)
        cf, of = os.path.join(d, "cases"), os.path.join(d, "out")
        open(cf, "w").write("\n".join(lines) + "\n")
        if os.path.exists(of):
            os.remove(of)
        t0 = time.time()
        rc, log = core.sh(["cargo", "+nightly", "miri", "run", "--offline", "--quiet", "--", cf, of], cwd=os.path.join(core.VERIF, "harness", "h-core"),
                          timeout=int(os.environ.get("VERIF_MIRI_TIMEOUT", "420")),
                          env={"CARGO_TARGET_DIR": os.path.join(core.CACHE, "target-h-core-miri"), "MIRIFLAGS": "-Zmiri-disable-isolation"})
        if "Undefined Behavior" in log:
            # never hidden: recorded in the evidence and printed (it is validation of the tie, it decides nothing by itself)
            print("MIRI-REPORT property=C04 undefined behaviour reported by miri on harness/h-core (see evidence/C04.json coverage.miri)")
            return {"note": "cargo +nightly miri run of harness/h-core REPORTED UNDEFINED BEHAVIOUR on the case file below", "undefined_behavior_reported": True,
                    "cases_file": cf, "log_tail": log[-3000:], "wall_s": round(time.time() - t0, 1)}
        if rc != 0 or not os.path.exists(of):
            return None          # not available / too slow here: skipped silently
        res = open(of).read().split("\n")[:len(lines)]
        native = core.run_side([ctx["impls"][0][1]], lines, "C04miri")
        return {"note": "validation of the tie only (decides nothing): cargo +nightly miri run of harness/h-core over a small hostile case file; no undefined behaviour reported",
                "undefined_behavior_reported": False, "cases": len(lines), "agree_with_native_debug_build": sum(1 for a, b in zip(res, native) if a == b), "wall_s": round(time.time() - t0, 1)}

    def extra_coverage(self):
        per = {}
        for g, c in self.per.items():
            per[g] = {"cases": c["cases"], "builds": c["builds"], "by_kind": c["by_kind"], "panics_by_build": c["panics"], "impl_vs_model_differences": c["tie_diffs"],
                      "max_input_bytes": c["max_input_bytes"]}
        out = {"per_harness": per,
               "builds_profile": {"debug": "overflow-checks + debug-assertions on (opt-level 1)", "release": "overflow-checks and debug-assertions off (opt-level 2)"},
               "explanation": "proof on the models (PARTIAL: see assumptions) + correspondence on hostile inputs through every harness in two build profiles; "
                              "evaluations counts case lines, each run through the model and both builds"}
        if self.miri:
            out["miri"] = self.miri
        return out
