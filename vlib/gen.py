"""Case generators shared by the checks.  Every random choice derives from one
random.Random(seed) instance handed in by the caller (VERIF_SEED)."""
import itertools

ESC, CAN, SUB, BEL, DEL = 0x1B, 0x18, 0x1A, 0x07, 0x7F

# One representative of every byte class the state table distinguishes, plus the
# digits, ';' ':' and UTF-8 leads / continuations (checked against the generated
# table by vlib/classes.py at run time).
CLASS_ALPHABET = [
    0x00,  # C0 control (execute / ignore / put)
    0x07,  # BEL (OSC terminator)
    0x09,  # TAB (whitespace control)
    0x0A,  # LF
    0x18,  # CAN
    0x1B,  # ESC
    0x20,  # intermediate
    0x30,  # digit
    0x39,  # digit
    0x3A,  # ':'
    0x3B,  # ';'
    0x3C,  # private marker
    0x41,  # final / printable 'A'
    0x50,  # 'P' DCS
    0x58,  # 'X' SOS
    0x5B,  # '['
    0x5C,  # '\\' (ST)
    0x5D,  # ']'
    0x6D,  # 'm'
    0x7F,  # DEL
    0x80,  # C1 executed in ground / continuation
    0x90,  # C1 not executed in ground / continuation
    0x9C,  # ST (8-bit)
    0xA0,  # continuation only
    0xC3,  # 2-byte lead
    0xE2,  # 3-byte lead
    0xF0,  # 4-byte lead
    0xFF,  # never valid
]


def hexs(bs):
    return bytes(bs).hex() if bs else "-"


def exhaustive(alphabet, maxlen, minlen=0):
    for n in range(minlen, maxlen + 1):
        for t in itertools.product(alphabet, repeat=n):
            yield list(t)


def digits(rng, maxdigits=25):
    style = rng.randrange(8)
    if style == 0:
        return []
    if style == 1:
        return [0x30] * rng.randint(1, 3) + [rng.choice(b"0123456789")]
    if style == 2:
        return list(str(rng.choice([0, 1, 9, 10, 255, 256, 65534, 65535, 65536, 99999, 6553, 65530])).encode())
    if style == 3:
        n = rng.randint(5, maxdigits)
        return [rng.choice(b"0123456789") for _ in range(n)]
    return list(str(rng.randrange(0, 300)).encode())


def utf8_text(rng, n):
    out = []
    for _ in range(n):
        k = rng.randrange(10)
        if k < 6:
            out.append(rng.randrange(0x20, 0x7F))
        elif k == 6:
            out.extend(chr(rng.randrange(0x80, 0x800)).encode())
        elif k == 7:
            cp = rng.randrange(0x800, 0x10000)
            if 0xD800 <= cp < 0xE000:
                cp = 0x20AC
            out.extend(chr(cp).encode())
        elif k == 8:
            out.extend(chr(rng.randrange(0x10000, 0x110000)).encode())
        else:
            out.append(rng.choice([0x09, 0x0A, 0x0D, 0x0C, 0x20]))
    return out


def malformed_utf8(rng):
    k = rng.randrange(8)
    if k == 0:
        return [rng.choice([0xC3, 0xE2, 0xF0, 0xE0, 0xED, 0xF4])]  # truncated lead
    if k == 1:
        return [0xE2, 0x82]  # truncated after one continuation
    if k == 2:
        return [0xC0, 0xAF]  # overlong
    if k == 3:
        return [0xED, 0xA0, 0x80]  # surrogate
    if k == 4:
        return [rng.randrange(0x80, 0xC0)]  # lone continuation
    if k == 5:
        return [rng.choice([0xC3, 0xE2, 0xF0]), rng.choice([0x1B, 0x18, 0x0A, 0x41, 0x7F, 0x07])]  # lead + 7-bit
    if k == 6:
        return [0xF4, 0x90, 0x80, 0x80]  # above U+10FFFF
    return [rng.randrange(0xF5, 0x100)]


def csi(rng, boundary=True):
    out = [ESC, 0x5B]
    if rng.randrange(6) == 0:
        out.append(rng.choice(b"<=>?"))
    if boundary and rng.randrange(4) == 0:
        nparams = rng.choice([0, 1, 15, 16, 30, 31, 32, 33, 34, 40])
    else:
        nparams = rng.randrange(0, 6)
    for i in range(nparams):
        if i:
            out.append(0x3A if rng.randrange(4) == 0 else 0x3B)
        out.extend(digits(rng))
    for _ in range(rng.choice([0, 0, 0, 1, 2, 3, 4])):
        out.append(rng.randrange(0x20, 0x30))
    if rng.randrange(12) == 0:
        out.append(rng.choice([0x00, 0x0A, 0x09, 0x0D, 0x7F, 0x80, 0xA0, 0xFF]))  # control / junk inside
        out.extend(digits(rng))
    if rng.randrange(15) == 0:
        return out  # truncated
    out.append(rng.choice([0x6D, 0x6D, 0x6D, 0x48, 0x4A, 0x40, 0x7E, 0x70]))
    return out


def osc(rng):
    out = [ESC, 0x5D]
    nfields = rng.choice([0, 1, 2, 3, 15, 16, 17, 18, 20]) if rng.randrange(3) == 0 else rng.randrange(0, 4)
    for i in range(nfields):
        if i:
            out.append(0x3B)
        for _ in range(rng.randrange(0, 6)):
            k = rng.randrange(8)
            if k == 0:
                out.extend(chr(rng.randrange(0x80, 0x3000)).encode())
            elif k == 1:
                out.append(rng.choice([0x00, 0x0A, 0x7F, 0x9C, 0x80]))
            else:
                out.append(rng.randrange(0x20, 0x7F))
    t = rng.randrange(6)
    if t == 0:
        out.append(BEL)
    elif t == 1:
        out.extend([ESC, 0x5C])
    elif t == 2:
        out.append(rng.choice([CAN, SUB]))
    elif t == 3:
        out.append(0x9C)  # not a terminator in this parser: stays payload
        out.append(BEL)
    elif t == 4:
        pass  # truncated
    else:
        out.append(BEL)
    return out


def dcs(rng):
    out = [ESC, 0x50]
    for i in range(rng.choice([0, 1, 2, 3, 32, 33])):
        if i:
            out.append(0x3A if rng.randrange(5) == 0 else 0x3B)
        out.extend(digits(rng, 7))
    for _ in range(rng.choice([0, 0, 1, 2, 3])):
        out.append(rng.randrange(0x20, 0x30))
    if rng.randrange(10) == 0:
        out.append(rng.choice(b"<=>?"))  # -> DcsIgnore
    out.append(rng.choice([0x71, 0x70, 0x7C, 0x40]))
    for _ in range(rng.randrange(0, 8)):
        out.append(rng.choice([0x00, 0x0A, 0x41, 0x7E, 0x7F, 0x80, 0x3B]))
    t = rng.randrange(5)
    if t == 0:
        out.extend([ESC, 0x5C])
    elif t == 1:
        out.append(0x9C)
    elif t == 2:
        out.append(rng.choice([CAN, SUB]))
    elif t == 3:
        out.append(ESC)
    return out


def esc_seq(rng):
    out = [ESC]
    for _ in range(rng.choice([0, 0, 1, 2, 3])):
        out.append(rng.randrange(0x20, 0x30))
    if rng.randrange(10) == 0:
        out.append(rng.choice([0x00, 0x0A, 0x7F, 0x80]))
    if rng.randrange(10):
        out.append(rng.choice([0x37, 0x38, 0x63, 0x4D, 0x42, 0x30, 0x7E, 0x5C]))
    return out


def sos(rng):
    out = [ESC, rng.choice([0x58, 0x5E, 0x5F])]
    for _ in range(rng.randrange(0, 8)):
        out.append(rng.choice([0x00, 0x0A, 0x41, 0x7F, 0x3B, 0x80, 0xC3]))
    t = rng.randrange(4)
    if t == 0:
        out.extend([ESC, 0x5C])
    elif t == 1:
        out.append(0x9C)
    elif t == 2:
        out.append(CAN)
    return out


def grammar_stream(rng, pieces=None, seven_bit=False, valid_utf8=False):
    """escape-rich stream: text runs, sequences, truncations, embedded controls,
    C1 bytes and (unless valid_utf8) malformed UTF-8"""
    out = []
    n = pieces if pieces is not None else rng.choice([1, 2, 3, 5, 8, 13, 40])
    for _ in range(n):
        k = rng.randrange(14)
        if k < 4:
            piece = utf8_text(rng, rng.randrange(1, 12))
        elif k < 7:
            piece = csi(rng)
        elif k == 7:
            piece = osc(rng)
        elif k == 8:
            piece = dcs(rng)
        elif k == 9:
            piece = esc_seq(rng)
        elif k == 10:
            piece = sos(rng)
        elif k == 11:
            piece = [rng.choice([0x00, 0x07, 0x08, 0x09, 0x0A, 0x0B, 0x0C, 0x0D, 0x18, 0x1A, 0x7F])]
        elif k == 12:
            piece = [rng.randrange(0x80, 0xA0)]
        else:
            piece = malformed_utf8(rng)
        out.extend(piece)
    if seven_bit:
        out = [b for b in out if b < 0x80]
    elif valid_utf8:
        out = list(bytes(out).decode("utf-8", errors="ignore").encode("utf-8"))
    return out


def partitions_all(n):
    """all 2^(n-1) ways of cutting a string of length n into consecutive chunks,
    as lists of cut positions"""
    if n <= 1:
        yield []
        return
    for mask in range(1 << (n - 1)):
        yield [i + 1 for i in range(n - 1) if mask >> i & 1]


def random_cuts(rng, n):
    k = rng.randrange(5)
    if n <= 1 or k == 0:
        return []
    if k == 1:
        return list(range(1, n))
    if k == 2:
        step = rng.randrange(1, 8)
        return list(range(step, n, step))
    return sorted(set(rng.randrange(1, n) for _ in range(rng.randrange(1, 8))))


def apply_cuts(bs, cuts):
    out = []
    prev = 0
    for c in list(cuts) + [len(bs)]:
        out.append(bs[prev:c])
        prev = c
    return out


def threshold_cases(rng, thorough=False):
    """(bytes, cut positions): a prefix that leaves the scanner in a rare state (truncated multi-byte lead, unfinished
    escape / CSI / OSC / DCS / SOS), a chunk cut right after it, a LONG run of plain printable ASCII whose length sits at
    a power of two (+-1) -- where a fast path for 'plain' chunks would have its threshold --, then a byte that only means
    something in that state (continuation bytes, a final byte, BEL, ST), text and a multi-byte character"""
    prefixes = [[0xE2], [0xE2, 0x82], [0xF0, 0x9F], [0xF0, 0x9F, 0x98], [0xC3], [0x1B], [0x1B, 0x5B], [0x1B, 0x5B, 0x33], [0x1B, 0x5D],
                [0x1B, 0x5D, 0x30, 0x3B, 0x74], [0x1B, 0x50], [0x1B, 0x58], [0x1B, 0x5B, 0x0A], []]
    lengths = [15, 16, 17, 31, 32, 33, 63, 64, 65, 127, 128, 129, 255, 256, 257] + ([511, 512, 513, 1023, 1024, 1025, 4095, 4096, 4097] if thorough else [1024])
    suffixes = [[0x82, 0xAC], [0xAC], [0x98, 0x80], [0x6D], [0x07], [0x1B, 0x5C], [0x9C], [0xC2, 0x9C], []]
    out = []
    for pre in prefixes:
        for n in (lengths if thorough else rng.sample(lengths, 6)):
            run = [rng.randrange(0x20, 0x7F) for _ in range(n)]
            if rng.randrange(3) == 0:
                run = [0x61] * n
            suf = rng.choice(suffixes)
            tail = suf + list("x\u20acy".encode()) + [0xF0, 0x9F, 0x98, 0x80, 0x21]
            lead = utf8_text(rng, rng.choice([0, 2]))
            data = lead + pre + run + tail
            cut = len(lead) + len(pre)
            cuts = [c for c in (cut, cut + n) if 0 < c < len(data)] if rng.randrange(2) else [c for c in (cut,) if 0 < c < len(data)]
            out.append((data, cuts))
    return out
