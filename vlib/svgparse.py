#!/usr/bin/env python3
"""C14: what an INDEPENDENT XML parser (expat, through Python's binding) sees in a
rendered SVG.  Nothing here knows how the renderer or the Coq model produce the
document: the structure is recovered from the parse events only.

As a script (run by harness/h-render, one batch per case file):
    svgparse.py <requests> <results>
every request line is `<mode> <palette: 96 hex digits> <svg bytes, hex>`, mode is
  doc   the canonical form documented in ocaml/drv_svg.ml
  text  `n=<rows>` then the text of every foreground row (code points joined by '.')
  cls   `n=<rows>` then per row its pieces `<fg classes>/<bg class or ->:<text>`,
        neighbouring pieces of equal classes merged
A document expat rejects yields `NOT-WELL-FORMED <message>`.

As a module (vlib/props/c14.py): `oracle(svg bytes)` reads the two quantities that
depend on unicode_width (the width attribute and the length of every background
fill string) so that they can be handed to the model as its oracle."""
import re
import sys
import xml.parsers.expat as expat

COLOUR_PREFIXES = ("fg", "bg", "underline")
ANSI_NAMES = ["black", "red", "green", "yellow", "blue", "magenta", "cyan", "white"]


class Node:
    def __init__(self, name, attrs, parent):
        self.name = name
        self.attrs = attrs          # list of (name, value) in document order
        self.parent = parent
        self.items = []             # str (character data) or Node

    def attr(self, k):
        for n, v in self.attrs:
            if n == k:
                return v
        return None

    def children(self):
        return [i for i in self.items if isinstance(i, Node)]

    def own_text(self):
        return "".join(i for i in self.items if isinstance(i, str))

    def all_text(self):
        return "".join(i if isinstance(i, str) else i.all_text() for i in self.items)


def parse(data):
    """bytes -> root Node; raises expat.ExpatError when the document is not well-formed"""
    p = expat.ParserCreate()
    p.ordered_attributes = True
    p.buffer_text = True
    root = [None]
    cur = [None]

    def start(name, attrs):
        n = Node(name, [(attrs[i], attrs[i + 1]) for i in range(0, len(attrs), 2)], cur[0])
        if cur[0] is None:
            root[0] = n
        else:
            cur[0].items.append(n)
        cur[0] = n

    def end(_name):
        cur[0] = cur[0].parent

    def chars(d):
        if cur[0] is not None:
            cur[0].items.append(d)

    p.StartElementHandler = start
    p.EndElementHandler = end
    p.CharacterDataHandler = chars
    p.Parse(data, True)
    return root[0]


def xterm_rgb(i):
    """the fixed part of the 256-colour palette (xterm layout: 6x6x6 cube, 24 greys)"""
    if i >= 232:
        v = 8 + 10 * (i - 232)
        return (v, v, v)
    i -= 16
    lv = [0, 95, 135, 175, 215, 255]
    return (lv[i // 36], lv[(i // 6) % 6], lv[i % 6])


def expected_rgb(cls, palette):
    """the RGB value the configured palette assigns to the colour a class names; None
    when the class is not a colour class"""
    for p in COLOUR_PREFIXES:
        if cls.startswith(p + "-"):
            rest = cls[len(p) + 1:]
            m = re.fullmatch(r"ansi256-(\d{3})", rest)
            if m:
                i = int(m.group(1))
                if i > 255:
                    return "?"
                return palette[i] if i < 16 else xterm_rgb(i)
            m = re.fullmatch(r"rgb-([0-9A-F]{6})", rest)
            if m:
                v = int(m.group(1), 16)
                return (v >> 16, (v >> 8) & 255, v & 255)
            bright = rest.startswith("bright-")
            base = rest[7:] if bright else rest
            if base in ANSI_NAMES:
                return palette[ANSI_NAMES.index(base) + (8 if bright else 0)]
            return "?"
    return None


def rules_of(style_text):
    """[(selector, body)] of the CSS rules, in order"""
    return [(m.group(1).strip(), " ".join(m.group(2).split())) for m in re.finditer(r"([^{}]+)\{([^{}]*)\}", style_text)]


def rows_of(text_node, problems):
    """[(x, y, bg spans or None, fg spans)]; a span is (class attribute or None, text)"""
    outer = []
    for item in text_node.items:
        if isinstance(item, str):
            if item.strip(" \n") != "":
                problems.append("text-in-<text>")
            continue
        if item.name != "tspan":
            problems.append("child-of-<text>:" + item.name)
            continue
        spans = []
        for sub in item.items:
            if isinstance(sub, str):
                continue
            if sub.name != "tspan" or sub.children():
                problems.append("nested:" + sub.name)
            extra = [n for n, _ in sub.attrs if n != "class"]
            if extra:
                problems.append("span-attributes:" + "+".join(extra))
            spans.append((sub.attr("class"), sub.all_text()))
        if item.own_text() != "\n":
            problems.append("row-character-data")
        if [n for n, _ in item.attrs] != ["x", "y"]:
            problems.append("row-attributes")
        outer.append((item.attr("x"), item.attr("y"), spans))
    rows = []
    i = 0
    while i < len(outer):
        x, y, spans = outer[i]
        if i + 1 < len(outer) and outer[i + 1][1] == y:
            if i + 2 < len(outer) and outer[i + 2][1] == y:
                problems.append("three-rows-one-y")
            if outer[i + 1][0] != x:
                problems.append("row-x")
            rows.append((x, y, spans, outer[i + 1][2]))
            i += 2
        else:
            rows.append((x, y, None, spans))
            i += 1
    return rows


def dotted(t):
    return ".".join(str(ord(c)) for c in t)


def show_span(sp):
    cls, text = sp
    return ("+".join(cls.split(" ")) if cls is not None else "") + ":" + dotted(text)


def show_bg_span(sp):
    """the fill text depends on unicode_width: only its classes are part of the canonical form"""
    cls, _text = sp
    return "+".join(cls.split(" ")) if cls is not None else ""


def structure(data):
    root = parse(data)
    problems = []
    if root.name != "svg":
        problems.append("root:" + root.name)
    kids = root.children()
    names = [k.name for k in kids]
    if names not in (["style", "text"], ["style", "rect", "text"]):
        problems.append("children:" + "+".join(names))
    if root.own_text().strip(" \n") != "":
        problems.append("text-in-<svg>")
    style = next((k for k in kids if k.name == "style"), None)
    rect = next((k for k in kids if k.name == "rect"), None)
    text = next((k for k in kids if k.name == "text"), None)
    rules = rules_of(style.all_text()) if style is not None else []
    rows = rows_of(text, problems) if text is not None else []
    return root, rect, text, rules, rows, problems


def check_classes(rules, rows, text_node, palette):
    """every class used is defined exactly once, colour classes with the palette's RGB"""
    defined = {}
    for sel, body in rules:
        if sel.startswith("."):
            defined.setdefault(sel[1:], []).append(body)
    bad = []
    used = set()
    for _x, _y, bg, fg in rows:
        for cls, _t in (bg or []) + fg:
            if cls is not None:
                used.update(cls.split(" "))
    if text_node is not None and text_node.attr("class"):
        used.update(text_node.attr("class").split(" "))
    for c in sorted(used):
        if c not in defined:
            bad.append("undefined:" + c)
            continue
        if len(defined[c]) != 1:
            bad.append("defined-twice:" + c)
        want = expected_rgb(c, palette)
        if want is None:
            continue
        if want == "?":
            bad.append("unknown-colour-class:" + c)
            continue
        cols = set(re.findall(r"#[0-9A-Za-z]+", defined[c][0]))
        if cols != {"#%02X%02X%02X" % want}:
            bad.append("wrong-rgb:" + c)
    return bad


def canon_doc(data, palette):
    root, rect, text, rules, rows, problems = structure(data)
    out = ["h=%s" % root.attr("height"), "rect=%d" % (1 if rect is not None else 0),
           "text=%s" % ("+".join((text.attr("class") or "").split(" ")) if text is not None else "?")]
    rl = []
    for sel, body in rules:
        name = sel[1:] if sel.startswith(".") else sel
        cols = re.findall(r"#[0-9A-Za-z]+", body)
        if cols:
            rl.append(name + "=" + "/".join(sorted(set(cols), key=cols.index)))
        else:
            rl.append(name)
    out.append("rules=" + ",".join(rl))
    out.append("lines=%d" % len(rows))
    for x, y, bg, fg in rows:
        out.append("| %s,%s %s F%s" % (x, y, "-" if bg is None else "B" + ",".join(show_bg_span(s) for s in bg), ",".join(show_span(s) for s in fg)))
    bad = problems + check_classes(rules, rows, text, palette)
    if rect is not None and rect.attr("class") != "bg":
        bad.append("rect-class")
    out.append("chk=" + ("ok" if not bad else ";".join(bad)))
    return " ".join(out)


def canon_text(data):
    _root, _rect, _text, _rules, rows, _problems = structure(data)
    return "n=%d" % len(rows) + "".join(" " + (dotted("".join(t for _c, t in fg)) or "-") for _x, _y, _bg, fg in rows)


def canon_cls(data):
    _root, _rect, _text, _rules, rows, problems = structure(data)
    out = ["n=%d" % len(rows)]
    for _x, _y, bg, fg in rows:
        if bg is not None and len(bg) != len(fg):
            problems.append("bg-fg-span-count")
            bg = None
        pieces = []
        for j, (cls, text) in enumerate(fg):
            key = ("+".join(cls.split(" ")) if cls is not None else "",
                   "-" if bg is None or bg[j][0] is None else "+".join(bg[j][0].split(" ")))
            if pieces and pieces[-1][0] == key:
                pieces[-1] = (key, pieces[-1][1] + text)
            else:
                pieces.append((key, text))
        out.append("| " + ",".join("%s/%s:%s" % (k[0], k[1], dotted(t)) for k, t in pieces))
    r = " ".join(out)
    return r + (" problems=" + ";".join(problems) if problems else "")


ROW = re.compile(rb'^    <tspan x="\d+px" y="(\d+)px">(.*)$')
SPAN = re.compile(rb'<tspan(?: class="[^"]*")?>([^<]*)</tspan>')


def oracle(data):
    """(width attribute in px, {escaped fragment bytes: number of fill characters}) read
    from the raw bytes; rows sharing one y are (background, foreground).  The key is the
    fragment as write_bg_span measures it: encode_text only, i.e. with a literal CR where
    the foreground span has the reference &#13;"""
    m = re.match(rb'<svg width="(\d+)px"', data)
    width = int(m.group(1)) if m else 0
    rows = []
    for line in data.split(b"\n"):
        mm = ROW.match(line)
        if mm:
            rows.append((mm.group(1), [s.decode("utf-8", "replace") for s in SPAN.findall(mm.group(2))]))
    fills = {}
    i = 0
    while i + 1 < len(rows):
        if rows[i][0] == rows[i + 1][0]:
            bg, fg = rows[i][1], rows[i + 1][1]
            if len(bg) == len(fg):
                for b, f in zip(bg, fg):
                    fills[f.replace("&#13;", "\r").encode("utf-8")] = len(b)
            i += 2
        else:
            i += 1
    return width, fills


def main(argv):
    with open(argv[1]) as f, open(argv[2], "w") as out:
        for line in f:
            line = line.strip()
            if not line:
                continue
            mode, pal, hx = line.split(" ")
            pb = bytes.fromhex(pal)
            palette = [(pb[3 * i], pb[3 * i + 1], pb[3 * i + 2]) for i in range(16)]
            data = bytes.fromhex(hx)
            try:
                r = canon_doc(data, palette) if mode == "doc" else canon_cls(data) if mode == "cls" else canon_text(data)
            except expat.ExpatError as e:
                r = "NOT-WELL-FORMED %s" % str(e).replace("\n", " ")
            out.write(r + "\n")
    return 0


if __name__ == "__main__":
    sys.exit(main(sys.argv))
