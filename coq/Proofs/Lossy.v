(* Proofs/Lossy.v -- lemmas for C10 (lossy colour conversion). *)
From Coq Require Import ZArith NArith List Bool Lia.
From AV Require Import Generated.Palette Spec.Lossy Model.Base Model.Lossy.
Import ListNotations.
Local Open Scope N_scope.

(* ---- the distance ----------------------------------------------------------- *)

Lemma sq_bound (z : Z) : (-255 <= z <= 255 -> 0 <= z * z <= 65025)%Z.
Proof. nia. Qed.

Lemma i32_in (z : Z) : (-2147483648 <= z < 2147483648)%Z -> i32 z = Some z.
Proof.
  intros [H1 H2]. unfold i32.
  apply Z.leb_le in H1. apply Z.ltb_lt in H2. now rewrite H1, H2.
Qed.

Lemma mul_abs_bound (a b A B : Z) :
  (-A <= a <= A -> -B <= b <= B -> -(A * B) <= a * b <= A * B)%Z.
Proof. nia. Qed.

Lemma wsq_bound (w d W : Z) :
  (0 <= w <= W -> -255 <= d <= 255 -> 0 <= w * d * d <= W * 65025)%Z.
Proof.
  intros Hw Hd. pose proof (sq_bound d Hd) as Hs.
  replace (w * d * d)%Z with (w * (d * d))%Z by ring.
  generalize dependent (d * d)%Z. intros q Hq. nia.
Qed.

Lemma redmean_range (a b : rgb) :
  rgb_ok a -> rgb_ok b -> (0 <= redmean_distance a b < 2147483648)%Z.
Proof.
  destruct a as [[r1 g1] b1], b as [[r2 g2] b2]. cbn [rgb_ok]. intros Ha Hb.
  unfold redmean_distance.
  pose proof (sq_bound (Z.of_N r1 - Z.of_N r2) ltac:(lia)) as Hr.
  pose proof (sq_bound (Z.of_N g1 - Z.of_N g2) ltac:(lia)) as Hg.
  pose proof (sq_bound (Z.of_N b1 - Z.of_N b2) ltac:(lia)) as Hb'.
  assert (0 <= Z.of_N r1 + Z.of_N r2 <= 510)%Z as HS by lia.
  set (S := (Z.of_N r1 + Z.of_N r2)%Z) in *.
  set (qr := ((Z.of_N r1 - Z.of_N r2) * (Z.of_N r1 - Z.of_N r2))%Z) in *.
  set (qg := ((Z.of_N g1 - Z.of_N g2) * (Z.of_N g1 - Z.of_N g2))%Z) in *.
  set (qb := ((Z.of_N b1 - Z.of_N b2) * (Z.of_N b1 - Z.of_N b2))%Z) in *.
  clearbody S qr qg qb. clear Ha Hb. nia.
Qed.

(* the model never overflows and computes the mathematical distance *)
Lemma distance_model (a b : rgb) :
  rgb_ok a -> rgb_ok b -> distance a b = Some (Z.to_N (redmean_distance a b)).
Proof.
  intros Ha Hb.
  destruct a as [[r1 g1] b1], b as [[r2 g2] b2]. cbn [rgb_ok] in Ha, Hb.
  unfold redmean_distance, distance.
  set (R1 := Z.of_N r1). set (G1 := Z.of_N g1). set (B1 := Z.of_N b1).
  set (R2 := Z.of_N r2). set (G2 := Z.of_N g2). set (B2 := Z.of_N b2).
  assert (0 <= R1 <= 255 /\ 0 <= G1 <= 255 /\ 0 <= B1 <= 255 /\
          0 <= R2 <= 255 /\ 0 <= G2 <= 255 /\ 0 <= B2 <= 255)%Z as HB by (subst R1 G1 B1 R2 G2 B2; lia).
  clearbody R1 G1 B1 R2 G2 B2. clear Ha Hb.
  set (S := (R1 + R2)%Z). set (dr := (R1 - R2)%Z). set (dg := (G1 - G2)%Z). set (db := (B1 - B2)%Z).
  assert (0 <= S <= 510 /\ -255 <= dr <= 255 /\ -255 <= dg <= 255 /\ -255 <= db <= 255)%Z as HD
    by (subst S dr dg db; lia).
  clearbody S dr dg db. clear HB.
  destruct HD as (HS & Hdr & Hdg & Hdb).
  pose proof (mul_abs_bound (1024 + S) dr 1534 255 ltac:(lia) ltac:(lia)) as Hr1.
  pose proof (wsq_bound (1024 + S) dr 1534 ltac:(lia) Hdr) as Hr.
  pose proof (wsq_bound 4 dg 4 ltac:(lia) Hdg) as Hg1.
  pose proof (mul_abs_bound (1534 - S) db 1534 255 ltac:(lia) ltac:(lia)) as Hb1.
  pose proof (wsq_bound (1534 - S) db 1534 ltac:(lia) Hdb) as Hb.
  rewrite (i32_in S) by lia.
  rewrite (i32_in dr) by lia.
  rewrite (i32_in dg) by lia.
  rewrite (i32_in db) by lia.
  rewrite (i32_in (1024 + S)) by lia.
  rewrite (i32_in ((1024 + S) * dr)) by lia.
  rewrite (i32_in ((1024 + S) * dr * dr)) by lia.
  rewrite (i32_in (4 * dg)) by lia.
  rewrite (i32_in (4 * dg * dg)) by lia.
  rewrite (i32_in (4 * dg * dg * 256)) by lia.
  rewrite (i32_in (1534 - S)) by lia.
  rewrite (i32_in ((1534 - S) * db)) by lia.
  rewrite (i32_in ((1534 - S) * db * db)) by lia.
  rewrite i32_in by lia.
  rewrite i32_in by lia.
  unfold i32_as_u32.
  match goal with |- context [(0 <=? ?z)%Z] => replace (0 <=? z)%Z with true by (symmetry; apply Z.leb_le; lia) end.
  do 2 f_equal. ring.
Qed.

Lemma redmean_zero (a b : rgb) :
  rgb_ok a -> rgb_ok b -> (redmean_distance a b = 0%Z <-> a = b).
Proof.
  destruct a as [[r1 g1] b1], b as [[r2 g2] b2]. cbn [rgb_ok]. intros Ha Hb.
  unfold redmean_distance. split.
  - intros H.
    assert (0 <= Z.of_N r1 + Z.of_N r2 <= 510)%Z as HS by lia.
    pose proof (Z.square_nonneg (Z.of_N r1 - Z.of_N r2)) as Hr.
    pose proof (Z.square_nonneg (Z.of_N g1 - Z.of_N g2)) as Hg.
    pose proof (Z.square_nonneg (Z.of_N b1 - Z.of_N b2)) as Hb'.
    set (S := (Z.of_N r1 + Z.of_N r2)%Z) in *.
    remember ((Z.of_N r1 - Z.of_N r2) * (Z.of_N r1 - Z.of_N r2))%Z as qr eqn:Eqr.
    remember ((Z.of_N g1 - Z.of_N g2) * (Z.of_N g1 - Z.of_N g2))%Z as qg eqn:Eqg.
    remember ((Z.of_N b1 - Z.of_N b2) * (Z.of_N b1 - Z.of_N b2))%Z as qb eqn:Eqb.
    assert (qr = 0 /\ qg = 0 /\ qb = 0)%Z as (Zr & Zg & Zb) by (clear Eqr Eqg Eqb; clearbody S; nia).
    subst qr qg qb.
    clear H Hr Hg Hb' HS. clearbody S.
    assert (Z.of_N r1 - Z.of_N r2 = 0)%Z by nia.
    assert (Z.of_N g1 - Z.of_N g2 = 0)%Z by nia.
    assert (Z.of_N b1 - Z.of_N b2 = 0)%Z by nia.
    assert (r1 = r2) by lia. assert (g1 = g2) by lia. assert (b1 = b2) by lia.
    congruence.
  - intros [= -> -> ->]. rewrite !Z.sub_diag. lia.
Qed.

Lemma distance_zero (a b : rgb) :
  rgb_ok a -> rgb_ok b -> (distance a b = Some 0 <-> a = b).
Proof.
  intros Ha Hb. rewrite (distance_model a b Ha Hb).
  pose proof (redmean_range a b Ha Hb) as Hr.
  rewrite <- (redmean_zero a b Ha Hb). split.
  - intros [= H]. lia.
  - intros ->. reflexivity.
Qed.

(* ---- nearest candidate: generic facts ---------------------------------------- *)

Lemma argmin_ext {A} (d d' : A -> Z) (l : list A) (i : N) :
  (forall x, In x l -> d x = d' x) -> is_argmin_lowest d l i -> is_argmin_lowest d' l i.
Proof.
  intros E (x & Hx & Hmin & Hlow). exists x. split; [exact Hx|].
  pose proof (nth_error_In _ _ Hx) as Ix.
  split.
  - intros j y Hy. rewrite <- (E x Ix), <- (E y (nth_error_In _ _ Hy)). eauto.
  - intros j y Hj Hy. rewrite <- (E x Ix), <- (E y (nth_error_In _ _ Hy)). eauto.
Qed.

Lemma argmin_unique {A} (d : A -> Z) (l : list A) (i j : N) :
  is_argmin_lowest d l i -> is_argmin_lowest d l j -> i = j.
Proof.
  intros (x & Hx & Hxmin & Hxlow) (y & Hy & Hymin & Hylow).
  destruct (N.lt_trichotomy i j) as [H | [H | H]]; [exfalso | exact H | exfalso].
  - assert (N.to_nat i < N.to_nat j)%nat as H' by lia.
    pose proof (Hylow _ _ H' Hx). pose proof (Hxmin _ _ Hy). lia.
  - assert (N.to_nat j < N.to_nat i)%nat as H' by lia.
    pose proof (Hxlow _ _ H' Hy). pose proof (Hymin _ _ Hx). lia.
Qed.

Lemma argmin_index_lt {A} (d : A -> Z) (l : list A) (i : N) :
  is_argmin_lowest d l i -> i < N.of_nat (length l).
Proof.
  intros (x & Hx & _). assert (nth_error l (N.to_nat i) <> None) as H by congruence.
  apply nth_error_Some in H. lia.
Qed.

(* the loop: from state (index, best_index, best_distance) over the remaining
   entries [l], with [dN] the (total) distance to the colour sought.  Either no
   remaining entry is strictly nearer than the current best, which is kept; or the
   result is the first position of the minimum of [l], which is strictly nearer. *)
Lemma scan_spec (c : rgb) (dN : rgb -> N) :
  forall l index bi bd,
    (forall e, In e l -> distance c e = Some (dN e)) ->
    exists bi' bd', scan c l index bi bd = Some (bi', bd') /\
      ((bi' = bi /\ bd' = bd /\ forall j y, nth_error l j = Some y -> bd <= dN y) \/
       (exists k y, nth_error l k = Some y /\ bi' = index + N.of_nat k /\ bd' = dN y /\
          dN y < bd /\
          (forall j y', nth_error l j = Some y' -> dN y <= dN y') /\
          (forall j y', (j < k)%nat -> nth_error l j = Some y' -> dN y < dN y'))).
Proof.
  induction l as [|e t IH]; intros index bi bd Hd.
  - exists bi, bd. split; [reflexivity|]. left. repeat split.
    intros [|j] y; discriminate.
  - cbn [scan]. rewrite (Hd e (or_introl eq_refl)).
    assert (forall e0, In e0 t -> distance c e0 = Some (dN e0)) as Hd' by (intros; apply Hd; now right).
    destruct (dN e <? bd) eqn:Hlt.
    + apply N.ltb_lt in Hlt.
      destruct (IH (index + 1) index (dN e) Hd') as (bi' & bd' & Hs & Hcase).
      exists bi', bd'. split; [exact Hs|]. right.
      destruct Hcase as [(-> & -> & Hall) | (k & y & Hy & -> & -> & Hylt & Hmin & Hlow)].
      * exists 0%nat, e. cbn [nth_error].
        refine (conj eq_refl (conj _ (conj eq_refl (conj Hlt (conj _ _))))); [lia | |].
        -- intros [|j] y' Hy'; cbn [nth_error] in Hy'.
           ++ injection Hy' as <-. lia.
           ++ eauto.
        -- intros j y' Hj. lia.
      * exists (S k), y. cbn [nth_error].
        refine (conj Hy (conj _ (conj eq_refl (conj _ (conj _ _))))); [lia | lia | |].
        -- intros [|j] y' Hy'; cbn [nth_error] in Hy'.
           ++ injection Hy' as <-. lia.
           ++ eauto.
        -- intros [|j] y' Hj Hy'; cbn [nth_error] in Hy'.
           ++ injection Hy' as <-. lia.
           ++ apply (Hlow j); [lia | assumption].
    + apply N.ltb_ge in Hlt.
      destruct (IH (index + 1) bi bd Hd') as (bi' & bd' & Hs & Hcase).
      exists bi', bd'. split; [exact Hs|].
      destruct Hcase as [(-> & -> & Hall) | (k & y & Hy & -> & -> & Hylt & Hmin & Hlow)].
      * left. refine (conj eq_refl (conj eq_refl _)).
        intros [|j] y' Hy'; cbn [nth_error] in Hy'.
        -- injection Hy' as <-. lia.
        -- eauto.
      * right. exists (S k), y. cbn [nth_error].
        refine (conj Hy (conj _ (conj eq_refl (conj Hylt (conj _ _))))); [lia | |].
        -- intros [|j] y' Hy'; cbn [nth_error] in Hy'.
           ++ injection Hy' as <-. lia.
           ++ eauto.
        -- intros [|j] y' Hj Hy'; cbn [nth_error] in Hy'.
           ++ injection Hy' as <-. lia.
           ++ apply (Hlow j); [lia | assumption].
Qed.

Lemma skipn_cons_nth {A} (l : list A) (n : nat) (e : A) :
  nth_error l n = Some e -> skipn n l = e :: skipn (S n) l.
Proof.
  revert l. induction n as [|n IH]; intros [|h t] H; try discriminate.
  - injection H as ->. reflexivity.
  - cbn [nth_error] in H. cbn [skipn]. rewrite (IH t H). reflexivity.
Qed.

(* find_best = first position of the minimum among table[start..], counted from
   [start]; total when those entries and the colour are in range *)
Lemma find_best_argmin (c : rgb) (table : list rgb) (start : N) :
  rgb_ok c ->
  Forall rgb_ok (skipn (N.to_nat start) table) ->
  start < N.of_nat (length table) ->
  exists i, find_best c table start = Some (start + i) /\
            is_argmin_lowest (redmean_distance c) (skipn (N.to_nat start) table) i.
Proof.
  intros Hc Hall Hstart.
  destruct (nth_error table (N.to_nat start)) as [e0|] eqn:He0;
    [| apply nth_error_None in He0; lia].
  pose proof (skipn_cons_nth _ _ _ He0) as Hsk. rewrite Hsk in Hall |- *.
  set (rest := skipn (S (N.to_nat start)) table) in *.
  set (dN := fun e => Z.to_N (redmean_distance c e)).
  assert (forall e, In e (e0 :: rest) -> distance c e = Some (dN e)) as Hd.
  { intros e Ie. rewrite Forall_forall in Hall. apply distance_model; auto. }
  assert (forall e, In e (e0 :: rest) -> Z.of_N (dN e) = redmean_distance c e) as HdZ.
  { intros e Ie. rewrite Forall_forall in Hall. unfold dN.
    pose proof (redmean_range c e Hc (Hall e Ie)). lia. }
  unfold find_best, aget. rewrite He0. rewrite (Hd e0 (or_introl eq_refl)).
  replace (N.to_nat (start + 1)) with (S (N.to_nat start)) by lia. fold rest.
  destruct (scan_spec c dN rest (start + 1) start (dN e0)) as (bi' & bd' & Hs & Hcase).
  { intros e Ie. apply Hd. now right. }
  rewrite Hs.
  destruct Hcase as [(-> & -> & Hge) | (k & y & Hy & -> & -> & Hylt & Hmin & Hlow)].
  - exists 0. split; [f_equal; lia|].
    apply (argmin_ext (fun e => Z.of_N (dN e))); [exact HdZ|].
    exists e0. cbn [N.to_nat nth_error]. repeat split.
    + intros [|j] y Hy; cbn [nth_error] in Hy.
      * injection Hy as <-. lia.
      * apply N2Z.inj_le. eauto.
    + intros j y Hj. lia.
  - exists (N.of_nat k + 1). split; [f_equal; lia|].
    apply (argmin_ext (fun e => Z.of_N (dN e))); [exact HdZ|].
    exists y. replace (N.to_nat (N.of_nat k + 1)) with (S k) by lia. cbn [nth_error].
    split; [exact Hy|]. split.
    + intros [|j] y' Hy'; cbn [nth_error] in Hy'.
      * injection Hy' as <-. lia.
      * apply N2Z.inj_le. eauto.
    + intros [|j] y' Hj Hy'; cbn [nth_error] in Hy'.
      * injection Hy' as <-. lia.
      * apply N2Z.inj_lt. apply (Hlow j); [lia | assumption].
Qed.

(* ---- the executable specification [argmin_lowest] is [is_argmin_lowest] ------ *)

Lemma fold_min_le (t : list Z) (h : Z) :
  (fold_left Z.min t h <= h)%Z /\ (forall y, In y t -> fold_left Z.min t h <= y)%Z /\
  In (fold_left Z.min t h) (h :: t).
Proof.
  revert h. induction t as [|x t IH]; intros h; cbn [fold_left].
  - repeat split; [lia | intros y [] | now left].
  - destruct (IH (Z.min h x)) as (H1 & H2 & H3). repeat split.
    + lia.
    + intros y [<- | Hy]; [lia | auto].
    + destruct H3 as [H3 | H3].
      * rewrite <- H3. destruct (Z.min_spec h x) as [[_ ->] | [_ ->]]; cbn; auto.
      * right. now right.
Qed.

Lemma first_index_spec (m : Z) (l : list Z) (i0 i : N) :
  first_index m l i0 = Some i ->
  exists k, i = i0 + N.of_nat k /\ nth_error l k = Some m /\
            forall j y, (j < k)%nat -> nth_error l j = Some y -> y <> m.
Proof.
  revert i0. induction l as [|h t IH]; intros i0 H; cbn [first_index] in H; [discriminate|].
  destruct (h =? m)%Z eqn:E.
  - injection H as <-. apply Z.eqb_eq in E. subst h. exists 0%nat. repeat split; [lia|].
    intros j y Hj. lia.
  - apply Z.eqb_neq in E. destruct (IH _ H) as (k & -> & Hk & Hlow).
    exists (S k). repeat split; [lia | exact Hk |].
    intros [|j] y Hj Hy; cbn [nth_error] in Hy.
    + injection Hy as <-. exact E.
    + apply (Hlow j); [lia | assumption].
Qed.

Lemma first_index_total (m : Z) (l : list Z) (i0 : N) :
  In m l -> exists i, first_index m l i0 = Some i.
Proof.
  revert i0. induction l as [|h t IH]; intros i0 H; [destruct H|].
  cbn [first_index]. destruct (h =? m)%Z eqn:E; [eauto|].
  apply Z.eqb_neq in E. destruct H as [H | H]; [contradiction|]. auto.
Qed.

Lemma argmin_lowest_sound {A} (d : A -> Z) (l : list A) (i : N) :
  argmin_lowest d l = Some i -> is_argmin_lowest d l i.
Proof.
  unfold argmin_lowest, list_min.
  destruct (map d l) as [|h t] eqn:Em; [discriminate|].
  intros H. destruct (fold_min_le t h) as (H1 & H2 & H3).
  set (m := fold_left Z.min t h) in *.
  destruct (first_index_spec _ _ _ _ H) as (k & -> & Hk & Hlow).
  rewrite <- Em in Hk, Hlow. clear H.
  assert (forall y, In y (map d l) -> m <= y)%Z as Hmin.
  { rewrite Em. intros y [<- | Hy]; auto. }
  rewrite nth_error_map in Hk.
  destruct (nth_error l k) as [x|] eqn:Hx; [|discriminate]. injection Hk as Hk.
  exists x. replace (N.to_nat (0 + N.of_nat k)) with k by lia.
  split; [exact Hx|]. rewrite Hk. split.
  - intros j y Hy. apply Hmin. apply in_map. eapply nth_error_In; eauto.
  - intros j y Hj Hy.
    assert (d y <> m) as Hne. { apply (Hlow j); [exact Hj|]. rewrite nth_error_map, Hy. reflexivity. }
    assert (m <= d y)%Z. { apply Hmin. apply in_map. eapply nth_error_In; eauto. }
    lia.
Qed.

Lemma argmin_lowest_total {A} (d : A -> Z) (l : list A) :
  l <> [] -> exists i, argmin_lowest d l = Some i.
Proof.
  intros Hne. unfold argmin_lowest, list_min.
  destruct (map d l) as [|h t] eqn:Em.
  - destruct l; [contradiction | discriminate].
  - apply first_index_total. apply (fold_min_le t h).
Qed.

Lemma argmin_lowest_complete {A} (d : A -> Z) (l : list A) (i : N) :
  is_argmin_lowest d l i -> argmin_lowest d l = Some i.
Proof.
  intros H. assert (l <> []) as Hne.
  { destruct H as (x & Hx & _). intros ->. destruct (N.to_nat i); discriminate. }
  destruct (argmin_lowest_total d l Hne) as (j & Hj). rewrite Hj. f_equal.
  apply (argmin_unique d l); [now apply argmin_lowest_sound | exact H].
Qed.

(* ---- finite facts about the generated tables (complete enumeration) ---------- *)

Lemma n_range_In : forall n a x, In x (n_range a n) <-> a <= x < a + N.of_nat n.
Proof.
  induction n as [|n IH]; intros a x; cbn [n_range].
  - split; [intros [] | lia].
  - rewrite Nat2N.inj_succ. cbn [In]. rewrite IH. lia.
Qed.

Lemma forall_range (P : N -> bool) (a : N) (n : nat) :
  forallb P (n_range a n) = true -> forall i, a <= i < a + N.of_nat n -> P i = true.
Proof. intros H i Hi. rewrite forallb_forall in H. apply H, n_range_In, Hi. Qed.

Definition rgb_okb (c : rgb) : bool := let '(r, g, b) := c in (r <? 256) && (g <? 256) && (b <? 256).
Definition rgb_eqb (x y : rgb) : bool :=
  let '(r1, g1, b1) := x in let '(r2, g2, b2) := y in (r1 =? r2) && (g1 =? g2) && (b1 =? b2).
Definition on_eqb (x y : option N) : bool :=
  match x, y with Some a, Some b => a =? b | None, None => true | _, _ => false end.

Lemma rgb_okb_ok c : rgb_okb c = true <-> rgb_ok c.
Proof.
  destruct c as [[r g] b]. cbn [rgb_okb rgb_ok]. rewrite !andb_true_iff, !N.ltb_lt. tauto.
Qed.

Lemma rgb_eqb_eq x y : rgb_eqb x y = true <-> x = y.
Proof.
  destruct x as [[r1 g1] b1], y as [[r2 g2] b2]. cbn [rgb_eqb].
  rewrite !andb_true_iff, !N.eqb_eq. split; [intros [[-> ->] ->]; reflexivity | intros [= -> -> ->]; auto].
Qed.

Lemma on_eqb_eq x y : on_eqb x y = true <-> x = y.
Proof.
  destruct x, y; cbn [on_eqb]; try rewrite N.eqb_eq; split; intros H; try congruence; try discriminate.
Qed.

Lemma all_okb (l : list rgb) : forallb rgb_okb l = true -> Forall rgb_ok l.
Proof. intros H. rewrite forallb_forall in H. apply Forall_forall. intros x Hx. now apply rgb_okb_ok, H. Qed.

Lemma xterm_len : @length rgb xterm_colors = 256%nat.
Proof. reflexivity. Qed.

Lemma xterm_all_ok : Forall rgb_ok xterm_colors.
Proof. apply all_okb. vm_compute. reflexivity. Qed.

(* the candidates of the 256-colour target are the standard cube and grey ramp *)
Lemma xterm_tail_standard : skipn 16 xterm_colors = xterm240.
Proof. vm_compute. reflexivity. Qed.

Lemma xterm_nth : forall i, 16 <= i < 256 ->
  nth_error xterm_colors (N.to_nat i) = Some (xterm_fixed i).
Proof.
  intros i Hi.
  assert (forallb (fun i => match nth_error xterm_colors (N.to_nat i) with
                            | Some c => rgb_eqb c (xterm_fixed i) | None => false end)
                  (n_range 16 240) = true) as H by (vm_compute; reflexivity).
  pose proof (forall_range _ _ _ H i ltac:(lia)) as Hi'. cbv beta in Hi'.
  destruct (nth_error xterm_colors (N.to_nat i)); [|discriminate].
  apply rgb_eqb_eq in Hi'. now subst.
Qed.

Lemma xterm_fixed_ok : forall i, 16 <= i < 256 -> rgb_ok (xterm_fixed i).
Proof.
  intros i Hi. pose proof xterm_all_ok as H. rewrite Forall_forall in H.
  apply H. eapply nth_error_In. apply (xterm_nth i Hi).
Qed.

Lemma x2a_low : forall i, i < 16 -> assoc i xterm_to_ansi_arms = Some i.
Proof.
  intros i Hi.
  assert (forallb (fun i => on_eqb (assoc i xterm_to_ansi_arms) (Some i)) (n_range 0 16) = true) as H
    by (vm_compute; reflexivity).
  apply on_eqb_eq. apply (forall_range _ _ _ H i). lia.
Qed.

Lemma x2a_high : forall i, 16 <= i < 256 -> assoc i xterm_to_ansi_arms = None.
Proof.
  intros i Hi.
  assert (forallb (fun i => on_eqb (assoc i xterm_to_ansi_arms) None) (n_range 16 240) = true) as H
    by (vm_compute; reflexivity).
  apply on_eqb_eq. apply (forall_range _ _ _ H i). lia.
Qed.

Lemma into_ansi_low : forall i, i < 16 -> into_ansi i = Some i.
Proof.
  intros i Hi.
  assert (forallb (fun i => on_eqb (into_ansi i) (Some i)) (n_range 0 16) = true) as H
    by (vm_compute; reflexivity).
  apply on_eqb_eq. apply (forall_range _ _ _ H i). lia.
Qed.

Lemma from_ansi_low : forall a, a < 16 -> from_ansi a = Some a.
Proof.
  intros a Ha.
  assert (forallb (fun i => on_eqb (from_ansi i) (Some i)) (n_range 0 16) = true) as H
    by (vm_compute; reflexivity).
  apply on_eqb_eq. apply (forall_range _ _ _ H a). lia.
Qed.

(* every fixed colour of the 256 palette is found at its own index (the 240
   candidates are pairwise distinct) *)
Lemma xterm_fixed_roundtrip : forall k, 16 <= k < 256 -> rgb_to_xterm (xterm_fixed k) = Some k.
Proof.
  intros k Hk.
  assert (forallb (fun k => on_eqb (rgb_to_xterm (xterm_fixed k)) (Some k)) (n_range 16 240) = true) as H
    by (vm_compute; reflexivity).
  apply on_eqb_eq. apply (forall_range _ _ _ H k). lia.
Qed.

Lemma shipped_palettes_ok : palette_ok vga /\ palette_ok win10_console.
Proof.
  split; (split; [reflexivity | apply all_okb; vm_compute; reflexivity]).
Qed.

(* ---- the conversions --------------------------------------------------------- *)

Lemma palette_nth (p : list rgb) (a : N) :
  palette_ok p -> a < 16 -> exists e, nth_error p (N.to_nat a) = Some e /\ rgb_ok e.
Proof.
  intros [Hl Hall] Ha.
  destruct (nth_error p (N.to_nat a)) as [e|] eqn:E.
  - exists e. split; [reflexivity|]. rewrite Forall_forall in Hall. eapply Hall, nth_error_In, E.
  - apply nth_error_None in E. lia.
Qed.

Lemma find_match_argmin (p : list rgb) (c : rgb) :
  palette_ok p -> rgb_ok c ->
  exists i, find_match p c = Some i /\ i < 16 /\ is_argmin_lowest (redmean_distance c) p i.
Proof.
  intros [Hl Hall] Hc.
  destruct (find_best_argmin c p 0 Hc) as (i & Hf & Harg).
  - exact Hall.
  - rewrite Hl. reflexivity.
  - cbn [N.to_nat skipn] in Harg. pose proof (argmin_index_lt _ _ _ Harg) as Hi. rewrite Hl in Hi.
    exists i. unfold find_match. rewrite Hf. rewrite N.add_0_l.
    rewrite N.mod_small by lia. rewrite (into_ansi_low i) by lia.
    repeat split; [lia | exact Harg].
Qed.

Lemma rgb_to_xterm_argmin (c : rgb) :
  rgb_ok c ->
  exists i, rgb_to_xterm c = Some i /\ 16 <= i < 256 /\
            is_argmin_lowest (redmean_distance c) (skipn 16 xterm_colors) (i - 16).
Proof.
  intros Hc.
  destruct (find_best_argmin c xterm_colors 16 Hc) as (i & Hf & Harg).
  - apply all_okb. vm_compute. reflexivity.
  - rewrite xterm_len. reflexivity.
  - change (N.to_nat 16) with 16%nat in Harg.
    pose proof (argmin_index_lt _ _ _ Harg) as Hi.
    rewrite skipn_length, xterm_len in Hi. change (N.of_nat (256 - 16)) with 240 in Hi.
    exists (16 + i). unfold rgb_to_xterm, find_xterm_match. rewrite Hf.
    rewrite N.mod_small by lia. split; [reflexivity|]. split; [lia|].
    replace (16 + i - 16) with i by lia. exact Harg.
Qed.

(* an exact entry is found, at the lowest index that holds it *)
Lemma argmin_exact (l : list rgb) (e : rgb) (k : nat) (i : N) :
  Forall rgb_ok l -> nth_error l k = Some e ->
  is_argmin_lowest (redmean_distance e) l i ->
  (N.to_nat i <= k)%nat /\ nth_error l (N.to_nat i) = Some e /\
  forall j, (j < N.to_nat i)%nat -> nth_error l j <> Some e.
Proof.
  intros Hall Hk (x & Hx & Hmin & Hlow). rewrite Forall_forall in Hall.
  assert (rgb_ok e) as He by (eapply Hall, nth_error_In, Hk).
  assert (rgb_ok x) as Hxok by (eapply Hall, nth_error_In, Hx).
  assert (redmean_distance e e = 0%Z) as H0 by (apply redmean_zero; auto).
  pose proof (Hmin _ _ Hk) as Hle. pose proof (redmean_range e x He Hxok) as Hr.
  assert (x = e) as -> by (symmetry; apply redmean_zero; auto; lia).
  split; [|split].
  - destruct (Nat.le_gt_cases (N.to_nat i) k) as [H | H]; [exact H|].
    pose proof (Hlow _ _ H Hk). lia.
  - exact Hx.
  - intros j Hj Hje. pose proof (Hlow _ _ Hj Hje). lia.
Qed.

Lemma exact_hit_ansi (p : list rgb) (k : nat) (e : rgb) :
  palette_ok p -> nth_error p k = Some e ->
  exists i, rgb_to_ansi e p = Some i /\ (N.to_nat i <= k)%nat /\
            nth_error p (N.to_nat i) = Some e /\
            forall j, (j < N.to_nat i)%nat -> nth_error p j <> Some e.
Proof.
  intros Hp Hk. pose proof Hp as [Hl Hall].
  assert (rgb_ok e) as He. { rewrite Forall_forall in Hall. eapply Hall, nth_error_In, Hk. }
  destruct (find_match_argmin p e Hp He) as (i & Hf & _ & Harg).
  exists i. split; [exact Hf|]. now apply argmin_exact.
Qed.

Lemma exact_hit_xterm (k : N) (e : rgb) :
  16 <= k < 256 -> nth_error xterm_colors (N.to_nat k) = Some e -> rgb_to_xterm e = Some k.
Proof.
  intros Hk He. rewrite (xterm_nth k Hk) in He. injection He as <-. now apply xterm_fixed_roundtrip.
Qed.

Lemma xterm_to_ansi_argmin (p : list rgb) (i : N) :
  palette_ok p -> 16 <= i < 256 ->
  exists a, xterm_to_ansi i p = Some a /\ a < 16 /\
            is_argmin_lowest (redmean_distance (xterm_fixed i)) p a.
Proof.
  intros Hp Hi. unfold xterm_to_ansi, aget. rewrite (x2a_high i Hi), (xterm_nth i Hi).
  apply find_match_argmin; [exact Hp | now apply xterm_fixed_ok].
Qed.

Lemma same_kind_identity :
  (forall c p, color_to_rgb (Rgb c) p = Some c) /\
  (forall i, color_to_xterm (Ansi256 i) = Some i) /\
  (forall a p, color_to_ansi (Ansi a) p = Some a).
Proof. repeat split. Qed.

(* indices 0-15 of the 256-colour palette are the 16-colour palette *)
Lemma low_indices (p : list rgb) (a : N) :
  palette_ok p -> a < 16 ->
  color_to_xterm (Ansi a) = Some a /\
  xterm_to_ansi a p = Some a /\
  color_to_ansi (Ansi256 a) p = Some a /\
  exists e, nth_error p (N.to_nat a) = Some e /\
            ansi_to_rgb a p = Some e /\ xterm_to_rgb a p = Some e /\
            palette_get p a = Some e /\ palette_index p a = Some e /\
            color_to_rgb (Ansi a) p = Some e /\ color_to_rgb (Ansi256 a) p = Some e.
Proof.
  intros Hp Ha. destruct (palette_nth p a Hp Ha) as (e & He & _). destruct Hp as [Hl _].
  cbn [color_to_xterm color_to_ansi color_to_rgb].
  unfold xterm_to_ansi, ansi_to_rgb, rgb_from_ansi, palette_get, palette_index, get_ansi256_ref,
    xterm_to_rgb, rgb_from_index, aget.
  rewrite (from_ansi_low a Ha), (x2a_low a Ha), Hl.
  replace (a <? N.of_nat 16) with true by (symmetry; apply N.ltb_lt; lia).
  rewrite He. repeat split. exists e. repeat split.
Qed.

Lemma high_indices_rgb (p : list rgb) (i : N) :
  palette_ok p -> 16 <= i < 256 ->
  xterm_to_rgb i p = Some (xterm_fixed i) /\ color_to_rgb (Ansi256 i) p = Some (xterm_fixed i).
Proof.
  intros [Hl _] Hi. cbn [color_to_rgb]. unfold xterm_to_rgb, rgb_from_index, aget. rewrite Hl.
  replace (i <? N.of_nat 16) with false by (symmetry; apply N.ltb_ge; lia).
  rewrite (xterm_nth i Hi). auto.
Qed.

Lemma conversions_total (col : color) (p : list rgb) :
  color_ok col -> palette_ok p ->
  (exists r, color_to_rgb col p = Some r /\ rgb_ok r) /\
  (exists i, color_to_xterm col = Some i /\ i < 256) /\
  (exists a, color_to_ansi col p = Some a /\ a < 16).
Proof.
  intros Hc Hp. destruct col as [a | i | c]; cbn [color_ok] in Hc.
  - destruct (low_indices p a Hp Hc) as (H1 & _ & _ & e & He & _ & _ & _ & _ & H2 & _).
    destruct (palette_nth p a Hp Hc) as (e' & He' & Hok). rewrite He in He'. injection He' as <-.
    repeat split; [exists e | exists a | exists a]; repeat split; auto; lia.
  - destruct (N.lt_ge_cases i 16) as [Hlo | Hhi].
    + destruct (low_indices p i Hp Hlo) as (_ & _ & H1 & e & He & _ & _ & _ & _ & _ & H2).
      destruct (palette_nth p i Hp Hlo) as (e' & He' & Hok). rewrite He in He'. injection He' as <-.
      repeat split; [exists e | exists i | exists i]; repeat split; auto.
    + destruct (high_indices_rgb p i Hp (conj Hhi Hc)) as (_ & H1).
      destruct (xterm_to_ansi_argmin p i Hp (conj Hhi Hc)) as (a & H2 & Ha & _).
      repeat split; [exists (xterm_fixed i) | exists i | exists a]; repeat split; auto.
      now apply xterm_fixed_ok.
  - destruct (rgb_to_xterm_argmin c Hc) as (i & H1 & Hi & _).
    destruct (find_match_argmin p c Hp Hc) as (a & H2 & Ha & _).
    repeat split; [exists c | exists i | exists a]; repeat split; auto; lia.
Qed.

(* the model agrees with the executable specification (the oracle of the
   correspondence runs) on every valid input *)
Lemma spec_rgb_to_ansi_eq (p : list rgb) (c : rgb) :
  palette_ok p -> rgb_ok c -> rgb_to_ansi c p = spec_rgb_to_ansi p c.
Proof.
  intros Hp Hc. destruct (find_match_argmin p c Hp Hc) as (i & Hf & _ & Harg).
  unfold rgb_to_ansi, spec_rgb_to_ansi. rewrite Hf. symmetry. now apply argmin_lowest_complete.
Qed.

Lemma spec_rgb_to_xterm_eq (c : rgb) : rgb_ok c -> rgb_to_xterm c = spec_rgb_to_xterm c.
Proof.
  intros Hc. destruct (rgb_to_xterm_argmin c Hc) as (i & Hf & Hi & Harg).
  unfold spec_rgb_to_xterm. rewrite <- xterm_tail_standard.
  rewrite (argmin_lowest_complete _ _ _ Harg). rewrite Hf. f_equal. lia.
Qed.

Lemma model_is_spec (col : color) (p : list rgb) :
  color_ok col -> palette_ok p ->
  color_to_rgb col p = spec_to_rgb p col /\
  color_to_xterm col = spec_to_xterm col /\
  color_to_ansi col p = spec_to_ansi p col.
Proof.
  intros Hc Hp. destruct col as [a | i | c]; cbn [color_ok] in Hc;
    cbn [spec_to_rgb spec_to_xterm spec_to_ansi].
  - destruct (low_indices p a Hp Hc) as (H1 & _ & _ & e & He & _ & _ & _ & _ & H2 & _).
    replace (a <? 16) with true by (symmetry; apply N.ltb_lt; lia).
    rewrite H1, H2, He. auto.
  - unfold spec_index_rgb. destruct (N.lt_ge_cases i 16) as [Hlo | Hhi].
    + destruct (low_indices p i Hp Hlo) as (_ & _ & H1 & e & He & _ & _ & _ & _ & _ & H2).
      replace (i <? 16) with true by (symmetry; apply N.ltb_lt; lia).
      rewrite H1, H2, He. auto.
    + destruct (high_indices_rgb p i Hp (conj Hhi Hc)) as (_ & H1).
      replace (i <? 16) with false by (symmetry; apply N.ltb_ge; lia).
      replace (i <? 256) with true by (symmetry; apply N.ltb_lt; lia).
      rewrite H1. repeat split. cbn [color_to_ansi]. unfold xterm_to_ansi, aget.
      rewrite (x2a_high i (conj Hhi Hc)), (xterm_nth i (conj Hhi Hc)).
      apply (spec_rgb_to_ansi_eq p _ Hp). now apply xterm_fixed_ok.
  - cbn [color_to_rgb color_to_xterm color_to_ansi]. repeat split.
    + now apply spec_rgb_to_xterm_eq.
    + now apply spec_rgb_to_ansi_eq.
Qed.

(* ---- statements in the form quoted by Props/C10.v ------------------------------ *)

Lemma distance_range (a b : rgb) :
  rgb_ok a -> rgb_ok b ->
  distance a b = Some (Z.to_N (redmean_distance a b)) /\
  (0 <= redmean_distance a b < 2147483648)%Z.
Proof. intros Ha Hb. split; [now apply distance_model | now apply redmean_range]. Qed.

Lemma distance_zero_both (a b : rgb) :
  rgb_ok a -> rgb_ok b ->
  (redmean_distance a b = 0%Z <-> a = b) /\ (distance a b = Some 0 <-> a = b).
Proof. intros Ha Hb. split; [now apply redmean_zero | now apply distance_zero]. Qed.

Lemma xterm_candidates_standard :
  @length rgb xterm_colors = 256%nat /\ skipn 16 xterm_colors = xterm240 /\
  forall i, 16 <= i < 256 -> nth_error xterm_colors (N.to_nat i) = Some (xterm_fixed i).
Proof. exact (conj xterm_len (conj xterm_tail_standard xterm_nth)). Qed.

Lemma argmin_lowest_correct (d : rgb -> Z) (l : list rgb) (i : N) :
  argmin_lowest d l = Some i <-> is_argmin_lowest d l i.
Proof. split; [apply argmin_lowest_sound | apply argmin_lowest_complete]. Qed.

(* ---- recorded deviation (not a property theorem) --------------------------------
   The crate's green weight (4 * 256) is half of what the cited compuphase formula
   gives on the same scale (4 * 512); the two metrics choose different entries for
   about 11% of all colours against the VGA palette.  Witness, on a literal copy of
   the VGA palette: (0, 25, 85) goes to entry 8 (85,85,85) under the crate's scale
   and to entry 0 (0,0,0) under the cited one.  Nothing was weakened for this: every
   theorem above is stated and proved for the crate's own scale, which is what
   Spec/Lossy.v fixes (the property text does not give the weights). *)
Lemma green_weight_deviation_witness :
  let p := [(0,0,0); (170,0,0); (0,170,0); (170,85,0); (0,0,170); (170,0,170); (0,170,170); (170,170,170);
            (85,85,85); (255,85,85); (85,255,85); (255,255,85); (85,85,255); (255,85,255); (85,255,255); (255,255,255)] in
  argmin_lowest (redmean_distance (0, 25, 85)) p = Some 8 /\
  argmin_lowest (compuphase_distance (0, 25, 85)) p = Some 0.
Proof. vm_compute. split; reflexivity. Qed.
