(* Proofs/OwoRender.v -- what the bytes owo-colors 4.0.0 writes for a Style MEAN: the hand model of the rendering
   (Model/Owo.v [owo_render], proved equal to the translated crate in Proofs/OwoFnGen.v) interpreted from the
   terminal's default state by Spec/Vt + Spec/Sgr (the interpreter of C05 / C07), for the values the adapter
   anstyle-owo-colors can produce.

   * [owo_value s]: the owo_colors::Style the adapter builds for the anstyle style [s] (Proofs/OwoFnGen.v proves it is
     what the translated constructors / builder methods give for the adapter model's [ad_to_owo s]);
   * TRUE part ([owo_render_interp]): when the style is not in the defect class below, the rendering of "x" is one SGR
     sequence, the text, and ESC[0m, and the rendition the terminal gives the text is EXACTLY [ad_project AdOwo s]
     (no identification of palette entries is needed: owo-colors prints its 16 named colours as 30-37 / 90-97);
   * REFUTED part ([owo_render_refuted], finding F16-1): with a background, no foreground and at least one effect
     the crate writes no separator after the background parameters (bg red + bold = ESC[411m): the rendering
     does not mean the style. *)
From Coq Require Import NArith Arith List Bool Lia.
From AV Require Import Spec.Utf8 Spec.Vt Spec.Sgr Spec.Algebra Spec.Render Spec.Targets Model.Base Generated.Table Proofs.TableFacts
  Proofs.Render Generated.Adapters Model.Adapters Model.Owo.
Import ListNotations.
Local Open Scope N_scope.

(* ---- the value the adapter builds ------------------------------------------------------------- *)

(* AnsiColors is its variant position: Black .. White = 0 .. 7, Default = 8, BrightBlack .. BrightWhite = 9 .. 16 *)
Definition owo_colour (c : colour) : owo_dyn :=
  match c with
  | CAnsi i => OwAnsi (if i <? 8 then i else i + 1)
  | CIdx n => OwXterm n
  | CRgb r g b => OwRgb r g b
  end.

Definition owo_bit (e k v : N) : N := if N.testbit e k then v else 0.
(* StyleFlags: dimmed 1, italic 2, underline 4, blink 8, (blink_fast 16,) reversed 32, hidden 64, strikethrough 128 *)
Definition owo_flags_of (e : N) : N :=
  owo_bit e DIMMED 1 + owo_bit e ITALIC 2 + owo_bit e UNDERLINE 4 + owo_bit e BLINK 8 + owo_bit e INVERT 32
  + owo_bit e HIDDEN 64 + owo_bit e STRIKETHROUGH 128.

Definition owo_value (s : sstyle) : owo_style :=
  mkOwo (option_map owo_colour (s_fg s)) (option_map owo_colour (s_bg s)) (N.testbit (s_eff s) BOLD) (owo_flags_of (s_eff s)).

(* the values the Rust types hold: u8 components *)
Definition owo_u8_colour (c : option colour) : Prop :=
  match c with Some (CIdx n) => n < 256 | Some (CRgb r g b) => r < 256 /\ g < 256 /\ b < 256 | _ => True end.
Definition owo_src_ok (s : sstyle) : Prop := ad_src_ok s /\ owo_u8_colour (s_fg s) /\ owo_u8_colour (s_bg s).

(* the defect class of owo-colors 4.0.0: a background, no foreground, and an effect the library can express *)
Definition owo_defect (s : sstyle) : bool :=
  match s_fg s, s_bg s with
  | None, Some _ => negb (N.land (s_eff s) (ad_expressible AdOwo) =? 0)
  | _, _ => false
  end.

(* ---- the parameters as numbers ------------------------------------------------------------------ *)

Definition owo_vals (bg : bool) (c : owo_dyn) : list N :=
  let ext := if bg then 48 else 38 in
  match c with
  | OwAnsi a => [if bg then owo_ansi_bg_code a else owo_ansi_fg_code a]
  | OwCss c => match c with end
  | OwXterm x => [ext; 5; x]
  | OwRgb r g b => [ext; 2; r; g; b]
  end.

Definition owo_eff_vals (bold : bool) (fl : N) : list N :=
  (if bold then [1] else []) ++ flat_map (fun k => if N.testbit fl k then [2 + k] else []) [0; 1; 2; 3; 4; 5; 6; 7].

Definition owo_slot_vals (bg : bool) (o : option owo_dyn) : list N :=
  match o with Some c => owo_vals bg c | None => [] end.
Definition owo_all_vals (v : owo_style) : list N :=
  owo_slot_vals false (ow_fg v) ++ owo_slot_vals true (ow_bg v) ++ owo_eff_vals (ow_bold v) (ow_flags v).

Lemma owo_raw_vals bg c : owo_raw bg c = map owo_dec_u8 (owo_vals bg c).
Proof. destruct c as [a|[]|x|r g b]; destruct bg; reflexivity. Qed.

Lemma owo_effect_params_vals v : owo_effect_params v = map owo_dec_u8 (owo_eff_vals (ow_bold v) (ow_flags v)).
Proof.
  unfold owo_effect_params, owo_flag_codes, owo_eff_vals. cbn [flat_map].
  destruct (ow_bold v);
    destruct (N.testbit (ow_flags v) 0), (N.testbit (ow_flags v) 1), (N.testbit (ow_flags v) 2), (N.testbit (ow_flags v) 3),
      (N.testbit (ow_flags v) 4), (N.testbit (ow_flags v) 5), (N.testbit (ow_flags v) 6), (N.testbit (ow_flags v) 7); reflexivity.
Qed.

(* decimal printing of a byte is read back *)
Lemma owo_dec_ok n : n < 256 -> rn_digits_ok (owo_dec_u8 n) = true /\ rn_dec_value (owo_dec_u8 n) = n /\ owo_dec_u8 n <> [].
Proof.
  intros H.
  pose proof (forall_bytes (fun n => rn_digits_ok (owo_dec_u8 n) && (rn_dec_value (owo_dec_u8 n) =? n) && rn_nonempty (owo_dec_u8 n))
                ltac:(vm_compute; reflexivity) n H) as A.
  cbv beta in A. apply andb_true_iff in A. destruct A as [A C]. apply andb_true_iff in A. destruct A as [A B].
  apply N.eqb_eq in B. split; [exact A|split; [exact B|]]. destruct (owo_dec_u8 n); [discriminate|discriminate].
Qed.

(* ---- the prefix is one printed control sequence -------------------------------------------------- *)

Lemma owo_join_rn l : owo_join l = rn_join 59 l.
Proof.
  induction l as [|x t IH]; [reflexivity|]. destruct t as [|y t']; [reflexivity|].
  change (owo_join (x :: y :: t')) with (x ++ 59 :: owo_join (y :: t')).
  change (rn_join 59 (x :: y :: t')) with (x ++ 59 :: rn_join 59 (y :: t')). now rewrite IH.
Qed.

Lemma rn_join_app sep a b : a <> [] -> b <> [] -> rn_join sep (a ++ b) = rn_join sep a ++ sep :: rn_join sep b.
Proof.
  intros Ha Hb. induction a as [|x t IH]; [congruence|]. destruct t as [|y t'].
  - cbn [app rn_join]. destruct b; [congruence|reflexivity].
  - change ((x :: y :: t') ++ b) with (x :: (y :: t') ++ b).
    change (rn_join sep (x :: (y :: t') ++ b)) with (x ++ sep :: rn_join sep ((y :: t') ++ b)).
    rewrite IH by discriminate.
    change (rn_join sep (x :: y :: t')) with (x ++ sep :: rn_join sep (y :: t')). now rewrite <- app_assoc.
Qed.

Lemma map_single_join (l : list (list N)) : map (rn_join 58) (map (fun p => [p]) l) = l.
Proof. induction l as [|x t IH]; cbn [map rn_join]; [reflexivity|]. now rewrite IH. Qed.

Definition owo_groups (v : owo_style) : list (list (list N)) := map (fun n => [owo_dec_u8 n]) (owo_all_vals v).

(* the style is one the separator logic of fmt_prefix handles *)
Definition owo_sep_ok (v : owo_style) : Prop :=
  match ow_fg v, ow_bg v with None, Some _ => owo_eff_vals (ow_bold v) (ow_flags v) = [] | _, _ => True end.

Lemma map_nil_iff {A B} (f : A -> B) l : map f l = [] <-> l = [].
Proof. destruct l; cbn; split; intros; congruence. Qed.

Lemma owo_vals_nonempty bg c : owo_vals bg c <> [].
Proof. destruct c as [a|[]|x|r g b]; discriminate. Qed.

Lemma owo_flag_vals_nil fl : fl < 256 ->
  flat_map (fun k => if N.testbit fl k then [2 + k] else []) [0; 1; 2; 3; 4; 5; 6; 7] = [] -> fl = 0.
Proof.
  intros H E.
  pose proof (forall_bytes (fun fl => match flat_map (fun k => if N.testbit fl k then [2 + k] else []) [0; 1; 2; 3; 4; 5; 6; 7] with
                                      | [] => fl =? 0 | _ => true end) ltac:(vm_compute; reflexivity) fl H) as A.
  cbv beta in A. rewrite E in A. now apply N.eqb_eq.
Qed.

Lemma owo_prefix_csi v : ow_flags v < 256 -> owo_is_plain v = false -> owo_sep_ok v -> owo_prefix v = rn_csi (owo_groups v) 109.
Proof.
  intros Hfl Hp Hs. unfold owo_prefix. rewrite Hp. unfold rn_csi, rn_print_params, owo_groups.
  replace (map (fun n => [owo_dec_u8 n]) (owo_all_vals v)) with (map (fun p => [p]) (map owo_dec_u8 (owo_all_vals v)))
    by (rewrite map_map; reflexivity).
  rewrite map_single_join. unfold owo_all_vals. rewrite !map_app.
  rewrite (owo_effect_params_vals v). destruct v as [fg bg bold fl]. unfold owo_sep_ok in Hs.
  cbn [ow_fg ow_bg ow_bold ow_flags owo_slot_vals] in *.
  set (E := map owo_dec_u8 (owo_eff_vals bold fl)).
  assert (HE : E = [] <-> owo_eff_vals bold fl = []) by apply map_nil_iff.
  destruct fg as [cf|], bg as [cb|]; rewrite ?owo_raw_vals, ?owo_join_rn; cbn [map app owo_slot_vals].
  - pose proof (owo_vals_nonempty false cf) as Nf. pose proof (owo_vals_nonempty true cb) as Nb.
    assert (Nf' : map owo_dec_u8 (owo_vals false cf) <> []) by (rewrite map_nil_iff; exact Nf).
    assert (Nb' : map owo_dec_u8 (owo_vals true cb) <> []) by (rewrite map_nil_iff; exact Nb).
    destruct E as [|e0 E'] eqn:EE.
    + rewrite app_nil_r. rewrite (rn_join_app 59 _ _ Nf' Nb'). cbn [app]. now rewrite <- !app_assoc.
    + rewrite (rn_join_app 59 _ (_ ++ _) Nf') by (destruct (map owo_dec_u8 (owo_vals true cb)); [congruence|discriminate]).
      rewrite (rn_join_app 59 _ (e0 :: E') Nb') by discriminate.
      rewrite ?owo_join_rn. cbn [app]. rewrite <- !app_assoc. cbn [app]. now rewrite <- ?app_assoc.
  - pose proof (owo_vals_nonempty false cf) as Nf.
    assert (Nf' : map owo_dec_u8 (owo_vals false cf) <> []) by (rewrite map_nil_iff; exact Nf).
    destruct E as [|e0 E'] eqn:EE.
    + now rewrite !app_nil_r.
    + rewrite (rn_join_app 59 _ (e0 :: E') Nf') by discriminate.
      rewrite ?owo_join_rn. cbn [app]. now rewrite <- ?app_assoc.
  - assert (E = []) as -> by (apply HE; exact Hs). now rewrite !app_nil_r.
  - destruct E as [|e0 E'] eqn:EE.
    + exfalso. unfold owo_is_plain in Hp. cbn [ow_fg ow_bg ow_bold ow_flags orb] in Hp.
      assert (Hv : owo_eff_vals bold fl = []) by (apply HE; reflexivity).
      unfold owo_eff_vals in Hv. destruct bold; [discriminate|]. cbn [app orb] in *.
      rewrite negb_involutive in Hp. apply N.eqb_neq in Hp. apply Hp. now apply owo_flag_vals_nil.
    + rewrite ?owo_join_rn. reflexivity.
Qed.

(* ---- reading the rendering back ------------------------------------------------------------------- *)

Definition owo_val_ok (bg : bool) (c : owo_dyn) : Prop := Forall (fun n => n < 256) (owo_vals bg c).

Lemma owo_groups_ok v : Forall (fun n => n < 256) (owo_all_vals v) -> owo_all_vals v <> [] -> (length (owo_all_vals v) <= 32)%nat ->
  rn_csi_ok (owo_groups v) = true /\ rn_param_values (owo_groups v) = map (fun n => [n]) (owo_all_vals v).
Proof.
  intros HF Hne Hlen. unfold owo_groups. split.
  - apply csi_ok_intro.
    + destruct (owo_all_vals v); [congruence|reflexivity].
    + apply Forall_forall. intros g Hg. apply in_map_iff in Hg. destruct Hg as (n & <- & Hn).
      rewrite Forall_forall in HF. destruct (owo_dec_ok n (HF n Hn)) as (A & _ & _).
      split; [reflexivity|]. constructor; [exact A|constructor].
    + assert (E : forall l : list N, length (concat (map (fun n => [owo_dec_u8 n]) l)) = length l).
      { induction l as [|x t IH]; cbn; [reflexivity|now rewrite IH]. }
      now rewrite E.
  - unfold rn_param_values. rewrite map_map. apply map_ext_in. intros n Hn. cbn [map].
    rewrite Forall_forall in HF. destruct (owo_dec_ok n (HF n Hn)) as (_ & B & _). now rewrite B.
Qed.

Lemma step_print_x s : ground_st s -> vt_step s 120 = (s, [EPrint 120]).
Proof. intros [Hv Hu]. destruct s as [v i g c u p o un]. cbn in Hv, Hu. subst. reflexivity. Qed.

Lemma owo_reset_csi : [27; 91; 48; 109] = rn_csi [[[48]]] 109.
Proof. reflexivity. Qed.

(* the rendition of the "x" in  <one SGR sequence with the values vs> x ESC[0m  read from the default state *)
Lemma owo_interp_csi_x gs : rn_csi_ok gs = true ->
  ad_interp_x (rn_csi gs 109 ++ [120] ++ [27; 91; 48; 109]) = Some (sgr_apply style_default (rn_param_values gs)).
Proof.
  intros Hok. unfold ad_interp_x, spec_events. rewrite owo_reset_csi.
  destruct (rn_csi_roundtrip gs vt_init Hok ground_init) as (s1 & E1 & G1).
  destruct (rn_csi_roundtrip [[[48]]] s1 eq_refl G1) as (s2 & E2 & G2).
  assert (EX : vt_run s1 [120] = (s1, [EPrint 120])) by (cbn [vt_run]; rewrite (step_print_x s1 G1); reflexivity).
  rewrite vt_run_app, E1, vt_run_app, EX, E2.
  cbn [snd app interp event_style rn_sgr fst]. reflexivity.
Qed.

(* ---- what the parameters do to the rendition ------------------------------------------------------ *)

Definition owo_meaning (c : owo_dyn) : option colour :=
  match c with
  | OwAnsi a => if a <? 8 then Some (CAnsi a) else if a =? 8 then None else Some (CAnsi (a - 1))
  | OwCss c => match c with end
  | OwXterm x => Some (CIdx x)
  | OwRgb r g b => Some (CRgb r g b)
  end.

Definition single (n : N) : list N := [n].

Lemma lt17_In a : a < 17 -> In a [0; 1; 2; 3; 4; 5; 6; 7; 8; 9; 10; 11; 12; 13; 14; 15; 16].
Proof.
  intros H. rewrite <- (N2Nat.id a). assert (Hn : (N.to_nat a < 17)%nat) by lia.
  revert Hn. generalize (N.to_nat a). intros n Hn.
  do 17 (destruct n as [|n]; [cbn; repeat (first [left; reflexivity | right]) | ]). lia.
Qed.

Lemma owo_fg_apply c st rest : owo_dyn_ok c ->
  sgr_groups st (map single (owo_vals false c) ++ rest) = sgr_groups (set_fg st (owo_meaning c)) rest.
Proof.
  intros H. destruct c as [a|[]|x|r g b]; cbn [owo_dyn_ok] in H.
  - pose proof (lt17_In a H) as HI. cbn [In] in HI.
    repeat (destruct HI as [<-|HI]; [reflexivity|]). destruct HI.
  - reflexivity.
  - reflexivity.
Qed.

Lemma owo_bg_apply c st rest : owo_dyn_ok c ->
  sgr_groups st (map single (owo_vals true c) ++ rest) = sgr_groups (set_bg st (owo_meaning c)) rest.
Proof.
  intros H. destruct c as [a|[]|x|r g b]; cbn [owo_dyn_ok] in H.
  - pose proof (lt17_In a H) as HI. cbn [In] in HI.
    repeat (destruct HI as [<-|HI]; [reflexivity|]). destruct HI.
  - reflexivity.
  - reflexivity.
Qed.

(* the effects the parameters 1 .. 9 switch on *)
Definition owo_eff_meaning (bold : bool) (fl : N) : N :=
  s_eff (sgr_groups style_default (map single (owo_eff_vals bold fl))).

Lemma owo_eff_apply fg bg ul bold fl :
  sgr_groups (mkStyle fg bg ul 0) (map single (owo_eff_vals bold fl)) = mkStyle fg bg ul (owo_eff_meaning bold fl).
Proof.
  unfold owo_eff_meaning, owo_eff_vals. cbn [flat_map].
  destruct bold;
    destruct (N.testbit fl 0), (N.testbit fl 1), (N.testbit fl 2), (N.testbit fl 3),
      (N.testbit fl 4), (N.testbit fl 5), (N.testbit fl 6), (N.testbit fl 7); reflexivity.
Qed.

Definition owo_slot_meaning (o : option owo_dyn) : option colour :=
  match o with Some c => owo_meaning c | None => None end.

Lemma owo_vals_apply v : owo_style_ok v ->
  sgr_apply style_default (map single (owo_all_vals v))
  = mkStyle (owo_slot_meaning (ow_fg v)) (owo_slot_meaning (ow_bg v)) None (owo_eff_meaning (ow_bold v) (ow_flags v)).
Proof.
  intros (Hfg & Hbg & _). destruct v as [fg bg bold fl]. unfold sgr_apply, owo_all_vals. cbn [ow_fg ow_bg ow_bold ow_flags] in *.
  rewrite !map_app.
  destruct fg as [cf|]; destruct bg as [cb|]; cbn [owo_slot_vals owo_slot_meaning map app owo_slot_ok] in *;
    try rewrite (owo_fg_apply cf _ _ Hfg); try rewrite (owo_bg_apply cb _ _ Hbg);
    unfold style_default, set_fg, set_bg; cbn [s_fg s_bg s_ul s_eff]; apply owo_eff_apply.
Qed.

Lemma owo_vals_lt bg c : owo_dyn_ok c -> (match c with OwRgb r g b => r < 256 /\ g < 256 /\ b < 256 | _ => True end) ->
  Forall (fun n => n < 256) (owo_vals bg c).
Proof.
  intros H Hr. destruct c as [a|[]|x|r g b]; cbn [owo_dyn_ok owo_vals] in *.
  - pose proof (lt17_In a H) as HI. cbn [In] in HI.
    repeat (destruct HI as [<-|HI]; [destruct bg; (constructor; [vm_compute; reflexivity|constructor])|]). destruct HI.
  - destruct bg; repeat constructor; lia.
  - destruct Hr as (? & ? & ?). destruct bg; repeat constructor; lia.
Qed.

Lemma owo_eff_vals_lt bold fl : Forall (fun n => n < 256) (owo_eff_vals bold fl) /\ (length (owo_eff_vals bold fl) <= 9)%nat.
Proof.
  unfold owo_eff_vals. cbn [flat_map].
  destruct bold;
    destruct (N.testbit fl 0), (N.testbit fl 1), (N.testbit fl 2), (N.testbit fl 3),
      (N.testbit fl 4), (N.testbit fl 5), (N.testbit fl 6), (N.testbit fl 7);
    (split; [repeat constructor; lia | cbn; lia]).
Qed.

Definition owo_rgb_u8 (o : option owo_dyn) : Prop :=
  match o with Some (OwRgb r g b) => r < 256 /\ g < 256 /\ b < 256 | _ => True end.

(* THE interpretation of a rendering: every Style without a CSS colour that is not plain and that the separator logic
   handles renders "x" as bytes whose meaning is the colours / effects its fields name *)
Theorem owo_render_meaning v : owo_style_ok v -> owo_rgb_u8 (ow_fg v) -> owo_rgb_u8 (ow_bg v) -> owo_sep_ok v ->
  ad_interp_x (owo_render v [120])
  = Some (mkStyle (owo_slot_meaning (ow_fg v)) (owo_slot_meaning (ow_bg v)) None (owo_eff_meaning (ow_bold v) (ow_flags v))).
Proof.
  intros Hok Hrf Hrb Hsep. pose proof Hok as (Hfg & Hbg & Hfl).
  destruct (owo_is_plain v) eqn:Hp.
  - (* plain: no escape sequence at all *)
    unfold owo_render, owo_prefix, owo_suffix. rewrite Hp. cbn [app].
    destruct v as [[?|] [?|] [|] fl]; try discriminate. unfold owo_is_plain in Hp. cbn in Hp.
    rewrite negb_involutive in Hp. apply N.eqb_eq in Hp. cbn [ow_flags] in Hp. subst fl. reflexivity.
  - unfold owo_render, owo_suffix. rewrite Hp. rewrite (owo_prefix_csi v Hfl Hp Hsep).
    assert (HF : Forall (fun n => n < 256) (owo_all_vals v)).
    { unfold owo_all_vals. apply Forall_app. split; [|apply Forall_app; split].
      - destruct (ow_fg v) as [c|]; [apply owo_vals_lt; [exact Hfg|destruct c; try exact I; exact Hrf]|constructor].
      - destruct (ow_bg v) as [c|]; [apply owo_vals_lt; [exact Hbg|destruct c; try exact I; exact Hrb]|constructor].
      - apply owo_eff_vals_lt. }
    assert (Hne : owo_all_vals v <> []).
    { unfold owo_all_vals. destruct v as [fg bg bold fl]. cbn [ow_fg ow_bg ow_bold ow_flags] in *.
      destruct fg as [c|]; [pose proof (owo_vals_nonempty false c); cbn [owo_slot_vals]; destruct (owo_vals false c); [congruence|discriminate]|].
      destruct bg as [c|]; [pose proof (owo_vals_nonempty true c); cbn [owo_slot_vals app]; destruct (owo_vals true c); [congruence|discriminate]|].
      cbn [owo_slot_vals app]. unfold owo_is_plain in Hp. cbn [ow_fg ow_bg ow_bold ow_flags orb] in Hp.
      unfold owo_eff_vals. destruct bold; [discriminate|]. cbn [app orb] in *. rewrite negb_involutive in Hp. apply N.eqb_neq in Hp.
      intros E. apply Hp. now apply owo_flag_vals_nil. }
    assert (Hlen : (length (owo_all_vals v) <= 32)%nat).
    { unfold owo_all_vals. rewrite !app_length. pose proof (proj2 (owo_eff_vals_lt (ow_bold v) (ow_flags v))).
      assert (forall bg o, (length (owo_slot_vals bg o) <= 5)%nat) as L by (intros bg [[a|[]|x|r g b]|]; cbn; lia).
      pose proof (L false (ow_fg v)). pose proof (L true (ow_bg v)). lia. }
    destruct (owo_groups_ok v HF Hne Hlen) as (Hcsi & Hvals).
    rewrite (owo_interp_csi_x _ Hcsi), Hvals. f_equal. exact (owo_vals_apply v Hok).
Qed.

(* ---- the values of the adapter ---------------------------------------------------------------------- *)

Lemma owo_colour_ok c : ad_colour_ok (Some c) -> owo_u8_colour (Some c) -> owo_dyn_ok (owo_colour c) /\ owo_rgb_u8 (Some (owo_colour c)).
Proof.
  destruct c as [i|n|r g b]; cbn; intros H U; (split; [|try exact I; try exact U]).
  - destruct (i <? 8) eqn:E; [apply N.ltb_lt in E|apply N.ltb_ge in E]; lia.
  - exact U.
  - exact I.
Qed.

Lemma owo_colour_meaning c : ad_colour_ok (Some c) -> owo_meaning (owo_colour c) = Some c.
Proof.
  destruct c as [i|n|r g b]; cbn; intros H; try reflexivity.
  destruct (i <? 8) eqn:E.
  - now rewrite E.
  - apply N.ltb_ge in E. replace (i + 1 <? 8) with false by (symmetry; apply N.ltb_ge; lia).
    replace (i + 1 =? 8) with false by (symmetry; apply N.eqb_neq; lia). now rewrite N.add_sub.
Qed.

Definition all_effects : list N := range_from 0 4096.
Lemma forall_effects (P : N -> bool) : forallb P all_effects = true -> forall e, e < 4096 -> P e = true.
Proof. intros H e He. rewrite forallb_forall in H. apply H. unfold all_effects. rewrite range_from_In. cbn. lia. Qed.

(* the 4096 effect sets: the flag byte is a byte, its parameters mean exactly the expressible effects, and the
   separator defect needs an effect *)
Lemma owo_effects_facts e : e < 4096 ->
  owo_flags_of e < 256 /\
  owo_eff_meaning (N.testbit e BOLD) (owo_flags_of e) = N.land e (ad_expressible AdOwo) /\
  (N.land e (ad_expressible AdOwo) = 0 -> owo_eff_vals (N.testbit e BOLD) (owo_flags_of e) = []).
Proof.
  intros H.
  pose proof (forall_effects (fun e => (owo_flags_of e <? 256)
      && (owo_eff_meaning (N.testbit e BOLD) (owo_flags_of e) =? N.land e (ad_expressible AdOwo))
      && (negb (N.land e (ad_expressible AdOwo) =? 0) || match owo_eff_vals (N.testbit e BOLD) (owo_flags_of e) with [] => true | _ => false end))
    ltac:(vm_compute; reflexivity) e H) as A.
  cbv beta in A. apply andb_true_iff in A. destruct A as [A C]. apply andb_true_iff in A. destruct A as [A B].
  apply N.ltb_lt in A. apply N.eqb_eq in B. split; [exact A|split; [exact B|]].
  intros Z. rewrite Z in C. cbn in C. destruct (owo_eff_vals _ _); [reflexivity|discriminate].
Qed.

Lemma owo_value_ok s : owo_src_ok s ->
  owo_style_ok (owo_value s) /\ owo_rgb_u8 (ow_fg (owo_value s)) /\ owo_rgb_u8 (ow_bg (owo_value s)).
Proof.
  intros ((Hfg & Hbg & _ & He) & Ufg & Ubg). unfold owo_value, owo_style_ok. cbn [ow_fg ow_bg ow_flags].
  destruct (owo_effects_facts _ He) as (Hfl & _ & _).
  destruct (s_fg s) as [cf|]; destruct (s_bg s) as [cb|]; cbn [option_map owo_slot_ok owo_rgb_u8];
    try destruct (owo_colour_ok cf Hfg Ufg) as [A1 A2]; try destruct (owo_colour_ok cb Hbg Ubg) as [B1 B2]; repeat split; auto.
Qed.

(* TRUE PART: outside the defect class, the rendering of the converted style means exactly the projection of the
   source style onto what owo-colors can express *)
Theorem owo_render_interp s : owo_src_ok s -> owo_defect s = false ->
  ad_interp_x (owo_render (owo_value s) [120]) = Some (ad_project AdOwo s).
Proof.
  intros Hs Hd. destruct (owo_value_ok s Hs) as (Hok & Rf & Rb).
  destruct Hs as ((Hfg & Hbg & Hul & He) & Ufg & Ubg).
  destruct (owo_effects_facts _ He) as (Hfl & Hm & Hz).
  rewrite (owo_render_meaning _ Hok Rf Rb).
  - f_equal. unfold owo_value, ad_project, ad_project_effects. cbn [ow_fg ow_bg ow_bold ow_flags ad_has_ul].
    rewrite Hm. rewrite N.lor_0_r.
    assert (P : forall c, ad_colour_ok c -> owo_slot_meaning (option_map owo_colour c) = ad_project_colour AdOwo c).
    { intros [c|] H; [|reflexivity]. cbn [option_map owo_slot_meaning]. rewrite (owo_colour_meaning c H).
      destruct c; reflexivity. }
    now rewrite (P _ Hfg), (P _ Hbg).
  - unfold owo_sep_ok, owo_value. cbn [ow_fg ow_bg ow_bold ow_flags]. unfold owo_defect in Hd.
    destruct (s_fg s); destruct (s_bg s); cbn [option_map]; try exact I.
    apply Hz. apply negb_false_iff in Hd. now apply N.eqb_eq.
Qed.

Corollary owo_render_interp_ok s : owo_src_ok s -> owo_defect s = false ->
  ad_render_ok (ad_project AdOwo s) (owo_render (owo_value s) [120]) = true.
Proof.
  intros Hs Hd. unfold ad_render_ok. rewrite (owo_render_interp s Hs Hd).
  assert (R : forall t, sstyle_eqb t t = true).
  { intros [fg bg ul e]. unfold sstyle_eqb. cbn [s_fg s_bg s_ul s_eff].
    assert (C : forall c, opt_colour_eqb c c = true).
    { intros [[i|i|r g b]|]; cbn; rewrite ?N.eqb_refl; reflexivity. }
    now rewrite !C, N.eqb_refl. }
  apply R.
Qed.

(* REFUTED PART (finding F16-1): background red + bold, no foreground.  The crate writes ESC[411m: no separator
   after the background parameter; a terminal reads the unknown parameter 411 and leaves the rendition unchanged *)
Definition owo_witness : sstyle := mkStyle None (Some (CAnsi 1)) None (bit BOLD).

Theorem owo_render_refuted :
  owo_src_ok owo_witness /\ owo_defect owo_witness = true /\
  owo_render (owo_value owo_witness) [120] = [27; 91; 52; 49; 49; 109; 120; 27; 91; 48; 109] /\
  ad_interp_x (owo_render (owo_value owo_witness) [120]) = Some style_default /\
  ad_render_ok (ad_project AdOwo owo_witness) (owo_render (owo_value owo_witness) [120]) = false.
Proof.
  split; [|split; [|split; [|split]]]; try (vm_compute; reflexivity).
  unfold owo_src_ok, ad_src_ok, owo_witness. cbn. repeat split; lia.
Qed.

(* the full statement is therefore false *)
Corollary owo_render_full_statement_false :
  ~ (forall s, owo_src_ok s -> ad_render_ok (ad_project AdOwo s) (owo_render (owo_value s) [120]) = true).
Proof.
  intros H. destruct owo_render_refuted as (Hs & _ & _ & _ & Hf). rewrite (H _ Hs) in Hf. discriminate.
Qed.
