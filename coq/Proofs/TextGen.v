(* Proofs/TextGen.v -- the translated text parsers (Generated/TextFn.v = Generated/LsFn.v +
   Generated/GitFn.v, written by tools/gen_fn_text.py on every run) against the hand models.
   The proofs live next to their area so that C12 depends on the anstyle-ls half only and C11
   on the anstyle-git half only:
     Proofs/LsGen.v   g_ls_parse_eq            anstyle_ls::parse        = Model/Ls.v  ls_parse
     Proofs/GitGen.v  g_git_parse_color_eq     anstyle_git::parse_color = Model/Git.v parse_color
                      g_git_parse_eq           anstyle_git::parse       = Model/Git.v git_parse
                      g_git_parse_error_style  the `style` field of an error is the input
   This file states the entry points together. *)
From Coq Require Import NArith List Bool.
From AV Require Import Spec.StyleRec Model.Base Model.Text Model.Ls Model.Git Generated.TextFn Proofs.LsGen Proofs.GitGen.
Import ListNotations.
Local Open Scope N_scope.

(* both public entry points, for every input: same answer, panics (None) included; the git
   Result is compared through [git_result_of], which keeps the word of an error, and the other
   field of an error is the input itself *)
Theorem translated_text_parsers_are_model :
  (forall s, g_ls_parse s = ls_parse s) /\
  (forall s, option_map git_result_of (g_git_parse s) = git_parse s) /\
  (forall s r, g_git_parse s = Some r -> match git_error_style r with Some s' => s' = s | None => True end).
Proof. exact (conj g_ls_parse_eq (conj g_git_parse_eq g_git_parse_error_style)). Qed.
