(* Proofs/StripSim.v -- the byte-at-a-time machine of Proofs/StripMachine.v
   (table + utf8parse) simulates the specification machine of Spec/Strip.v
   (by-range VT model + Table 3-7 DFA).  All case analysis is finite and done by
   complete enumeration inside the kernel. *)
From Coq Require Import NArith Arith List Bool Lia.
From AV Require Import Generated.Table Spec.Utf8 Spec.Vt Spec.Strip
  Model.Base Model.Utf8parse Model.Parser Model.Strip Proofs.TableFacts Proofs.StripMachine.
Import ListNotations.
Local Open Scope N_scope.

(* utf8parse's states against the DFA of the specification *)
Definition abs_u8 (s : u8state) : option ustate :=
  match s with
  | U8Ground => None
  | U8Tail1 => Some UTail1 | U8Tail2 => Some UTail2 | U8Tail3 => Some UTail3
  | U8_3_2_e0 => Some UE0 | U8_3_2_ed => Some UED
  | U8_4_3_f0 => Some UF0 | U8_4_3_f4 => Some UF4
  end.

Definition ustate_eqb (a b : ustate) : bool :=
  match a, b with
  | UTail1, UTail1 | UTail2, UTail2 | UTail3, UTail3 | UE0, UE0 | UED, UED | UF0, UF0 | UF4, UF4 => true
  | _, _ => false
  end.

Lemma ustate_eqb_eq a b : ustate_eqb a b = true <-> a = b.
Proof. destruct a, b; cbn; split; intros H; try reflexivity; try discriminate. Qed.

Definition opt_ustate_eqb (a b : option ustate) : bool :=
  match a, b with
  | None, None => true
  | Some x, Some y => ustate_eqb x y
  | _, _ => false
  end.

Lemma opt_ustate_eqb_eq a b : opt_ustate_eqb a b = true <-> a = b.
Proof.
  destruct a, b; cbn; split; intros H; try reflexivity; try discriminate.
  - apply ustate_eqb_eq in H. now subst.
  - inversion H. now apply ustate_eqb_eq.
Qed.

(* the decoder's next state and whether it reports depend only on its state *)
Lemma utf8_add_shape u b :
  u8st (fst (utf8_add u b)) = fst (u8_advance (u8st u) b) /\
  snd (utf8_add u b) = match snd (u8_advance (u8st u) b) with
                       | InvalidSequence | EmitByte | SetByte1 => true
                       | _ => false
                       end.
Proof.
  destruct u as [pt us]. unfold utf8_add, u8_parser_advance. cbn [u8st u8point].
  destruct (u8_advance us b) as [s' a]. destruct a; cbn; split; reflexivity.
Qed.

(* continuing a character: utf8parse against Table 3-7, all 7 x 256 cases *)
Definition cont_matches (s8 : u8state) (b : N) : bool :=
  match abs_u8 s8 with
  | None => true
  | Some us =>
      if is_ascii b then true else
      let '(s8', a) := u8_advance s8 b in
      match utf8_cont us b with
      | UMore us' => opt_ustate_eqb (abs_u8 s8') (Some us')
                     && match a with SetByte2 | SetByte3 => true | _ => false end
      | UDone => match a with SetByte1 => true | _ => false end
      | UBad => match a with InvalidSequence => true | _ => false end
      end
  end.

Lemma cont_matches_all :
  forallb (fun s => forallb (cont_matches s) all_bytes) u8states = true.
Proof. vm_compute. reflexivity. Qed.

Lemma cont_matches_ok s8 b : b < 256 -> cont_matches s8 b = true.
Proof.
  intros Hb. pose proof cont_matches_all as H. rewrite forallb_forall in H.
  assert (Hin : In s8 u8states) by (destruct s8; cbn; tauto).
  exact (forall_bytes _ (H s8 Hin) b Hb).
Qed.

(* the simulation relation *)
Definition Rs (st : state) (u : u8parser) (s : sstate) : Prop :=
  match st with
  | Utf8 => sv s = VGround /\ su s <> None /\ abs_u8 (u8st u) = su s
  | _ => abs_state st = Some (sv s) /\ su s = None /\ u = u8_new
  end.

(* one step from an idle decoder, all 14 x 256 cases: the kept flag and the
   successor states correspond *)
Definition sstate_matches (st' : state) (u' : u8parser) (s' : sstate) : bool :=
  match st' with
  | Utf8 => vstate_eqb (sv s') VGround
            && match su s' with None => false | Some _ => true end
            && opt_ustate_eqb (abs_u8 (u8st u')) (su s')
  | _ => opt_vstate_eqb (abs_state st') (Some (sv s'))
         && match su s' with None => true | Some _ => false end
         && (u8point u' =? 0) && match u8st u' with U8Ground => true | _ => false end
  end.

Definition plain_matches (st : state) (b : N) : bool :=
  match abs_state st with
  | None => true
  | Some v =>
      match mstep st u8_new b with
      | Some (st', u', k) =>
          let '(s', k') := plain_step v b in
          Bool.eqb k k' && sstate_matches st' u' s'
      | None => false
      end
  end.

Lemma plain_matches_all :
  forallb (fun s => forallb (plain_matches s) all_bytes) all_states = true.
Proof. vm_compute. reflexivity. Qed.

Lemma plain_matches_ok st b : b < 256 -> plain_matches st b = true.
Proof. exact (forall_states_bytes _ plain_matches_all st b). Qed.

Lemma sstate_matches_Rs st' u' s' : sstate_matches st' u' s' = true -> Rs st' u' s'.
Proof.
  unfold sstate_matches, Rs. intros H.
  destruct st';
    try (apply andb_true_iff in H as [H H4]; apply andb_true_iff in H as [H H3];
         apply andb_true_iff in H as [H1 H2];
         destruct (su s'); [discriminate|];
         destruct u' as [pt us]; cbn [u8point u8st] in *;
         apply N.eqb_eq in H3; subst pt; destruct us; try discriminate;
         cbn in H1; destruct (sv s'); try discriminate; repeat split; reflexivity).
  apply andb_true_iff in H as [H H3]. apply andb_true_iff in H as [H1 H2].
  apply vstate_eqb_eq in H1. apply opt_ustate_eqb_eq in H3.
  destruct (su s'); [|discriminate]. repeat split; auto. discriminate.
Qed.

Lemma sim_step st u s b st' u' k :
  b < 256 -> Rs st u s -> mstep st u b = Some (st', u', k) ->
  exists s', strip_step s b = (s', k) /\ Rs st' u' s'.
Proof.
  intros Hb HR Hm.
  assert (Hplain : forall st0 v, abs_state st0 = Some v ->
            mstep st0 u8_new b = Some (st', u', k) ->
            exists s', plain_step v b = (s', k) /\ Rs st' u' s').
  { intros st0 v Ha Hm0. pose proof (plain_matches_ok st0 b Hb) as Hpm.
    unfold plain_matches in Hpm. rewrite Ha, Hm0 in Hpm.
    destruct (plain_step v b) as [s' k'] eqn:Hps.
    apply andb_true_iff in Hpm as [Hk Hs]. apply Bool.eqb_prop in Hk. subst k'.
    exists s'. split; [reflexivity|]. now apply sstate_matches_Rs. }
  destruct (state_eqb st Utf8) eqn:E.
  - apply state_eqb_eq in E. subst st. cbn [Rs] in HR. destruct HR as (Hv & Hsu & Habs).
    destruct (su s) as [us|] eqn:Hsus; [|contradiction].
    unfold strip_step. rewrite Hsus.
    destruct (is_ascii b) eqn:Ha.
    + (* a 7-bit byte ends the broken character and is processed from Ground *)
      rewrite (mstep_ascii_norm u b Ha) in Hm.
      unfold is_ascii in Ha. rewrite Ha.
      apply (Hplain Ground VGround eq_refl Hm).
    + unfold is_ascii in Ha. rewrite Ha.
      unfold mstep in Hm. cbn [state_eqb state_disc] in Hm.
      replace (15 =? 15) with true in Hm by reflexivity.
      unfold is_ascii in Hm. rewrite Ha in Hm. cbn [andb negb] in Hm.
      destruct (utf8_add u b) as [u1 done] eqn:Hadd.
      inversion Hm; subst st' u' k. clear Hm.
      pose proof (utf8_add_shape u b) as [Hst Hdone]. rewrite Hadd in Hst, Hdone. cbn [fst snd] in Hst, Hdone.
      pose proof (cont_matches_ok (u8st u) b Hb) as Hc. unfold cont_matches in Hc.
      rewrite Habs in Hc. unfold is_ascii in Hc. rewrite Ha in Hc.
      destruct (u8_advance (u8st u) b) as [s8' a] eqn:Hadv. cbn [fst snd] in Hst, Hdone.
      destruct (utf8_cont us b) as [us'| |] eqn:Hcont.
      * apply andb_true_iff in Hc as [Hc1 Hc2]. apply opt_ustate_eqb_eq in Hc1.
        destruct a; try discriminate Hc2; cbn in Hdone; subst done;
          (eexists; split; [reflexivity|]; unfold Rs; cbn [sv su]; rewrite Hst;
           repeat split; auto; discriminate).
      * destruct a; try discriminate Hc; cbn in Hdone; subst done.
        eexists. split; [reflexivity|]. unfold Rs. cbn [sv su abs_state].
        rewrite Hv. repeat split; auto.
        eapply utf8_add_done; eauto.
      * destruct a; try discriminate Hc; cbn in Hdone; subst done.
        eexists. split; [reflexivity|]. unfold Rs. cbn [sv su abs_state].
        rewrite Hv. repeat split; auto.
        eapply utf8_add_done; eauto.
  - assert (HR' : abs_state st = Some (sv s) /\ su s = None /\ u = u8_new).
    { destruct st; try exact HR. cbn in E. discriminate. }
    destruct HR' as (Ha & Hsu & ->).
    unfold strip_step. rewrite Hsu. apply (Hplain st (sv s) Ha Hm).
Qed.

Lemma sim_run : forall bs st u s st' u' out,
  bytes_ok bs -> Rs st u s -> mrun st u bs = Some (st', u', out) ->
  exists s', strip_run s bs = (s', out) /\ Rs st' u' s'.
Proof.
  induction bs as [|b bs IH]; intros st u s st' u' out Hok HR H; cbn [mrun] in H.
  - inversion H; subst. exists s. cbn. auto.
  - inversion Hok as [|? ? Hb Hok']; subst.
    destruct (mstep st u b) as [[[sx ux] k]|] eqn:Hs; [|discriminate].
    destruct (mrun sx ux bs) as [[[sa ua] oa]|] eqn:Hr; [|discriminate].
    inversion H; subst. clear H.
    destruct (sim_step _ _ _ _ _ _ _ Hb HR Hs) as (s1 & Hstep & HR1).
    destruct (IH _ _ _ _ _ _ Hok' HR1 Hr) as (s2 & Hrun & HR2).
    exists s2. cbn [strip_run]. rewrite Hstep, Hrun. auto.
Qed.

Lemma Rs_init : Rs Ground u8_new s_init.
Proof. cbn. auto. Qed.

Lemma Inv_init : Inv Ground u8_new.
Proof. constructor. reflexivity. Qed.

(* ---- C01: strip_bytes = specification, for every byte string ---------------- *)

Theorem strip_bytes_is_spec : forall input,
  bytes_ok input -> strip_bytes_model input = Some (spec_strip input).
Proof.
  intros input Hok. unfold strip_bytes_model, strip_bytes_pieces, strip_next_bytes.
  destruct (bytes_iter_total (S (length input)) input 0 Ground u8_new (Nat.lt_succ_diag_r _) Hok)
    as [[[[ps bs'] st'] u'] Hit].
  rewrite Hit.
  destruct (bytes_iter_spec _ _ _ _ _ _ _ _ _ (Nat.lt_succ_diag_r _) Hok Inv_init Hit) as [_ Hrun].
  destruct (sim_run _ _ _ _ _ _ _ Hok Rs_init Hrun) as (s' & Hs & _).
  unfold spec_strip. rewrite Hs. reflexivity.
Qed.

(* ---- C03: any chunking of the byte API -------------------------------------- *)

Lemma bytes_ok_concat : forall chunks, bytes_ok (concat chunks) -> Forall bytes_ok chunks.
Proof.
  induction chunks as [|c cs IH]; intros H; constructor.
  - cbn in H. unfold bytes_ok in *. apply Forall_app in H. tauto.
  - apply IH. cbn in H. unfold bytes_ok in *. apply Forall_app in H. tauto.
Qed.

Lemma chunks_spec : forall chunks st u,
  Forall bytes_ok chunks -> Inv st u ->
  exists pss st' u',
    strip_bytes_chunks chunks st u = Some (pss, st', u') /\
    mrun st u (concat chunks) = Some (st', u', concat (map (fun ps => concat (map p_bytes ps)) pss)).
Proof.
  induction chunks as [|c cs IH]; intros st u Hok HI; cbn [strip_bytes_chunks concat].
  - exists [], st, u. cbn. auto.
  - inversion Hok as [|? ? Hc Hcs]; subst. unfold strip_next_bytes.
    destruct (bytes_iter_total (S (length c)) c 0 st u (Nat.lt_succ_diag_r _) Hc) as [[[[ps bs'] st1] u1] Hit].
    rewrite Hit.
    destruct (bytes_iter_spec _ _ _ _ _ _ _ _ _ (Nat.lt_succ_diag_r _) Hc HI Hit) as [_ Hrun].
    assert (HI1 : Inv st1 u1) by (eapply mrun_inv; eauto).
    destruct (IH st1 u1 Hcs HI1) as (pss & st2 & u2 & Hch & Hrun2).
    rewrite Hch. exists (ps :: pss), st2, u2. split; [reflexivity|].
    rewrite (mrun_app c _ _ _ _ _ _ Hrun). rewrite Hrun2. reflexivity.
Qed.

Theorem strip_bytes_chunked : forall chunks,
  bytes_ok (concat chunks) ->
  exists pss st u,
    strip_bytes_chunks chunks Ground u8_new = Some (pss, st, u) /\
    concat (map (fun ps => concat (map p_bytes ps)) pss) = spec_strip (concat chunks) /\
    Some (concat (map (fun ps => concat (map p_bytes ps)) pss)) = strip_bytes_model (concat chunks) /\
    (* the carried state is the state of the one-shot run *)
    exists ps1, strip_next_bytes (concat chunks) Ground u8_new = Some (ps1, [], st, u).
Proof.
  intros chunks Hok.
  destruct (chunks_spec chunks Ground u8_new (bytes_ok_concat _ Hok) Inv_init) as (pss & st & u & Hch & Hrun).
  exists pss, st, u. split; [exact Hch|].
  destruct (sim_run _ _ _ _ _ _ _ Hok Rs_init Hrun) as (s' & Hs & _).
  split; [unfold spec_strip; now rewrite Hs|].
  split; [rewrite (strip_bytes_is_spec _ Hok); unfold spec_strip; now rewrite Hs|].
  unfold strip_next_bytes.
  destruct (bytes_iter_total (S (length (concat chunks))) (concat chunks) 0 Ground u8_new (Nat.lt_succ_diag_r _) Hok)
    as [[[[ps1 bs'] st1] u1] Hit].
  destruct (bytes_iter_spec _ _ _ _ _ _ _ _ _ (Nat.lt_succ_diag_r _) Hok Inv_init Hit) as [-> Hrun1].
  rewrite Hrun in Hrun1. inversion Hrun1; subst. exists ps1. exact Hit.
Qed.

(* ---- the output never contains ESC, DEL or a non-whitespace C0 control ------- *)

Definition clean_byte (b : N) : bool :=
  negb (b =? 27) && negb (b =? 127) && ((32 <=? b) || is_ws_control b).

Definition keeps_clean (v : vstate) (b : N) : bool :=
  let '(_, k) := plain_step v b in if k then clean_byte b else true.

Definition all_vstates : list vstate :=
  [VGround; VEscape; VEscInt; VCsiEntry; VCsiParam; VCsiInt; VCsiIgnore;
   VDcsEntry; VDcsParam; VDcsInt; VDcsPass; VDcsIgnore; VOsc; VSos].

Lemma keeps_clean_all :
  forallb (fun v => forallb (keeps_clean v) all_bytes) all_vstates = true.
Proof. vm_compute. reflexivity. Qed.

Lemma strip_step_clean s b s' :
  b < 256 -> strip_step s b = (s', true) -> clean_byte b = true.
Proof.
  intros Hb H.
  assert (Hp : forall v, plain_step v b = (s', true) -> clean_byte b = true).
  { intros v Hv. pose proof keeps_clean_all as Hall. rewrite forallb_forall in Hall.
    assert (Hin : In v all_vstates) by (destruct v; cbn; tauto).
    pose proof (forall_bytes _ (Hall v Hin) b Hb) as Hk. unfold keeps_clean in Hk.
    rewrite Hv in Hk. exact Hk. }
  unfold strip_step in H. destruct (su s) as [us|].
  - destruct (b <? 128) eqn:Hlt.
    + eapply Hp; eauto.
    + apply N.ltb_ge in Hlt. unfold clean_byte, is_ws_control.
      assert (b <> 27 /\ b <> 127 /\ 32 <= b) as (H1 & H2 & H3) by lia.
      apply N.eqb_neq in H1, H2. apply N.leb_le in H3. rewrite H1, H2, H3. reflexivity.
  - eapply Hp; eauto.
Qed.

Theorem strip_no_controls : forall input,
  bytes_ok input -> Forall (fun b => clean_byte b = true) (spec_strip input).
Proof.
  intros input. unfold spec_strip. generalize s_init.
  induction input as [|b bs IH]; intros s Hok; cbn [strip_run snd].
  - constructor.
  - inversion Hok as [|? ? Hb Hok']; subst.
    destruct (strip_step s b) as [s1 k] eqn:Hs.
    specialize (IH s1 Hok'). destruct (strip_run s1 bs) as [s2 out]. cbn [snd] in *.
    destruct k; [|exact IH]. constructor; [|exact IH].
    eapply strip_step_clean; eauto.
Qed.
