(* Proofs/ParserGen2.v -- the remaining translated functions of crates/anstyle-parse (Generated/ParserFn.v):
   TryFrom<u8> for State / Action, the default bodies of trait Perform, <Params as Debug>::fmt, and what
   ParamsIter::size_hint reports.  (Proofs/ParserGen.v holds the functions on the path of Parser::advance.) *)
From Coq Require Import NArith List Bool Lia.
From AV Require Import Generated.Table Spec.Vt Model.Base Model.Imp Model.Utf8parse Model.Parser Generated.ParserFn
  Proofs.TableFacts Proofs.VtCsi Proofs.ParserGen.
Import ListNotations.
Local Open Scope N_scope.

(* ---- TryFrom<u8>: STATES.get(raw as usize).ok_or(raw).copied() is the discriminant decoder of Generated/Table.v ---- *)

Definition ostate_eqb (a b : option state) : bool :=
  match a, b with Some x, Some y => state_eqb x y | None, None => true | _, _ => false end.
Definition oaction_eqb (a b : option action) : bool :=
  match a, b with Some x, Some y => action_eqb x y | None, None => true | _, _ => false end.

Lemma ostate_eqb_eq a b : ostate_eqb a b = true -> a = b.
Proof. destruct a as [x|], b as [y|]; cbn; try discriminate; try reflexivity. destruct x, y; cbn; intros H; try discriminate H; reflexivity. Qed.
Lemma oaction_eqb_eq a b : oaction_eqb a b = true -> a = b.
Proof. destruct a as [x|], b as [y|]; cbn; try discriminate; try reflexivity. destruct x, y; cbn; intros H; try discriminate H; reflexivity. Qed.

Lemma states_get raw : raw < 256 -> aget g_STATES raw = state_of_disc raw.
Proof.
  intros H. apply ostate_eqb_eq.
  apply (forall_bytes (fun r => ostate_eqb (aget g_STATES r) (state_of_disc r))); [vm_compute; reflexivity | exact H].
Qed.
Lemma actions_get raw : raw < 256 -> aget g_ACTIONS raw = action_of_disc raw.
Proof.
  intros H. apply oaction_eqb_eq.
  apply (forall_bytes (fun r => oaction_eqb (aget g_ACTIONS r) (action_of_disc r))); [vm_compute; reflexivity | exact H].
Qed.

Lemma g_state_try_from_eq c raw : raw < 256 -> g_state_try_from c raw = opt_ok_or (state_of_disc raw) raw.
Proof. intros H. unfold g_state_try_from. rewrite (states_get raw H). reflexivity. Qed.
Lemma g_action_try_from_eq c raw : raw < 256 -> g_action_try_from c raw = opt_ok_or (action_of_disc raw) raw.
Proof. intros H. unfold g_action_try_from. rewrite (actions_get raw H). reflexivity. Qed.

(* try_from inverts `as u8`; everything else is handed back as the error *)
Lemma g_state_try_from_disc c s : g_state_try_from c (state_disc s) = inl s.
Proof. destruct s; reflexivity. Qed.
Lemma g_action_try_from_disc c a : g_action_try_from c (action_disc a) = inl a.
Proof. destruct a; reflexivity. Qed.
Lemma g_state_try_from_err c raw : 16 <= raw < 256 -> g_state_try_from c raw = inr raw.
Proof.
  intros [Hlo Hhi]. rewrite (g_state_try_from_eq c raw Hhi).
  assert (E : (if raw <? 16 then true else ostate_eqb (state_of_disc raw) None) = true)
    by (apply (forall_bytes (fun r => if r <? 16 then true else ostate_eqb (state_of_disc r) None)); [vm_compute; reflexivity | exact Hhi]).
  replace (raw <? 16) with false in E by (symmetry; apply N.ltb_ge; exact Hlo).
  rewrite (ostate_eqb_eq _ _ E). reflexivity.
Qed.
Lemma g_action_try_from_err c raw : 16 <= raw < 256 -> g_action_try_from c raw = inr raw.
Proof.
  intros [Hlo Hhi]. rewrite (g_action_try_from_eq c raw Hhi).
  assert (E : (if raw <? 16 then true else oaction_eqb (action_of_disc raw) None) = true)
    by (apply (forall_bytes (fun r => if r <? 16 then true else oaction_eqb (action_of_disc r) None)); [vm_compute; reflexivity | exact Hhi]).
  replace (raw <? 16) with false in E by (symmetry; apply N.ltb_ge; exact Hlo).
  rewrite (oaction_eqb_eq _ _ E). reflexivity.
Qed.

(* the hand model's unpack is try_from on the two nibbles (what the transmute relies on) *)
Lemma unpack_is_try_from c delta : delta < 256 ->
  unpack delta =
  match g_state_try_from c (N.land delta 15), g_action_try_from c (N.shiftr delta 4) with
  | inl s, inl a => Some (s, a)
  | _, _ => None
  end.
Proof.
  intros H. unfold unpack.
  assert (H1 : N.land delta 15 < 256).
  { destruct (N.land delta 15) eqn:E; [lia|]. pose proof (N.log2_land delta 15) as L. rewrite E in L.
    assert (N.log2 (N.pos p) < 8); [|apply N.log2_lt_pow2 in H0; cbn in *; lia].
    eapply N.le_lt_trans; [exact L|]. apply N.min_lt_iff. right. cbn. lia. }
  assert (H2 : N.shiftr delta 4 < 256).
  { rewrite N.shiftr_div_pow2. change (2 ^ 4) with 16. pose proof (N.div_le_upper_bound delta 16 delta). 
    assert (delta / 16 <= delta) by (apply N.div_le_upper_bound; lia). lia. }
  rewrite (g_state_try_from_eq c _ H1), (g_action_try_from_eq c _ H2).
  destruct (state_of_disc (N.land delta 15)); cbn [opt_ok_or]; [|reflexivity].
  destruct (action_of_disc (N.shiftr delta 4)); reflexivity.
Qed.

(* ---- trait Perform: every default body leaves the performer as it is ------------------------------------------- *)

Lemma g_perform_defaults_noop (T : Type) (pf : T) :
  (forall ch, g_perform_default_print T pf ch = pf) /\
  (forall b, g_perform_default_execute T pf b = pf) /\
  (forall q is ig b, g_perform_default_hook T pf q is ig b = pf) /\
  (forall b, g_perform_default_put T pf b = pf) /\
  g_perform_default_unhook T pf = pf /\
  (forall fs bell, g_perform_default_osc_dispatch T pf fs bell = pf) /\
  (forall q is ig b, g_perform_default_csi_dispatch T pf q is ig b = pf) /\
  (forall is ig b, g_perform_default_esc_dispatch T pf is ig b = pf).
Proof. repeat split. Qed.

(* a performer that overrides nothing, run over the events of the (translated) parser, is unchanged: the
   hand-written dispatcher from events to callbacks, as in Proofs/WinconGen.v g_perform *)
Definition g_perform_default_event (T : Type) (c : cfg) (pf : T) (e : event) : T :=
  match e with
  | EPrint ch => g_perform_default_print T pf ch
  | EExecute b => g_perform_default_execute T pf b
  | EHook _ is ig b => g_perform_default_hook T pf (g_params_default c) is ig b
  | EPut b => g_perform_default_put T pf b
  | EUnhook => g_perform_default_unhook T pf
  | EOsc fs bell => g_perform_default_osc_dispatch T pf fs bell
  | ECsi _ is ig b => g_perform_default_csi_dispatch T pf (g_params_default c) is ig b
  | EEsc is ig b => g_perform_default_esc_dispatch T pf is ig b
  end.

Lemma g_perform_default_events (T : Type) c (pf : T) evs :
  fold_left (g_perform_default_event T c) evs pf = pf.
Proof. induction evs as [|e t IH]; [reflexivity|]. cbn [fold_left]. destruct e; exact IH. Qed.

(* ---- ParamsIter::size_hint: both bounds are the number of VALUES left, not of groups (items) -------------------- *)

(* on the iterator of a well-formed parameter list the hint is exact only when no group has sub-parameters:
   [1:2] holds two values in ONE group, the hint is (2, Some 2), the iterator yields one item *)
Example size_hint_overcounts :
  let q := mkParams (2 :: 0 :: repeat 0 30) (1 :: 2 :: repeat 0 30) 0 2 in
  params_groups q = Some [[1; 2]] /\
  g_params_iter_size_hint cfg_default (g_params_iter cfg_default q) = Some (2, Some 2).
Proof. vm_compute. split; reflexivity. Qed.

(* ---- <Params as Debug>::fmt: "[" ++ the groups, ':' inside a group, ';' between groups ++ "]" -- the textual form
   print_params of Proofs/VtCsi.v (the CSI round-trip theorem is about) ------------------------------------------ *)

Lemma pfmt_dec_is fuel : forall n acc, pfmt_dec fuel n acc = dec_digits fuel n acc.
Proof. induction fuel as [|k IH]; intros n acc; cbn [pfmt_dec dec_digits]; [reflexivity|]. rewrite IH. reflexivity. Qed.

Fixpoint dbg_sub (first : bool) (l : list N) : list N :=
  match l with
  | [] => []
  | v :: t => (if first then [] else [58]) ++ print_u16 v ++ dbg_sub false t
  end.
Fixpoint dbg_groups (first : bool) (G : list (list N)) : list N :=
  match G with
  | [] => []
  | g :: t => (if first then [] else [59]) ++ dbg_sub true g ++ dbg_groups false t
  end.

Lemma dbg_sub_false l : dbg_sub false l = match l with [] => [] | _ => 58 :: csi_join 58 (map print_u16 l) end.
Proof.
  induction l as [|v t IH]; [reflexivity|]. cbn [dbg_sub map csi_join app]. rewrite IH.
  destruct t; cbn [map]; [rewrite app_nil_r|]; reflexivity.
Qed.
Lemma dbg_sub_true l : dbg_sub true l = csi_join 58 (map print_u16 l).
Proof. destruct l as [|v t]; [reflexivity|]. cbn [dbg_sub map csi_join app]. rewrite dbg_sub_false. destruct t; cbn [map]; [rewrite app_nil_r|]; reflexivity. Qed.
Lemma dbg_groups_false G : dbg_groups false G = match G with [] => [] | _ => 59 :: print_params G end.
Proof.
  unfold print_params, print_digit_params.
  induction G as [|g t IH]; [reflexivity|]. cbn [dbg_groups map csi_join app]. rewrite IH, dbg_sub_true.
  destruct t; cbn [map]; [rewrite app_nil_r|]; reflexivity.
Qed.
Lemma dbg_groups_true G : dbg_groups true G = print_params G.
Proof.
  destruct G as [|g t]; [reflexivity|]. cbn [dbg_groups app]. rewrite dbg_groups_false, dbg_sub_true.
  unfold print_params, print_digit_params. destruct t; cbn [map csi_join]; [rewrite app_nil_r|]; reflexivity.
Qed.

Lemma succ_eqb_0 j : (j + 1 =? 0) = false.
Proof. apply N.eqb_neq. lia. Qed.

(* the two loops, for ANY body that does what one iteration of the Rust loop does *)
Lemma dbg_inner {R} (F : N * N -> list N -> option (lctl (list N) R)) :
  (forall i v f, F (i, v) f = Some (LNext (pfmt_u16 (if negb (i =? 0) then pfmt_write_str f [58] else f) v))) ->
  forall l j f, for_list F (penumerate_from j l) f = Some (inl (f ++ dbg_sub (j =? 0) l)).
Proof.
  intros HF. induction l as [|v t IH]; intros j f; cbn [penumerate_from for_list dbg_sub].
  - rewrite app_nil_r. reflexivity.
  - rewrite HF, IH, succ_eqb_0. unfold pfmt_u16, pfmt_write_str, print_u16. rewrite pfmt_dec_is.
    destruct (j =? 0); cbn [negb app]; rewrite <- ?app_assoc; reflexivity.
Qed.

Lemma dbg_outer {R} (F : N * list N -> list N -> option (lctl (list N) R)) :
  (forall i g f, F (i, g) f = Some (LNext ((if negb (i =? 0) then pfmt_write_str f [59] else f) ++ dbg_sub true g))) ->
  forall G j f, for_list F (penumerate_from j G) f = Some (inl (f ++ dbg_groups (j =? 0) G)).
Proof.
  intros HF. induction G as [|g t IH]; intros j f; cbn [penumerate_from for_list dbg_groups].
  - rewrite app_nil_r. reflexivity.
  - rewrite HF, IH, succ_eqb_0. unfold pfmt_write_str.
    destruct (j =? 0); cbn [negb app]; rewrite <- ?app_assoc; reflexivity.
Qed.

Lemma g_params_debug_fmt_eq c q f :
  g_params_debug_fmt c q f =
  (G <- params_groups q ;; Some (f ++ [91] ++ print_params G ++ [93], inl tt)).
Proof.
  unfold g_params_debug_fmt. cbv beta iota zeta.
  rewrite drain_params_iter, g_params_iter_eq. cbn [pit_params pit_index].
  change (params_iter (S (N.to_nat MAX_PARAMS)) q 0) with (params_groups q).
  destruct (params_groups q) as [G|]; [|reflexivity].
  match goal with |- context [for_list ?fo (penumerate G) _] => set (Fo := fo) end.
  assert (HFo : forall i g f0, Fo (i, g) f0 = Some (LNext ((if negb (i =? 0) then pfmt_write_str f0 [59] else f0) ++ dbg_sub true g))).
  { intros i g f0. unfold Fo. cbv beta iota zeta.
    destruct (i =? 0); cbn [negb];
      (match goal with |- context [for_list ?fi (penumerate g) _] =>
         rewrite (dbg_inner fi (fun i0 v f1 => ltac:(cbv beta iota zeta; destruct (i0 =? 0); reflexivity)) g 0)
       end); reflexivity. }
  unfold penumerate. rewrite (dbg_outer Fo HFo G 0). cbn [N.eqb]. rewrite dbg_groups_true.
  unfold pfmt_write_str. rewrite <- !app_assoc. reflexivity.
Qed.
