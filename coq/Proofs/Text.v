(* Proofs/Text.v -- lemmas about the Rust std operations of Model/Text.v:
   list equality, split / join, collect::<Option<_>>, the integer parser. *)
From Coq Require Import NArith List Bool Lia.
From AV Require Import Model.Base Model.Text.
Import ListNotations.
Local Open Scope N_scope.

(* ---- finite ranges --------------------------------------------------------- *)

Lemma range_from_In' : forall n a x, In x (range_from a n) <-> a <= x < a + N.of_nat n.
Proof.
  induction n as [|n IH]; intros a x; cbn [range_from].
  - split; [intros [] | lia].
  - rewrite Nat2N.inj_succ. cbn [In]. rewrite IH. lia.
Qed.

Lemma all_bytes_In' : forall b, b < 256 -> In b all_bytes.
Proof. intros b Hb. unfold all_bytes. apply range_from_In'. cbn. lia. Qed.

Lemma forall_bytes' (P : N -> bool) :
  forallb P all_bytes = true -> forall b, b < 256 -> P b = true.
Proof. intros H b Hb. rewrite forallb_forall in H. apply H. now apply all_bytes_In'. Qed.

Lemma Forall_bytes (P : N -> Prop) : Forall P all_bytes -> forall b, b < 256 -> P b.
Proof. intros H b Hb. rewrite Forall_forall in H. apply H. now apply all_bytes_In'. Qed.

Lemma forall_range (P : N -> bool) (n : nat) :
  forallb P (range_from 0 n) = true -> forall x, x < N.of_nat n -> P x = true.
Proof. intros H x Hx. rewrite forallb_forall in H. apply H. apply range_from_In'. lia. Qed.

(* ---- list equality --------------------------------------------------------- *)

Lemma list_eqb_eq : forall a b, list_eqb a b = true <-> a = b.
Proof.
  induction a as [|x a IH]; intros [|y b]; cbn; split; intros H; try reflexivity; try discriminate.
  - apply andb_true_iff in H as [H1 H2]. apply N.eqb_eq in H1. apply IH in H2. now subst.
  - injection H as -> ->. rewrite N.eqb_refl. cbn. now apply IH.
Qed.

Lemma list_eqb_refl : forall a, list_eqb a a = true.
Proof. intros a. now apply list_eqb_eq. Qed.

Lemma list_eqb_neq : forall a b, list_eqb a b = false <-> a <> b.
Proof.
  intros a b. split.
  - intros H E. apply list_eqb_eq in E. congruence.
  - intros H. destruct (list_eqb a b) eqn:E; [apply list_eqb_eq in E; contradiction | reflexivity].
Qed.

(* ---- collect::<Option<_>> ---------------------------------------------------- *)

Lemma collect_option_map_some {A B} (f : A -> option B) (g : A -> B) : forall l,
  (forall x, In x l -> f x = Some (g x)) -> collect_option (map f l) = Some (map g l).
Proof.
  induction l as [|x l IH]; intros H; cbn; [reflexivity|].
  rewrite (H x (or_introl eq_refl)). rewrite IH; [reflexivity|]. intros y Hy. apply H. now right.
Qed.

Lemma collect_option_map_none {A B} (f : A -> option B) : forall l x,
  In x l -> f x = None -> collect_option (map f l) = None.
Proof.
  induction l as [|y l IH]; intros x Hin Hx; [destruct Hin|].
  cbn. destruct Hin as [-> | Hin].
  - now rewrite Hx.
  - destruct (f y); [|reflexivity]. now rewrite (IH x Hin Hx).
Qed.

Lemma collect_option_some_all {A} : forall (l : list (option A)) r,
  collect_option l = Some r -> l = map Some r.
Proof.
  induction l as [|[x|] l IH]; intros r H; cbn in H.
  - injection H as <-. reflexivity.
  - destruct (collect_option l) as [t|] eqn:E; [|discriminate]. injection H as <-. cbn. f_equal. now apply IH.
  - discriminate.
Qed.

(* ---- split ------------------------------------------------------------------- *)

Lemma split_pred_nonempty : forall p s, split_pred p s <> [].
Proof.
  intros p s. destruct s as [|c s]; cbn; [discriminate|].
  destruct (p c); [discriminate|]. destruct (split_pred p s); discriminate.
Qed.

Lemma split_pred_clean : forall p f, (forall c, In c f -> p c = false) -> split_pred p f = [f].
Proof.
  intros p. induction f as [|c f IH]; intros H; cbn; [reflexivity|].
  rewrite (H c (or_introl eq_refl)). rewrite IH; [reflexivity|]. intros d Hd. apply H. now right.
Qed.

Lemma split_pred_app_sep : forall p f sep rest,
  (forall c, In c f -> p c = false) -> p sep = true ->
  split_pred p (f ++ sep :: rest) = f :: split_pred p rest.
Proof.
  intros p. induction f as [|c f IH]; intros sep rest H Hs; cbn.
  - now rewrite Hs.
  - rewrite (H c (or_introl eq_refl)). rewrite IH; [reflexivity| |assumption]. intros d Hd. apply H. now right.
Qed.

(* ---- the integer parser -------------------------------------------------------- *)

Lemma from_str_no_sign : forall r c rest, c <> 43 -> c <> 45 ->
  u8_from_str_radix r (c :: rest) = digits_u8 r (c :: rest) 0.
Proof.
  intros r c rest H1 H2. unfold u8_from_str_radix.
  apply N.eqb_neq in H1. apply N.eqb_neq in H2. rewrite H1, H2. now destruct rest.
Qed.

Lemma digits_u8_zeros : forall z ds, digits_u8 10 (repeat 48 z ++ ds) 0 = digits_u8 10 ds 0.
Proof. induction z as [|z IH]; intros ds; [reflexivity|]. cbn [repeat app digits_u8]. exact (IH ds). Qed.

(* the digit loop never returns more than 255 and fails exactly on a non-digit
   or when the running value passes 255 *)
Lemma digits_u8_bound : forall r ds acc v, digits_u8 r ds acc = Some v -> acc <= 255 -> v <= 255.
Proof.
  intros r. induction ds as [|c ds IH]; intros acc v H Ha; cbn in H.
  - injection H as <-. exact Ha.
  - destruct (to_digit r c) as [d|]; [|discriminate].
    destruct (acc * r + d <=? 255) eqn:E; [|discriminate]. apply N.leb_le in E. eapply IH; eauto.
Qed.
