(* Proofs/WinconSgr.v -- the SGR decoder of the wincon adapter (csi_dispatch)
   computes the standard SGR semantics of Spec/Sgr on the grammar G of attribute
   groups (C07). *)
From Coq Require Import NArith Arith List Bool Lia.
From AV Require Import Generated.Table Spec.Vt Spec.Sgr Model.Base Model.Parser Model.Wincon Proofs.TableFacts.
Import ListNotations.
Local Open Scope N_scope.

(* ---- the grammar G of attribute groups ------------------------------------- *)

Inductive gitem : Set :=
  | GCode (c : N)                          (* a single code *)
  | GUl (n : N)                            (* 4:n *)
  | GIdx (colon : bool) (c n : N)          (* 38/48/58 ; 5 ; n   or   38:5:n *)
  | GRgb (colon : bool) (c r g b : N).     (* 38/48/58 ; 2 ; r ; g ; b   or with ':' *)

Definition groups_of_item (i : gitem) : list (list N) :=
  match i with
  | GCode c => [[c]]
  | GUl n => [[4; n]]
  | GIdx true c n => [[c; 5; n]]
  | GIdx false c n => [[c]; [5]; [n]]
  | GRgb true c r g b => [[c; 2; r; g; b]]
  | GRgb false c r g b => [[c]; [2]; [r]; [g]; [b]]
  end.

Definition groups_of (items : list gitem) : list (list N) := flat_map groups_of_item items.

(* codes the style type could represent but the property does not list are
   outside the grammar in both directions: 5, 6 (blink), 22-29, 59; so are the
   extended-colour introducers on their own *)
Definition code_in_G (c : N) : bool :=
  negb ((c =? 5) || (c =? 6) || in_rng 22 29 c || (c =? 59) || (c =? 38) || (c =? 48) || (c =? 58)).

Definition is_ext (c : N) : bool := (c =? 38) || (c =? 48) || (c =? 58).

Definition item_in_G (i : gitem) : bool :=
  match i with
  | GCode c => code_in_G c
  | GUl n => n <=? 5
  | GIdx _ c n => is_ext c && (n <=? 255)
  | GRgb _ c r g b => is_ext c && (r <=? 255) && (g <=? 255) && (b <=? 255)
  end.

(* ul_simple: a group that changes the underline is applied only when no
   underline kind other than the one it selects is set *)
Definition only_kind (e : N) (k : N) : bool := N.land e (N.ldiff underline_mask (bit k)) =? 0.

Definition ul_ok (s : sstyle) (i : gitem) : bool :=
  match i with
  | GCode c => if c =? 4 then only_kind (s_eff s) UNDERLINE
               else if c =? 21 then only_kind (s_eff s) DOUBLE_UNDERLINE else true
  | GUl n => match underline_kind n with
             | Some (Some k) => only_kind (s_eff s) k
             | Some None => only_kind (s_eff s) UNDERLINE
             | None => true
             end
  | _ => true
  end.

Definition item_apply (s : sstyle) (i : gitem) : sstyle := sgr_apply s (groups_of_item i).

Fixpoint ul_simple (s : sstyle) (items : list gitem) : Prop :=
  match items with
  | [] => True
  | i :: rest => ul_ok s i = true /\ ul_simple (item_apply s i) rest
  end.

(* ---- bit-set facts (for every N, no enumeration) ------------------------------ *)

Lemma land_zero_bits e m : N.land e m = 0 -> forall n, N.testbit e n && N.testbit m n = false.
Proof. intros H n. rewrite <- N.land_spec, H. apply N.bits_0. Qed.

Lemma lor_replace e m k : N.land e m = 0 -> N.lor e k = N.lor (N.ldiff e (N.lor m k)) k.
Proof.
  intros H. apply N.bits_inj. intros n.
  rewrite !N.lor_spec, !N.ldiff_spec, !N.lor_spec.
  pose proof (land_zero_bits e m H n) as Hn.
  destruct (N.testbit e n), (N.testbit m n), (N.testbit k n); cbn in *; congruence.
Qed.

Lemma ldiff_after_insert e m u : N.land e m = 0 -> N.ldiff (N.lor e u) u = N.ldiff e (N.lor m u).
Proof.
  intros H. apply N.bits_inj. intros n.
  rewrite !N.ldiff_spec, !N.lor_spec.
  pose proof (land_zero_bits e m H n) as Hn.
  destruct (N.testbit e n), (N.testbit m n), (N.testbit u n); cbn in *; congruence.
Qed.

Lemma lor_replace2 e m u k :
  N.land e m = 0 -> N.land u m = u ->
  N.lor (N.ldiff (N.lor e u) u) k = N.lor (N.ldiff e (N.lor m k)) k.
Proof.
  intros H Hu. apply N.bits_inj. intros n.
  rewrite !N.lor_spec, !N.ldiff_spec, !N.lor_spec.
  pose proof (land_zero_bits e m H n) as Hn.
  assert (Hun : N.testbit u n && N.testbit m n = N.testbit u n) by (rewrite <- N.land_spec, Hu; reflexivity).
  destruct (N.testbit e n), (N.testbit m n), (N.testbit k n), (N.testbit u n); cbn in *; congruence.
Qed.

(* ---- one item, both sides ---------------------------------------------------- *)

Definition normal (d : dstate) : Prop := d_state d = WNormal.

Definition un_ul (d : dstate) : dstate :=
  match d_state d with WUnderline => set_d d (d_style d) WNormal | _ => d end.

Lemma pl_single d c rest d1 brk :
  value_step d c = Some (d1, brk) -> params_loop d ([c] :: rest) = params_loop (un_ul d1) rest.
Proof.
  intros H. cbn [params_loop values_loop]. rewrite H. destruct brk; reflexivity.
Qed.

Arguments N.lor : simpl never.
Arguments N.ldiff : simpl never.
Arguments N.land : simpl never.
Arguments N.modulo : simpl never.

Definition code_goal (s : sstyle) (r g : option N) (t : target) (c : N) : Prop :=
  exists d', value_step (mkD s WNormal r g t) c = Some (d', true) /\ d_state d' = WNormal /\
             d_style d' = sgr_code s c.

Lemma only_kind_true e k : only_kind e k = true -> N.land e (N.ldiff underline_mask (bit k)) = 0.
Proof. unfold only_kind. intros H. now apply N.eqb_eq. Qed.

(* codes below 108, one by one *)
Lemma code_small s r g t c :
  In c (range_from 0 108) -> code_in_G c = true -> ul_ok s (GCode c) = true -> c <> 4 ->
  code_goal s r g t c.
Proof.
  intros Hin HG Hul H4. unfold code_goal. cbn [range_from N.add Pos.add Pos.succ In] in Hin.
  repeat (destruct Hin as [<-|Hin];
    [ try (exfalso; apply H4; reflexivity);
      try (cbn in HG; discriminate HG);
      try (eexists; split; [reflexivity|]; split; [reflexivity|]; reflexivity) | ]).
  all: try contradiction.
  (* 21: double underline replaces the underline attribute *)
  cbn in Hul. apply only_kind_true in Hul.
  eexists. split; [reflexivity|]. split; [reflexivity|].
  cbn -[N.lor N.ldiff]. unfold set_underline, eff_off_mask, eff_on. cbn -[N.lor N.ldiff].
  change underline_mask with (N.lor (N.ldiff underline_mask (bit DOUBLE_UNDERLINE)) (bit DOUBLE_UNDERLINE)).
  unfold st_insert. f_equal. change 16 with (bit DOUBLE_UNDERLINE). now apply lor_replace.
Qed.

Lemma code_4 s r g t :
  ul_ok s (GCode 4) = true ->
  exists d', value_step (mkD s WNormal r g t) 4 = Some (d', false) /\ d_state d' = WUnderline /\
             d_style d' = sgr_code s 4.
Proof.
  intros Hul. cbn in Hul. apply only_kind_true in Hul.
  eexists. split; [reflexivity|]. split; [reflexivity|].
  cbn -[N.lor N.ldiff]. unfold set_underline, eff_off_mask, eff_on, st_insert. cbn -[N.lor N.ldiff].
  f_equal.
  change underline_mask with (N.lor (N.ldiff underline_mask (bit UNDERLINE)) (bit UNDERLINE)).
  change 8 with (bit UNDERLINE). now apply lor_replace.
Qed.

(* codes from 108 up are unknown to both sides *)
Lemma code_large s r g t c : 108 <= c -> code_goal s r g t c.
Proof.
  intros Hc. unfold code_goal, value_step, sgr_code, in_rng. cbn [d_state d_style].
  repeat match goal with
         | |- context [c =? ?k] => replace (c =? k) with false by (symmetry; apply N.eqb_neq; lia)
         | |- context [c <=? ?k] => replace (c <=? k) with false by (symmetry; apply N.leb_gt; lia)
         end.
  rewrite !andb_false_r. cbn [orb].
  eexists. split; [reflexivity|]. split; reflexivity.
Qed.

Lemma range_from_In' : forall n a x, a <= x < a + N.of_nat n -> In x (range_from a n).
Proof. intros. now apply range_from_In. Qed.

Lemma item_code d c rest :
  normal d -> code_in_G c = true -> ul_ok (d_style d) (GCode c) = true ->
  exists d', params_loop d ([c] :: rest) = params_loop d' rest /\ normal d' /\
             d_style d' = sgr_code (d_style d) c.
Proof.
  intros Hn HG Hul. destruct d as [s w r g t]. unfold normal in Hn. cbn in Hn. subst w. cbn [d_style] in *.
  destruct (N.eq_dec c 4) as [->|H4].
  - destruct (code_4 s r g t Hul) as (d' & Hv & Hst & Hsty).
    exists (un_ul d'). split; [eapply pl_single; eauto|].
    unfold un_ul. rewrite Hst. split; [reflexivity|]. exact Hsty.
  - assert (Hg : code_goal s r g t c).
    { destruct (N.lt_ge_cases c 108) as [Hlt|Hge]; [|now apply code_large].
      apply code_small; auto. apply range_from_In'. cbn. lia. }
    destruct Hg as (d' & Hv & Hst & Hsty).
    exists (un_ul d'). split; [eapply pl_single; eauto|].
    unfold un_ul. rewrite Hst. split; [exact Hst|]. exact Hsty.
Qed.

(* 4:n *)
Lemma item_ul d n rest :
  normal d -> n <= 5 -> ul_ok (d_style d) (GUl n) = true ->
  exists d', params_loop d ([4; n] :: rest) = params_loop d' rest /\ normal d' /\
             d_style d' = sgr_apply (d_style d) [[4; n]].
Proof.
  intros Hn Hle Hul. destruct d as [s w r g t]. unfold normal in Hn. cbn in Hn. subst w. cbn [d_style] in *.
  assert (Hcases : n = 0 \/ n = 1 \/ n = 2 \/ n = 3 \/ n = 4 \/ n = 5) by lia.
  destruct Hcases as [->|[->|[->|[->|[->| ->]]]]]; cbn in Hul; apply only_kind_true in Hul;
    (eexists; split; [reflexivity|]; split; [reflexivity|]);
    cbn -[N.lor N.ldiff]; unfold set_underline, eff_off_mask, eff_on, st_insert, st_remove; cbn -[N.lor N.ldiff];
    f_equal.
  - change underline_mask with (N.lor (N.ldiff underline_mask (bit UNDERLINE)) (bit UNDERLINE)).
    change 8 with (bit UNDERLINE). now apply ldiff_after_insert.
  - change underline_mask with (N.lor (N.ldiff underline_mask (bit UNDERLINE)) (bit UNDERLINE)).
    change 8 with (bit UNDERLINE). now apply lor_replace.
  - change underline_mask with (N.lor (N.ldiff underline_mask (bit DOUBLE_UNDERLINE)) (bit DOUBLE_UNDERLINE)).
    change 16 with (bit DOUBLE_UNDERLINE). change 8 with (bit UNDERLINE). apply lor_replace2; [exact Hul|reflexivity].
  - change underline_mask with (N.lor (N.ldiff underline_mask (bit CURLY_UNDERLINE)) (bit CURLY_UNDERLINE)).
    change 32 with (bit CURLY_UNDERLINE). change 8 with (bit UNDERLINE). apply lor_replace2; [exact Hul|reflexivity].
  - change underline_mask with (N.lor (N.ldiff underline_mask (bit DOTTED_UNDERLINE)) (bit DOTTED_UNDERLINE)).
    change 64 with (bit DOTTED_UNDERLINE). change 8 with (bit UNDERLINE). apply lor_replace2; [exact Hul|reflexivity].
  - change underline_mask with (N.lor (N.ldiff underline_mask (bit DASHED_UNDERLINE)) (bit DASHED_UNDERLINE)).
    change 128 with (bit DASHED_UNDERLINE). change 8 with (bit UNDERLINE). apply lor_replace2; [exact Hul|reflexivity].
Qed.

(* extended colours *)
Lemma is_ext_cases c : is_ext c = true -> c = 38 \/ c = 48 \/ c = 58.
Proof.
  unfold is_ext. intros H. apply orb_true_iff in H as [H|H]; [apply orb_true_iff in H as [H|H]|];
    apply N.eqb_eq in H; auto.
Qed.

Lemma mod_small_255 n : n <= 255 -> n mod 256 = n.
Proof. intros. apply N.mod_small. lia. Qed.

Lemma item_idx d colon c n rest :
  normal d -> is_ext c = true -> n <= 255 ->
  exists d', params_loop d (groups_of_item (GIdx colon c n) ++ rest) = params_loop d' rest /\ normal d' /\
             d_style d' = sgr_apply (d_style d) (groups_of_item (GIdx colon c n)) /\
             forall s, sgr_groups s (groups_of_item (GIdx colon c n) ++ rest)
                       = sgr_groups (sgr_apply s (groups_of_item (GIdx colon c n))) rest.
Proof.
  intros Hn Hc Hle. destruct d as [s w r g t]. unfold normal in Hn. cbn in Hn. subst w. cbn [d_style].
  destruct (is_ext_cases c Hc) as [->|[->| ->]]; destruct colon;
    (eexists; split; [cbn -[N.modulo]; reflexivity|]; split; [reflexivity|]; split;
      [cbn -[N.modulo]; rewrite (mod_small_255 n Hle); reflexivity | intros s0; reflexivity]).
Qed.

Lemma item_rgb d colon c r0 g0 b0 rest :
  normal d -> is_ext c = true -> r0 <= 255 -> g0 <= 255 -> b0 <= 255 ->
  exists d', params_loop d (groups_of_item (GRgb colon c r0 g0 b0) ++ rest) = params_loop d' rest /\ normal d' /\
             d_style d' = sgr_apply (d_style d) (groups_of_item (GRgb colon c r0 g0 b0)) /\
             forall s, sgr_groups s (groups_of_item (GRgb colon c r0 g0 b0) ++ rest)
                       = sgr_groups (sgr_apply s (groups_of_item (GRgb colon c r0 g0 b0))) rest.
Proof.
  intros Hn Hc Hr Hg Hb. destruct d as [s w r g t]. unfold normal in Hn. cbn in Hn. subst w. cbn [d_style].
  destruct (is_ext_cases c Hc) as [->|[->| ->]]; destruct colon;
    (eexists; split; [cbn -[N.modulo]; reflexivity|]; split; [reflexivity|]; split;
      [cbn -[N.modulo]; rewrite (mod_small_255 r0 Hr), (mod_small_255 g0 Hg), (mod_small_255 b0 Hb); reflexivity
      | intros s0; reflexivity]).
Qed.

Lemma code_not_ext c : code_in_G c = true -> ext_target c = None.
Proof.
  unfold code_in_G, ext_target. intros H. apply negb_true_iff in H.
  repeat (apply orb_false_iff in H as [H ?]).
  repeat match goal with Hx : (c =? _) = false |- _ => rewrite Hx; clear Hx end. reflexivity.
Qed.

Lemma spec_code s c rest : code_in_G c = true -> sgr_groups s ([c] :: rest) = sgr_groups (sgr_code s c) rest.
Proof.
  intros H. cbn [sgr_groups]. rewrite (code_not_ext c H).
  repeat match goal with
         | |- context [match ?x with N0 => _ | Npos _ => _ end] => destruct x
         | |- context [match ?x with xH => _ | xO _ => _ | xI _ => _ end] => destruct x
         end; reflexivity.
Qed.

Lemma spec_ul s n rest : n <= 5 -> sgr_groups s ([4; n] :: rest) = sgr_groups (sgr_apply s [[4; n]]) rest.
Proof.
  intros Hle. assert (Hcases : n = 0 \/ n = 1 \/ n = 2 \/ n = 3 \/ n = 4 \/ n = 5) by lia.
  destruct Hcases as [->|[->|[->|[->|[->| ->]]]]]; reflexivity.
Qed.

(* ---- C07: the dispatcher is the SGR specification on G ------------------------ *)

Definition style_of (o : option dstate) : option sstyle :=
  match o with Some d => Some (d_style d) | None => None end.

Lemma dispatch_items : forall items d,
  normal d -> Forall (fun i => item_in_G i = true) items -> ul_simple (d_style d) items ->
  style_of (params_loop d (groups_of items)) = Some (sgr_groups (d_style d) (groups_of items)).
Proof.
  induction items as [|i items IH]; intros d Hn HG Hul.
  - reflexivity.
  - inversion HG as [|? ? Hi HG']; subst. destruct Hul as [Hul1 Hul2].
    unfold groups_of. cbn [flat_map]. fold (groups_of items).
    destruct i as [c|n|colon c n|colon c r0 g0 b0]; cbn [item_in_G] in Hi.
    + destruct (item_code d c (groups_of items) Hn Hi Hul1) as (d' & Hm & Hn' & Hs).
      cbn [groups_of_item app]. rewrite Hm, (spec_code _ c _ Hi).
      rewrite <- Hs. apply IH; auto.
      rewrite Hs. unfold item_apply, sgr_apply in Hul2. cbn [groups_of_item] in Hul2.
      rewrite (spec_code _ c [] Hi) in Hul2. exact Hul2.
    + apply N.leb_le in Hi.
      destruct (item_ul d n (groups_of items) Hn Hi Hul1) as (d' & Hm & Hn' & Hs).
      cbn [groups_of_item app]. rewrite Hm, (spec_ul _ n _ Hi).
      rewrite <- Hs. apply IH; auto. rewrite Hs. exact Hul2.
    + apply andb_true_iff in Hi as [Hc Hle]. apply N.leb_le in Hle.
      destruct (item_idx d colon c n (groups_of items) Hn Hc Hle) as (d' & Hm & Hn' & Hs & Hspec).
      rewrite Hm, Hspec. rewrite <- Hs. apply IH; auto. rewrite Hs. exact Hul2.
    + repeat (apply andb_true_iff in Hi as [Hi ?]).
      repeat match goal with Hx : (_ <=? _) = true |- _ => apply N.leb_le in Hx end.
      destruct (item_rgb d colon c r0 g0 b0 (groups_of items) Hn Hi) as (d' & Hm & Hn' & Hs & Hspec); auto.
      rewrite Hm, Hspec. rewrite <- Hs. apply IH; auto. rewrite Hs. exact Hul2.
Qed.

Theorem dispatch_is_sgr : forall items s,
  Forall (fun i => item_in_G i = true) items -> ul_simple s items ->
  sgr_dispatch s (groups_of items) = Some (sgr_apply s (groups_of items)).
Proof.
  intros items s HG Hul. unfold sgr_dispatch.
  pose proof (dispatch_items items (mkD s WNormal None None TFg) eq_refl HG Hul) as H.
  cbn [d_style] in H. destruct (params_loop _ _) as [d|]; cbn [style_of] in H; [|discriminate].
  inversion H as [H1]. unfold sgr_apply. rewrite H1. reflexivity.
Qed.

(* attributes combined in one sequence = the same attributes in separate sequences *)
Lemma sgr_groups_items_app : forall a b s,
  Forall (fun i => item_in_G i = true) a ->
  sgr_groups s (groups_of (a ++ b)) = sgr_groups (sgr_groups s (groups_of a)) (groups_of b).
Proof.
  induction a as [|i a IH]; intros b s HG; [reflexivity|].
  inversion HG as [|? ? Hi HG']; subst.
  unfold groups_of. cbn [flat_map app]. fold (groups_of (a ++ b)). fold (groups_of a).
  destruct i as [c|n|colon c n|colon c r0 g0 b0]; cbn [item_in_G] in Hi.
  - cbn [groups_of_item app]. rewrite !(spec_code _ c _ Hi). now apply IH.
  - apply N.leb_le in Hi. cbn [groups_of_item app]. rewrite (spec_ul s n (groups_of (a ++ b)) Hi), (spec_ul s n (groups_of a) Hi). now apply IH.
  - apply andb_true_iff in Hi as [Hc Hle]. apply N.leb_le in Hle.
    destruct (item_idx (mkD s WNormal None None TFg) colon c n (groups_of (a ++ b)) eq_refl Hc Hle) as (_ & _ & _ & _ & Hx1).
    destruct (item_idx (mkD s WNormal None None TFg) colon c n (groups_of a) eq_refl Hc Hle) as (_ & _ & _ & _ & Hx2).
    rewrite Hx1, Hx2. now apply IH.
  - repeat (apply andb_true_iff in Hi as [Hi ?]).
    repeat match goal with Hx : (_ <=? _) = true |- _ => apply N.leb_le in Hx end.
    destruct (item_rgb (mkD s WNormal None None TFg) colon c r0 g0 b0 (groups_of (a ++ b)) eq_refl Hi) as (_ & _ & _ & _ & Hx1); auto.
    destruct (item_rgb (mkD s WNormal None None TFg) colon c r0 g0 b0 (groups_of a) eq_refl Hi) as (_ & _ & _ & _ & Hx2); auto.
    rewrite Hx1, Hx2. now apply IH.
Qed.

Lemma ul_simple_app : forall a b s,
  Forall (fun i => item_in_G i = true) a ->
  ul_simple s (a ++ b) -> ul_simple s a /\ ul_simple (sgr_groups s (groups_of a)) b.
Proof.
  induction a as [|i a IH]; intros b s HG H; [cbn; auto|].
  inversion HG as [|? ? Hi HG']; subst. cbn [app ul_simple] in H. destruct H as [H1 H2].
  destruct (IH b _ HG' H2) as [Ha Hb]. split; [split; assumption|].
  replace (sgr_groups s (groups_of (i :: a))) with (sgr_groups (item_apply s i) (groups_of a)); [exact Hb|].
  change (i :: a) with ([i] ++ a). rewrite (sgr_groups_items_app [i] a s (Forall_cons _ Hi (Forall_nil _))).
  unfold item_apply, sgr_apply, groups_of. cbn [flat_map]. rewrite app_nil_r. reflexivity.
Qed.

Theorem combined_eq_separate : forall a b s,
  Forall (fun i => item_in_G i = true) a -> Forall (fun i => item_in_G i = true) b -> ul_simple s (a ++ b) ->
  sgr_dispatch s (groups_of (a ++ b)) =
  match sgr_dispatch s (groups_of a) with
  | Some s1 => sgr_dispatch s1 (groups_of b)
  | None => None
  end.
Proof.
  intros a b s Ha Hb Hul.
  destruct (ul_simple_app a b s Ha Hul) as [Hula Hulb].
  assert (Hab : Forall (fun i => item_in_G i = true) (a ++ b)) by (apply Forall_app; split; assumption).
  rewrite (dispatch_is_sgr (a ++ b) s Hab Hul), (dispatch_is_sgr a s Ha Hula).
  unfold sgr_apply in *. rewrite (dispatch_is_sgr b _ Hb Hulb). unfold sgr_apply.
  now rewrite sgr_groups_items_app.
Qed.
