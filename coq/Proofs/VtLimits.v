(* Proofs/VtLimits.v -- the documented limits of the escape-sequence parser,
   proved on the specification Spec/Vt.v for all byte lists:
     (1) every emitted event respects the limits (32 values, 2 intermediates,
         values <= 65535, 1..16 OSC fields, parameter lists and groups non-empty);
     (2) parameter values saturate at 65535, they do not wrap around;
     (3) the "ignored" flag is set exactly when something was discarded. *)
From Coq Require Import NArith List Bool Lia.
From AV Require Import Spec.Utf8 Spec.Vt.
Import ListNotations. Local Open Scope N_scope.
From Coq Require Import PeanoNat.   (* Nat.eqb_spec *)

(* ---- (1) limits ----------------------------------------------------------- *)

Definition event_ok (e : event) : Prop :=
  match e with
  | ECsi ps is _ _ | EHook ps is _ _ =>
      (length (concat ps) <= 32)%nat /\ (length is <= 2)%nat /\ Forall (Forall (fun v => v <= 65535)) ps
      /\ ps <> [] /\ Forall (fun g => g <> []) ps
  | EEsc is _ _ => (length is <= 2)%nat
  | EOsc fs _ => (1 <= length fs <= 16)%nat
  | _ => True
  end.

Definition vt_inv (s : vt) : Prop :=
  (count_values s <= 32)%nat /\
  (length (ints s) <= 2)%nat /\
  Forall (Forall (fun v => v <= 65535)) (closed s) /\
  Forall (fun v => v <= 65535) (cur s) /\
  pend s <= 65535 /\
  Forall (fun g : list N => g <> []) (closed s).

Definition params_ok (ps : list (list N)) : Prop :=
  (length (concat ps) <= 32)%nat /\
  Forall (Forall (fun v => v <= 65535)) ps /\
  ps <> [] /\
  Forall (fun g : list N => g <> []) ps.

Lemma vt_inv_init : vt_inv vt_init.
Proof.
  unfold vt_inv, vt_init, count_values. cbn.
  repeat split; auto; lia.
Qed.

(* the invariant only looks at ints / closed / cur / pend *)
Lemma vt_inv_ext : forall s s',
  ints s' = ints s -> closed s' = closed s -> cur s' = cur s -> pend s' = pend s ->
  vt_inv s -> vt_inv s'.
Proof.
  intros s s' Hi Hc Hu Hp Hinv.
  unfold vt_inv, count_values in *.
  rewrite Hi, Hc, Hu, Hp. exact Hinv.
Qed.

Lemma set_vs_inv : forall s v, vt_inv s -> vt_inv (set_vs s v).
Proof. intros s v H. apply (vt_inv_ext s); auto. Qed.

Lemma set_uni_inv : forall s u, vt_inv s -> vt_inv (set_uni s u).
Proof. intros s u H. apply (vt_inv_ext s); auto. Qed.

Lemma osc_put_inv : forall s b, vt_inv s -> vt_inv (osc_put s b).
Proof. intros s b H. apply (vt_inv_ext s); auto. Qed.

Lemma osc_start_inv : forall s, vt_inv s -> vt_inv (osc_start s).
Proof. intros s H. apply (vt_inv_ext s); auto. Qed.

Lemma utf8_update_inv : forall s x,
  vt_inv s ->
  vt_inv (mkVt (vs s) (ints s) (ign s) (closed s) (cur s) (pend s) (osc s) x).
Proof. intros s x H. apply (vt_inv_ext s); auto. Qed.

Lemma clear_inv : forall s, vt_inv (clear s).
Proof.
  intros s. unfold vt_inv, clear, count_values. cbn.
  repeat split; auto; lia.
Qed.

Lemma collect_inv : forall s b, vt_inv s -> vt_inv (collect s b).
Proof.
  intros s b Hinv. unfold collect, max_ints.
  destruct (Nat.eqb_spec (length (ints s)) 2) as [Heq | Hne].
  - apply (vt_inv_ext s); auto.
  - destruct Hinv as (Hc & Hi & Hcl & Hcu & Hp & Hne').
    unfold vt_inv, count_values in *. cbn [ints closed cur pend].
    repeat split; auto.
    rewrite app_length. cbn [length]. lia.
Qed.

Lemma param_inv : forall s b, vt_inv s -> vt_inv (param s b).
Proof.
  intros s b Hinv. unfold param, max_values, max_value.
  destruct (Nat.eqb_spec (count_values s) 32) as [Heq | Hne].
  - apply (vt_inv_ext s); auto.
  - destruct Hinv as (Hc & Hi & Hcl & Hcu & Hp & Hne').
    destruct (b =? 59); [| destruct (b =? 58)];
      unfold vt_inv, count_values in *; cbn [ints closed cur pend];
      refine (conj _ (conj Hi (conj _ (conj _ (conj _ _))))); auto.
    + rewrite concat_app, !app_length. cbn [concat]. rewrite app_nil_r, app_length.
      cbn [length]. lia.
    + apply Forall_app. split; auto.
      constructor; auto. apply Forall_app. split; auto.
    + lia.
    + apply Forall_app. split; auto.
      constructor; auto. destruct (cur s); discriminate.
    + rewrite app_length. cbn [length]. lia.
    + apply Forall_app. split; auto.
    + lia.
    + apply N.le_min_l.
Qed.

Lemma final_params_ok : forall s, vt_inv s -> params_ok (fst (final_params s)).
Proof.
  intros s (Hc & Hi & Hcl & Hcu & Hp & Hne').
  unfold final_params, max_values, params_ok.
  unfold count_values in *.
  destruct (Nat.eqb_spec (length (concat (closed s)) + length (cur s)) 32) as [Heq | Hne];
    cbn [fst].
  - destruct (cur s) as [| c cs] eqn:Ecur.
    + rewrite app_nil_r. cbn [length] in *.
      repeat split; auto; try lia.
      intros Hnil. rewrite Hnil in Heq. cbn in Heq. lia.
    + repeat split.
      * rewrite concat_app, app_length. cbn [concat]. rewrite app_nil_r. lia.
      * apply Forall_app. split; auto.
      * intros Hnil. apply app_eq_nil in Hnil. destruct Hnil as [_ Hnil]. discriminate.
      * apply Forall_app. split; auto. constructor; auto. discriminate.
  - repeat split.
    + rewrite concat_app, app_length. cbn [concat]. rewrite app_nil_r, app_length.
      cbn [length]. lia.
    + apply Forall_app. split; auto. constructor; auto.
      apply Forall_app. split; auto.
    + intros Hnil. apply app_eq_nil in Hnil. destruct Hnil as [_ Hnil]. discriminate.
    + apply Forall_app. split; auto. constructor; auto.
      destruct (cur s); discriminate.
Qed.

Lemma split_on_length : forall sep bs acc, (1 <= length (split_on sep acc bs))%nat.
Proof.
  intros sep bs. induction bs as [| b rest IH]; intros acc; cbn [split_on].
  - cbn. lia.
  - destruct (b =? sep).
    + cbn [length]. lia.
    + apply IH.
Qed.

Lemma osc_fields_length : forall p, (1 <= length (osc_fields p) <= 16)%nat.
Proof.
  intros p. unfold osc_fields, max_osc_fields.
  rewrite firstn_length.
  pose proof (split_on_length 59 p []) as H.
  lia.
Qed.

Lemma exit_events_ok : forall s b, Forall event_ok (exit_events s b).
Proof.
  intros s b. unfold exit_events.
  destruct (vs s); auto.
  - constructor; auto. exact I.
  - constructor; auto. cbn [event_ok]. apply osc_fields_length.
Qed.

Lemma do_action_ok : forall s a b,
  vt_inv s -> vt_inv (fst (do_action s a b)) /\ Forall event_ok (snd (do_action s a b)).
Proof.
  intros s a b Hinv.
  destruct a; cbn [do_action fst snd].
  - split; auto.
  - split; auto.
  - split; auto. constructor; auto. exact I.
  - split; auto. constructor; auto. exact I.
  - split; [apply collect_inv; exact Hinv | constructor].
  - split; [apply param_inv; exact Hinv | constructor].
  - split; auto. constructor; auto. cbn [event_ok]. apply Hinv.
  - pose proof (final_params_ok s Hinv) as Hps.
    destruct (final_params s) as [ps ig]. cbn [fst snd] in *.
    split; auto. constructor; auto. cbn [event_ok].
    destruct Hps as (H1 & H2 & H3 & H4).
    destruct Hinv as (_ & Hi & _).
    repeat split; auto.
  - split; auto. constructor; auto. exact I.
  - split; [apply osc_put_inv; exact Hinv | constructor].
  - destruct (utf8_lead b); cbn [fst snd]; (split; [| constructor]).
    + apply utf8_update_inv; exact Hinv.
    + exact Hinv.
Qed.

Lemma enter_ok : forall s t b,
  vt_inv s -> vt_inv (fst (enter s t b)) /\ Forall event_ok (snd (enter s t b)).
Proof.
  intros s t b Hinv.
  destruct t; cbn [enter fst snd];
    try (split; [apply set_vs_inv; apply osc_start_inv; exact Hinv | constructor]; fail);
    try (split; [apply set_vs_inv; apply clear_inv | constructor]; fail);
    try (split; [apply set_vs_inv; exact Hinv | constructor]; fail).
  - pose proof (final_params_ok s Hinv) as Hps.
    destruct (final_params s) as [ps ig]. cbn [fst snd] in *.
    split; [apply set_vs_inv; auto |].
    constructor; auto. cbn [event_ok].
    destruct Hps as (H1 & H2 & H3 & H4).
    destruct Hinv as (_ & Hi & _).
    repeat split; auto.
Qed.

Lemma vt_step_ok : forall s b,
  vt_inv s -> vt_inv (fst (vt_step s b)) /\ Forall event_ok (snd (vt_step s b)).
Proof.
  intros s b Hinv. unfold vt_step.
  destruct (uni s) as [[u acc] |].
  - destruct (utf8_cont u b); cbn [fst snd]; split;
      try (apply set_uni_inv; auto); auto;
      constructor; auto; exact I.
  - destruct (vt_trans (vs s) b) as [tgt a].
    destruct tgt as [t |].
    + pose proof (do_action_ok s a b Hinv) as [Hs1 He1].
      destruct (do_action s a b) as [s1 ev_act]. cbn [fst snd] in *.
      pose proof (enter_ok s1 t b Hs1) as [Hs2 He2].
      destruct (enter s1 t b) as [s2 ev_entry]. cbn [fst snd] in *.
      split; auto.
      apply Forall_app. split; [apply exit_events_ok |].
      apply Forall_app. split; auto.
    + apply do_action_ok; auto.
Qed.

Lemma limits_run : forall s bs,
  vt_inv s -> Forall event_ok (snd (vt_run s bs)) /\ vt_inv (fst (vt_run s bs)).
Proof.
  intros s bs. revert s.
  induction bs as [| b rest IH]; intros s Hinv; cbn [vt_run].
  - cbn [fst snd]. split; auto.
  - pose proof (vt_step_ok s b Hinv) as [Hs1 He1].
    destruct (vt_step s b) as [s1 e1]. cbn [fst snd] in *.
    pose proof (IH s1 Hs1) as [He2 Hs2].
    destruct (vt_run s1 rest) as [s2 e2]. cbn [fst snd] in *.
    split; auto.
    apply Forall_app. split; auto.
Qed.

Lemma spec_limits : forall bs, Forall event_ok (spec_events bs).
Proof.
  intros bs. unfold spec_events.
  apply limits_run. apply vt_inv_init.
Qed.

(* ---- (2) saturation, not wrap-around -------------------------------------- *)

Definition dec_value (ds : list N) : N := fold_left (fun v c => 10 * v + (c - 48)) ds 0.

Lemma param_digit : forall s b,
  (count_values s < 32)%nat -> b <> 59 -> b <> 58 ->
  param s b = mkVt (vs s) (ints s) (ign s) (closed s) (cur s)
                   (N.min 65535 (10 * pend s + (b - 48))) (osc s) (uni s).
Proof.
  intros s b Hc H59 H58. unfold param, max_values, max_value.
  destruct (Nat.eqb_spec (count_values s) 32) as [Heq | Hne]; [lia |].
  destruct (N.eqb_spec b 59) as [E | _]; [contradiction |].
  destruct (N.eqb_spec b 58) as [E | _]; [contradiction |].
  reflexivity.
Qed.

(* clamping an intermediate result does not change the clamped final result *)
Lemma sat_fold_congr : forall ds a b,
  a = b \/ (65535 <= a /\ 65535 <= b) ->
  N.min 65535 (fold_left (fun v c => 10 * v + (c - 48)) ds a) =
  N.min 65535 (fold_left (fun v c => 10 * v + (c - 48)) ds b).
Proof.
  induction ds as [| d ds IH]; intros a b Hab; cbn [fold_left].
  - destruct Hab as [-> | [Ha Hb]]; [reflexivity |].
    rewrite !N.min_l; auto.
  - apply IH. destruct Hab as [-> | [Ha Hb]]; [left; reflexivity |].
    right. split; lia.
Qed.

Lemma sat_fold_min : forall ds v,
  N.min 65535 (fold_left (fun v c => 10 * v + (c - 48)) ds (N.min 65535 v)) =
  N.min 65535 (fold_left (fun v c => 10 * v + (c - 48)) ds v).
Proof.
  intros ds v. apply sat_fold_congr.
  destruct (N.le_gt_cases v 65535) as [Hle | Hgt].
  - left. apply N.min_r; auto.
  - right. rewrite N.min_l; lia.
Qed.

(* with no digits ([ds = []]) the pending value is left as it is, so the general
   statement needs [pend s <= 65535] (true in every reachable state, see
   [vt_inv]); [param_digits_saturate_cons] below drops it for [ds <> []] *)
Lemma param_digits_saturate : forall ds s,
  (count_values s < 32)%nat -> pend s <= 65535 -> Forall (fun d => 48 <= d <= 57) ds ->
  fold_left param ds s =
  mkVt (vs s) (ints s) (ign s) (closed s) (cur s)
       (N.min 65535 (fold_left (fun v c => 10 * v + (c - 48)) ds (pend s))) (osc s) (uni s).
Proof.
  induction ds as [| d ds IH]; intros s Hc Hp Hds.
  - cbn [fold_left]. rewrite N.min_r by exact Hp. destruct s; reflexivity.
  - cbn [fold_left].
    inversion Hds as [| d' ds' Hd Hds' ]; subst.
    rewrite (param_digit s d Hc) by lia.
    rewrite IH; cbn [vs ints ign closed cur pend osc uni]; auto.
    + rewrite sat_fold_min. reflexivity.
    + apply N.le_min_l.
Qed.

(* at least one digit: no hypothesis on the pending value is needed *)
Lemma param_digits_saturate_cons : forall d ds s,
  (count_values s < 32)%nat -> Forall (fun d => 48 <= d <= 57) (d :: ds) ->
  fold_left param (d :: ds) s =
  mkVt (vs s) (ints s) (ign s) (closed s) (cur s)
       (N.min 65535 (fold_left (fun v c => 10 * v + (c - 48)) (d :: ds) (pend s))) (osc s) (uni s).
Proof.
  intros d ds s Hc Hds. cbn [fold_left].
  inversion Hds as [| d' ds' Hd Hds' ]; subst.
  rewrite (param_digit s d Hc) by lia.
  rewrite param_digits_saturate; cbn [vs ints ign closed cur pend osc uni]; auto.
  - rewrite sat_fold_min. reflexivity.
  - apply N.le_min_l.
Qed.

Corollary param_digits_value : forall ds s,
  (count_values s < 32)%nat -> pend s = 0 -> Forall (fun d => 48 <= d <= 57) ds ->
  pend (fold_left param ds s) = N.min 65535 (dec_value ds).
Proof.
  intros ds s Hc Hp Hds.
  rewrite param_digits_saturate; auto.
  - cbn [pend]. rewrite Hp. reflexivity.
  - rewrite Hp. lia.
Qed.

(* ---- (3) the flag is set exactly when something was discarded ------------- *)

Lemma collect_flag : forall s b, ign (collect s b) = ign s || Nat.eqb (length (ints s)) 2.
Proof.
  intros s b. unfold collect, max_ints.
  destruct (Nat.eqb (length (ints s)) 2); cbn [ign].
  - rewrite orb_true_r. reflexivity.
  - rewrite orb_false_r. reflexivity.
Qed.

Lemma collect_discards : forall s b,
  ints (collect s b) = if Nat.eqb (length (ints s)) 2 then ints s else ints s ++ [b].
Proof.
  intros s b. unfold collect, max_ints.
  destruct (Nat.eqb (length (ints s)) 2); reflexivity.
Qed.

Lemma param_flag : forall s b, ign (param s b) = ign s || Nat.eqb (count_values s) 32.
Proof.
  intros s b. unfold param, max_values.
  destruct (Nat.eqb (count_values s) 32).
  - cbn [ign]. rewrite orb_true_r. reflexivity.
  - rewrite orb_false_r.
    destruct (b =? 59); [reflexivity |].
    destruct (b =? 58); reflexivity.
Qed.

Lemma param_discards : forall s b,
  Nat.eqb (count_values s) 32 = true ->
  closed (param s b) = closed s /\ cur (param s b) = cur s /\ pend (param s b) = pend s.
Proof.
  intros s b H. unfold param, max_values. rewrite H.
  repeat split.
Qed.

Lemma final_params_flag : forall s, snd (final_params s) = ign s || Nat.eqb (count_values s) 32.
Proof.
  intros s. unfold final_params, max_values.
  destruct (Nat.eqb (count_values s) 32); cbn [snd].
  - rewrite orb_true_r. reflexivity.
  - rewrite orb_false_r. reflexivity.
Qed.

Lemma do_action_flag : forall s a b,
  a <> TCollect -> a <> TParam -> ign (fst (do_action s a b)) = ign s.
Proof.
  intros s a b Hc Hp.
  destruct a; try congruence; cbn [do_action fst]; try reflexivity.
  - destruct (final_params s); reflexivity.
  - destruct (utf8_lead b); reflexivity.
Qed.

Lemma enter_flag : forall s t b,
  ign (fst (enter s t b)) =
  match t with VEscape | VCsiEntry | VDcsEntry => false | _ => ign s end.
Proof.
  intros s t b.
  destruct t; cbn [enter]; try reflexivity.
  destruct (final_params s); reflexivity.
Qed.

(* ---- summary -------------------------------------------------------------- *)

Theorem limits_all :
  (forall bs, Forall event_ok (spec_events bs)) /\
  (forall s b, (count_values s < 32)%nat -> b <> 59 -> b <> 58 ->
     param s b = mkVt (vs s) (ints s) (ign s) (closed s) (cur s)
                      (N.min 65535 (10 * pend s + (b - 48))) (osc s) (uni s)) /\
  (forall ds s, (count_values s < 32)%nat -> pend s <= 65535 ->
     Forall (fun d => 48 <= d <= 57) ds ->
     fold_left param ds s =
     mkVt (vs s) (ints s) (ign s) (closed s) (cur s)
          (N.min 65535 (fold_left (fun v c => 10 * v + (c - 48)) ds (pend s))) (osc s) (uni s)) /\
  (forall ds s, (count_values s < 32)%nat -> pend s = 0 ->
     Forall (fun d => 48 <= d <= 57) ds ->
     pend (fold_left param ds s) = N.min 65535 (dec_value ds)) /\
  (forall s b, ign (collect s b) = ign s || Nat.eqb (length (ints s)) 2) /\
  (forall s b, ints (collect s b) =
     if Nat.eqb (length (ints s)) 2 then ints s else ints s ++ [b]) /\
  (forall s b, ign (param s b) = ign s || Nat.eqb (count_values s) 32) /\
  (forall s b, Nat.eqb (count_values s) 32 = true ->
     closed (param s b) = closed s /\ cur (param s b) = cur s /\ pend (param s b) = pend s) /\
  (forall s, snd (final_params s) = ign s || Nat.eqb (count_values s) 32) /\
  (forall s a b, a <> TCollect -> a <> TParam -> ign (fst (do_action s a b)) = ign s) /\
  (forall s t b, ign (fst (enter s t b)) =
     match t with VEscape | VCsiEntry | VDcsEntry => false | _ => ign s end).
Proof.
  split; [exact spec_limits |].
  split; [exact param_digit |].
  split; [exact param_digits_saturate |].
  split; [exact param_digits_value |].
  split; [exact collect_flag |].
  split; [exact collect_discards |].
  split; [exact param_flag |].
  split; [exact param_discards |].
  split; [exact final_params_flag |].
  split; [exact do_action_flag |].
  exact enter_flag.
Qed.
