(* Proofs/CrosstermVt.v -- the VT specification (Spec/Vt) reads a printed control sequence
   "ESC [ digits (;|:) digits ... m" back as exactly the printed parameters, and a text made of such
   sequences and one printable character as the SGR events around that character.
   Part 1 is a copy of section 1 of Proofs/Render.v (C05), which imports the generated tables of the
   anstyle rendering area; it is repeated here over Spec/ only so that the rendering theorems of C16
   (Proofs/CrosstermFnGen.v) do not depend on the generators of C05. *)
From Coq Require Import NArith Arith List Bool Lia.
From AV Require Import Spec.Vt Spec.Sgr Spec.Render.
Import ListNotations.
Local Open Scope N_scope.

Lemma vt_run_app s a b :
  vt_run s (a ++ b) =
  let '(s1, e1) := vt_run s a in let '(s2, e2) := vt_run s1 b in (s2, e1 ++ e2).
Proof.
  revert s. induction a as [|x a IH]; intros s; cbn [app vt_run].
  - destruct (vt_run s b); reflexivity.
  - destruct (vt_step s x) as [s1 e1]. rewrite IH.
    destruct (vt_run s1 a) as [s2 e2]. destruct (vt_run s2 b) as [s3 e3].
    now rewrite app_assoc.
Qed.

Lemma param_byte_cases b : 48 <= b <= 59 ->
  b = 48 \/ b = 49 \/ b = 50 \/ b = 51 \/ b = 52 \/ b = 53 \/ b = 54 \/ b = 55 \/ b = 56 \/ b = 57 \/ b = 58 \/ b = 59.
Proof. lia. Qed.

Ltac param_cases H :=
  apply param_byte_cases in H;
  repeat (destruct H as [H|H]; [subst|]); [..|subst].

Lemma trans_entry_param b : 48 <= b <= 59 -> vt_trans VCsiEntry b = (Some VCsiParam, TParam).
Proof. intros H. param_cases H; reflexivity. Qed.

Lemma trans_param_param b : 48 <= b <= 59 -> vt_trans VCsiParam b = (None, TParam).
Proof. intros H. param_cases H; reflexivity. Qed.

(* the parser inside the parameter part of a control sequence: no intermediates,
   nothing discarded, [cl] closed groups, [cu] sub-parameters of the open group,
   [p] the value being read *)
Definition csi_st (s : vt) (cl : list (list N)) (cu : list N) (p : N) : Prop :=
  uni s = None /\ ints s = [] /\ ign s = false /\ closed s = cl /\ cur s = cu /\ pend s = p /\
  (vs s = VCsiEntry \/ vs s = VCsiParam).

Definition param_upd (cl : list (list N)) (cu : list N) (p b : N) : list (list N) * list N * N :=
  if b =? 59 then (cl ++ [cu ++ [p]], [], 0)
  else if b =? 58 then (cl, cu ++ [p], 0)
  else (cl, cu, N.min 65535 (10 * p + (b - 48))).

Lemma step_param s cl cu p b :
  csi_st s cl cu p -> 48 <= b <= 59 -> (length (concat cl) + length cu < 32)%nat ->
  exists s', vt_step s b = (s', []) /\
             let '(cl', cu', p') := param_upd cl cu p b in csi_st s' cl' cu' p'.
Proof.
  intros (Hu & Hi & Hg & Hcl & Hcu & Hp & Hv) Hb Hn.
  destruct s as [v i g c u p0 o un]. cbn in Hu, Hi, Hg, Hcl, Hcu, Hp, Hv. subst.
  assert (Hc : Nat.eqb (count_values (mkVt v [] false cl cu p o None)) max_values = false).
  { apply Nat.eqb_neq. unfold count_values, max_values. cbn [closed cur]. lia. }
  unfold vt_step. cbn [uni].
  destruct Hv as [-> | ->]; cbn [vs].
  - rewrite (trans_entry_param b Hb). cbn [exit_events vs do_action app]. unfold param. rewrite Hc.
    unfold param_upd. destruct (b =? 59); [|destruct (b =? 58)];
      (eexists; split; [reflexivity|]; unfold csi_st; cbn; intuition).
  - rewrite (trans_param_param b Hb). cbn [do_action]. unfold param. rewrite Hc.
    unfold param_upd. destruct (b =? 59); [|destruct (b =? 58)];
      (eexists; split; [reflexivity|]; unfold csi_st; cbn; intuition).
Qed.

Lemma dec_from_mono ds : forall v, v <= rn_dec_from v ds.
Proof.
  induction ds as [|d t IH]; intros v; cbn [rn_dec_from fold_left]; [lia|].
  specialize (IH (10 * v + (d - 48))). unfold rn_dec_from in IH. lia.
Qed.

Lemma digit_bounds d : rn_is_digit d = true -> 48 <= d <= 57.
Proof. unfold rn_is_digit. intros H. apply andb_true_iff in H. destruct H as [A B]. apply N.leb_le in A, B. lia. Qed.

(* a digit string *)
Lemma run_digits ds : forall s cl cu p,
  csi_st s cl cu p -> forallb rn_is_digit ds = true -> rn_dec_from p ds < 65536 ->
  (length (concat cl) + length cu < 32)%nat ->
  exists s', vt_run s ds = (s', []) /\ csi_st s' cl cu (rn_dec_from p ds).
Proof.
  induction ds as [|d t IH]; intros s cl cu p Hs Hd Hv Hn.
  - exists s. split; [reflexivity|exact Hs].
  - cbn [forallb] in Hd. apply andb_true_iff in Hd. destruct Hd as [Hd Ht].
    apply digit_bounds in Hd.
    destruct (step_param s cl cu p d Hs ltac:(lia) Hn) as (s1 & E1 & Hs1).
    unfold param_upd in Hs1.
    replace (d =? 59) with false in Hs1 by (symmetry; apply N.eqb_neq; lia).
    replace (d =? 58) with false in Hs1 by (symmetry; apply N.eqb_neq; lia).
    cbn [rn_dec_from fold_left] in Hv |- *. fold (rn_dec_from (10 * p + (d - 48)) t) in Hv |- *.
    pose proof (dec_from_mono t (10 * p + (d - 48))) as Hm.
    rewrite N.min_r in Hs1 by lia.
    destruct (IH s1 cl cu _ Hs1 Ht Hv Hn) as (s2 & E2 & Hs2).
    exists s2. split; [|exact Hs2]. cbn [vt_run]. rewrite E1, E2. reflexivity.
Qed.

Lemma rn_join_cons2 sep x y t : rn_join sep (x :: y :: t) = x ++ [sep] ++ rn_join sep (y :: t).
Proof. reflexivity. Qed.

(* one parameter: sub-parameter digit strings joined by ':' *)
Lemma run_group g : forall s cl cu,
  csi_st s cl cu 0 -> rn_nonempty g = true -> forallb rn_digits_ok g = true ->
  (length (concat cl) + length cu + length g <= 32)%nat ->
  exists s' cu' p', vt_run s (rn_join 58 g) = (s', []) /\ csi_st s' cl cu' p' /\
                    cu' ++ [p'] = cu ++ map rn_dec_value g.
Proof.
  induction g as [|x t IH]; intros s cl cu Hs Hne Hok Hn; [discriminate|].
  cbn [forallb] in Hok. apply andb_true_iff in Hok. destruct Hok as [Hx Ht].
  unfold rn_digits_ok in Hx. apply andb_true_iff in Hx. destruct Hx as [Hxd Hxv]. apply N.ltb_lt in Hxv.
  cbn [length] in Hn.
  destruct (run_digits x s cl cu 0 Hs Hxd Hxv ltac:(lia)) as (s1 & E1 & Hs1).
  fold (rn_dec_value x) in Hs1.
  destruct t as [|y t'].
  - cbn [rn_join map]. exists s1, cu, (rn_dec_value x). auto.
  - rewrite rn_join_cons2.
    destruct (step_param s1 cl cu (rn_dec_value x) 58 Hs1 ltac:(lia) ltac:(cbn [length] in Hn; lia)) as (s2 & E2 & Hs2).
    cbn in Hs2.
    destruct (IH s2 cl (cu ++ [rn_dec_value x]) Hs2 eq_refl Ht) as (s3 & cu' & p' & E3 & Hs3 & Hq).
    { rewrite app_length. cbn [length] in *. lia. }
    exists s3, cu', p'. split; [|split; [exact Hs3|]].
    + rewrite vt_run_app, E1, vt_run_app. cbn [vt_run]. rewrite E2, E3. reflexivity.
    + rewrite Hq. cbn [map]. now rewrite <- app_assoc.
Qed.

Lemma concat_snoc {A} (l : list (list A)) x : concat (l ++ [x]) = concat l ++ x.
Proof. rewrite concat_app. cbn. now rewrite app_nil_r. Qed.

(* a parameter list: parameters joined by ';' *)
Lemma run_params gs : forall s cl,
  csi_st s cl [] 0 -> rn_nonempty gs = true ->
  forallb (fun g => rn_nonempty g && forallb rn_digits_ok g) gs = true ->
  (length (concat cl) + length (concat gs) <= 32)%nat ->
  exists s' cl' cu' p', vt_run s (rn_print_params gs) = (s', []) /\ csi_st s' cl' cu' p' /\
                        cl' ++ [cu' ++ [p']] = cl ++ rn_param_values gs /\
                        (length (concat cl') + length cu' < 32)%nat.
Proof.
  unfold rn_print_params, rn_param_values.
  induction gs as [|g t IH]; intros s cl Hs Hne Hok Hn; [discriminate|].
  cbn [forallb] in Hok. apply andb_true_iff in Hok. destruct Hok as [Hg Ht].
  apply andb_true_iff in Hg. destruct Hg as [Hgne Hgok].
  cbn [concat] in Hn. rewrite app_length in Hn.
  destruct (run_group g s cl [] Hs Hgne Hgok ltac:(cbn [length]; lia)) as (s1 & cu1 & p1 & E1 & Hs1 & Hq1).
  cbn [app] in Hq1.
  assert (Hl1 : (length cu1 + 1 = length g)%nat).
  { apply (f_equal (@length N)) in Hq1. rewrite app_length, map_length in Hq1. exact Hq1. }
  destruct t as [|h t'].
  - cbn [map rn_join]. exists s1, cl, cu1, p1. split; [exact E1|]. split; [exact Hs1|]. split.
    + now rewrite Hq1.
    + lia.
  - cbn [map]. rewrite rn_join_cons2.
    destruct (step_param s1 cl cu1 p1 59 Hs1 ltac:(lia) ltac:(lia)) as (s2 & E2 & Hs2).
    cbn in Hs2.
    destruct (IH s2 (cl ++ [cu1 ++ [p1]]) Hs2 eq_refl Ht) as (s3 & cl' & cu' & p' & E3 & Hs3 & Hq & Hl).
    { rewrite concat_snoc, !app_length. cbn [length]. lia. }
    exists s3, cl', cu', p'. split; [|split; [exact Hs3|split; [|exact Hl]]].
    + rewrite vt_run_app, E1, vt_run_app. cbn [vt_run]. rewrite E2. cbn [map] in E3. rewrite E3. reflexivity.
    + rewrite Hq, Hq1, <- app_assoc. reflexivity.
Qed.

(* where a control sequence may start and where it ends *)
Definition ground_st (s : vt) : Prop := vs s = VGround /\ uni s = None.

Lemma ground_init : ground_st vt_init.
Proof. split; reflexivity. Qed.

Lemma step_esc s : ground_st s -> vt_step s 27 = (mkVt VEscape [] false [] [] 0 (osc s) None, []).
Proof. intros [Hv Hu]. destruct s as [v i g c u p o un]. cbn in Hv, Hu. subst. reflexivity. Qed.

Lemma step_bracket o : vt_step (mkVt VEscape [] false [] [] 0 o None) 91 = (mkVt VCsiEntry [] false [] [] 0 o None, []).
Proof. reflexivity. Qed.

Lemma step_final_m s cl cu p :
  csi_st s cl cu p -> (length (concat cl) + length cu < 32)%nat ->
  exists s', vt_step s 109 = (s', [rn_sgr (cl ++ [cu ++ [p]])]) /\ ground_st s'.
Proof.
  intros (Hu & Hi & Hg & Hcl & Hcu & Hp & Hv) Hn.
  destruct s as [v i g c u p0 o un]. cbn in Hu, Hi, Hg, Hcl, Hcu, Hp, Hv. subst.
  assert (Hc : Nat.eqb (count_values (mkVt v [] false cl cu p o None)) max_values = false).
  { apply Nat.eqb_neq. unfold count_values, max_values. cbn [closed cur]. lia. }
  unfold vt_step. cbn [uni vs].
  destruct Hv as [-> | ->].
  - change (vt_trans VCsiEntry 109) with (Some VGround, TCsiDispatch).
    cbn [exit_events vs do_action]. unfold final_params. rewrite Hc.
    eexists. split; [reflexivity|]. split; reflexivity.
  - change (vt_trans VCsiParam 109) with (Some VGround, TCsiDispatch).
    cbn [exit_events vs do_action]. unfold final_params. rewrite Hc.
    eexists. split; [reflexivity|]. split; reflexivity.
Qed.

(* THE round trip: a printed control sequence with final byte 'm', read from the
   ground state, is reported as one CSI dispatch with exactly the printed values *)
Lemma rn_csi_roundtrip gs s :
  rn_csi_ok gs = true -> ground_st s ->
  exists s', vt_run s (rn_csi gs 109) = (s', [rn_sgr (rn_param_values gs)]) /\ ground_st s'.
Proof.
  intros Hok Hs. unfold rn_csi_ok in Hok.
  apply andb_true_iff in Hok. destruct Hok as [Hok Hn]. apply andb_true_iff in Hok. destruct Hok as [Hne Hok].
  apply Nat.leb_le in Hn.
  unfold rn_csi. cbn [vt_run]. rewrite (step_esc s Hs), step_bracket.
  set (s0 := mkVt VCsiEntry [] false [] [] 0 (osc s) None).
  assert (Hs0 : csi_st s0 [] [] 0) by (unfold csi_st, s0; cbn; intuition).
  destruct (run_params gs s0 [] Hs0 Hne Hok ltac:(cbn [concat length]; lia))
    as (s1 & cl & cu & p1 & E1 & Hs1 & Hq & Hl).
  rewrite vt_run_app, E1. cbn [vt_run app].
  destruct (step_final_m s1 cl cu p1 Hs1 Hl) as (s2 & E2 & Hs2).
  rewrite E2. cbn [app] in Hq. rewrite Hq. cbn [app]. exists s2. split; [reflexivity|exact Hs2].
Qed.

Lemma spec_events_pieces_from ps : forall gs s,
  Forall2 (fun p g => exists pr, rn_csi_ok pr = true /\ p = rn_csi pr 109 /\ rn_param_values pr = g) ps gs ->
  ground_st s ->
  exists s', vt_run s (concat ps) = (s', map rn_sgr gs) /\ ground_st s'.
Proof.
  induction ps as [|p t IH]; intros gs s H Hs; inversion H; subst; clear H.
  - exists s. split; [reflexivity|exact Hs].
  - destruct H2 as (pr & Hok & -> & <-).
    destruct (rn_csi_roundtrip pr s Hok Hs) as (s1 & E1 & Hs1).
    destruct (IH _ s1 H4 Hs1) as (s2 & E2 & Hs2).
    exists s2. split; [|exact Hs2]. cbn [concat map]. rewrite vt_run_app, E1, E2. reflexivity.
Qed.

(* ---- the same sequences under Spec/Strip: nothing is kept -------------------- *)

(* ---- part 2: interpretation -------------------------------------------------- *)

Lemma rn_interp_snd es : forall s, snd (interp s es) = rn_interp_style es s.
Proof.
  unfold rn_interp_style.
  induction es as [|e t IH]; intros s; cbn [interp fold_left]; [reflexivity|].
  rewrite <- IH. destruct (interp (event_style s e) t) as [out s2].
  destruct e; cbn [snd]; try reflexivity. destruct (is_ws_exec b); reflexivity.
Qed.

Lemma interp_sgr_groups gs : forall s,
  rn_interp_style (map rn_sgr gs) s = fold_left sgr_apply gs s.
Proof.
  unfold rn_interp_style. induction gs as [|g t IH]; intros s; cbn [map fold_left]; [reflexivity|].
  rewrite IH. reflexivity.
Qed.

(* SGR events print nothing *)
Lemma interp_sgr_only gs : forall s, interp s (map rn_sgr gs) = ([], fold_left sgr_apply gs s).
Proof.
  induction gs as [|g t IH]; intros s; cbn [map interp fold_left]; [reflexivity|].
  rewrite IH. reflexivity.
Qed.

Lemma interp_app_sgr gs rest : forall s,
  interp s (map rn_sgr gs ++ rest) = interp (fold_left sgr_apply gs s) rest.
Proof.
  induction gs as [|g t IH]; intros s; cbn [map app interp fold_left]; [reflexivity|].
  rewrite IH. change (event_style s (rn_sgr g)) with (sgr_apply s g).
  destruct (interp (fold_left sgr_apply t (sgr_apply s g)) rest). reflexivity.
Qed.

(* the character "x" in the ground state *)
Lemma step_print_x s : ground_st s -> vt_step s 120 = (s, [EPrint 120]).
Proof. intros [Hv Hu]. destruct s as [v i g c u p o un]. cbn in Hv, Hu. subst. reflexivity. Qed.
