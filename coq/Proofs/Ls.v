(* Proofs/Ls.v -- C12: the model of anstyle_ls::parse against Spec/SgrCodes. *)
From Coq Require Import NArith List Bool Lia.
From AV Require Import Generated.Ls Spec.StyleRec Spec.SgrCodes Model.Base Model.Text Model.Ls Proofs.Text.
Import ListNotations.
Local Open Scope N_scope.

(* ---- one code that does not look ahead ---------------------------------------- *)

Definition simple_step (c : N) (st : tstyle) : tstyle :=
  match ls_lookup c ls_arms with
  | Some a => ls_apply a st
  | None => st
  end.

(* the effect sets the code list can reach from the default style: below 2^12
   and without the double / curly / dotted / dashed underline flags, which no
   code of the statement sets (so that "24 = not underlined" and the crate's
   "remove UNDERLINE" coincide) *)
Definition inv (e : N) : bool := (e <? 4096) && (N.land e 240 =? 0).

Definition model_eff (c e : N) : N := t_eff (simple_step c (mkTStyle None None None e)).
Definition spec_eff (c e : N) : N := t_eff (sgr_one c (mkTStyle None None None e)).

Definition all_effs : list N := range_from 0 4096.
Definition inv_effs : list N := filter inv all_effs.

Lemma inv_effs_In : forall e, inv e = true -> In e inv_effs.
Proof.
  intros e He. unfold inv_effs. apply filter_In. split; [|exact He].
  apply range_from_In'. unfold inv in He. apply andb_true_iff in He as [He _]. apply N.ltb_lt in He. cbn. lia.
Qed.

Lemma eff_facts_b :
  forallb (fun e => forallb (fun c => (model_eff c e =? spec_eff c e) && inv (spec_eff c e)) all_bytes) inv_effs = true.
Proof. vm_cast_no_check (eq_refl true). Qed.

Lemma eff_facts : forall c e, c < 256 -> inv e = true ->
  model_eff c e = spec_eff c e /\ inv (spec_eff c e) = true.
Proof.
  intros c e Hc He.
  pose proof eff_facts_b as H. rewrite forallb_forall in H.
  specialize (H e (inv_effs_In e He)). cbv beta in H.
  pose proof (forall_bytes' _ H c Hc) as H2. cbv beta in H2.
  apply andb_true_iff in H2 as [H3 H4]. apply N.eqb_eq in H3. now split.
Qed.

Lemma style_ext : forall a b : tstyle,
  t_fg a = t_fg b -> t_bg a = t_bg b -> t_ul a = t_ul b -> t_eff a = t_eff b -> a = b.
Proof. intros [] []; cbn; intros; subst; reflexivity. Qed.

Definition step_ok (c : N) : Prop :=
  ext_slot c = None -> forall f b u e, inv e = true ->
  simple_step c (mkTStyle f b u e) = sgr_one c (mkTStyle f b u e)
  /\ inv (t_eff (sgr_one c (mkTStyle f b u e))) = true.

Ltac one_code :=
  let Hext := fresh "Hext" in
  intros Hext f b u e Hinv;
  first
    [ (vm_compute in Hext; discriminate Hext)
    | (split;
       [ apply style_ext; [ reflexivity | reflexivity | reflexivity | ];
         match goal with
         | |- t_eff (simple_step ?c _) = _ =>
             change (model_eff c e = spec_eff c e); apply eff_facts; [reflexivity | exact Hinv]
         end
       | match goal with
         | |- inv (t_eff (sgr_one ?c _)) = true =>
             change (inv (spec_eff c e) = true); apply eff_facts; [reflexivity | exact Hinv]
         end ]) ].

Lemma step_ok_all : Forall step_ok all_bytes.
Proof.
  let l := eval vm_compute in all_bytes in change all_bytes with l.
  repeat (apply Forall_cons; [ unfold step_ok; one_code | ]).
  apply Forall_nil.
Qed.

Lemma step_agree : forall c st, c < 256 -> ext_slot c = None -> inv (t_eff st) = true ->
  simple_step c st = sgr_one c st /\ inv (t_eff (sgr_one c st)) = true.
Proof.
  intros c [f b u e] Hc Hext Hinv. exact (Forall_bytes _ step_ok_all c Hc Hext f b u e Hinv).
Qed.

(* which codes look ahead *)
Definition is_ext_action (o : option ls_action) : bool :=
  match o with Some (LsExtended _) => true | _ => false end.

Lemma ext_codes_b :
  forallb (fun c => if (c =? 38) || (c =? 48) || (c =? 58) then true
                    else match ext_slot c with None => negb (is_ext_action (ls_lookup c ls_arms)) | Some _ => false end) all_bytes = true.
Proof. vm_cast_no_check (eq_refl true). Qed.

Lemma not_ext : forall c, c < 256 -> c <> 38 -> c <> 48 -> c <> 58 ->
  ext_slot c = None /\ is_ext_action (ls_lookup c ls_arms) = false.
Proof.
  intros c Hc H1 H2 H3. pose proof (forall_bytes' _ ext_codes_b c Hc) as H. cbv beta in H.
  apply N.eqb_neq in H1, H2, H3. rewrite H1, H2, H3 in H. cbn [orb] in H.
  destruct (ext_slot c); [discriminate|]. split; [reflexivity|]. now apply negb_true_iff in H.
Qed.

Lemma loop_simple : forall c rest st, is_ext_action (ls_lookup c ls_arms) = false ->
  ls_loop (c :: rest) st = ls_loop rest (simple_step c st).
Proof.
  intros c rest st H. cbn [ls_loop]. unfold simple_step.
  destruct (ls_lookup c ls_arms) as [[]|]; try reflexivity. discriminate H.
Qed.

Definition ext_body_model (t : ls_target) (rest : list N) (st : tstyle) : tstyle :=
  match rest with
  | a :: n :: rest1 =>
      if a =? 5 then ls_loop rest1 (set_target t st (Some (TAnsi256 n)))
      else if a =? 2 then
        match rest1 with
        | g :: b :: rest2 => ls_loop rest2 (set_target t st (Some (TRgb n g b)))
        | _ => st
        end
      else st
  | _ => st
  end.

Lemma loop_ext : forall c t rest st, ls_lookup c ls_arms = Some (LsExtended t) ->
  ls_loop (c :: rest) st = ext_body_model t rest st.
Proof. intros c t rest st H. cbn [ls_loop]. rewrite H. reflexivity. Qed.

Lemma set_target_eff : forall t st x, t_eff (set_target t st x) = t_eff st.
Proof. intros [] st x; reflexivity. Qed.

(* ---- the loop is the left-to-right fold ------------------------------------------ *)

Lemma ext_case : forall n,
  (forall codes st, (length codes <= n)%nat -> Forall (fun c => c < 256) codes -> well_formed codes = true ->
     inv (t_eff st) = true -> ls_loop codes st = sgr_codes st codes) ->
  forall c t rest st,
  ls_lookup c ls_arms = Some (LsExtended t) -> ext_slot c = Some (set_target t) ->
  (length (c :: rest) <= S n)%nat -> Forall (fun c => c < 256) rest -> well_formed (c :: rest) = true ->
  inv (t_eff st) = true -> ls_loop (c :: rest) st = sgr_codes st (c :: rest).
Proof.
  intros n IH c t rest st Hm Hs Hlen Hb Hwf Hinv.
  rewrite (loop_ext _ _ _ _ Hm). cbn [sgr_codes well_formed] in *. rewrite Hs in *.
  destruct rest as [|a [|x rest1]]; try discriminate Hwf.
  cbn [ext_body_model]. cbn [length] in Hlen.
  inversion Hb as [|? ? _ Hb1]; subst. inversion Hb1 as [|? ? _ Hb2]; subst.
  destruct (a =? 5).
  - apply IH; [lia | assumption | assumption | now rewrite set_target_eff].
  - destruct (a =? 2); [|discriminate Hwf].
    destruct rest1 as [|g [|bl rest2]]; try discriminate Hwf.
    cbn [length] in Hlen.
    inversion Hb2 as [|? ? _ Hb3]; subst. inversion Hb3 as [|? ? _ Hb4]; subst.
    apply IH; [lia | assumption | assumption | now rewrite set_target_eff].
Qed.

Lemma loop_is_fold_n : forall n codes st,
  (length codes <= n)%nat -> Forall (fun c => c < 256) codes -> well_formed codes = true ->
  inv (t_eff st) = true -> ls_loop codes st = sgr_codes st codes.
Proof.
  induction n as [|n IH]; intros [|c rest] st Hlen Hb Hwf Hinv; try reflexivity.
  - cbn in Hlen. lia.
  - inversion Hb as [|? ? Hc Hrest]; subst.
    destruct (N.eq_dec c 38) as [->|N38];
      [apply (ext_case n IH 38 TFg); auto; reflexivity|].
    destruct (N.eq_dec c 48) as [->|N48];
      [apply (ext_case n IH 48 TBg); auto; reflexivity|].
    destruct (N.eq_dec c 58) as [->|N58];
      [apply (ext_case n IH 58 TUl); auto; reflexivity|].
    destruct (not_ext c Hc N38 N48 N58) as [Hs Hm].
    rewrite (loop_simple _ _ _ Hm). cbn [sgr_codes well_formed] in *. rewrite Hs in *.
    destruct (step_agree c st Hc Hs Hinv) as [E I]. rewrite E.
    apply IH; [cbn in Hlen; lia | assumption | assumption | assumption].
Qed.

Lemma loop_is_fold : forall codes,
  Forall (fun c => c <= 255) codes -> well_formed codes = true ->
  ls_loop codes t_default = sgr_codes t_default codes.
Proof.
  intros codes Hb Hwf. apply (loop_is_fold_n (length codes)); auto.
  eapply Forall_impl; [|exact Hb]. cbv beta. intros; lia.
Qed.
