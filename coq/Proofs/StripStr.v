(* Proofs/StripStr.v -- the text scanner next_str: it computes "filter kept" under
   a byte-at-a-time machine over (state, previous byte kept?), leaves that
   machine's state behind, and on valid UTF-8 that machine simulates Spec/Strip. *)
From Coq Require Import NArith Arith List Bool Lia.
From AV Require Import Generated.Table Spec.Utf8 Spec.Vt Spec.Strip
  Model.Base Model.Utf8parse Model.Parser Model.Strip Proofs.TableFacts Proofs.StripMachine Proofs.StripSim.
Import ListNotations.
Local Open Scope N_scope.

Definition upd (st ns : state) : state :=
  if negb (state_eqb ns Anywhere) && negb (state_eqb ns Utf8) then ns else st.

(* [tk]: the previous byte was kept (a UTF-8 continuation byte then rides along) *)
Definition sstep (st : state) (tk : bool) (b : N) : option (state * bool * bool) :=
  '(ns, a) <- state_change st b ;;
  if is_printable_bytes a b then Some (st, true, true)
  else if tk && is_utf8_continuation b then Some (st, true, true)
  else Some (upd st ns, false, false).

Fixpoint srun (st : state) (tk : bool) (bs : list N) : option (state * bool * list N) :=
  match bs with
  | [] => Some (st, tk, [])
  | b :: rest =>
      '(st1, tk1, k) <- sstep st tk b ;;
      '(st2, tk2, out) <- srun st1 tk1 rest ;;
      Some (st2, tk2, if k then b :: out else out)
  end.

Lemma srun_app : forall a b st tk st1 tk1 o1,
  srun st tk a = Some (st1, tk1, o1) ->
  srun st tk (a ++ b) =
    match srun st1 tk1 b with
    | Some (st2, tk2, o2) => Some (st2, tk2, o1 ++ o2)
    | None => None
    end.
Proof.
  induction a as [|x a IH]; intros b st tk st1 tk1 o1 H; cbn [srun app] in *.
  - inversion H; subst. destruct (srun st1 tk1 b) as [[[? ?] ?]|]; reflexivity.
  - destruct (sstep st tk x) as [[[sx tx] k]|]; [|discriminate].
    destruct (srun sx tx a) as [[[sa ta] oa]|] eqn:Ha; [|discriminate].
    inversion H; subst. rewrite (IH b _ _ _ _ _ Ha).
    destruct (srun st1 tk1 b) as [[[? ?] ?]|]; [|reflexivity].
    destruct k; reflexivity.
Qed.

(* a printable byte never moves the text scanner's state *)
Lemma printable_upd st b ns a :
  b < 256 -> state_change st b = Some (ns, a) -> is_printable_bytes a b = true -> upd st ns = st.
Proof.
  intros Hb Hsc Hp. pose proof (printable_shape_ok st b Hb) as Hsh.
  unfold printable_shape in Hsh. rewrite Hsc, Hp in Hsh. unfold upd.
  destruct (state_eqb ns Anywhere) eqn:EA; [reflexivity|].
  cbn [orb] in Hsh. repeat (apply andb_true_iff in Hsh as [Hsh ?]).
  rewrite Hsh. reflexivity.
Qed.

Lemma ns_take_spec : forall bs st t r,
  bytes_ok bs -> ns_take bs st = Some (t, r) ->
  bs = t ++ r /\ srun st true t = Some (st, true, t) /\
  (r = [] \/ exists b r' sx, r = b :: r' /\ sstep st true b = Some (sx, false, false)).
Proof.
  induction bs as [|b bs IH]; intros st t r Hok H; cbn [ns_take] in H.
  - inversion H; subst. cbn. auto.
  - inversion Hok as [|? ? Hb Hok']; subst.
    destruct (state_change st b) as [[ns a]|] eqn:Hsc; [|discriminate].
    destruct (is_printable_bytes a b || is_utf8_continuation b) eqn:Hk; cbn [negb] in H.
    + destruct (ns_take bs st) as [[t1 r1]|] eqn:Ht; [|discriminate]. inversion H; subst.
      destruct (IH _ _ _ Hok' Ht) as (Hbs & Hrun & Hr).
      split; [cbn; now rewrite Hbs|]. split; [|exact Hr].
      cbn [srun]. unfold sstep. rewrite Hsc.
      destruct (is_printable_bytes a b) eqn:Hp.
      * rewrite Hrun. reflexivity.
      * cbn [orb] in Hk. rewrite Hk. cbn [andb]. rewrite Hrun. reflexivity.
    + inversion H; subst. split; [reflexivity|]. split; [reflexivity|].
      right. apply orb_false_iff in Hk as [Hp Hc].
      exists b, bs, (upd st ns). split; [reflexivity|].
      unfold sstep. rewrite Hsc, Hp, Hc. reflexivity.
Qed.

Lemma ns_skip_spec : forall bs st tk bs1 st1,
  bytes_ok bs -> (tk = true -> match bs with b :: _ => is_utf8_continuation b = false | [] => True end) ->
  ns_skip bs st = Some (bs1, st1) ->
  exists pre sm tm,
    bs = pre ++ bs1 /\ srun st tk pre = Some (sm, tm, []) /\ st1 = sm /\
    (bs1 = [] \/ exists b r, bs1 = b :: r /\ sstep sm tm b = Some (sm, true, true) /\
                              sstep sm true b = Some (sm, true, true)).
Proof.
  induction bs as [|b bs IH]; intros st tk bs1 st1 Hok Hfirst H; cbn [ns_skip] in H.
  - inversion H; subst. exists [], st1, tk. cbn. auto.
  - inversion Hok as [|? ? Hb Hok']; subst.
    destruct (state_change st b) as [[ns a]|] eqn:Hsc; [|discriminate].
    fold (upd st ns) in H.
    destruct (is_printable_bytes a b) eqn:Hp.
    + inversion H; subst. rewrite (printable_upd st b ns a Hb Hsc Hp).
      exists [], st, tk. cbn [app srun]. repeat split; auto.
      right. exists b, bs. split; [reflexivity|]. unfold sstep. rewrite Hsc, Hp. auto.
    + assert (Hnk : tk && is_utf8_continuation b = false).
      { destruct tk; [|reflexivity]. rewrite (Hfirst eq_refl). reflexivity. }
      assert (Hs : sstep st tk b = Some (upd st ns, false, false)).
      { unfold sstep. rewrite Hsc, Hp, Hnk. reflexivity. }
      destruct (IH (upd st ns) false bs1 st1 Hok') as (pre & sm & tm & Hbs & Hrun & Hst & Hcase); auto.
      { intros C. discriminate. }
      exists (b :: pre), sm, tm. split; [cbn; now rewrite Hbs|]. split; [|auto].
      cbn [srun]. rewrite Hs, Hrun. reflexivity.
Qed.

Lemma ns_take_nonempty b r st t r' :
  sstep st true b = Some (st, true, true) -> ns_take (b :: r) st = Some (t, r') -> t <> [].
Proof.
  intros Hs H. cbn [ns_take] in H. unfold sstep in Hs.
  destruct (state_change st b) as [[ns a]|]; [|discriminate].
  destruct (is_printable_bytes a b) eqn:Hp; cbn [orb negb] in *.
  - destruct (ns_take r st) as [[? ?]|]; [|discriminate]. inversion H. discriminate.
  - cbn [andb] in Hs. destruct (is_utf8_continuation b); cbn [negb] in *.
    + destruct (ns_take r st) as [[? ?]|]; [|discriminate]. inversion H. discriminate.
    + inversion Hs.
Qed.

(* every chunk handed to the text API starts at a character boundary *)
Definition starts_clean (bs : list N) : Prop :=
  match bs with b :: _ => is_utf8_continuation b = false | [] => True end.

Theorem str_iter_spec : forall fuel bs off st tk ps bs' st',
  (length bs < fuel)%nat -> bytes_ok bs -> (tk = true -> starts_clean bs) ->
  str_iter fuel bs off st = Some (ps, bs', st') ->
  bs' = [] /\ exists tk', srun st tk bs = Some (st', tk', concat (map p_bytes ps)).
Proof.
  induction fuel as [|fuel IH]; intros bs off st tk ps bs' st' Hlen Hok Hfirst H; [lia|].
  cbn [str_iter] in H. unfold next_str in H.
  destruct (ns_skip bs st) as [[bs1 st1]|] eqn:Hsk; [|discriminate].
  destruct (ns_skip_spec _ _ tk _ _ Hok Hfirst Hsk) as (pre & sm & tm & Hbs & Hrun & -> & Hcase).
  assert (Hok1 : bytes_ok bs1).
  { subst bs. unfold bytes_ok in *. apply Forall_app in Hok. tauto. }
  destruct Hcase as [->|(b & r & -> & Hs1 & Hs2)].
  - cbn [ns_take] in H. inversion H; subst. split; [reflexivity|].
    exists tm. rewrite app_nil_r. cbn. exact Hrun.
  - destruct (ns_take (b :: r) sm) as [[t bs2]|] eqn:Ht; [|discriminate].
    pose proof (ns_take_nonempty _ _ _ _ _ Hs2 Ht) as Hne.
    destruct (ns_take_spec _ _ _ _ Hok1 Ht) as (Hsplit & Hrun2 & Hend).
    destruct t as [|t0 t]; [contradiction|].
    destruct (str_iter fuel bs2 _ sm) as [[[ps2 bs3] st3]|] eqn:Hit; [|discriminate].
    inversion H; subst ps bs' st'. clear H.
    assert (Hok2 : bytes_ok bs2).
    { rewrite Hsplit in Hok1. unfold bytes_ok in *. apply Forall_app in Hok1. tauto. }
    assert (Hlen2 : (length bs2 < fuel)%nat).
    { subst bs. rewrite Hsplit in Hlen. rewrite !app_length in Hlen. cbn [length] in Hlen. lia. }
    assert (Hfirst2 : true = true -> starts_clean bs2).
    { intros _. destruct Hend as [->|(b' & r' & sx & -> & Hs')]; [exact I|].
      cbn. unfold sstep in Hs'. destruct (state_change sm b') as [[ns' a']|]; [|discriminate].
      destruct (is_printable_bytes a' b'); [discriminate|]. cbn [andb] in Hs'.
      destruct (is_utf8_continuation b'); [discriminate|reflexivity]. }
    destruct (IH _ _ _ true _ _ _ Hlen2 Hok2 Hfirst2 Hit) as (-> & tk' & Hrun3).
    split; [reflexivity|]. exists tk'.
    (* the run from (sm, tm) over the taken bytes equals the run from (sm, true):
       the first byte is printable in both *)
    assert (Hrun2' : srun sm tm (t0 :: t) = Some (sm, true, t0 :: t)).
    { assert (t0 = b) by (cbn in Hsplit; inversion Hsplit; reflexivity). subst t0.
      cbn [srun] in Hrun2 |- *. rewrite Hs2 in Hrun2. rewrite Hs1. exact Hrun2. }
    subst bs. rewrite Hsplit.
    rewrite (srun_app pre _ _ _ _ _ _ Hrun).
    rewrite (srun_app (t0 :: t) _ _ _ _ _ _ Hrun2'). rewrite Hrun3.
    cbn [map concat p_bytes app]. reflexivity.
Qed.

Lemma ns_skip_total : forall bs st, bytes_ok bs -> exists x, ns_skip bs st = Some x.
Proof.
  induction bs as [|b bs IH]; intros st Hok; cbn [ns_skip]; [eauto|].
  inversion Hok as [|? ? Hb Hok']; subst.
  destruct (state_change_total st b Hb) as (ns & a & ->).
  destruct (is_printable_bytes a b); [eauto|]. apply IH, Hok'.
Qed.

Lemma ns_take_total : forall bs st, bytes_ok bs -> exists x, ns_take bs st = Some x.
Proof.
  induction bs as [|b bs IH]; intros st Hok; cbn [ns_take]; [eauto|].
  inversion Hok as [|? ? Hb Hok']; subst.
  destruct (state_change_total st b Hb) as (ns & a & ->).
  destruct (negb (is_printable_bytes a b || is_utf8_continuation b)); [eauto|].
  destruct (IH st Hok') as [[t r] ->]. eauto.
Qed.

Lemma ns_skip_suffix : forall bs st bs1 st1,
  ns_skip bs st = Some (bs1, st1) -> exists pre, bs = pre ++ bs1.
Proof.
  induction bs as [|b bs IH]; intros st bs1 st1 H; cbn [ns_skip] in H.
  - inversion H; subst. exists []. reflexivity.
  - destruct (state_change st b) as [[ns a]|]; [|discriminate].
    destruct (is_printable_bytes a b).
    + inversion H; subst. exists []. reflexivity.
    + destruct (IH _ _ _ H) as [pre ->]. exists (b :: pre). reflexivity.
Qed.

Lemma ns_take_split : forall bs st t r, ns_take bs st = Some (t, r) -> bs = t ++ r.
Proof.
  induction bs as [|b bs IH]; intros st t r H; cbn [ns_take] in H.
  - inversion H; subst. reflexivity.
  - destruct (state_change st b) as [[ns a]|]; [|discriminate].
    destruct (negb (is_printable_bytes a b || is_utf8_continuation b)).
    + inversion H; subst. reflexivity.
    + destruct (ns_take bs st) as [[t1 r1]|] eqn:Ht; [|discriminate].
      inversion H; subst. cbn. f_equal. eapply IH; eauto.
Qed.

Theorem str_iter_total : forall fuel bs off st,
  (length bs < fuel)%nat -> bytes_ok bs -> exists x, str_iter fuel bs off st = Some x.
Proof.
  induction fuel as [|fuel IH]; intros bs off st Hlen Hok; [lia|].
  cbn [str_iter]. unfold next_str.
  destruct (ns_skip_total bs st Hok) as [[bs1 st1] Hsk]. rewrite Hsk.
  destruct (ns_skip_suffix _ _ _ _ Hsk) as [pre Hpre].
  assert (Hok1 : bytes_ok bs1).
  { subst bs. unfold bytes_ok in *. apply Forall_app in Hok. tauto. }
  destruct (ns_take_total bs1 st1 Hok1) as [[t bs2] Ht]. rewrite Ht.
  destruct t as [|t0 t]; [eauto|].
  pose proof (ns_take_split _ _ _ _ Ht) as Hsp.
  assert (Hok2 : bytes_ok bs2).
  { rewrite Hsp in Hok1. unfold bytes_ok in *. apply Forall_app in Hok1. tauto. }
  assert (Hlen2 : (length bs2 < fuel)%nat).
  { subst bs. rewrite Hsp in Hlen. rewrite !app_length in Hlen. cbn [length] in Hlen. lia. }
  destruct (IH bs2 (off + N.of_nat (length bs - length bs1) + N.of_nat (length (t0 :: t))) st1 Hlen2 Hok2)
    as [[[ps bs3] st3] Hit].
  rewrite Hit. eauto.
Qed.

(* ---- simulation of the specification on valid UTF-8 ------------------------- *)

(* the validity DFA of Spec/Utf8 as a step function *)
Definition vnext (vu : option ustate) (b : N) : option (option ustate) :=
  match vu with
  | None => if b <? 128 then Some None
            else match utf8_lead b with Some u => Some (Some u) | None => None end
  | Some u => match utf8_cont u b with
              | UMore u' => Some (Some u')
              | UDone => Some None
              | UBad => None
              end
  end.

Lemma valid_from_cons vu b rest :
  valid_from vu (b :: rest) = match vnext vu b with Some vu' => valid_from vu' rest | None => false end.
Proof.
  cbn [valid_from]. unfold vnext. destruct vu as [u|].
  - destruct (utf8_cont u b); reflexivity.
  - destruct (b <? 128); [reflexivity|]. destruct (utf8_lead b); reflexivity.
Qed.

(* [vu]: where the validity DFA stands; it coincides with the specification's
   character state whenever the character is being kept *)
Definition Rstr (st : state) (tk : bool) (s : sstate) (vu : option ustate) : Prop :=
  abs_state st = Some (sv s) /\
  (su s <> None -> tk = true /\ st = Ground /\ vu = su s) /\
  (su s = None -> vu <> None -> tk = false).

(* outside a kept character: 14 x 256 x 2 cases *)
Definition str_matches (st : state) (b : N) : bool :=
  match abs_state st with
  | None => true
  | Some v =>
      forallb (fun tk =>
        if tk && is_utf8_continuation b then true else
        match sstep st tk b with
        | Some (st', tk', k) =>
            let '(s', k') := plain_step v b in
            Bool.eqb k k' && Bool.eqb tk' k && opt_vstate_eqb (abs_state st') (Some (sv s'))
            && match su s' with
               | Some _ => tk' && state_eqb st' Ground && opt_ustate_eqb (su s') (utf8_lead b) && negb (b <? 128)
               | None => if b <? 128 then true else negb k'
               end
        | None => false
        end) [true; false]
  end.

Lemma str_matches_all :
  forallb (fun s => forallb (str_matches s) all_bytes) all_states = true.
Proof. vm_compute. reflexivity. Qed.

(* inside a kept character (state Ground, previous byte kept): continuation bytes ride along *)
Definition str_cont_matches (b : N) : bool :=
  if is_utf8_continuation b then
    match sstep Ground true b with
    | Some (Ground, true, true) => true
    | _ => false
    end
  else true.

Lemma str_cont_matches_all : forallb str_cont_matches all_bytes = true.
Proof. vm_compute. reflexivity. Qed.

Lemma utf8_cont_range u b :
  utf8_cont u b <> UBad -> is_utf8_continuation b = true /\ (b <? 128) = false /\ utf8_lead b = None.
Proof.
  unfold is_utf8_continuation. intros H.
  assert (Hr : 128 <= b <= 191).
  { destruct u; cbn in H; unfold in_range in H;
      match type of H with (if ?c then _ else _) <> _ => destruct c eqn:E end;
      try congruence; apply andb_true_iff in E as [E1 E2];
      apply N.leb_le in E1, E2; lia. }
  split; [apply andb_true_iff; split; apply N.leb_le; lia|].
  split; [apply N.ltb_ge; lia|].
  unfold utf8_lead, in_range.
  repeat match goal with
         | |- context [?x <=? b] => replace (x <=? b) with false by (symmetry; apply N.leb_gt; lia)
         | |- context [b =? ?x] => replace (b =? x) with false by (symmetry; apply N.eqb_neq; lia)
         end.
  reflexivity.
Qed.

Lemma lead_not_cont b u : utf8_lead b = Some u -> is_utf8_continuation b = false.
Proof.
  intros H. unfold is_utf8_continuation.
  destruct (b <=? 191) eqn:E; [|apply andb_false_r].
  apply N.leb_le in E. exfalso. revert H. unfold utf8_lead, in_range.
  repeat match goal with
         | |- context [?x <=? b] => replace (x <=? b) with false by (symmetry; apply N.leb_gt; lia)
         | |- context [b =? ?x] => replace (b =? x) with false by (symmetry; apply N.eqb_neq; lia)
         end.
  cbn. discriminate.
Qed.

Lemma str_sim_step st tk s vu b vu' st' tk' k :
  b < 256 -> Rstr st tk s vu -> vnext vu b = Some vu' ->
  sstep st tk b = Some (st', tk', k) ->
  exists s', strip_step s b = (s', k) /\ Rstr st' tk' s' vu'.
Proof.
  intros Hb (Habs & Hin & Hout) Hv Hs. unfold strip_step.
  destruct (su s) as [u|] eqn:Hsu.
  - destruct (Hin ltac:(discriminate)) as (-> & -> & ->). cbn [vnext] in Hv.
    assert (Hnb : utf8_cont u b <> UBad) by (destruct (utf8_cont u b); congruence).
    destruct (utf8_cont_range u b Hnb) as (Hc & Hlt & _). rewrite Hlt.
    pose proof (forall_bytes _ str_cont_matches_all b Hb) as Hcm. unfold str_cont_matches in Hcm.
    rewrite Hc, Hs in Hcm.
    destruct st'; try discriminate. destruct tk'; try discriminate. destruct k; try discriminate.
    destruct (utf8_cont u b) as [u'| |] eqn:Hcont; try congruence; inversion Hv; subst vu'.
    + eexists. split; [reflexivity|]. split; [exact Habs|]. cbn [sv su]. split; [auto|]. intros C. discriminate.
    + eexists. split; [reflexivity|]. split; [exact Habs|]. cbn [sv su]. split; [intros C; contradiction|].
      intros _ C. contradiction.
  - assert (Hnc : tk && is_utf8_continuation b = false).
    { destruct tk; [|reflexivity]. cbn [andb].
      destruct vu as [u|].
      - specialize (Hout eq_refl ltac:(discriminate)). discriminate.
      - cbn [vnext] in Hv. destruct (b <? 128) eqn:Hlt.
        + unfold is_utf8_continuation. apply N.ltb_lt in Hlt.
          replace (128 <=? b) with false by (symmetry; apply N.leb_gt; lia). reflexivity.
        + destruct (utf8_lead b) as [u'|] eqn:Hl; [|discriminate]. eapply lead_not_cont; eauto. }
    pose proof (forall_states_bytes _ str_matches_all st b Hb) as Hpm.
    unfold str_matches in Hpm. rewrite Habs in Hpm.
    cbn [forallb] in Hpm. apply andb_true_iff in Hpm as [Ht Hpm]. apply andb_true_iff in Hpm as [Hf _].
    assert (Hsel : match sstep st tk b with
                   | Some (st', tk', k) =>
                       let '(s', k') := plain_step (sv s) b in
                       Bool.eqb k k' && Bool.eqb tk' k && opt_vstate_eqb (abs_state st') (Some (sv s'))
                       && match su s' with
                          | Some _ => tk' && state_eqb st' Ground && opt_ustate_eqb (su s') (utf8_lead b) && negb (b <? 128)
                          | None => if b <? 128 then true else negb k'
                          end
                   | None => false
                   end = true).
    { destruct tk.
      - cbn [andb] in Hnc, Ht. rewrite Hnc in Ht. exact Ht.
      - cbn [andb] in Hf. exact Hf. }
    rewrite Hs in Hsel. destruct (plain_step (sv s) b) as [s' k'] eqn:Hps.
    apply andb_true_iff in Hsel as [Hsel H4]. apply andb_true_iff in Hsel as [Hsel H3].
    apply andb_true_iff in Hsel as [H1 H2].
    apply Bool.eqb_prop in H1. subst k'. apply Bool.eqb_prop in H2. subst tk'.
    exists s'. split; [reflexivity|].
    assert (Habs' : abs_state st' = Some (sv s')).
    { unfold opt_vstate_eqb in H3. destruct (abs_state st') as [v'|]; [|discriminate].
      apply vstate_eqb_eq in H3. now subst. }
    split; [exact Habs'|].
    destruct (su s') as [u1|] eqn:Hsu'.
    + apply andb_true_iff in H4 as [H4 H8]. apply andb_true_iff in H4 as [H4 H7].
      apply andb_true_iff in H4 as [H5 H6]. subst k.
      apply state_eqb_eq in H6. apply opt_ustate_eqb_eq in H7. apply negb_true_iff in H8.
      split; [|intros C; discriminate].
      intros _. split; [reflexivity|]. split; [exact H6|].
      destruct vu as [u|]; cbn [vnext] in Hv.
      * (* a byte that continues the pending character is not a lead byte *)
        assert (Hnb : utf8_cont u b <> UBad) by (destruct (utf8_cont u b); congruence).
        destruct (utf8_cont_range u b Hnb) as (_ & _ & Hnl). rewrite Hnl in H7. discriminate.
      * rewrite H8 in Hv. rewrite <- H7 in Hv. inversion Hv. reflexivity.
    + split; [intros C; contradiction|].
      intros _ Hne.
      assert (Hge : (b <? 128) = false).
      { destruct vu as [u|]; cbn [vnext] in Hv.
        - assert (Hnb : utf8_cont u b <> UBad) by (destruct (utf8_cont u b); congruence).
          now destruct (utf8_cont_range u b Hnb) as (_ & ? & _).
        - destruct (b <? 128); [|reflexivity]. inversion Hv; subst. contradiction. }
      rewrite Hge in H4. apply negb_true_iff in H4. exact H4.
Qed.

Lemma str_sim_run : forall bs st tk s vu st' tk' out,
  bytes_ok bs -> Rstr st tk s vu -> valid_from vu bs = true ->
  srun st tk bs = Some (st', tk', out) ->
  exists s', strip_run s bs = (s', out) /\ Rstr st' tk' s' None.
Proof.
  induction bs as [|b bs IH]; intros st tk s vu st' tk' out Hok HR Hv H; cbn [srun] in H.
  - inversion H; subst. exists s. cbn [strip_run]. split; [reflexivity|].
    cbn [valid_from] in Hv. destruct vu; [discriminate|]. exact HR.
  - inversion Hok as [|? ? Hb Hok']; subst.
    rewrite valid_from_cons in Hv. destruct (vnext vu b) as [vu'|] eqn:Hvn; [|discriminate].
    destruct (sstep st tk b) as [[[sx tx] k]|] eqn:Hs; [|discriminate].
    destruct (srun sx tx bs) as [[[sa ta] oa]|] eqn:Hr; [|discriminate].
    inversion H; subst. clear H.
    destruct (str_sim_step _ _ _ _ _ _ _ _ _ Hb HR Hvn Hs) as (s1 & Hstep & HR1).
    destruct (IH _ _ _ _ _ _ _ Hok' HR1 Hv Hr) as (s2 & Hrun & HR2).
    exists s2. cbn [strip_run]. rewrite Hstep, Hrun. auto.
Qed.

Lemma Rstr_init : Rstr Ground false s_init None.
Proof.
  unfold Rstr. cbn [s_init sv su abs_state]. split; [reflexivity|]. split.
  - intros C. contradiction.
  - intros _ C. contradiction.
Qed.

(* ---- C01: strip_str = specification on every valid UTF-8 string -------------- *)

Theorem strip_str_is_spec : forall input,
  bytes_ok input -> valid_utf8 input = true ->
  strip_str_model input = Some (spec_strip input).
Proof.
  intros input Hok Hv. unfold strip_str_model, strip_str_pieces, strip_next_str.
  destruct (str_iter_total (S (length input)) input 0 Ground (Nat.lt_succ_diag_r _) Hok)
    as [[[ps bs'] st'] Hit].
  rewrite Hit.
  destruct (str_iter_spec _ _ _ _ false _ _ _ (Nat.lt_succ_diag_r _) Hok ltac:(intros C; discriminate C) Hit)
    as (_ & tk' & Hrun).
  destruct (str_sim_run _ _ _ _ _ _ _ _ Hok Rstr_init Hv Hrun) as (s' & Hs & _).
  unfold spec_strip. rewrite Hs. reflexivity.
Qed.

(* ---- C03: any chunking of the text API (cuts at character boundaries) ---------- *)

Lemma valid_from_app : forall a b vu,
  valid_from vu a = true -> valid_from vu (a ++ b) = valid_from None b.
Proof.
  induction a as [|x a IH]; intros b vu H.
  - cbn [valid_from] in H. destruct vu; [discriminate|]. reflexivity.
  - cbn [app]. rewrite valid_from_cons in *. destruct (vnext vu x) as [vu'|]; [|discriminate].
    now apply IH.
Qed.

Lemma valid_concat : forall chunks,
  Forall (fun c => valid_utf8 c = true) chunks -> valid_utf8 (concat chunks) = true.
Proof.
  induction chunks as [|c cs IH]; intros H; [reflexivity|].
  inversion H; subst. cbn [concat]. unfold valid_utf8 in *.
  rewrite valid_from_app; auto.
Qed.

Lemma valid_starts_clean c : valid_utf8 c = true -> starts_clean c.
Proof.
  destruct c as [|b r]; [intros; exact I|]. unfold valid_utf8. rewrite valid_from_cons.
  cbn [vnext starts_clean]. intros H.
  destruct (b <? 128) eqn:Hlt.
  - unfold is_utf8_continuation. apply N.ltb_lt in Hlt.
    replace (128 <=? b) with false by (symmetry; apply N.leb_gt; lia). reflexivity.
  - destruct (utf8_lead b) as [u|] eqn:Hl; [|discriminate]. eapply lead_not_cont; eauto.
Qed.

Lemma str_chunks_spec : forall chunks st tk,
  Forall bytes_ok chunks -> Forall (fun c => valid_utf8 c = true) chunks ->
  exists pss st' tk',
    strip_str_chunks chunks st = Some (pss, st') /\
    srun st tk (concat chunks) = Some (st', tk', concat (map (fun ps => concat (map p_bytes ps)) pss)).
Proof.
  induction chunks as [|c cs IH]; intros st tk Hok Hv; cbn [strip_str_chunks concat].
  - exists [], st, tk. cbn. auto.
  - inversion Hok as [|? ? Hc Hcs]; subst. inversion Hv as [|? ? Hvc Hvcs]; subst.
    unfold strip_next_str.
    destruct (str_iter_total (S (length c)) c 0 st (Nat.lt_succ_diag_r _) Hc) as [[[ps bs'] st1] Hit].
    rewrite Hit.
    destruct (str_iter_spec _ _ _ _ tk _ _ _ (Nat.lt_succ_diag_r _) Hc (fun _ => valid_starts_clean c Hvc) Hit)
      as (_ & tk1 & Hrun).
    destruct (IH st1 tk1 Hcs Hvcs) as (pss & st2 & tk2 & Hch & Hrun2).
    rewrite Hch. exists (ps :: pss), st2, tk2. split; [reflexivity|].
    rewrite (srun_app c _ _ _ _ _ _ Hrun). rewrite Hrun2. reflexivity.
Qed.

Theorem strip_str_chunked : forall chunks,
  bytes_ok (concat chunks) -> Forall (fun c => valid_utf8 c = true) chunks ->
  exists pss st,
    strip_str_chunks chunks Ground = Some (pss, st) /\
    concat (map (fun ps => concat (map p_bytes ps)) pss) = spec_strip (concat chunks) /\
    Some (concat (map (fun ps => concat (map p_bytes ps)) pss)) = strip_str_model (concat chunks).
Proof.
  intros chunks Hok Hv.
  destruct (str_chunks_spec chunks Ground false (bytes_ok_concat _ Hok) Hv) as (pss & st & tk & Hch & Hrun).
  exists pss, st. split; [exact Hch|].
  pose proof (valid_concat _ Hv) as Hvc.
  destruct (str_sim_run _ _ _ _ _ _ _ _ Hok Rstr_init Hvc Hrun) as (s' & Hs & _).
  split; [unfold spec_strip; now rewrite Hs|].
  rewrite (strip_str_is_spec _ Hok Hvc). unfold spec_strip. now rewrite Hs.
Qed.
