(* Proofs/HtmlEscapeGen.v -- the translated `html_escape::encode_text` (third-party crate html-escape, the expansion of its
   macro_rules tables: Generated/HtmlEscapeFn.v) is the escaping function of the hand model, Model/Svg.v [svg_encode_text]:
   on every byte string, and -- a Rust &str being the UTF-8 encoding of its chars, the hand model acting on code points --
   on the encoding of every code-point string.  It never panics. *)
From Coq Require Import NArith Arith List Bool Lia.
From AV Require Import Model.Base Model.Imp Model.Text Model.Svg Generated.HtmlEscapeFn.
Import ListNotations.
Local Open Scope N_scope.

(* ---- list / slice geometry ------------------------------------------------------------------------ *)

Lemma he_len_app {A} (a b : list A) : len (a ++ b) = len a + len b.
Proof. unfold len. rewrite app_length. lia. Qed.

Lemma he_slice_mid {A} (text pre mid post : list A) a b :
  text = pre ++ mid ++ post -> a = len pre -> b = len pre + len mid -> slice text a b = Some mid.
Proof.
  intros -> -> ->. unfold slice, len. rewrite !app_length.
  replace ((N.of_nat (length pre) <=? N.of_nat (length pre) + N.of_nat (length mid)) &&
           (N.of_nat (length pre) + N.of_nat (length mid) <=? N.of_nat (length pre + (length mid + length post)))) with true
    by (symmetry; apply andb_true_iff; split; apply N.leb_le; lia).
  rewrite N.add_comm, N.add_sub, !Nat2N.id.
  rewrite skipn_app, skipn_all, Nat.sub_diag. cbn [skipn app].
  rewrite firstn_app, firstn_all, Nat.sub_diag. cbn [firstn]. rewrite app_nil_r. reflexivity.
Qed.

Lemma he_aget_mid {A} (pre : list A) b t : aget (pre ++ b :: t) (len pre) = Some b.
Proof. unfold aget, len. rewrite Nat2N.id. rewrite nth_error_app2 by lia. rewrite Nat.sub_diag. reflexivity. Qed.

(* ---- the hand model, one byte at a time ------------------------------------------------------------- *)

(* what [svg_encode_text] writes for one character *)
Definition he_esc (c : N) : list N :=
  if c =? 38 then [38; 97; 109; 112; 59] else if c =? 60 then [38; 108; 116; 59] else if c =? 62 then [38; 103; 116; 59] else [c].
Definition he_special (c : N) : bool := (c =? 38) || (c =? 60) || (c =? 62).

Lemma enc_cons : forall c r, svg_encode_text (c :: r) = he_esc c ++ svg_encode_text r.
Proof. reflexivity. Qed.

Lemma enc_app : forall a b, svg_encode_text (a ++ b) = svg_encode_text a ++ svg_encode_text b.
Proof. induction a as [|c a IH]; intro b; [reflexivity|]. cbn [app]. rewrite !enc_cons, IH, app_assoc. reflexivity. Qed.

Lemma he_esc_plain : forall c, he_special c = false -> he_esc c = [c].
Proof.
  intros c H. unfold he_special in H. apply orb_false_iff in H. destruct H as [H H3]. apply orb_false_iff in H. destruct H as [H1 H2].
  unfold he_esc. rewrite H1, H2, H3. reflexivity.
Qed.

(* the three tests of a translated chain, in whatever order the arms are written: decide all three, drop the impossible
   combinations *)
Ltac he_tests x :=
  let E1 := fresh "E1" in let E2 := fresh "E2" in let E3 := fresh "E3" in
  destruct (x =? 38) eqn:E1; destruct (x =? 60) eqn:E2; destruct (x =? 62) eqn:E3;
  try (exfalso; repeat match goal with H : (_ =? _) = true |- _ => apply N.eqb_eq in H end; lia).

(* ---- encode_text_to_vec --------------------------------------------------------------------------- *)

(* appends the escaped text to the vector; the slice it returns is the part appended *)
Lemma g_he_encode_text_to_vec_eq : forall text out,
  g_he_encode_text_to_vec text out = Some (out ++ svg_encode_text text, svg_encode_text text).
Proof.
  intros text out. unfold g_he_encode_text_to_vec. cbv zeta.
  match goal with |- context [for_list0 ?f text _] => set (F := f) end.
  (* the loop: [pend] is the run of plain bytes seen since the last escape, not yet copied *)
  assert (L : forall l pre0 pend output s e,
             text = pre0 ++ pend ++ l -> s = len pre0 -> e = len pre0 + len pend ->
             exists pre1 pend1 o1,
               for_list0 F l (output, s, e) = Some (o1, len pre1, len pre1 + len pend1) /\
               text = pre1 ++ pend1 /\ o1 ++ pend1 = output ++ pend ++ svg_encode_text l).
  { induction l as [|x l IH]; intros pre0 pend output s e Ht Hs He.
    - exists pre0, pend, output. cbn [for_list0]. subst s e. rewrite app_nil_r in Ht. cbn [svg_encode_text]. rewrite app_nil_r. auto.
    - cbn [for_list0]. unfold F at 1.
      assert (Hsl : slice text s e = Some pend) by (apply (he_slice_mid text pre0 pend (x :: l)); assumption).
      rewrite enc_cons. unfold he_esc.
      he_tests x; rewrite ?Hsl; cbv beta iota zeta.
      (* an escaped byte: the pending run and the entity are appended, the next run starts behind the byte *)
      1-3: match goal with |- context [for_list0 _ _ (?o, ?s', ?e')] =>
             destruct (IH (pre0 ++ pend ++ [x]) [] o s' e') as (pre1 & pend1 & o1 & HL & Ht1 & Ho) end;
        [ rewrite Ht, <- !app_assoc; reflexivity
        | rewrite !he_len_app; subst e; cbn; lia
        | rewrite !he_len_app; subst e; cbn; lia
        | exists pre1, pend1, o1; split; [exact HL|split; [exact Ht1|]]; rewrite Ho; cbn [app]; rewrite <- !app_assoc; reflexivity ].
      (* a plain byte joins the pending run *)
      match goal with |- context [for_list0 _ _ (?o, ?s', ?e')] =>
        destruct (IH pre0 (pend ++ [x]) o s' e') as (pre1 & pend1 & o1 & HL & Ht1 & Ho) end;
        [ rewrite Ht, <- !app_assoc; reflexivity
        | exact Hs
        | rewrite he_len_app; subst e; cbn; lia
        | exists pre1, pend1, o1; split; [exact HL|split; [exact Ht1|]]; rewrite Ho; rewrite <- !app_assoc; reflexivity ]. }
  destruct (L text [] [] out 0 0) as (pre1 & pend1 & o1 & HL & Ht1 & Ho); [reflexivity|reflexivity|reflexivity|].
  rewrite HL. cbv beta iota zeta.
  rewrite (he_slice_mid text pre1 pend1 [] (len pre1) (len pre1 + len pend1)) by (rewrite ?app_nil_r; auto).
  cbv beta iota zeta. rewrite Ho. cbn [app].
  rewrite (he_slice_mid (out ++ svg_encode_text text) out (svg_encode_text text) [] (len out) (len (out ++ svg_encode_text text)))
    by (rewrite ?app_nil_r, ?he_len_app; auto).
  reflexivity.
Qed.

(* ---- encode_text ---------------------------------------------------------------------------------- *)

(* the first byte that needs escaping: (plain prefix, that byte, the rest) *)
Fixpoint he_first (l : list N) : option (list N * N * list N) :=
  match l with
  | [] => None
  | c :: r =>
      if he_special c then Some ([], c, r)
      else match he_first r with Some (a, x, r') => Some (c :: a, x, r') | None => None end
  end.

Lemma he_first_none : forall l, he_first l = None -> svg_encode_text l = l.
Proof.
  induction l as [|c r IH]; [reflexivity|]. cbn [he_first]. destruct (he_special c) eqn:S; [discriminate|].
  destruct (he_first r) as [[[a x] r']|]; [discriminate|]. intros _. rewrite enc_cons, he_esc_plain, IH by auto. reflexivity.
Qed.

Lemma he_first_some : forall l a x r, he_first l = Some (a, x, r) ->
  l = a ++ x :: r /\ he_special x = true /\ svg_encode_text l = a ++ he_esc x ++ svg_encode_text r.
Proof.
  induction l as [|c l IH]; intros a x r H; [discriminate|]. cbn [he_first] in H. destruct (he_special c) eqn:S.
  - injection H as <- <- <-. rewrite enc_cons. auto.
  - destruct (he_first l) as [[[a' x'] r']|] eqn:F; [|discriminate]. injection H as <- <- <-.
    destruct (IH _ _ _ eq_refl) as (-> & Sx & E). rewrite enc_cons, he_esc_plain, E by auto. auto.
Qed.

Theorem g_he_encode_text_eq : forall text, g_he_encode_text text = Some (svg_encode_text text).
Proof.
  intros text. unfold g_he_encode_text. cbv zeta.
  match goal with |- context [while_fuel _ ?f _] => set (step := f) end.
  (* the scan: nothing to escape = the text itself is returned; else the loop breaks AT the first special byte with its entity *)
  assert (L : forall fuel l pre e0,
             text = pre ++ l -> (length l < fuel)%nat ->
             while_fuel fuel step (len pre, e0, None) =
             match he_first l with
             | None => Some (inr text)
             | Some (a, x, _) => Some (inl (len (pre ++ a), x, Some (he_esc x)))
             end).
  { induction fuel as [|fuel IH]; intros l pre e0 Ht Hf; [inversion Hf|].
    cbn [while_fuel]. unfold step at 1.
    destruct l as [|c l].
    - rewrite app_nil_r in Ht. subst pre. rewrite N.eqb_refl. reflexivity.
    - replace (len pre =? len text) with false
        by (symmetry; apply N.eqb_neq; rewrite Ht, he_len_app; unfold len; cbn [length]; lia).
      rewrite Ht at 1. rewrite he_aget_mid. cbv beta iota zeta.
      cbn [he_first]. unfold he_special.
      he_tests c; cbn [orb]; rewrite ?app_nil_r; try (unfold he_esc; rewrite ?E1, ?E2, ?E3; reflexivity).
      replace (len pre + 1) with (len (pre ++ [c])) by (rewrite he_len_app; reflexivity).
      rewrite (IH l (pre ++ [c]) c) by (rewrite <- ?app_assoc; cbn in *; auto; lia).
      destruct (he_first l) as [[[a x] r']|]; [|reflexivity]. rewrite <- app_assoc. reflexivity. }
  pose proof (L (S (length text)) text [] 0 eq_refl (Nat.lt_succ_diag_r _)) as L0.
  change (@len N []) with 0 in L0. rewrite L0. clear L0.
  destruct (he_first text) as [[[a x] r]|] eqn:F.
  - destruct (he_first_some _ _ _ _ F) as (Ht & Sx & E).
    cbv beta iota zeta. cbn [app].
    rewrite (he_slice_mid text [] a (x :: r) (len []) (len a)) by auto.
    cbv beta iota zeta.
    rewrite (he_slice_mid text (a ++ [x]) r [] (len a + 1) (len text))
      by (rewrite ?app_nil_r, <- ?app_assoc; auto; rewrite ?Ht, ?he_len_app; cbn; unfold len; cbn [length]; lia).
    cbv beta iota zeta. rewrite g_he_encode_text_to_vec_eq. cbv beta iota zeta.
    rewrite E. cbn [app]. rewrite <- app_assoc. reflexivity.
  - rewrite (he_first_none _ F). reflexivity.
Qed.

(* ---- UTF-8: the hand model acts on code points, the crate on bytes -------------------------------- *)

(* no byte >= 128 is '&', '<' or '>' ... *)
Lemma he_high_plain : forall b, 128 <= b -> he_special b = false.
Proof.
  intros b H. unfold he_special. apply orb_false_iff; split; [apply orb_false_iff; split|]; apply N.eqb_neq; lia.
Qed.

(* ... so no byte of the encoding of a code point >= 128 is *)
Lemma enc_utf8_high : forall c, 128 <= c -> svg_encode_text (utf8_encode c) = utf8_encode c.
Proof.
  intros c H. unfold utf8_encode.
  replace (c <? 128) with false by (symmetry; apply N.ltb_ge; exact H).
  destruct (c <? 2048); [|destruct (c <? 65536)];
  repeat (rewrite enc_cons, he_esc_plain;
          [| apply he_high_plain; match goal with |- 128 <= ?k + ?q => apply (N.le_trans _ k); [lia | apply N.le_add_r] end ]);
  reflexivity.
Qed.

(* the entities are ASCII: their encoding is themselves *)
Lemma str_bytes_esc : forall c, c < 128 -> str_bytes (he_esc c) = he_esc c.
Proof.
  intros c H. unfold he_esc. destruct (c =? 38); [reflexivity|]. destruct (c =? 60); [reflexivity|]. destruct (c =? 62); [reflexivity|].
  unfold str_bytes. cbn [flat_map]. unfold utf8_encode. replace (c <? 128) with true by (symmetry; apply N.ltb_lt; exact H). reflexivity.
Qed.

Lemma str_bytes_app : forall a b, str_bytes (a ++ b) = str_bytes a ++ str_bytes b.
Proof. intros. unfold str_bytes. apply flat_map_app. Qed.

(* escaping commutes with UTF-8 encoding, for every list of code points *)
Theorem enc_str_bytes : forall w, svg_encode_text (str_bytes w) = str_bytes (svg_encode_text w).
Proof.
  induction w as [|c w IH]; [reflexivity|].
  change (str_bytes (c :: w)) with (utf8_encode c ++ str_bytes w).
  rewrite enc_app, IH, enc_cons, str_bytes_app.
  destruct (c <? 128) eqn:A.
  - apply N.ltb_lt in A. rewrite str_bytes_esc by exact A.
    unfold utf8_encode. replace (c <? 128) with true by (symmetry; apply N.ltb_lt; exact A).
    rewrite enc_cons. cbn [svg_encode_text]. rewrite app_nil_r. reflexivity.
  - apply N.ltb_ge in A. rewrite enc_utf8_high by exact A.
    rewrite he_esc_plain.
    + unfold str_bytes at 2. cbn [flat_map]. rewrite app_nil_r. reflexivity.
    + apply he_high_plain. exact A.
Qed.

(* what the svg translation's vocabulary assumes of `html_escape::encode_text(fragment)`: on the &str that holds the chars
   [w], the translated crate function returns the &str that holds the chars [svg_encode_text w] *)
Theorem translated_encode_text_utf8 : forall w, g_he_encode_text (str_bytes w) = Some (str_bytes (svg_encode_text w)).
Proof. intros w. rewrite g_he_encode_text_eq, enc_str_bytes. reflexivity. Qed.

(* `encode_text_to_vec` on a &str *)
Theorem translated_encode_text_to_vec_utf8 : forall w out,
  g_he_encode_text_to_vec (str_bytes w) out = Some (out ++ str_bytes (svg_encode_text w), str_bytes (svg_encode_text w)).
Proof. intros w out. rewrite g_he_encode_text_to_vec_eq, enc_str_bytes. reflexivity. Qed.

(* Cow::Borrowed: a text without '&', '<', '>' comes back unchanged *)
Theorem translated_encode_text_plain : forall text, forallb (fun c => negb (he_special c)) text = true -> g_he_encode_text text = Some text.
Proof.
  intros text H. rewrite g_he_encode_text_eq. f_equal.
  induction text as [|c r IH]; [reflexivity|]. cbn [forallb] in H. apply andb_true_iff in H. destruct H as [Hc Hr].
  assert (Sc : he_special c = false) by (destruct (he_special c); [discriminate|reflexivity]).
  rewrite enc_cons, (he_esc_plain c Sc), (IH Hr). reflexivity.
Qed.
