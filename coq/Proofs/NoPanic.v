(* Proofs/NoPanic.v -- C04: the totality ("never the panic value") facts that no other
   property needed on their own:
     - the strip adapters, whole (strip_bytes / strip_str answer for every byte string);
     - the styled-run extractor from every parser state the parser can be in;
     - StripStream / AutoStream: EVERY sequence of write / write_all / write_vectored /
       write_fmt / flush over EVERY scripted inner writer (short writes, errors), from every
       reachable stream state -- the state stays reachable also after an error;
     - the fixed-buffer (`core`) parser configuration with UTF-8 support;
     - Style / Color Display under every formatter flag;
     - the SVG converter: [svg_doc] is total (with the extractor's and the lossy model's
       totality and the colour-range invariant of Proofs/Svg.v). *)
From Coq Require Import NArith Arith List Bool Lia.
From AV Require Import Generated.Table Generated.Style Generated.Palette Generated.Svg Generated.ParseCfg
  Spec.Utf8 Spec.Vt Spec.Sgr Spec.Io Spec.Strip Spec.Lossy
  Model.Base Model.Utf8parse Model.Parser Model.Strip Model.Wincon Model.Stream Model.Lossy Model.Svg Model.ParseCfg
  Proofs.TableFacts Proofs.ParserSim Proofs.StripMachine Proofs.StripSim Proofs.StripStr Proofs.StripPieces
  Proofs.WinconRuns Proofs.WinconConsole Proofs.StreamIo Proofs.Stream Proofs.StreamAuto
  Proofs.Lossy Proofs.Svg Proofs.ParseCfg.
Import ListNotations.
Local Open Scope N_scope.

(* ---- the strip adapters, one-shot ------------------------------------------------ *)

Lemma strip_bytes_pieces_total : forall input, bytes_ok input -> exists ps, strip_bytes_pieces input = Some ps.
Proof.
  intros input Hok. unfold strip_bytes_pieces, strip_next_bytes.
  destruct (bytes_iter_total (S (length input)) input 0 Ground u8_new (Nat.lt_succ_diag_r _) Hok)
    as [[[[ps bs'] st'] u'] H].
  rewrite H. eauto.
Qed.

Lemma strip_bytes_model_total : forall input, bytes_ok input -> exists out, strip_bytes_model input = Some out.
Proof.
  intros input Hok. unfold strip_bytes_model. destruct (strip_bytes_pieces_total input Hok) as [ps ->]. eauto.
Qed.

(* no UTF-8 hypothesis: the text scanner's MODEL answers for every byte string (the Rust
   type &str only ever hands it valid UTF-8) *)
Lemma strip_str_pieces_total : forall input, bytes_ok input -> exists ps, strip_str_pieces input = Some ps.
Proof.
  intros input Hok. unfold strip_str_pieces, strip_next_str.
  destruct (str_iter_total (S (length input)) input 0 Ground (Nat.lt_succ_diag_r _) Hok) as [[[ps bs'] st'] H].
  rewrite H. eauto.
Qed.

Lemma strip_str_model_total : forall input, bytes_ok input -> exists out, strip_str_model input = Some out.
Proof.
  intros input Hok. unfold strip_str_model. destruct (strip_str_pieces_total input Hok) as [ps ->]. eauto.
Qed.

(* the from_utf8_unchecked obligation in one statement: for valid UTF-8 the text adapter
   answers, and every piece it returns is a non-empty in-order substring of the input at
   the offset it reports and is itself valid UTF-8 *)
Lemma strip_str_pieces_sound : forall input,
  bytes_ok input -> valid_utf8 input = true ->
  exists ps, strip_str_pieces input = Some ps /\ pieces_in 0 input ps /\ pieces_valid ps.
Proof.
  intros input Hok Hv. destruct (strip_str_pieces_total input Hok) as [ps H].
  exists ps. split; [exact H|]. split; [apply strip_str_pieces_wf, H | eapply strip_str_pieces_utf8; eauto].
Qed.

(* ---- the styled-run extractor ------------------------------------------------------ *)

Lemma extract_next_total : forall bs p v c,
  bytes_lt bs -> R p v -> exists its p' c', extract_next bs p c = Some (its, p', c') /\ (exists v', R p' v').
Proof.
  intros bs p v c Hbs HR. destruct (extract_next_spec bs p v c Hbs HR) as (its & p' & H & _ & HR' & _).
  do 3 eexists. split; [exact H|]. eauto.
Qed.

(* ---- StripStream: every operation keeps the stream state reachable ------------------- *)

Lemma ss_write_all_loop_inv : forall fuel bs off st u w,
  (length bs < fuel)%nat -> bytes_ok bs -> Inv st u ->
  exists s' w' r, ss_write_all_loop fuel bs off st u w = Some (s', w', r) /\ SInv s'.
Proof.
  induction fuel as [|fuel IH]; intros bs off st u w Hlen Hok HI; [lia|].
  cbn [ss_write_all_loop].
  destruct (next_bytes_total bs off st u Hok) as [[[[[p bs'] off'] st'] u'] Hnb]. rewrite Hnb.
  pose proof (next_bytes_spec _ _ _ _ _ _ _ _ _ Hok HI Hnb) as Hp.
  destruct p as [pc|]; cbn [next_bytes_post] in Hp.
  - destruct Hp as (pre & sm & um & sm2 & um2 & Hbs & _ & _ & Hne & _ & _ & Hag & HI2).
    assert (HI' : Inv st' u') by (eapply agrees_inv; eauto).
    destruct (w_write_all w (p_bytes pc)) as [w1 r]. destruct r as [[]|e].
    + apply IH; [|subst bs; apply bytes_ok_app in Hok as [_ Hok]; apply bytes_ok_app in Hok; tauto|exact HI'].
      rewrite Hbs, !app_length in Hlen. destruct (p_bytes pc); [contradiction|cbn [length] in Hlen; lia].
    + do 3 eexists. split; [reflexivity|exact HI'].
  - destruct Hp as [_ Hrun]. do 3 eexists. split; [reflexivity|].
    unfold SInv. cbn [sb_state sb_u]. eapply mrun_inv; eauto.
Qed.

Lemma ss_write_all_inv s buf w :
  bytes_ok buf -> SInv s -> exists s' w' r, ss_write_all s buf w = Some (s', w', r) /\ SInv s'.
Proof. intros Hok HI. unfold ss_write_all. apply ss_write_all_loop_inv; [lia|exact Hok|exact HI]. Qed.

Lemma ss_write_inv s buf w :
  bytes_ok buf -> SInv s -> exists s' w' r, ss_write s buf w = Some (s', w', r) /\ SInv s'.
Proof.
  intros Hok HI. destruct (ss_write_spec s buf w Hok HI) as (s' & w' & r & H & Hpost).
  exists s', w', r. split; [exact H|]. destruct r as [n| |k]; cbn [write_post] in Hpost.
  - destruct Hpost as (_ & _ & -> & _). apply after_inv; [apply bytes_ok_firstn, Hok|exact HI].
  - contradiction.
  - destruct Hpost as [-> _]. exact HI.
Qed.

Lemma ss_write_fmt_inv : forall frags s w,
  Forall bytes_lt frags -> SInv s -> exists s' w' r, ss_write_fmt s frags w = Some (s', w', r) /\ SInv s'.
Proof.
  induction frags as [|fr rest IH]; intros s w Hok HI; cbn [ss_write_fmt].
  - do 3 eexists. split; [reflexivity|exact HI].
  - inversion Hok as [|? ? Hfr Hrest]; subst.
    destruct (ss_write_all_inv s fr w Hfr HI) as (s1 & w1 & r1 & H1 & HI1). rewrite H1.
    destruct r1; [apply IH; assumption | apply IH; assumption | do 3 eexists; split; [reflexivity|exact HI1]].
Qed.

Lemma ss_op_inv s w o :
  SInv s -> op_bytes_lt o -> exists s' w' r, ss_op s w o = Some (s', w', r) /\ SInv s'.
Proof.
  intros HI Ho. destruct o; cbn [ss_op op_bytes_lt] in *.
  - apply ss_write_inv; assumption.
  - apply ss_write_all_inv; assumption.
  - apply ss_write_inv; [apply first_nonempty_lt, Ho | exact HI].
  - apply ss_write_fmt_inv; assumption.
  - do 3 eexists. split; [reflexivity|exact HI].
Qed.

Theorem ss_run_total : forall ops s w,
  SInv s -> Forall op_bytes_lt ops -> exists s' w' rs, ss_run s w ops = Some (s', w', rs) /\ SInv s'.
Proof.
  induction ops as [|o ops IH]; intros s w HI Hops; cbn [ss_run].
  - do 3 eexists. split; [reflexivity|exact HI].
  - inversion Hops as [|? ? Ho Hrest]; subst.
    destruct (ss_op_inv s w o HI Ho) as (s1 & w1 & r & H1 & HI1). rewrite H1.
    destruct (IH s1 w1 HI1 Hrest) as (s2 & w2 & rs & H2 & HI2). rewrite H2.
    do 3 eexists. split; [reflexivity|exact HI2].
Qed.

(* AutoStream in either arm *)
Theorem run_ops_total : forall b m ops s w,
  SInv s -> Forall op_bytes_lt ops -> exists s' w' rs, run_ops b m s w ops = Some (s', w', rs) /\ SInv s'.
Proof.
  intros b m ops s w HI Hops. destruct m.
  - rewrite run_ops_pass. do 3 eexists. split; [reflexivity|exact HI].
  - rewrite run_ops_strip. apply ss_run_total; assumption.
Qed.

(* ---- the fixed-buffer parser configuration (feature `core`) with `utf8` --------------- *)

Lemma pc_trunc_sub (P : N -> Prop) cap u : forall bs p, Forall P bs -> Forall P (pc_trunc cap u p bs).
Proof.
  induction bs as [|b bs IH]; intros p H; [constructor|].
  inversion H as [|? ? Hb Hrest]; subst. cbn [pc_trunc].
  destruct (pc_puts p b && pc_full cap p); [apply IH, Hrest|].
  constructor; [exact Hb|]. destruct (advance (mkCfg None u) p b) as [[p' ?]|]; [apply IH, Hrest|exact Hrest].
Qed.

Theorem pc_fixed_total : forall cap bs,
  Forall (fun b => b < 256) bs -> exists p e, run (mkCfg (Some cap) true) parser_new bs = Some (p, e).
Proof.
  intros cap bs Hbs. rewrite pc_run_trunc.
  destruct (run_sim (pc_trunc cap true parser_new bs) parser_new vt_init (pc_trunc_sub _ cap true bs parser_new Hbs) R_init)
    as (p' & Hr & _).
  change (mkCfg None true) with cfg_default. rewrite Hr. eauto.
Qed.

(* ---- the SVG converter ------------------------------------------------------------------ *)

Lemma svg_ansi_name_total_all :
  forallb (fun a => match svg_ansi_name a with Some _ => true | None => false end) svg_ansi16 = true.
Proof. vm_compute. reflexivity. Qed.

Lemma svg_color_name_total prefix c : svg_colour_ok c = true -> exists k, svg_color_name prefix c = Some k.
Proof.
  destruct c as [a|i|r g b]; cbn [svg_colour_ok svg_color_name]; intros H; [|eauto|eauto].
  apply N.ltb_lt in H.
  pose proof (proj1 (forallb_forall _ _) svg_ansi_name_total_all a (svg_ansi16_In a H)) as K.
  unfold svg_ansi_name in K. destruct (from_ansi a) as [index|]; [|discriminate].
  destruct (aget svg_ansi_names index) as [name|]; [|discriminate]. eauto.
Qed.

Lemma svg_rgb_value_total pal c : palette_ok pal -> svg_colour_ok c = true -> exists v, svg_rgb_value c pal = Some v.
Proof.
  intros Hp Hc. unfold svg_rgb_value.
  destruct (conversions_total _ _ (svg_colour_ok_color _ Hc) Hp) as ((r & Er & _) & _). rewrite Er. eauto.
Qed.

Lemma svg_insert_colour_total pal prefix c m :
  palette_ok pal -> svg_ocol_ok c = true -> exists m', svg_insert_colour pal prefix c m = Some m'.
Proof.
  intros Hp Hc. destruct c as [col|]; cbn [svg_insert_colour svg_ocol_ok] in *; [|eauto].
  destruct (svg_color_name_total prefix col Hc) as [k ->]. destruct (svg_rgb_value_total pal col Hp Hc) as [v ->]. eauto.
Qed.

Lemma svg_color_styles_total pal : forall styled m,
  palette_ok pal -> Forall (fun p => svg_style_ok (fst p) = true) styled ->
  exists m', svg_color_styles styled pal m = Some m'.
Proof.
  induction styled as [|[s t] rest IH]; intros m Hp H; cbn [svg_color_styles]; [eauto|].
  inversion H as [|? ? Hs Hrest]; subst. cbn [fst] in Hs.
  apply svg_style_ok_elim in Hs. destruct Hs as (A & B & C).
  destruct (svg_insert_colour_total pal svg_fg_prefix (s_fg s) m Hp A) as [m1 ->].
  destruct (svg_insert_colour_total pal svg_bg_prefix (s_bg s) m1 Hp B) as [m2 ->].
  destruct (svg_insert_colour_total pal svg_underline_prefix (s_ul s) m2 Hp C) as [m3 ->].
  apply IH; assumption.
Qed.

Lemma svg_opt_class_total prefix c : svg_ocol_ok c = true -> exists cl, svg_opt_class prefix c = Some cl.
Proof.
  destruct c as [col|]; cbn [svg_opt_class svg_ocol_ok]; intros H; [|eauto].
  destruct (svg_color_name_total prefix col H) as [k ->]. eauto.
Qed.

Lemma svg_fg_classes_total s : svg_style_ok s = true -> exists cl, svg_fg_classes s = Some cl.
Proof.
  intros Hs. apply svg_style_ok_elim in Hs. destruct Hs as (A & _ & C). unfold svg_fg_classes.
  destruct (svg_opt_class_total svg_fg_prefix _ A) as [x ->]. destruct (svg_opt_class_total svg_underline_prefix _ C) as [y ->]. eauto.
Qed.

Lemma svg_bg_classes_total s : svg_style_ok s = true -> exists cl, svg_bg_classes s = Some cl.
Proof.
  intros Hs. apply svg_style_ok_elim in Hs. destruct Hs as (_ & B & _). apply svg_opt_class_total, B.
Qed.

Lemma svg_spans_total cls : forall line,
  Forall (fun p => exists cl, cls (fst p) = Some cl) line -> exists sp, svg_spans cls line = Some sp.
Proof.
  induction line as [|[s t] rest IH]; intros H; cbn [svg_spans]; [eauto|].
  inversion H as [|? ? Hs Hrest]; subst. destruct (IH Hrest) as [r Hr]. rewrite Hr.
  destruct (svg_is_nil t); [eauto|]. cbn [fst] in Hs. destruct Hs as [cl ->]. eauto.
Qed.

Lemma svg_line_of_total line :
  Forall (fun p => svg_style_ok (fst p) = true) line -> exists l, svg_line_of line = Some l.
Proof.
  intros H. unfold svg_line_of.
  destruct (svg_spans_total svg_fg_classes line) as [fg ->].
  { eapply Forall_impl; [|exact H]. intros p Hp. apply svg_fg_classes_total, Hp. }
  destruct (svg_has_bg line); [|eauto].
  destruct (svg_spans_total svg_bg_classes line) as [bg ->]; [|eauto].
  eapply Forall_impl; [|exact H]. intros p Hp. apply svg_bg_classes_total, Hp.
Qed.

Lemma svg_lines_of_total : forall lines,
  Forall (Forall (fun p => svg_style_ok (fst p) = true)) lines -> exists ls, svg_lines_of lines = Some ls.
Proof.
  induction lines as [|l rest IH]; intros H; cbn [svg_lines_of]; [eauto|].
  inversion H as [|? ? Hl Hrest]; subst.
  destruct (svg_line_of_total l Hl) as [x ->]. destruct (IH Hrest) as [r ->]. eauto.
Qed.

(* a fragment of a split line carries the style of a run it was cut from *)
Lemma svg_split_lines_ok styled :
  Forall (fun p => svg_style_ok (fst p) = true) styled ->
  Forall (Forall (fun p => svg_style_ok (fst p) = true)) (svg_split_lines styled).
Proof.
  intros H. eapply Forall_impl; [|apply svg_split_lines_from].
  intros line Hline. eapply Forall_impl; [|exact Hline].
  intros f (t0 & Hin & _). apply (proj1 (Forall_forall _ _) H _ Hin).
Qed.

Theorem svg_doc_total : forall t input,
  palette_ok (svg_t_palette t) -> svg_colour_ok (svg_t_fg t) = true -> svg_colour_ok (svg_t_bg t) = true ->
  Forall (fun b => b < 256) input ->
  exists d, svg_doc t input = Some d.
Proof.
  intros t input Hp Hf Hb Hin.
  destruct (extract_next_total input parser_new vt_init capture_default Hin R_init) as (runs & p' & c' & He & _).
  pose proof (svg_extract_next_ok _ _ _ _ He) as Hruns.
  unfold svg_doc, svg_styled. rewrite He. fold (svg_inverted t runs).
  assert (Hinv : Forall (fun p => svg_style_ok (fst p) = true) (svg_inverted t runs)).
  { unfold svg_inverted. apply Forall_forall. intros x Hx. apply in_map_iff in Hx. destruct Hx as (y & <- & Hy).
    cbn [fst]. apply svg_invert_ok; [exact Hf|exact Hb|]. apply (proj1 (Forall_forall _ _) Hruns y Hy). }
  destruct (svg_rgb_value_total _ _ Hp Hf) as [fgc ->]. destruct (svg_rgb_value_total _ _ Hp Hb) as [bgc ->].
  destruct (svg_color_styles_total (svg_t_palette t) (svg_inverted t runs) [] Hp Hinv) as [sheet ->].
  destruct (svg_lines_of_total _ (svg_split_lines_ok _ Hinv)) as [ls ->].
  eauto.
Qed.

(* ... and the printed document is a plain function of it (svg_print is total by type) *)

(* ---- Style / Color Display ------------------------------------------------------------- *)

(* imported here, after everything above: Model/Style.v and Spec/Sgr.v both have a mkStyle *)
From AV Require Import Spec.Render Model.Style Model.Render Proofs.Render.

(* `format!("{:<flags>}", style)` and `{:#<flags>}` for every style value and every width /
   fill / alignment / precision: the DisplayBuffer writes stay inside the buffer *)
Lemma rn_display_total : forall alternate flags s,
  rn_wf (rn_sstyle s) -> exists bs, rn_display alternate flags s = Some bs.
Proof.
  intros alternate flags s H. destruct (display_forms flags s) as [A B]. destruct alternate.
  - rewrite B. eauto.
  - rewrite A. destruct (render_is_sgr_only s H) as (bs & E & _). rewrite E. eauto.
Qed.

(* the io::Write path (Style::write_to) *)
Lemma rn_write_to_total : forall s, rn_wf (rn_sstyle s) -> exists bufs, rn_write_to s = Some bufs.
Proof.
  intros s H. destruct (render_is_sgr_only s H) as (bs & E & _).
  pose proof (paths_agree s) as P. rewrite E in P. destruct (rn_write_to s) as [bufs|]; [eauto|discriminate].
Qed.
