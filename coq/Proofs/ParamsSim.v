(* Proofs/ParamsSim.v -- the `Params` arrays of params.rs (two 32-element arrays,
   `current_subparams`, `len`) against the abstract parameter groups of Spec/Vt
   (closed groups + the group being built): bounds-checked writes never panic
   while fewer than 32 values are recorded, and ParamsIter yields the groups. *)
From Coq Require Import NArith List Bool Lia Arith.
From AV Require Import Generated.Table Spec.Vt Model.Base Model.Parser.
Import ListNotations.
Local Open Scope N_scope.

(* ---- bounds-checked array writes ----------------------------------------- *)

Section Aset.
Context {A : Type}.

Lemma aset_nat_some : forall (l : list A) i v, (i < length l)%nat -> exists l', aset_nat l i v = Some l'.
Proof.
  induction l as [|h t IH]; intros i v Hi; cbn [length] in Hi; [lia|].
  destruct i as [|j]; cbn [aset_nat]; [eauto|].
  destruct (IH j v) as [t' Ht]; [lia|]. rewrite Ht. eauto.
Qed.

Lemma aset_nat_length : forall (l : list A) i v l', aset_nat l i v = Some l' -> length l' = length l.
Proof.
  induction l as [|h t IH]; intros i v l' H; cbn [aset_nat] in H; [destruct i; discriminate|].
  destruct i as [|j].
  - injection H as <-. reflexivity.
  - destruct (aset_nat t j v) as [t'|] eqn:E; [|discriminate]. injection H as <-.
    cbn [length]. f_equal. eauto.
Qed.

Lemma aset_nat_nth_eq : forall (l : list A) i v l', aset_nat l i v = Some l' -> nth_error l' i = Some v.
Proof.
  induction l as [|h t IH]; intros i v l' H; cbn [aset_nat] in H; [destruct i; discriminate|].
  destruct i as [|j].
  - injection H as <-. reflexivity.
  - destruct (aset_nat t j v) as [t'|] eqn:E; [|discriminate]. injection H as <-.
    cbn [nth_error]. eauto.
Qed.

Lemma aset_nat_nth_neq : forall (l : list A) i v l' j,
  aset_nat l i v = Some l' -> j <> i -> nth_error l' j = nth_error l j.
Proof.
  induction l as [|h t IH]; intros i v l' j H Hj; cbn [aset_nat] in H; [destruct i; discriminate|].
  destruct i as [|i].
  - injection H as <-. destruct j; [congruence | reflexivity].
  - destruct (aset_nat t i v) as [t'|] eqn:E; [|discriminate]. injection H as <-.
    destruct j as [|j]; [reflexivity|]. cbn [nth_error]. eapply IH; eauto.
Qed.

Lemma aset_nat_firstn : forall (l : list A) i v l', aset_nat l i v = Some l' -> firstn i l' = firstn i l.
Proof.
  induction l as [|h t IH]; intros i v l' H; cbn [aset_nat] in H; [destruct i; discriminate|].
  destruct i as [|i].
  - reflexivity.
  - destruct (aset_nat t i v) as [t'|] eqn:E; [|discriminate]. injection H as <-.
    cbn [firstn]. f_equal. eauto.
Qed.

Lemma aset_nat_firstn_S : forall (l : list A) i v l',
  aset_nat l i v = Some l' -> firstn (S i) l' = firstn i l ++ [v].
Proof.
  induction l as [|h t IH]; intros i v l' H; cbn [aset_nat] in H; [destruct i; discriminate|].
  destruct i as [|i].
  - injection H as <-. reflexivity.
  - destruct (aset_nat t i v) as [t'|] eqn:E; [|discriminate]. injection H as <-.
    change (firstn (S (S i)) (h :: t')) with (h :: firstn (S i) t').
    rewrite (IH _ _ _ E). reflexivity.
Qed.

Lemma firstn_add_split : forall a b (l x y : list A),
  firstn (a + b) l = x ++ y -> length x = a -> firstn a l = x /\ firstn b (skipn a l) = y.
Proof.
  induction a as [|a IH]; intros b l x y H Hl.
  - destruct x; [|discriminate]. cbn in *. auto.
  - destruct x as [|x0 x]; [discriminate|]. cbn [length] in Hl.
    destruct l as [|h t]; [discriminate|].
    cbn [Nat.add firstn app skipn] in *. injection H as -> H.
    destruct (IH b t x y H) as [E1 E2]; [lia|]. rewrite E1. auto.
Qed.

Lemma skipn_add : forall a b (l : list A), skipn (a + b) l = skipn b (skipn a l).
Proof.
  induction a as [|a IH]; intros b l; [reflexivity|].
  destruct l as [|h t]; cbn [Nat.add skipn]; [now destruct b | apply IH].
Qed.

End Aset.

(* ---- the representation -------------------------------------------------- *)

(* every group is non-empty and its length is stored at its head position *)
Fixpoint heads_ok (sub : list N) (off : nat) (G : list (list N)) : Prop :=
  match G with
  | [] => True
  | g :: G' => g <> [] /\ nth_error sub off = Some (N.of_nat (length g))
               /\ heads_ok sub (off + length g) G'
  end.

(* the groups the arrays hold: the closed ones, then the open one if it has members *)
Definition groups_of (closed : list (list N)) (cur : list N) : list (list N) :=
  closed ++ match cur with [] => [] | _ => [cur] end.

Lemma concat_groups_of : forall closed cur, concat (groups_of closed cur) = concat closed ++ cur.
Proof.
  intros closed cur. unfold groups_of. rewrite concat_app.
  destruct cur; cbn [concat]; now rewrite ?app_nil_r.
Qed.

Record params_rep (ps : params) (closed : list (list N)) (cur : list N) : Prop := {
  pr_sub_len : length (subparams ps) = 32%nat;
  pr_val_len : length (pvals ps) = 32%nat;
  pr_plen : plen ps = N.of_nat (length (concat closed) + length cur);
  pr_bound : (length (concat closed) + length cur <= 32)%nat;
  pr_cur : current_subparams ps = N.of_nat (length cur);
  pr_vals : firstn (length (concat closed) + length cur) (pvals ps) = concat closed ++ cur;
  pr_heads : heads_ok (subparams ps) 0 (groups_of closed cur)
}.

Lemma heads_ok_snoc : forall sub G off g,
  heads_ok sub off (G ++ [g]) <->
  heads_ok sub off G /\ g <> [] /\ nth_error sub (off + length (concat G)) = Some (N.of_nat (length g)).
Proof.
  intros sub. induction G as [|h G IH]; intros off g; cbn [app heads_ok concat length].
  - rewrite Nat.add_0_r. tauto.
  - rewrite IH, app_length, Nat.add_assoc. tauto.
Qed.

Lemma heads_ok_aset : forall sub sub' i v G off,
  heads_ok sub off G -> aset_nat sub i v = Some sub' ->
  (off + length (concat G) <= i)%nat -> heads_ok sub' off G.
Proof.
  intros sub sub' i v. induction G as [|g G IH]; intros off H Hs Hi; cbn [heads_ok] in *; [exact I|].
  destruct H as (Hne & Hh & Ht). cbn [concat] in Hi. rewrite app_length in Hi.
  assert (length g <> 0)%nat by (destruct g; [congruence | discriminate]).
  split; [exact Hne|]. split.
  - rewrite (aset_nat_nth_neq _ _ _ _ off Hs); [exact Hh | lia].
  - apply IH; [exact Ht | exact Hs | lia].
Qed.

Lemma heads_ok_count : forall sub G off, heads_ok sub off G -> (length G <= length (concat G))%nat.
Proof.
  intros sub. induction G as [|g G IH]; intros off H; cbn [heads_ok length concat] in *; [lia|].
  destruct H as (Hne & _ & Ht). rewrite app_length. specialize (IH _ Ht).
  destruct g; [congruence | cbn [length]; lia].
Qed.

Lemma heads_ok_nonempty : forall sub G off, heads_ok sub off G -> Forall (fun g => g <> []) G.
Proof.
  intros sub. induction G as [|g G IH]; intros off H; cbn [heads_ok] in *; constructor.
  - tauto.
  - eapply IH. apply H.
Qed.

(* Params::default / clear *)
Lemma params_rep_clear : forall ps,
  length (subparams ps) = 32%nat -> length (pvals ps) = 32%nat -> params_rep (params_clear ps) [] [].
Proof.
  intros ps H1 H2. constructor; cbn; auto. lia.
Qed.

(* ---- push / extend -------------------------------------------------------- *)

Lemma params_write : forall ps closed cur item,
  params_rep ps closed cur -> (length (concat closed) + length cur < 32)%nat ->
  exists sp pv,
    csub (plen ps) (current_subparams ps) = Some (N.of_nat (length (concat closed))) /\
    cadd 8 (current_subparams ps) 1 = Some (N.of_nat (S (length cur))) /\
    aset (subparams ps) (N.of_nat (length (concat closed))) (N.of_nat (S (length cur))) = Some sp /\
    aset (pvals ps) (plen ps) item = Some pv /\
    length sp = 32%nat /\ length pv = 32%nat /\
    firstn (S (length (concat closed) + length cur)) pv = concat closed ++ cur ++ [item] /\
    heads_ok sp 0 (closed ++ [cur ++ [item]]).
Proof.
  intros ps closed cur item [Hsl Hvl Hpl Hb Hc Hv Hh] Hlt.
  destruct (aset_nat_some (subparams ps) (length (concat closed)) (N.of_nat (S (length cur))))
    as [sp Hsp]; [lia|].
  destruct (aset_nat_some (pvals ps) (length (concat closed) + length cur) item)
    as [pv Hpv]; [lia|].
  exists sp, pv.
  assert (Hcs : csub (plen ps) (current_subparams ps) = Some (N.of_nat (length (concat closed)))).
  { unfold csub. rewrite Hpl, Hc.
    destruct (N.leb_spec (N.of_nat (length cur)) (N.of_nat (length (concat closed) + length cur))); [|lia].
    f_equal. lia. }
  assert (Hca : cadd 8 (current_subparams ps) 1 = Some (N.of_nat (S (length cur)))).
  { unfold cadd. rewrite Hc. change (2 ^ 8) with 256.
    destruct (N.ltb_spec (N.of_nat (length cur) + 1) 256); [|lia]. f_equal. lia. }
  split; [exact Hcs|]. split; [exact Hca|].
  split; [unfold aset; rewrite Nat2N.id; exact Hsp|].
  split; [unfold aset; rewrite Hpl, Nat2N.id; exact Hpv|].
  split; [rewrite (aset_nat_length _ _ _ _ Hsp); exact Hsl|].
  split; [rewrite (aset_nat_length _ _ _ _ Hpv); exact Hvl|].
  split.
  - rewrite (aset_nat_firstn_S _ _ _ _ Hpv), Hv, <- app_assoc. reflexivity.
  - apply heads_ok_snoc. split; [|split].
    + assert (Hcl : heads_ok (subparams ps) 0 closed).
      { unfold groups_of in Hh. destruct cur; [now rewrite app_nil_r in Hh|].
        apply heads_ok_snoc in Hh. tauto. }
      eapply heads_ok_aset; [exact Hcl | exact Hsp | lia].
    + destruct cur; discriminate.
    + cbn [Nat.add]. rewrite (aset_nat_nth_eq _ _ _ _ Hsp). f_equal. f_equal.
      rewrite app_length. cbn [length]. lia.
Qed.

Lemma params_push_rep : forall ps closed cur item,
  params_rep ps closed cur -> (length (concat closed) + length cur < 32)%nat ->
  exists ps', params_push ps item = Some ps' /\ params_rep ps' (closed ++ [cur ++ [item]]) [].
Proof.
  intros ps closed cur item Hr Hlt.
  destruct (params_write ps closed cur item Hr Hlt)
    as (sp & pv & Hcs & Hca & Hsp & Hpv & Hl1 & Hl2 & Hf & Hh).
  unfold params_push. rewrite Hcs, Hca, Hsp, Hpv. eexists; split; [reflexivity|].
  assert (Hlen : (length (concat (closed ++ [cur ++ [item]])) + 0
                  = S (length (concat closed) + length cur))%nat).
  { rewrite concat_app, !app_length. cbn [concat length]. rewrite app_nil_r, app_length. cbn [length]. lia. }
  constructor; cbn [subparams pvals plen current_subparams length]; auto.
  - rewrite Hlen, (pr_plen _ _ _ Hr). lia.
  - rewrite Hlen. lia.
  - rewrite Hlen, Hf, concat_app. cbn [concat]. now rewrite !app_nil_r.
  - unfold groups_of. now rewrite app_nil_r.
Qed.

Lemma params_extend_rep : forall ps closed cur item,
  params_rep ps closed cur -> (length (concat closed) + length cur < 32)%nat ->
  exists ps', params_extend ps item = Some ps' /\ params_rep ps' closed (cur ++ [item]).
Proof.
  intros ps closed cur item Hr Hlt.
  destruct (params_write ps closed cur item Hr Hlt)
    as (sp & pv & Hcs & Hca & Hsp & Hpv & Hl1 & Hl2 & Hf & Hh).
  unfold params_extend. rewrite Hcs, Hca, Hsp, Hpv. eexists; split; [reflexivity|].
  assert (Hlen : (length (concat closed) + length (cur ++ [item])
                  = S (length (concat closed) + length cur))%nat).
  { rewrite app_length. cbn [length]. lia. }
  constructor; cbn [subparams pvals plen current_subparams]; auto.
  - rewrite Hlen, (pr_plen _ _ _ Hr). lia.
  - rewrite Hlen. lia.
  - rewrite app_length. cbn [length]. lia.
  - rewrite Hlen, Hf. reflexivity.
  - unfold groups_of. destruct (cur ++ [item]) eqn:E; [|exact Hh].
    destruct cur; discriminate.
Qed.

(* ---- ParamsIter ----------------------------------------------------------- *)

Lemma params_iter_groups : forall G fuel p off,
  heads_ok (subparams p) off G ->
  (length G < fuel)%nat ->
  plen p = N.of_nat (off + length (concat G)) ->
  firstn (length (concat G)) (skipn off (pvals p)) = concat G ->
  (off + length (concat G) <= length (pvals p))%nat ->
  params_iter fuel p (N.of_nat off) = Some G.
Proof.
  induction G as [|g G IH]; intros fuel p off Hh Hf Hl Hv Hb.
  - cbn [concat length] in Hl. rewrite Nat.add_0_r in Hl.
    destruct fuel; cbn [params_iter]; rewrite Hl, N.leb_refl; reflexivity.
  - destruct fuel as [|f]; [cbn [length] in Hf; lia|]. cbn [length] in Hf.
    destruct Hh as (Hne & Hhd & Hh'). cbn [concat] in Hl, Hv, Hb. rewrite app_length in Hl, Hv, Hb.
    assert (Hg : (0 < length g)%nat) by (destruct g; [congruence | cbn; lia]).
    cbn [params_iter].
    destruct (N.leb_spec (plen p) (N.of_nat off)) as [Hc|_]; [lia|].
    unfold aget. rewrite Nat2N.id, Hhd.
    destruct (firstn_add_split _ _ _ _ _ Hv eq_refl) as [Hv1 Hv2].
    assert (Hs : slice (pvals p) (N.of_nat off) (N.of_nat off + N.of_nat (length g)) = Some g).
    { unfold slice.
      destruct (N.leb_spec (N.of_nat off) (N.of_nat off + N.of_nat (length g))); [|lia].
      destruct (N.leb_spec (N.of_nat off + N.of_nat (length g)) (N.of_nat (length (pvals p)))); [|lia].
      cbn [andb]. f_equal.
      replace (N.to_nat (N.of_nat off + N.of_nat (length g) - N.of_nat off)) with (length g) by lia.
      rewrite Nat2N.id. exact Hv1. }
    rewrite Hs.
    replace (N.of_nat off + N.of_nat (length g)) with (N.of_nat (off + length g)) by lia.
    rewrite (IH f p (off + length g)%nat); [reflexivity | exact Hh' | lia | | | lia].
    + rewrite Hl. f_equal. lia.
    + rewrite skipn_add. exact Hv2.
Qed.

Lemma params_groups_rep : forall ps closed cur,
  params_rep ps closed cur -> params_groups ps = Some (groups_of closed cur).
Proof.
  intros ps closed cur [Hsl Hvl Hpl Hb Hc Hv Hh].
  unfold params_groups. change (N.to_nat MAX_PARAMS) with 32%nat. change 0 with (N.of_nat 0).
  pose proof (heads_ok_count _ _ _ Hh) as Hcnt.
  apply params_iter_groups; rewrite ?concat_groups_of, ?app_length in *; cbn [skipn Nat.add].
  - exact Hh.
  - lia.
  - exact Hpl.
  - exact Hv.
  - lia.
Qed.
