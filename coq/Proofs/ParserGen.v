(* Proofs/ParserGen.v -- the functions TRANSLATED from crates/anstyle-parse/src
   (Generated/ParserFn.v, written by tools/gen_fn_parser.py on every run) are
   extensionally equal to the hand model Model/Parser.v that the theorems of
   C02 / C20 / C04 are about.  A change to the Rust functions changes the
   translation; if it changes their meaning, one of these proofs fails. *)
From Coq Require Import NArith List Bool Lia.
From AV Require Import Generated.Table Spec.Vt Model.Base Model.Imp Model.Utf8parse Model.Parser Generated.ParserFn.
Import ListNotations.
Local Open Scope N_scope.

(* the performer as an accumulator *)
Definition acc {A} (perf : list event) (r : option (A * list event)) : option (A * list event) :=
  match r with Some (a, e) => Some (a, perf ++ e) | None => None end.

(* case analysis on the innermost discriminee, so that a subterm shared by both sides is
   destructed once *)
Ltac des1 :=
  match goal with
  | |- context [match ?x with _ => _ end] =>
      lazymatch x with
      | context [match _ with _ => _ end] => fail
      | _ => destruct x eqn:?
      end
  end.
Ltac setters :=
  unfold set_osc_num, set_osc_params, set_osc_raw, set_intermediates, set_intermediate_idx, set_osc, set_inter,
         set_state, set_params, set_param, set_ignoring, set_utf8 in *;
  cbn [pstate intermediates intermediate_idx pparams pparam osc_raw osc_params osc_num_params ignoring utf8_parser] in *.

(* two hypotheses about the SAME term (syntactically: a non-linear pattern `?t .. ?t` would be matched up to conversion,
   which unfolds e.g. `osc_dispatch` against every other left-hand side) *)
Ltac unify_eqs :=
  repeat match goal with
         | H1 : ?t = _, H2 : ?u = _ |- _ => constr_eq t u; rewrite H1 in H2; inversion H2; subst; clear H2
         end.
Ltac norm := idtac.
Ltac des := repeat (des1; setters; norm; cbn [acc fst snd] in *; try congruence).

Lemma g_params_len_eq c q : g_params_len c q = plen q.
Proof. reflexivity. Qed.

Lemma g_params_is_empty_eq c q : g_params_is_empty c q = (plen q =? 0).
Proof. reflexivity. Qed.

Lemma g_params_is_full_eq c q : g_params_is_full c q = params_is_full q.
Proof. reflexivity. Qed.

Lemma g_params_clear_eq c q : g_params_clear c q = params_clear q.
Proof. destruct q; reflexivity. Qed.

Lemma g_params_push_eq c q i : g_params_push c q i = params_push q i.
Proof.
  destruct q as [sp pv cs ln]. unfold g_params_push, params_push.
  cbn [subparams pvals current_subparams plen set_subparams set_pvals set_cursub set_plen].
  destruct (cadd 8 cs 1); destruct (csub ln cs); reflexivity.
Qed.

Lemma g_params_extend_eq c q i : g_params_extend c q i = params_extend q i.
Proof.
  destruct q as [sp pv cs ln]. unfold g_params_extend, params_extend.
  cbn [subparams pvals current_subparams plen set_subparams set_pvals set_cursub set_plen].
  destruct (cadd 8 cs 1); destruct (csub ln cs); reflexivity.
Qed.

Lemma g_state_change__eq c s b : g_state_change_ c s b = state_change_ s b.
Proof.
  unfold g_state_change_, state_change_.
  destruct (aget state_changes (state_disc s)); try reflexivity.
  destruct (aget l b); reflexivity.
Qed.

(* definitions::unpack: transmute::<u8, State>(delta & 0x0f) / transmute::<u8, Action>(delta >> 4), read as the
   discriminant decoders *)
Lemma g_unpack_eq c delta : g_unpack c delta = unpack delta.
Proof.
  unfold g_unpack, unpack. destruct (state_of_disc (N.land delta 15)); [|reflexivity].
  destruct (action_of_disc (N.shiftr delta 4)); reflexivity.
Qed.

Lemma g_state_change_eq c s b : g_state_change c s b = state_change s b.
Proof.
  unfold g_state_change, state_change. rewrite !g_state_change__eq.
  destruct (state_change_ Anywhere b) as [c0|]; try reflexivity.
  destruct (c0 =? 0).
  - destruct (state_change_ s b); try reflexivity. rewrite g_unpack_eq. destruct (unpack n); reflexivity.
  - rewrite g_unpack_eq. destruct (unpack c0); reflexivity.
Qed.

Lemma g_intermediates_eq c p : g_intermediates c p = intermediates_of p.
Proof.
  unfold g_intermediates, intermediates_of.
  destruct (slice (intermediates p) 0 (intermediate_idx p)); reflexivity.
Qed.

(* ---- the character accumulators: Utf8Parser::add / AsciiParser::add (with the translated utf8parse callbacks),
   dispatched on the `utf8` feature, are the hand model's char_add ------------------------------------------- *)

Lemma g_receiver_codepoint_eq o ch : g_receiver_codepoint o ch = Some ch.
Proof. reflexivity. Qed.

Lemma g_receiver_invalid_sequence_eq o : g_receiver_invalid_sequence o = Some 65533.
Proof. reflexivity. Qed.

Lemma g_utf8_parser_add_eq c u b :
  g_utf8_parser_add c u b = char_add (mkCfg (osc_cap c) true) u b.
Proof.
  unfold g_utf8_parser_add, char_add, pu_inner, set_pu_inner. cbn [utf8_on]. cbv zeta.
  destruct (u8_parser_advance u b) as [u' o]. destruct o; reflexivity.
Qed.

Lemma g_ascii_parser_add_eq c u b :
  g_ascii_parser_add c u b = char_add (mkCfg (osc_cap c) false) u b.
Proof. reflexivity. Qed.

Lemma g_char_add_eq c u b : g_char_add c u b = char_add c u b.
Proof.
  unfold g_char_add. rewrite g_utf8_parser_add_eq, g_ascii_parser_add_eq.
  unfold char_add. cbn [utf8_on]. destruct (utf8_on c); reflexivity.
Qed.

(* ---- ParamsIter: new / iter / into_iter / next / size_hint; the drained iterator is params_groups ------------ *)

Lemma g_params_iter_new_eq c q : g_params_iter_new c q = mkPIt q 0.
Proof. reflexivity. Qed.

Lemma g_params_iter_eq c q : g_params_iter c q = mkPIt q 0.
Proof. reflexivity. Qed.

Lemma g_params_into_iter_eq c q : g_params_into_iter c q = mkPIt q 0.
Proof. reflexivity. Qed.

(* one call of next: the hand model's fuelled collection, unfolded once *)
Definition params_next (it : params_it) : option (params_it * option (list N)) :=
  if plen (pit_params it) <=? pit_index it then Some (it, None)
  else
    num <- aget (subparams (pit_params it)) (pit_index it) ;;
    g <- slice (pvals (pit_params it)) (pit_index it) (pit_index it + num) ;;
    Some (mkPIt (pit_params it) (pit_index it + num), Some g).

(* goal-driven: the bounds test in either polarity (`index >= len` + early return, `if index < len { .. } else { None }`),
   the index update before or after the slice is taken, named intermediate values; a test is decided on its leftmost
   atom, so `a <? b` and `negb (b <=? a)` are the same case *)
Ltac test_atom c :=
  lazymatch c with
  | negb ?x => test_atom x
  | andb ?x _ => test_atom x
  | orb ?x _ => test_atom x
  | _ => c
  end.
Ltac opt_cases :=
  repeat first
    [ reflexivity
    | match goal with
      | |- context [if ?c then _ else _] =>
          let a := test_atom c in
          lazymatch a with true => fail | false => fail | _ => idtac end; destruct a
      | |- context [aget ?l ?i] => destruct (aget l i)
      | |- context [slice ?l ?a ?b] => destruct (slice l a b)
      end; cbn [negb andb orb] ].

Lemma g_params_iter_next_eq c it : g_params_iter_next c it = params_next it.
Proof.
  destruct it as [q i]. unfold g_params_iter_next, params_next, g_params_len, set_pit_index.
  cbv zeta. cbn [pit_params pit_index]. rewrite ?N.ltb_antisym.
  opt_cases.
Qed.

(* size_hint: lower and upper bound are both the number of VALUES not yet visited (not of groups) *)
Lemma g_params_iter_size_hint_eq c it :
  g_params_iter_size_hint c it =
  (d <- csub (plen (pit_params it)) (pit_index it) ;; Some (d, Some d)).
Proof. reflexivity. Qed.

Lemma iter_drain_S {I A} (next : I -> option (I * option A)) fuel it :
  iter_drain next (S fuel) it =
  match next it with
  | None => None
  | Some (_, None) => Some []
  | Some (it', Some x) => match iter_drain next fuel it' with Some xs => Some (x :: xs) | None => None end
  end.
Proof. reflexivity. Qed.

Lemma drain_params_iter c : forall fuel it,
  iter_drain (g_params_iter_next c) (S fuel) it = params_iter fuel (pit_params it) (pit_index it).
Proof.
  induction fuel as [|f IH]; intros it; rewrite iter_drain_S; cbn [params_iter]; rewrite g_params_iter_next_eq; unfold params_next.
  - destruct (plen (pit_params it) <=? pit_index it); [reflexivity|].
    destruct (aget (subparams (pit_params it)) (pit_index it)) as [num|]; [|reflexivity].
    destruct (slice (pvals (pit_params it)) (pit_index it) (pit_index it + num)); reflexivity.
  - destruct (plen (pit_params it) <=? pit_index it); [reflexivity|].
    destruct (aget (subparams (pit_params it)) (pit_index it)) as [num|]; [|reflexivity].
    destruct (slice (pvals (pit_params it)) (pit_index it) (pit_index it + num)) as [g|]; [|reflexivity].
    rewrite (IH (mkPIt (pit_params it) (pit_index it + num))). cbn [pit_params pit_index].
    destruct (params_iter f (pit_params it) (pit_index it + num)); reflexivity.
Qed.

Lemma g_params_groups_eq c q : g_params_groups c q = params_groups q.
Proof. unfold g_params_groups, params_groups. rewrite drain_params_iter. reflexivity. Qed.

(* ---- #[derive(Default)] and Parser::new: the initial value of every field ------------------------------------ *)

Lemma g_params_default_eq c : g_params_default c = params_default.
Proof. reflexivity. Qed.

Lemma g_state_default_eq c : g_state_default c = default_state.
Proof. reflexivity. Qed.

Lemma g_parser_default_eq c : g_parser_default c = parser_new.
Proof. unfold g_parser_default, g_char_acc_default, parser_new. destruct (utf8_on c); reflexivity. Qed.

Lemma g_parser_new_eq c : g_parser_new c = parser_new.
Proof. unfold g_parser_new. apply g_parser_default_eq. Qed.

Lemma g_process_utf8_eq c p perf b :
  g_process_utf8 c p perf b = acc perf (process_utf8 c p b).
Proof.
  unfold g_process_utf8, process_utf8. rewrite g_char_add_eq.
  destruct (char_add c (utf8_parser p) b) as [[u o]|]; [|reflexivity].
  destruct o; cbn [acc]; rewrite ?app_nil_r; reflexivity.
Qed.

Ltac norm ::=
  rewrite ?g_params_is_full_eq, ?g_params_push_eq, ?g_params_extend_eq, ?g_params_clear_eq, ?g_intermediates_eq, ?g_process_utf8_eq in *;
  unfold intermediates_of, g_params in *; setters.

Lemma acc_nil {A} perf (a : A) : Some (a, perf) = acc perf (Some (a, [])).
Proof. cbn. rewrite app_nil_r. reflexivity. Qed.

(* ---- Parser::osc_dispatch: the MaybeUninit slot array, filled for the first osc_num_params slots and read back
   as initialised, is the hand model's osc_slices ------------------------------------------------------------- *)

Fixpoint osc_fill (p : parser) (cnt : nat) (i : N) : option (list (list N)) :=
  match cnt with
  | O => Some []
  | S k =>
      '(a, b) <- aget (osc_params p) i ;;
      s <- slice (osc_raw p) a b ;;
      rest <- osc_fill p k (i + 1) ;;
      Some (s :: rest)
  end.

Lemma osc_fill_length p : forall cnt i fs, osc_fill p cnt i = Some fs -> length fs = cnt.
Proof.
  induction cnt as [|k IH]; intros i fs H; cbn [osc_fill] in H.
  - inversion H. reflexivity.
  - destruct (aget (osc_params p) i) as [[a b]|]; [|discriminate].
    destruct (slice (osc_raw p) a b); [|discriminate].
    destruct (osc_fill p k (i + 1)) eqn:E; [|discriminate]. inversion H. cbn [length]. rewrite (IH _ _ E). reflexivity.
Qed.

Lemma osc_slices_fill p : forall fuel i,
  (N.to_nat (osc_num_params p - i) <= fuel)%nat ->
  osc_slices fuel p i = osc_fill p (N.to_nat (osc_num_params p - i)) i.
Proof.
  induction fuel as [|f IH]; intros i H; cbn [osc_slices].
  - replace (N.to_nat (osc_num_params p - i)) with O by lia. reflexivity.
  - destruct (N.leb_spec (osc_num_params p) i) as [Hle|Hlt].
    + replace (N.to_nat (osc_num_params p - i)) with O by lia. reflexivity.
    + replace (N.to_nat (osc_num_params p - i)) with (S (N.to_nat (osc_num_params p - (i + 1)))) by lia.
      cbn [osc_fill]. destruct (aget (osc_params p) i) as [[a b]|]; [|reflexivity].
      destruct (slice (osc_raw p) a b); [|reflexivity]. rewrite IH by lia. reflexivity.
Qed.

Lemma aset_mid {A} (l1 : list A) x l2 v n :
  length l1 = n -> aset (l1 ++ x :: l2) (N.of_nat n) v = Some (l1 ++ v :: l2).
Proof.
  intros <-. unfold aset. rewrite Nat2N.id. induction l1 as [|h t IH]; cbn [length app aset_nat]; [reflexivity|].
  rewrite IH. reflexivity.
Qed.

Lemma firstn_enum_repeat {A} (x : A) : forall m k i,
  firstn m (penumerate_from i (repeat x k)) = penumerate_from i (repeat x (Nat.min m k)).
Proof.
  induction m as [|m IH]; intros k i; [reflexivity|].
  destruct k as [|k]; [reflexivity|]. cbn [repeat penumerate_from firstn Nat.min]. rewrite IH. reflexivity.
Qed.

Lemma assume_init_map_some {A} (l : list A) : mu_assume_init_slice (map Some l) = Some l.
Proof. induction l as [|h t IH]; cbn [map mu_assume_init_slice]; [reflexivity|]. rewrite IH. reflexivity. Qed.

(* the fill loop, for ANY body that does what one iteration of the Rust loop does *)
Lemma osc_fill_loop p (F : N * option (list N) -> list (option (list N)) -> option (bctl (list (option (list N))))) :
  (forall i s sl, F (i, s) sl =
     (el <- aget (osc_params p) i ;;
      sl' <- slice (osc_raw p) (fst el) (snd el) ;;
      arr <- aset sl i (Some sl') ;;
      Some (BNext arr))) ->
  forall cnt pre post,
  for_list0 F (penumerate_from (N.of_nat (length pre)) (repeat None cnt)) (map Some pre ++ repeat None cnt ++ post) =
  match osc_fill p cnt (N.of_nat (length pre)) with
  | Some fs => Some (map Some (pre ++ fs) ++ post)
  | None => None
  end.
Proof.
  intros HF. induction cnt as [|k IH]; intros pre post; cbn [repeat penumerate_from for_list0 osc_fill app].
  - rewrite app_nil_r. reflexivity.
  - rewrite HF. destruct (aget (osc_params p) (N.of_nat (length pre))) as [[a b]|]; [|reflexivity]. cbn [fst snd].
    destruct (slice (osc_raw p) a b) as [s|]; [|reflexivity].
    rewrite (aset_mid (map Some pre) None (repeat None k ++ post) (Some s) (length pre) (map_length _ _)).
    replace (N.of_nat (length pre) + 1) with (N.of_nat (length (pre ++ [s]))) by (rewrite app_length; cbn [length]; lia).
    replace (map Some pre ++ Some s :: repeat None k ++ post) with (map Some (pre ++ [s]) ++ repeat None k ++ post)
      by (rewrite map_app, <- app_assoc; reflexivity).
    rewrite IH. destruct (osc_fill p k (N.of_nat (length (pre ++ [s])))) as [fs|]; [|reflexivity].
    rewrite <- app_assoc. reflexivity.
Qed.

Lemma g_osc_dispatch_eq c p perf b : g_osc_dispatch c p perf b = osc_dispatch_acc p perf b.
Proof.
  unfold g_osc_dispatch, osc_dispatch_acc, osc_dispatch. cbv zeta.
  match goal with |- context [for_list0 ?f _ _] => set (F := f) end.
  assert (HF : forall i s sl, F (i, s) sl =
     (el <- aget (osc_params p) i ;;
      sl' <- slice (osc_raw p) (fst el) (snd el) ;;
      arr <- aset sl i (Some sl') ;;
      Some (BNext arr))) by (intros; reflexivity).
  unfold mu_take_enum, mu_uninit_array, penumerate. rewrite firstn_enum_repeat.
  set (n := osc_num_params p). set (K := N.to_nat MAX_OSC_PARAMS).
  set (m := Nat.min (N.to_nat n) K).
  replace (repeat None K) with (repeat (@None (list N)) m ++ repeat None (K - m))
    by (rewrite <- repeat_app; f_equal; lia).
  pose proof (osc_fill_loop p F HF m [] (repeat None (K - m))) as L. cbn [length map app N.of_nat] in L. rewrite L. clear L.
  destruct (N.ltb_spec MAX_OSC_PARAMS n) as [Hgt|Hle].
  - destruct (osc_fill p m 0) as [fs|] eqn:E; [|reflexivity].
    pose proof (osc_fill_length p m 0 fs E) as Hl.
    unfold slice. rewrite app_length, map_length, repeat_length, Hl.
    replace (n <=? N.of_nat (m + (K - m))) with false by (symmetry; apply N.leb_gt; lia).
    rewrite andb_false_r. reflexivity.
  - rewrite (osc_slices_fill p K 0) by (fold n; lia).
    fold n. replace (N.to_nat (n - 0)) with m by lia.
    destruct (osc_fill p m 0) as [fs|] eqn:E; [|reflexivity].
    pose proof (osc_fill_length p m 0 fs E) as Hl.
    unfold slice. rewrite app_length, map_length, repeat_length, Hl.
    replace (n <=? N.of_nat (m + (K - m))) with true by (symmetry; apply N.leb_le; lia).
    cbn [N.leb andb skipn N.to_nat]. replace (N.to_nat (n - 0)) with (length (map Some fs) + 0)%nat by (rewrite map_length; lia).
    rewrite firstn_app_2. cbn [firstn]. replace (0 <=? n) with true by (symmetry; apply N.leb_le; lia).
    cbn [andb]. rewrite app_nil_r, assume_init_map_some. reflexivity.
Qed.

Ltac norm ::=
  rewrite ?g_params_is_full_eq, ?g_params_push_eq, ?g_params_extend_eq, ?g_params_clear_eq, ?g_intermediates_eq, ?g_process_utf8_eq,
          ?g_osc_dispatch_eq, ?g_params_groups_eq in *;
  unfold intermediates_of, g_params, osc_dispatch_acc in *; setters.

(* the leaf of a case analysis, aware of the arithmetic of the tests that were destructed on the way: the source may
   spell "the first parameter" as `param_idx == 0`, as the `None` of `param_idx.checked_sub(1)`, as `param_idx < 1`, ..;
   after `des` every such test is a boolean hypothesis, `bool_props` turns them into propositions over N and the
   branches that no input reaches are closed by `lia`, the others by `congruence` as before *)
Ltac bool_props :=
  repeat match goal with
  | H : negb _ = true |- _ => apply negb_true_iff in H
  | H : negb _ = false |- _ => apply negb_false_iff in H
  | H : (_ =? _) = true |- _ => apply N.eqb_eq in H
  | H : (_ =? _) = false |- _ => apply N.eqb_neq in H
  | H : (_ <=? _) = true |- _ => apply N.leb_le in H
  | H : (_ <=? _) = false |- _ => apply N.leb_gt in H
  | H : (_ <? _) = true |- _ => apply N.ltb_lt in H
  | H : (_ <? _) = false |- _ => apply N.ltb_ge in H
  end.
(* a variable the tests force to be 0 (`n < 1`, `n <= 0`, `!(n >= 1)`, ..) is replaced by 0, so that `params[0]` and
   `params[n]`, `1` and `n + 1` are the same terms *)
Ltac pin_zero :=
  repeat match goal with
  | x : N |- _ => let H := fresh in assert (H : x = 0) by lia; subst x
  end.
(* facts about the constants of the source that `lia` may use: only "there is at least one OSC parameter slot" (a test
   `n < 1` before the test `n == MAX_OSC_PARAMS` is the same as after it); the VALUE of the constant stays abstract *)
Lemma MAX_OSC_PARAMS_pos : 0 < MAX_OSC_PARAMS.
Proof. reflexivity. Qed.
Ltac arith_facts := pose proof MAX_OSC_PARAMS_pos.
(* "where the previous parameter ended" read through a slice (`self.osc_params[..n].last()`) instead of an index
   (`self.osc_params[n - 1]`): the same element, the same panics (`n` beyond the array: the slice panics there, the
   write to `osc_params[n]` here) *)
Lemma aset_some_lt {A} (l l' : list A) n v : aset l n v = Some l' -> n < N.of_nat (length l).
Proof.
  unfold aset. intros E0. assert (Hlt : (N.to_nat n < length l)%nat); [|lia].
  generalize dependent l'. generalize (N.to_nat n) as i. induction l as [|h t IH]; intros i l' E0; cbn [aset_nat] in E0.
  - destruct i; discriminate.
  - destruct i as [|j]; cbn [length]; [lia|]. destruct (aset_nat t j v) eqn:E; [|discriminate]. specialize (IH _ _ E). lia.
Qed.

Lemma slice0_none {A} (l : list A) n : slice l 0 n = None -> N.of_nat (length l) < n.
Proof.
  unfold slice. destruct (N.leb_spec 0 n) as [_|Hn]; [|lia].
  destruct (N.leb_spec n (N.of_nat (length l))) as [Hl|Hl]; cbn [andb]; [discriminate|auto].
Qed.

Lemma nth_error_firstn_lt {A} (l : list A) : forall m i, (i < m)%nat -> nth_error (firstn m l) i = nth_error l i.
Proof.
  induction l as [|h t IH]; intros m i Hi; [rewrite firstn_nil; reflexivity|].
  destruct m as [|m]; [lia|]. destruct i as [|i]; cbn [firstn nth_error]; [reflexivity|]. apply IH. lia.
Qed.

Lemma slice0_last_pos {A} (l sl : list A) n :
  slice l 0 n = Some sl -> 0 < n -> nth_error sl (Nat.pred (length sl)) = aget l (n - 1).
Proof.
  unfold slice, aget. destruct (N.leb_spec 0 n) as [_|Hn0]; [|lia].
  destruct (N.leb_spec n (N.of_nat (length l))) as [Hl|Hl]; cbn [andb]; [|discriminate].
  intros E0 Hn. injection E0 as <-. rewrite N.sub_0_r. cbn [N.to_nat skipn].
  rewrite firstn_length_le by lia. replace (Nat.pred (N.to_nat n)) with (N.to_nat (n - 1)) by lia.
  rewrite nth_error_firstn_lt by lia. reflexivity.
Qed.

Lemma slice0_last_zero {A} (l sl : list A) n :
  slice l 0 n = Some sl -> n = 0 -> nth_error sl (Nat.pred (length sl)) = None.
Proof.
  intros E0 ->. unfold slice in E0. change (0 <=? 0) with true in E0. cbn [andb] in E0.
  destruct (0 <=? N.of_nat (length l)); [|discriminate]. injection E0 as <-. reflexivity.
Qed.

Lemma aget_none_ge {A} (l : list A) i : aget l i = None -> N.of_nat (length l) <= i.
Proof. unfold aget. intros E0. apply nth_error_None in E0. lia. Qed.

Ltac list_facts :=
  repeat match goal with
  | H : slice ?l 0 ?n = Some ?sl, H2 : context [nth_error ?sl (Nat.pred (length ?sl))] |- _ =>
      first [ rewrite (slice0_last_pos l sl n H ltac:(lia)) in H2
            | rewrite (slice0_last_zero l sl n H ltac:(lia)) in H2 ]
  | H : slice _ 0 _ = None |- _ => apply slice0_none in H
  | H : aget _ _ = None |- _ => apply aget_none_ge in H
  | H : aset ?l ?n _ = Some _ |- _ =>
      lazymatch goal with
      | _ : n < N.of_nat (length l) |- _ => fail
      | _ => pose proof (aset_some_lt _ _ _ _ H)
      end
  end.

Ltac arith_leaf :=
  first [ congruence | reflexivity
        | bool_props; arith_facts; list_facts;
          first [ exfalso; lia | congruence
                | pin_zero; rewrite ?N.add_0_l in *; unify_eqs; cbn [fst snd] in *; first [ reflexivity | congruence ] ] ].

Lemma osc_end_eq c p perf b :
  g_perform_action c p perf AOscEnd b = acc perf (perform_action c p AOscEnd b).
Proof.
  unfold g_perform_action, perform_action, len, csub. destruct p. setters. cbv zeta.
  des; setters; try congruence; try reflexivity.
  all: arith_leaf.
Qed.

Lemma g_perform_action_eq c p perf a b :
  g_perform_action c p perf a b = acc perf (perform_action c p a b).
Proof.
  destruct a; try apply osc_end_eq;
    unfold g_perform_action, g_params;
    rewrite ?g_params_is_full_eq, ?g_params_push_eq, ?g_params_extend_eq, ?g_params_clear_eq, ?g_intermediates_eq, ?g_process_utf8_eq;
    unfold perform_action, finish_params, osc_full, raw_full, cfg_core, len, intermediates_of, csub;
    destruct p; setters; cbn [acc]; rewrite ?app_nil_r; try reflexivity.
  all: des; setters; cbn [acc]; rewrite ?app_nil_r; try congruence; try reflexivity.
  all: unify_eqs; try congruence; try reflexivity.
  (* ArrayVec::push on a full buffer (a panic) is excluded by the guard at the head of the arm; the tests on
     `osc_num_params` (whatever their spelling) by their arithmetic *)
  all: cbn [andb negb] in *; arith_leaf.
Qed.

Lemma acc_acc {A} perf e1 (r : option (A * list event)) :
  acc perf (acc e1 r) = acc (perf ++ e1) r.
Proof. destruct r as [[a e]|]; cbn; [rewrite app_assoc|]; reflexivity. Qed.

(* the three stages of perform_state_change, each against the corresponding stage of the hand model *)
Definition exit_hand c p b :=
  match pstate p with
  | DcsPassthrough => perform_action c p AUnhook b
  | OscString => perform_action c p AOscEnd b
  | _ => Some (p, [])
  end.
Definition trans_hand c p a b :=
  match a with ANop => Some (p, []) | _ => perform_action c p a b end.
Definition entry_hand c p s b :=
  match s with
  | CsiEntry | DcsEntry | Escape => perform_action c p AClear b
  | DcsPassthrough => perform_action c p AHook b
  | OscString => perform_action c p AOscStart b
  | _ => Some (p, [])
  end.

Lemma psc_hand c p s a b :
  s <> Anywhere ->
  perform_state_change c p s a b =
  match exit_hand c p b with
  | Some (p1, e1) =>
      match trans_hand c p1 a b with
      | Some (p2, e2) =>
          match entry_hand c p2 s b with
          | Some (p3, e3) => Some (set_state p3 s, e1 ++ e2 ++ e3)
          | None => None
          end
      | None => None
      end
  | None => None
  end.
Proof. intros Hs. unfold perform_state_change, exit_hand, trans_hand, entry_hand. destruct s; try congruence; reflexivity. Qed.

Ltac pa_cases :=
  rewrite ?g_perform_action_eq; cbn [acc]; rewrite ?app_nil_r; try reflexivity;
  match goal with |- context [perform_action ?c ?q ?x ?b] => destruct (perform_action c q x b) as [[? ?]|] end; reflexivity.

(* exit_stage / entry_stage: the ORIGINAL spelling of the two stages (kept as worked examples; g_perform_state_change_eq
   no longer rewrites with them, see the goal-driven stages below) *)
Lemma exit_stage c p pf b :
  match pstate p with
  | DcsPassthrough => match g_perform_action c p pf AUnhook b with Some (o, o') => Some (o, o') | None => None end
  | OscString => match g_perform_action c p pf AOscEnd b with Some (o, o') => Some (o, o') | None => None end
  | _ => Some (p, pf)
  end = acc pf (exit_hand c p b).
Proof. unfold exit_hand. destruct (pstate p); pa_cases. Qed.

Lemma trans_stage c q pf a b :
  match a with
  | ANop => Some (q, pf)
  | _ => match g_perform_action c q pf a b with Some (o, o') => Some (o, o') | None => None end
  end = acc pf (trans_hand c q a b).
Proof. unfold trans_hand. destruct a; pa_cases. Qed.

(* the same stage, whatever way the Rust source spells "unless the action is Nop" (`match action { Nop => (), a => .. }`,
   `if !matches!(action, Action::Nop) { .. }`, `if action != Action::Nop { .. }`): any term that is `Some (q, pf)` on
   ANop and the call of perform_action otherwise *)
Lemma trans_any c q pf a b (T : option (parser * list event)) :
  (a = ANop -> T = Some (q, pf)) ->
  (a <> ANop -> T = match g_perform_action c q pf a b with Some (o, o') => Some (o, o') | None => None end) ->
  T = acc pf (trans_hand c q a b).
Proof.
  intros H0 H1. unfold trans_hand.
  destruct a; try (rewrite H1 by discriminate; pa_cases).
  rewrite H0 by reflexivity. cbn [acc]. rewrite app_nil_r. reflexivity.
Qed.

(* the innermost scrutinee of a chain of binds: the stage that is evaluated first *)
Ltac first_stage T :=
  lazymatch T with
  | match ?U with Some _ => _ | None => _ end => first_stage U
  | _ => constr:(T)
  end.

Ltac trans_step c q pf a b :=
  first
    [ rewrite trans_stage
    | lazymatch goal with
      | |- ?L = _ =>
          let T := first_stage L in
          rewrite (trans_any c q pf a b T);
          [ | intros Ha; subst a; reflexivity | intros Ha; destruct a; try congruence; reflexivity ]
      end ].

Lemma entry_stage c q pf s b :
  match s with
  | CsiEntry | DcsEntry | Escape => match g_perform_action c q pf AClear b with Some (o, o') => Some (o, o') | None => None end
  | DcsPassthrough => match g_perform_action c q pf AHook b with Some (o, o') => Some (o, o') | None => None end
  | OscString => match g_perform_action c q pf AOscStart b with Some (o, o') => Some (o, o') | None => None end
  | _ => Some (q, pf)
  end = acc pf (entry_hand c q s b).
Proof. unfold entry_hand. destruct s; pa_cases. Qed.

(* Goal-driven stages (robustness R13).  The Rust source may RUN the exit / entry action inside the arms of the `match` on
   the state (`State::DcsPassthrough => self.perform_action(.., Action::Unhook, ..)`), or first PICK it as a value
   (`let exit = match self.state { DcsPassthrough => Action::Unhook, .., _ => Action::Nop }`) and run it unless it is `Nop`
   (`if !matches!(exit, Action::Nop)`, `if exit != Action::Nop`, `match exit { Nop => (), a => .. }`), or test the state with
   `==`.  None of the tactics below looks at that text: the state the goal scrutinises is destructed, the tests on the
   now-constant action / state are EVALUATED, and the call of perform_action that remains (if any) is replaced by the hand
   model's through g_perform_action_eq. *)
Ltac const_tests :=
  repeat match goal with
         | |- context [action_eqb ?x ?y] =>
             is_constructor x; is_constructor y;
             let v := eval compute in (action_eqb x y) in change (action_eqb x y) with v
         | |- context [state_eqb ?x ?y] =>
             is_constructor x; is_constructor y;
             let v := eval compute in (state_eqb x y) in change (state_eqb x y) with v
         end;
  cbn [negb andb orb acc].

(* the stage the hand model runs first: if it is a call of perform_action, the translated side must show the same call
   (g_perform_action_eq, with THAT parser, action and byte; it fails otherwise), and both are destructed together; if the
   hand stage is a plain `Some (p, [])` the reduction of const_tests has already consumed it *)
Ltac pa_first :=
  lazymatch goal with
  | |- _ = acc _ ?R =>
      let T := first_stage R in
      lazymatch T with
      | perform_action ?c ?q ?x ?b =>
          rewrite (g_perform_action_eq c q _ x b);
          destruct (perform_action c q x b) as [[? ?]|]; cbn [acc]
      | _ => idtac
      end
  | |- _ => idtac
  end.

(* the transition stage: parser and performer are read off the goal (they are whatever the exit stage left) *)
Ltac trans_goal :=
  lazymatch goal with
  | |- ?L = acc _ (match trans_hand ?c ?q ?a ?b with _ => _ end) =>
      let T := first_stage L in
      lazymatch T with
      | context [g_perform_action c q ?pf a b] => trans_step c q pf a b
      end
  end.

Lemma g_perform_state_change_eq c p perf s a b :
  g_perform_state_change c p perf s a b = acc perf (perform_state_change c p s a b).
Proof.
  destruct (state_eqb s Anywhere) eqn:Es.
  { destruct s; try discriminate Es. unfold g_perform_state_change, perform_state_change.
    const_tests. rewrite g_perform_action_eq. destruct (perform_action c p a b) as [[? ?]|]; reflexivity. }
  assert (Hs : s <> Anywhere) by (intros ->; discriminate Es).
  rewrite (psc_hand c p s a b Hs).
  unfold g_perform_state_change.
  (* exit: on the state being left *)
  destruct s; try congruence; cbv zeta; unfold exit_hand; const_tests;
    destruct (pstate p) eqn:Ep; const_tests; pa_first; try reflexivity.
  (* transition: on the action, `Nop` or not *)
  all: trans_goal;
    match goal with |- context [trans_hand ?c0 ?q ?a0 ?b0] => destruct (trans_hand c0 q a0 b0) as [[? ?]|] end; cbn [acc]; [|reflexivity].
  (* entry: the state being entered is a constant in every goal *)
  all: unfold entry_hand; const_tests; pa_first; cbn [app]; rewrite <- ?app_assoc, ?app_nil_r; reflexivity.
Qed.

Lemma g_advance_eq c p perf b :
  g_advance c p perf b = acc perf (advance c p b).
Proof.
  unfold g_advance, advance. cbv zeta.
  destruct (pstate p); rewrite ?g_process_utf8_eq, ?g_state_change_eq;
    try (destruct (process_utf8 c p b) as [[? ?]|]; reflexivity).
  all: match goal with |- context [state_change ?s ?b0] => destruct (state_change s b0) as [[s1 a1]|]; [|reflexivity] end.
  all: rewrite g_perform_state_change_eq; match goal with |- context [perform_state_change ?c0 ?p0 ?s0 ?a0 ?b0] => destruct (perform_state_change c0 p0 s0 a0 b0) as [[? ?]|] end; reflexivity.
Qed.

(* whole runs: the translated advance folded over a byte string *)
Fixpoint g_run (c : cfg) (p : parser) (perf : list event) (bs : list N) : option (parser * list event) :=
  match bs with
  | [] => Some (p, perf)
  | b :: rest =>
      match g_advance c p perf b with
      | Some (p1, perf1) => g_run c p1 perf1 rest
      | None => None
      end
  end.

Lemma g_run_eq c bs : forall p perf, g_run c p perf bs = acc perf (run c p bs).
Proof.
  induction bs as [|b bs IH]; intros p perf; cbn [g_run run].
  - cbn. rewrite app_nil_r. reflexivity.
  - rewrite g_advance_eq. destruct (advance c p b) as [[p1 e1]|]; cbn [acc]; [|reflexivity].
    rewrite IH. destruct (run c p1 bs) as [[p2 e2]|]; cbn [acc]; [rewrite app_assoc|]; reflexivity.
Qed.

Theorem translated_parser_is_model c bs :
  g_run c parser_new [] bs = run c parser_new bs.
Proof. rewrite g_run_eq. destruct (run c parser_new bs) as [[? ?]|]; reflexivity. Qed.

(* the same from the TRANSLATED constructor: `Parser::new()` followed by `advance` for every byte *)
Theorem translated_parser_from_new c bs :
  g_run c (g_parser_new c) [] bs = run c parser_new bs.
Proof. rewrite g_parser_new_eq. apply translated_parser_is_model. Qed.

(* configuration: Parser::new() builds the same value in every build; without `utf8` the accumulator is the
   `unreachable!` of AsciiParser::add, with it the utf8parse decoder and the translated callbacks *)
Lemma g_parser_new_cfg_independent c1 c2 : g_parser_new c1 = g_parser_new c2.
Proof. rewrite !g_parser_new_eq. reflexivity. Qed.

Lemma g_char_add_no_utf8 c u b : utf8_on c = false -> g_char_add c u b = None.
Proof. intros H. unfold g_char_add. rewrite H. reflexivity. Qed.

Lemma g_char_add_utf8 c u b : utf8_on c = true ->
  g_char_add c u b =
  Some (fst (u8_parser_advance u b),
        match snd (u8_parser_advance u b) with U8None => None | U8Codepoint cp => Some cp | U8Invalid => Some 65533 end).
Proof.
  intros H. rewrite g_char_add_eq. unfold char_add. rewrite H.
  destruct (u8_parser_advance u b) as [u' o]. reflexivity.
Qed.

(* Action::OscPut with the translated buffer operations: `is_full` of the ArrayVec (`raw_full c`), the `#[cfg(feature =
   "core")]` guard (`if cfg_core c`), and `push`, which on a full ArrayVec PANICS (None in the translation): equal to the
   hand model, which has no such panic -- the guard excludes it *)
Lemma g_osc_put_eq c p perf b :
  g_perform_action c p perf AOscPut b = acc perf (perform_action c p AOscPut b).
Proof. apply g_perform_action_eq. Qed.

Lemma g_osc_put_byte_no_panic c p perf b :
  b <> 59 -> g_perform_action c p perf AOscPut b <> None.
Proof.
  intros Hb. rewrite g_osc_put_eq. unfold perform_action.
  destruct (osc_full c p); [discriminate|]. apply N.eqb_neq in Hb. rewrite Hb. discriminate.
Qed.
