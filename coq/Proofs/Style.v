(* Proofs/Style.v -- lemmas for C13: effect sets (bitwise reasoning, for all sets,
   no enumeration of sets), iteration and Debug, Style setters / getters /
   operators, the 16-colour tables (complete enumeration of the 16 colours and
   the 256 indices). *)
From Coq Require Import NArith List Bool Lia Btauto Sorted.
From AV Require Import Generated.Style Spec.Algebra Model.Base Model.Style Proofs.TableFacts.
Import ListNotations.
Local Open Scope N_scope.

(* ======================================================================== *)
(* bits                                                                      *)

Lemma lt_pow2_bits a n : a < 2 ^ n <-> (forall i, n <= i -> N.testbit a i = false).
Proof.
  split.
  - intros H i Hi. destruct (N.eq_dec a 0) as [->|Ha]; [apply N.bits_0|].
    apply N.bits_above_log2. apply N.log2_lt_pow2 in H; lia.
  - intros H. assert (E : a mod 2 ^ n = a).
    { apply N.bits_inj; intro i. destruct (N.lt_ge_cases i n) as [Hi|Hi].
      - now rewrite N.mod_pow2_bits_low.
      - rewrite N.mod_pow2_bits_high by assumption. symmetry; now apply H. }
    rewrite <- E. apply N.mod_lt. apply N.pow_nonzero. discriminate.
Qed.

Lemma valid_high a i : valid a -> 12 <= i -> mem a i = false.
Proof. intros H Hi. unfold valid in H. now apply (proj1 (lt_pow2_bits a 12)). Qed.

Lemma valid_of_high a : (forall i, 12 <= i -> mem a i = false) -> valid a.
Proof. intros H. now apply (proj2 (lt_pow2_bits a 12)). Qed.

Lemma valid_u16 a : valid a -> a < 2 ^ 16.
Proof.
  intros H. apply lt_pow2_bits. intros i Hi. apply (valid_high a i H). lia.
Qed.

Lemma valid_0 : valid 0.
Proof. unfold valid. reflexivity. Qed.

Lemma valid_singleton i : i < 12 -> valid (singleton i).
Proof.
  intros Hi. apply valid_of_high. intros j Hj. unfold mem, singleton.
  rewrite N.pow2_bits_eqb. apply N.eqb_neq. lia.
Qed.

Lemma mem_singleton i j : mem (singleton i) j = (i =? j).
Proof. unfold mem, singleton. apply N.pow2_bits_eqb. Qed.

Lemma lt12_cases i : i < 12 ->
  i = 0 \/ i = 1 \/ i = 2 \/ i = 3 \/ i = 4 \/ i = 5 \/ i = 6 \/ i = 7 \/ i = 8 \/ i = 9 \/ i = 10 \/ i = 11.
Proof. lia. Qed.

Ltac cases12 H :=
  apply lt12_cases in H;
  repeat (destruct H as [H|H]; [subst|]); [..|subst].

Lemma idxs_eq : idxs = [0; 1; 2; 3; 4; 5; 6; 7; 8; 9; 10; 11].
Proof. reflexivity. Qed.

Lemma idxs_In i : In i idxs <-> i < 12.
Proof.
  rewrite idxs_eq. split.
  - cbn [In]. intros H. repeat (destruct H as [H|H]; [subst; reflexivity|]). destruct H.
  - intros H. cases12 H; cbn [In]; tauto.
Qed.

(* ======================================================================== *)
(* the operations, bit by bit                                               *)

Lemma remove_ldiff a b : a < 2 ^ 16 -> e_remove a b = N.ldiff a b.
Proof.
  intros H. apply N.bits_inj; intro i. unfold e_remove, u16_not.
  rewrite N.land_spec, N.ldiff_spec.
  destruct (N.lt_ge_cases i 16) as [Hi|Hi].
  - now rewrite N.lnot_spec_low.
  - rewrite (proj1 (lt_pow2_bits a 16) H i Hi). reflexivity.
Qed.

Lemma insert_mem a b i : mem (e_insert a b) i = mem a i || mem b i.
Proof. unfold mem, e_insert. apply N.lor_spec. Qed.

Lemma remove_mem a b i : valid a -> mem (e_remove a b) i = mem a i && negb (mem b i).
Proof.
  intros H. rewrite remove_ldiff by now apply valid_u16. unfold mem. apply N.ldiff_spec.
Qed.

Lemma insert_valid a b : valid a -> valid b -> valid (e_insert a b).
Proof.
  intros Ha Hb. apply valid_of_high. intros i Hi.
  rewrite insert_mem, (valid_high a i Ha Hi), (valid_high b i Hb Hi). reflexivity.
Qed.

Lemma remove_valid a b : valid a -> valid (e_remove a b).
Proof.
  intros Ha. apply valid_of_high. intros i Hi.
  rewrite remove_mem, (valid_high a i Ha Hi) by assumption. reflexivity.
Qed.

Lemma set_valid a b en : valid a -> valid b -> valid (e_set a b en).
Proof. intros Ha Hb. destruct en; cbn [e_set]; [now apply insert_valid | now apply remove_valid]. Qed.

Lemma clear_valid a : valid (e_clear a).
Proof. exact valid_0. Qed.

(* extensionality: a set is determined by its members *)
Lemma set_ext a b : (forall i, mem a i = mem b i) -> a = b.
Proof. intros H. apply N.bits_inj. exact H. Qed.

Ltac setext :=
  apply set_ext; intro;
  repeat first [rewrite insert_mem | rewrite remove_mem by auto using insert_valid, remove_valid];
  try btauto.

Lemma insert_idem a : e_insert a a = a.
Proof. apply N.lor_diag. Qed.

Lemma insert_comm a b : e_insert a b = e_insert b a.
Proof. apply N.lor_comm. Qed.

Lemma insert_assoc a b c : e_insert a (e_insert b c) = e_insert (e_insert a b) c.
Proof. apply N.lor_assoc. Qed.

Lemma insert_plain a : e_insert a e_new = a.
Proof. apply N.lor_0_r. Qed.

Lemma contains_subset a b : e_contains a b = true <-> subset b a.
Proof.
  unfold e_contains, subset, mem. rewrite N.eqb_eq. split.
  - intros H i Hi. rewrite <- H, N.land_spec in Hi. now apply andb_true_iff in Hi.
  - intros H. apply N.bits_inj; intro i. rewrite N.land_spec.
    destruct (N.testbit b i) eqn:E; [|reflexivity]. now rewrite (H i E).
Qed.

Lemma contains_insert_r a b : e_contains (e_insert a b) b = true.
Proof. apply contains_subset. intros i H. rewrite insert_mem, H. apply orb_true_r. Qed.

Lemma contains_insert_l a b : e_contains (e_insert a b) a = true.
Proof. apply contains_subset. intros i H. rewrite insert_mem, H. reflexivity. Qed.

Lemma insert_absorb a b : e_contains a b = true <-> e_insert a b = a.
Proof.
  rewrite contains_subset. split.
  - intros H. apply set_ext; intro i. rewrite insert_mem.
    destruct (mem b i) eqn:E; [|apply orb_false_r]. rewrite (H i E). reflexivity.
  - intros H i Hi. rewrite <- H, insert_mem, Hi. apply orb_true_r.
Qed.

Lemma contains_refl a : e_contains a a = true.
Proof. apply contains_subset. intros i H. exact H. Qed.

Lemma contains_trans a b c : e_contains a b = true -> e_contains b c = true -> e_contains a c = true.
Proof. rewrite !contains_subset. intros H1 H2 i H. auto. Qed.

Lemma contains_antisym a b : e_contains a b = true -> e_contains b a = true -> a = b.
Proof.
  rewrite !contains_subset. intros H1 H2. apply set_ext; intro i.
  destruct (mem a i) eqn:Ea, (mem b i) eqn:Eb; try reflexivity.
  - now rewrite (H2 i Ea) in Eb.
  - now rewrite (H1 i Eb) in Ea.
Qed.

Lemma contains_plain a : e_contains a e_new = true.
Proof. reflexivity. Qed.

Lemma remove_insert a b : valid a -> valid b -> e_remove (e_insert a b) b = e_remove a b.
Proof. intros Ha Hb. setext. Qed.

Lemma insert_remove a b : valid a -> e_insert (e_remove a b) b = e_insert a b.
Proof. intros Ha. setext. Qed.

Lemma remove_idem a b : valid a -> e_remove (e_remove a b) b = e_remove a b.
Proof. intros Ha. setext. Qed.

Lemma remove_self a : valid a -> e_remove a a = e_new.
Proof.
  intros Ha. apply set_ext; intro i. rewrite remove_mem by assumption.
  unfold e_new, effect_plain, mem at 3. rewrite N.bits_0. btauto.
Qed.

Lemma remove_plain a : valid a -> e_remove a e_new = a.
Proof.
  intros Ha. apply set_ext; intro i. rewrite remove_mem by assumption.
  unfold e_new, effect_plain, mem at 2. rewrite N.bits_0. btauto.
Qed.

Lemma remove_disjoint a b : valid a -> disjoint (e_remove a b) b.
Proof. intros Ha i. rewrite remove_mem by assumption. btauto. Qed.

Lemma remove_land a b : valid a -> N.land (e_remove a b) b = 0.
Proof.
  intros Ha. apply N.bits_inj; intro i. rewrite N.land_spec, N.bits_0.
  apply (remove_disjoint a b Ha i).
Qed.

Lemma remove_not_contains a b i : valid a -> mem b i = true -> mem (e_remove a b) i = false.
Proof. intros Ha Hb. rewrite remove_mem, Hb by assumption. apply andb_false_r. Qed.

Lemma demorgan a b c : valid a -> e_remove a (e_insert b c) = e_remove (e_remove a b) c.
Proof. intros Ha. setext. Qed.

Lemma remove_comm a b c : valid a -> e_remove (e_remove a b) c = e_remove (e_remove a c) b.
Proof. intros Ha. setext. Qed.

Lemma insert_remove_distr a b c : valid a -> valid b ->
  e_remove (e_insert a b) c = e_insert (e_remove a c) (e_remove b c).
Proof. intros Ha Hb. setext. Qed.

Lemma is_plain_iff a : e_is_plain a = true <-> forall i, mem a i = false.
Proof.
  unfold e_is_plain, effect_plain, mem. rewrite N.eqb_eq. split.
  - intros -> i. apply N.bits_0.
  - intros H. apply N.bits_inj_0. exact H.
Qed.

Lemma clear_plain a : e_is_plain (e_clear a) = true.
Proof. reflexivity. Qed.

Lemma set_spec a b en : e_set a b en = if en then e_insert a b else e_remove a b.
Proof. reflexivity. Qed.

Lemma set_mem a b en i : valid a ->
  mem (e_set a b en) i = if en then mem a i || mem b i else mem a i && negb (mem b i).
Proof. intros Ha. destruct en; cbn [e_set]; [apply insert_mem | now apply remove_mem]. Qed.

Lemma effects_operators a b :
  e_bitor a b = e_insert a b /\ e_bitor_assign a b = e_insert a b /\
  e_sub a b = e_remove a b /\ e_sub_assign a b = e_remove a b.
Proof. repeat split. Qed.

(* ======================================================================== *)
(* the executable specification (characteristic vectors) = the model        *)

Lemma of_chi_bit l : forall i, N.testbit (of_chi l) i = nth (N.to_nat i) l false.
Proof.
  induction l as [|b t IH]; intro i; cbn [of_chi].
  - rewrite N.bits_0. destruct (N.to_nat i); reflexivity.
  - destruct (N.eq_dec i 0) as [->|Hi].
    + rewrite N.add_comm, N.testbit_0_r. reflexivity.
    + rewrite <- (N.succ_pred i Hi) at 1. rewrite N.add_comm, N.testbit_succ_r, IH.
      rewrite <- (N.succ_pred i Hi) at 2. rewrite N2Nat.inj_succ. reflexivity.
Qed.

Lemma chi_length a : length (chi a) = 12%nat.
Proof. reflexivity. Qed.

Lemma chi_nth a : valid a -> forall i, nth (N.to_nat i) (chi a) false = mem a i.
Proof.
  intros Ha i. destruct (N.lt_ge_cases i 12) as [Hi|Hi].
  - cases12 Hi; reflexivity.
  - rewrite (valid_high a i Ha Hi). apply nth_overflow. rewrite chi_length. lia.
Qed.

Lemma zipb_nth f : f false false = false ->
  forall x y k, length x = length y -> nth k (zipb f x y) false = f (nth k x false) (nth k y false).
Proof.
  intros Hf. induction x as [|a x IH]; intros [|b y] k Hl; try discriminate; cbn [zipb].
  - destruct k; cbn; now rewrite Hf.
  - destruct k as [|k]; cbn [nth]; [reflexivity|]. apply IH. now injection Hl.
Qed.

Lemma sp_union_mem a b i : valid a -> valid b -> mem (sp_union a b) i = mem a i || mem b i.
Proof.
  intros Ha Hb. unfold sp_union, v_union, mem at 1.
  rewrite of_chi_bit, zipb_nth, !chi_nth by (reflexivity || assumption). reflexivity.
Qed.

Lemma sp_diff_mem a b i : valid a -> valid b -> mem (sp_diff a b) i = mem a i && negb (mem b i).
Proof.
  intros Ha Hb. unfold sp_diff, v_diff, mem at 1.
  rewrite of_chi_bit, zipb_nth, !chi_nth by (reflexivity || assumption). reflexivity.
Qed.

Lemma insert_is_union a b : valid a -> valid b -> e_insert a b = sp_union a b.
Proof. intros Ha Hb. apply set_ext; intro i. now rewrite insert_mem, sp_union_mem. Qed.

Lemma remove_is_diff a b : valid a -> valid b -> e_remove a b = sp_diff a b.
Proof. intros Ha Hb. apply set_ext; intro i. now rewrite remove_mem, sp_diff_mem. Qed.

Lemma set_is_spec a b en : valid a -> valid b -> e_set a b en = sp_set a b en.
Proof.
  intros Ha Hb. destruct en; cbn [e_set sp_set]; [now apply insert_is_union | now apply remove_is_diff].
Qed.

Lemma forallb_map {A B} (f : A -> B) (p : B -> bool) l : forallb p (map f l) = forallb (fun x => p (f x)) l.
Proof. induction l as [|x l IH]; cbn; [reflexivity|]. now rewrite IH. Qed.

Lemma zipb_map {A} f (g h : A -> bool) l : zipb f (map g l) (map h l) = map (fun x => f (g x) (h x)) l.
Proof. induction l as [|x l IH]; cbn; [reflexivity|]. now rewrite IH. Qed.

Lemma sp_contains_subset a b : valid b -> (sp_contains a b = true <-> subset b a).
Proof.
  intros Hb. unfold sp_contains, v_subset, chi. rewrite zipb_map, forallb_map, forallb_forall.
  split.
  - intros H i Hi. destruct (N.lt_ge_cases i 12) as [Hlt|Hge].
    + specialize (H i (proj2 (idxs_In i) Hlt)). rewrite Hi in H. exact H.
    + now rewrite (valid_high b i Hb Hge) in Hi.
  - intros H i _. destruct (mem b i) eqn:E; [|reflexivity]. rewrite (H i E). reflexivity.
Qed.

Lemma bool_eq_iff (x y : bool) : (x = true <-> y = true) -> x = y.
Proof. destruct x, y; intros [H1 H2]; try reflexivity; [symmetry; now apply H1 | now apply H2]. Qed.

Lemma contains_is_spec a b : valid b -> e_contains a b = sp_contains a b.
Proof. intros Hb. apply bool_eq_iff. now rewrite contains_subset, sp_contains_subset. Qed.

Lemma is_plain_is_spec a : valid a -> e_is_plain a = sp_is_plain a.
Proof.
  intros Ha. apply bool_eq_iff. rewrite is_plain_iff.
  unfold sp_is_plain, v_empty, chi. rewrite forallb_map, forallb_forall. split.
  - intros H i _. now rewrite H.
  - intros H i. destruct (N.lt_ge_cases i 12) as [Hlt|Hge].
    + apply negb_true_iff. apply H. now apply idxs_In.
    + now apply valid_high.
Qed.

Lemma v_members_filter {A} (f : A -> bool) (l : list A) :
  map fst (filter snd (combine l (map f l))) = filter f l.
Proof.
  induction l as [|x l IH]; cbn; [reflexivity|]. destruct (f x); cbn; now rewrite IH.
Qed.

Lemma v_members_chi a : v_members (chi a) = members a.
Proof. apply v_members_filter. Qed.

(* ======================================================================== *)
(* members: exactly the one bits below 12, ascending, without duplicates     *)

Lemma members_In a i : In i (members a) <-> i < 12 /\ mem a i = true.
Proof. unfold members. rewrite filter_In, idxs_In. reflexivity. Qed.

Lemma Forall_filter_keep {A} (P : A -> Prop) f l : Forall P l -> Forall P (filter f l).
Proof.
  rewrite !Forall_forall. intros H x Hx. apply filter_In in Hx. now apply H.
Qed.

Lemma StronglySorted_filter {A} (R : A -> A -> Prop) f l :
  StronglySorted R l -> StronglySorted R (filter f l).
Proof.
  induction 1 as [|x l Hs IH Hf]; cbn; [constructor|].
  destruct (f x); [|exact IH]. constructor; [exact IH|]. now apply Forall_filter_keep.
Qed.

Lemma idxs_sorted : StronglySorted N.lt idxs.
Proof.
  rewrite idxs_eq.
  repeat (constructor; [|repeat (constructor; [reflexivity|]); constructor]). constructor.
Qed.

Lemma members_sorted a : StronglySorted N.lt (members a).
Proof. apply StronglySorted_filter, idxs_sorted. Qed.

Lemma sorted_NoDup l : StronglySorted N.lt l -> NoDup l.
Proof.
  induction 1 as [|x l Hs IH Hf]; constructor; [|exact IH].
  intros Hin. rewrite Forall_forall in Hf. specialize (Hf x Hin). lia.
Qed.

Lemma members_NoDup a : NoDup (members a).
Proof. apply sorted_NoDup, members_sorted. Qed.

Lemma union_singletons_mem l i : mem (union_all (map singleton l)) i = existsb (N.eqb i) l.
Proof.
  induction l as [|x l IH]; cbn [map union_all fold_right existsb].
  - apply N.bits_0.
  - change (fold_right N.lor 0 (map singleton l)) with (union_all (map singleton l)).
    unfold mem at 1. rewrite N.lor_spec. fold (mem (singleton x) i) (mem (union_all (map singleton l)) i).
    rewrite IH, mem_singleton, (N.eqb_sym x i). reflexivity.
Qed.

Lemma members_union a : valid a -> union_all (map singleton (members a)) = a.
Proof.
  intros Ha. apply set_ext; intro i. rewrite union_singletons_mem. apply bool_eq_iff.
  rewrite existsb_exists. split.
  - intros [x [Hx E]]. apply N.eqb_eq in E. subst x. now apply members_In in Hx.
  - intros H. exists i. split; [|apply N.eqb_refl]. apply members_In. split; [|exact H].
    destruct (N.lt_ge_cases i 12) as [Hlt|Hge]; [exact Hlt|]. now rewrite (valid_high a i Ha Hge) in H.
Qed.

(* without the validity hypothesis: the union is the set restricted to 12 bits *)
Lemma members_union_low a : union_all (map singleton (members a)) = a mod 2 ^ 12.
Proof.
  apply set_ext; intro i. rewrite union_singletons_mem. apply bool_eq_iff.
  rewrite existsb_exists. unfold mem. split.
  - intros [x [Hx E]]. apply N.eqb_eq in E. subst x. apply members_In in Hx. destruct Hx as [H1 H2].
    now rewrite N.mod_pow2_bits_low.
  - intros H. exists i. split; [|apply N.eqb_refl]. apply members_In.
    destruct (N.lt_ge_cases i 12) as [Hlt|Hge].
    + split; [exact Hlt|]. now rewrite N.mod_pow2_bits_low in H.
    + now rewrite N.mod_pow2_bits_high in H.
Qed.

(* ======================================================================== *)
(* iteration                                                                *)

Lemma contains_singleton e k : e_contains e (N.shiftl 1 k) = mem e k.
Proof.
  rewrite N.shiftl_1_l. unfold e_contains. destruct (mem e k) eqn:H.
  - apply N.eqb_eq. apply N.bits_inj; intro i. rewrite N.land_spec, N.pow2_bits_eqb.
    destruct (N.eqb_spec k i) as [->|]; [|reflexivity]. exact H.
  - apply N.eqb_neq. intro E.
    assert (X : N.testbit (N.land (2 ^ k) e) k = N.testbit (2 ^ k) k) by now rewrite E.
    rewrite N.land_spec, N.pow2_bits_true in X. unfold mem in H. rewrite H in X. discriminate.
Qed.

Lemma iter_loop_spec {A} (item : N -> N -> A) e : forall fuel index,
  index + N.of_nat fuel <= 16 ->
  iter_loop item fuel index e =
  Some (map (fun i => item i (singleton i)) (filter (mem e) (range_from index fuel))).
Proof.
  induction fuel as [|k IH]; intros index H; cbn [iter_loop range_from filter map]; [reflexivity|].
  unfold shl1_u16. replace (index <? 16) with true by (symmetry; apply N.ltb_lt; lia).
  rewrite IH by lia. rewrite contains_singleton.
  destruct (mem e index); cbn [map]; [|reflexivity].
  unfold singleton at 1. now rewrite N.shiftl_1_l.
Qed.

Lemma metadata_length : length metadata = NEFF.
Proof. reflexivity. Qed.

Lemma range_idxs : range_from 0 NEFF = idxs.
Proof. reflexivity. Qed.

Lemma index_iter_members e : e_index_iter e = Some (members e).
Proof.
  unfold e_index_iter. rewrite metadata_length, iter_loop_spec by (cbn; lia).
  rewrite range_idxs, map_id. reflexivity.
Qed.

Lemma iter_members e : e_iter e = Some (map singleton (members e)).
Proof.
  unfold e_iter. rewrite metadata_length, iter_loop_spec by (cbn; lia).
  rewrite range_idxs. reflexivity.
Qed.

Lemma iter_is_spec e : e_iter e = Some (sp_iter e).
Proof. unfold sp_iter, sp_iter_chi. rewrite v_members_chi. apply iter_members. Qed.

(* every item of the iteration is one of the twelve constants *)
Definition effect_constants : list N :=
  [eff_bold; eff_dimmed; eff_italic; eff_underline; eff_double_underline; eff_curly_underline;
   eff_dotted_underline; eff_dashed_underline; eff_blink; eff_invert; eff_hidden; eff_strikethrough].

Lemma constants_are_singletons : effect_constants = map singleton idxs.
Proof. reflexivity. Qed.

Lemma consts_table : map fst effect_consts = effect_names /\ map snd effect_consts = idxs.
Proof. split; vm_compute; reflexivity. Qed.

Lemma spec_texts_readable :
  effect_names = map bytes_of effect_names_text /\ conv_names = map bytes_of conv_names_text /\
  txt_open = bytes_of txt_open_text /\ txt_bar = bytes_of txt_bar_text /\ txt_close = bytes_of txt_close_text.
Proof. repeat split; vm_compute; reflexivity. Qed.

Lemma metadata_names : map fst metadata = effect_names.
Proof. vm_compute. reflexivity. Qed.

Lemma effect_names_NoDup : NoDup effect_names.
Proof.
  rewrite <- metadata_names. vm_compute.
  repeat (constructor; [cbn [In]; intros H; repeat (destruct H as [H|H]; [discriminate H|]); exact H|]).
  constructor.
Qed.

(* the harness names a set by its mask over the constants in declaration order;
   with the translated constants that naming is the identity on valid sets *)
Fixpoint mask_mem (j : N) (cs : list (list N * N)) (m i : N) : bool :=
  match cs with
  | [] => false
  | (_, k) :: t => (N.testbit m j && (k =? i)) || mask_mem (j + 1) t m i
  end.

Lemma of_mask_from_mem cs : forall j m i, mem (e_of_mask_from j cs m) i = mask_mem j cs m i.
Proof.
  induction cs as [|[nm k] t IH]; intros j m i; cbn [e_of_mask_from mask_mem].
  - unfold mem, e_new, effect_plain. apply N.bits_0.
  - destruct (N.testbit m j); cbn [andb orb].
    + rewrite insert_mem, IH. unfold mem at 1. rewrite N.shiftl_1_l, N.pow2_bits_eqb. apply orb_comm.
    + apply IH.
Qed.

Lemma mask_mem_id cs : forall j m i, map snd cs = range_from j (length cs) ->
  mask_mem j cs m i = N.testbit m i && (j <=? i) && (i <? j + N.of_nat (length cs)).
Proof.
  induction cs as [|[nm k] t IH]; intros j m i H; cbn [mask_mem length].
  - destruct (N.leb_spec j i), (N.ltb_spec i (j + N.of_nat 0)); try lia; now rewrite ?andb_false_r.
  - cbn [map snd range_from] in H. injection H as -> H. rewrite (IH _ _ _ H).
    rewrite Nat2N.inj_succ.
    destruct (N.eqb_spec j i) as [->|Hne].
    + destruct (N.leb_spec (i + 1) i), (N.leb_spec i i), (N.ltb_spec i (i + N.succ (N.of_nat (length t)))); try lia.
      rewrite andb_false_r. cbn. now rewrite !andb_true_r, orb_false_r.
    + rewrite andb_false_r. cbn [orb].
      destruct (N.leb_spec (j + 1) i), (N.leb_spec j i),
        (N.ltb_spec i (j + 1 + N.of_nat (length t))), (N.ltb_spec i (j + N.succ (N.of_nat (length t))));
        try lia; reflexivity.
Qed.

Lemma of_mask_id m : valid m -> e_of_mask m = m.
Proof.
  intros Hm. apply set_ext; intro i. unfold e_of_mask.
  rewrite of_mask_from_mem, mask_mem_id by (rewrite (proj2 consts_table); reflexivity).
  change (N.of_nat (length effect_consts)) with 12. unfold mem.
  destruct (N.ltb_spec i (0 + 12)) as [Hi|Hi].
  - rewrite N.leb_le in * || idtac. replace (0 <=? i) with true by (symmetry; apply N.leb_le; lia).
    now rewrite !andb_true_r.
  - rewrite andb_false_r. symmetry. apply (valid_high m i Hm). lia.
Qed.

(* ======================================================================== *)
(* Debug                                                                    *)

Lemma metadata_name i : i < 12 -> option_map fst (aget metadata i) = Some (effect_name i).
Proof. intros H. cases12 H; vm_compute; reflexivity. Qed.

Lemma join_cons sep x t :
  join sep (x :: t) = x ++ concat (map (fun y => sep ++ y) t).
Proof.
  revert x. induction t as [|y t IH]; intro x.
  - cbn. now rewrite app_nil_r.
  - change (join sep (x :: y :: t)) with (x ++ sep ++ join sep (y :: t)).
    rewrite IH. cbn [map concat]. now rewrite app_assoc_reverse.
Qed.

Lemma debug_body_succ l : Forall (fun i => i < 12) l -> forall k,
  debug_body (S k) l = Some (concat (map (fun y => str_bar ++ y) (map effect_name l))).
Proof.
  induction 1 as [|i l Hi Hl IH]; intro k; cbn [debug_body map concat]; [reflexivity|].
  pose proof (metadata_name i Hi) as Hm. destruct (aget metadata i) as [[nm esc]|]; [|discriminate].
  cbn in Hm. injection Hm as ->. rewrite IH. cbn [fst]. now rewrite app_assoc_reverse.
Qed.

Lemma debug_body_0 l : Forall (fun i => i < 12) l ->
  debug_body 0 l = Some (join str_bar (map effect_name l)).
Proof.
  intros H. destruct H as [|i l Hi Hl]; [reflexivity|].
  cbn [debug_body map]. pose proof (metadata_name i Hi) as Hm.
  destruct (aget metadata i) as [[nm esc]|]; [|discriminate].
  cbn in Hm. injection Hm as ->. rewrite (debug_body_succ l Hl). cbn [fst app].
  now rewrite join_cons.
Qed.

Lemma members_lt a : Forall (fun i => i < 12) (members a).
Proof. apply Forall_forall. intros i Hi. now apply members_In in Hi. Qed.

Lemma debug_is_spec e : e_debug e = Some (sp_debug e).
Proof.
  unfold e_debug. rewrite index_iter_members, (debug_body_0 _ (members_lt e)). reflexivity.
Qed.

(* ======================================================================== *)
(* Style                                                                    *)

Lemma fg_color_only s v :
  st_get_fg_color (st_fg_color s v) = v /\ st_get_bg_color (st_fg_color s v) = st_get_bg_color s /\
  st_get_underline_color (st_fg_color s v) = st_get_underline_color s /\
  st_get_effects (st_fg_color s v) = st_get_effects s.
Proof. repeat split. Qed.

Lemma bg_color_only s v :
  st_get_bg_color (st_bg_color s v) = v /\ st_get_fg_color (st_bg_color s v) = st_get_fg_color s /\
  st_get_underline_color (st_bg_color s v) = st_get_underline_color s /\
  st_get_effects (st_bg_color s v) = st_get_effects s.
Proof. repeat split. Qed.

Lemma underline_color_only s v :
  st_get_underline_color (st_underline_color s v) = v /\
  st_get_fg_color (st_underline_color s v) = st_get_fg_color s /\
  st_get_bg_color (st_underline_color s v) = st_get_bg_color s /\
  st_get_effects (st_underline_color s v) = st_get_effects s.
Proof. repeat split. Qed.

Lemma effects_only s e :
  st_get_effects (st_effects s e) = e /\ st_get_fg_color (st_effects s e) = st_get_fg_color s /\
  st_get_bg_color (st_effects s e) = st_get_bg_color s /\
  st_get_underline_color (st_effects s e) = st_get_underline_color s.
Proof. repeat split. Qed.

Lemma style_eta s : mkStyle (st_fg s) (st_bg s) (st_ul s) (st_eff s) = s.
Proof. destruct s; reflexivity. Qed.

(* a style is determined by its four getters *)
Lemma style_ext s t :
  st_get_fg_color s = st_get_fg_color t -> st_get_bg_color s = st_get_bg_color t ->
  st_get_underline_color s = st_get_underline_color t -> st_get_effects s = st_get_effects t -> s = t.
Proof. destruct s, t; cbn. intros -> -> -> ->. reflexivity. Qed.

Lemma new_getters :
  st_get_fg_color st_new = None /\ st_get_bg_color st_new = None /\
  st_get_underline_color st_new = None /\ st_get_effects st_new = e_new.
Proof. repeat split. Qed.

(* the style model against the abstract record specification *)
Definition abs_style (s : style) : astyle color := mkAS (st_fg s) (st_bg s) (st_ul s) (st_eff s).

Lemma setters_are_spec s v e :
  abs_style (st_fg_color s v) = sp_setc FFg v (abs_style s) /\
  abs_style (st_bg_color s v) = sp_setc FBg v (abs_style s) /\
  abs_style (st_underline_color s v) = sp_setc FUl v (abs_style s) /\
  abs_style (st_effects s e) = sp_set_eff e (abs_style s) /\
  abs_style st_new = sp_plain.
Proof. repeat split. Qed.

Lemma conv_is_bitor m s : st_conv m s = st_bitor s (conv_effect m).
Proof. reflexivity. Qed.

Lemma conv_getters m s :
  st_get_effects (st_conv m s) = e_insert (st_get_effects s) (conv_effect m) /\
  st_get_fg_color (st_conv m s) = st_get_fg_color s /\ st_get_bg_color (st_conv m s) = st_get_bg_color s /\
  st_get_underline_color (st_conv m s) = st_get_underline_color s.
Proof. repeat split. Qed.

Lemma all_conv_In m : In m all_conv.
Proof. destruct m; cbn; tauto. Qed.

(* the method [bold] inserts the constant [BOLD], etc. *)
Lemma conv_named m :
  exists k, k < 12 /\ conv_effect m = singleton k /\ map upper (conv_name m) = effect_name k.
Proof.
  exists (N.log2 (conv_effect m)). destruct m; vm_compute; repeat split; reflexivity.
Qed.

Lemma conv_names_table : map conv_name all_conv = conv_names.
Proof. vm_compute. reflexivity. Qed.

Lemma conv_is_named m : conv_effect m = sp_named_effect (conv_name m).
Proof. destruct m; vm_compute; reflexivity. Qed.

Lemma bitor_spec s e :
  st_get_effects (st_bitor s e) = e_insert (st_get_effects s) e /\
  st_get_fg_color (st_bitor s e) = st_get_fg_color s /\ st_get_bg_color (st_bitor s e) = st_get_bg_color s /\
  st_get_underline_color (st_bitor s e) = st_get_underline_color s /\
  st_bitor_assign s e = st_bitor s e.
Proof. repeat split. Qed.

Lemma sub_spec s e :
  st_get_effects (st_sub s e) = e_remove (st_get_effects s) e /\
  st_get_fg_color (st_sub s e) = st_get_fg_color s /\ st_get_bg_color (st_sub s e) = st_get_bg_color s /\
  st_get_underline_color (st_sub s e) = st_get_underline_color s /\
  st_sub_assign s e = st_sub s e.
Proof. repeat split. Qed.

Lemma eq_effects_iff s e :
  st_eq_effects s e = true <->
  st_get_fg_color s = None /\ st_get_bg_color s = None /\ st_get_underline_color s = None /\ st_get_effects s = e.
Proof.
  destruct s as [[f|] [b|] [u|] x]; cbn; unfold st_eq_effects, style_eqb; cbn;
    try (split; [discriminate | intros (H1 & H2 & H3 & H4); discriminate]).
  rewrite N.eqb_eq. split; [intros ->; repeat split | intros (_ & _ & _ & H); exact H].
Qed.

Lemma eq_effects_is_spec s e : st_eq_effects s e = sp_eq_effects (abs_style s) e.
Proof. destruct s as [[f|] [b|] [u|] x]; reflexivity. Qed.

Lemma from_effects_getters e :
  st_get_effects (st_from_effects e) = e /\ st_get_fg_color (st_from_effects e) = None /\
  st_get_bg_color (st_from_effects e) = None /\ st_get_underline_color (st_from_effects e) = None /\
  st_eq_effects (st_from_effects e) e = true.
Proof. repeat split. cbn. unfold st_eq_effects, style_eqb. cbn. apply N.eqb_refl. Qed.

Lemma st_is_plain_iff s :
  st_is_plain s = true <-> s = st_new.
Proof.
  destruct s as [[f|] [b|] [u|] x]; cbn; unfold st_is_plain, st_new; cbn;
    try (split; discriminate).
  unfold e_is_plain, e_new. rewrite N.eqb_eq. split; [intros ->; reflexivity | intros H; now injection H].
Qed.

(* derived equality decides Leibniz equality *)
Lemma ansi_disc_inj a b : ansi_disc a = ansi_disc b -> a = b.
Proof. destruct a, b; cbn; intros H; try reflexivity; discriminate H. Qed.

Lemma color_eqb_eq a b : color_eqb a b = true <-> a = b.
Proof.
  destruct a, b; cbn; try (split; discriminate).
  - unfold ansi_eqb. rewrite N.eqb_eq. split; [intros H; f_equal; now apply ansi_disc_inj | intros H; now injection H as ->].
  - rewrite N.eqb_eq. split; [now intros -> | intros H; now injection H].
  - rewrite !andb_true_iff, !N.eqb_eq. split; [intros [[-> ->] ->]; reflexivity | intros H; injection H; auto].
Qed.

Lemma ocolor_eqb_eq a b : ocolor_eqb a b = true <-> a = b.
Proof.
  destruct a, b; cbn; try (split; discriminate); [|tauto].
  rewrite color_eqb_eq. split; [now intros -> | intros H; now injection H].
Qed.

Lemma style_eqb_eq a b : style_eqb a b = true <-> a = b.
Proof.
  destruct a, b; unfold style_eqb; cbn. rewrite !andb_true_iff, !ocolor_eqb_eq, N.eqb_eq.
  split; [intros [[[-> ->] ->] ->]; reflexivity | intros H; injection H; auto].
Qed.

(* ======================================================================== *)
(* the 16 colours and the 256 indices (complete enumeration)                 *)

Lemma all_ansi_In c : In c all_ansi.
Proof. destruct c; cbn; tauto. Qed.

Lemma forall_ansi (P : ansi_color -> bool) : forallb P all_ansi = true -> forall c, P c = true.
Proof. intros H c. rewrite forallb_forall in H. apply H, all_ansi_In. Qed.

Lemma ansi_disc_order : map ansi_disc all_ansi = range_from 0 16.
Proof. reflexivity. Qed.

Lemma ansi_disc_lt c : ansi_disc c < 16.
Proof. destruct c; reflexivity. Qed.

Lemma into_from c : ansi256_into_ansi (ansi256_from_ansi c) = Some c.
Proof. destruct c; reflexivity. Qed.

Lemma from_is_disc c : ansi256_from_ansi c = sp_from_ansi (ansi_disc c).
Proof. destruct c; reflexivity. Qed.

Definition into_ok (n : N) : bool :=
  match ansi256_into_ansi n, sp_into_ansi n with
  | Some c, Some k => (ansi_disc c =? k) && (ansi256_from_ansi c =? n)
  | None, None => true
  | _, _ => false
  end.

Lemma into_ok_all : forall n, n < 256 -> into_ok n = true.
Proof. apply forall_bytes. vm_compute. reflexivity. Qed.

Lemma into_is_spec n : n < 256 -> option_map ansi_disc (ansi256_into_ansi n) = sp_into_ansi n.
Proof.
  intros H. pose proof (into_ok_all n H) as X. unfold into_ok in X.
  destruct (ansi256_into_ansi n) as [c|], (sp_into_ansi n) as [k|]; try discriminate; [|reflexivity].
  apply andb_true_iff in X. destruct X as [X _]. apply N.eqb_eq in X. cbn. now rewrite X.
Qed.

Lemma from_into n : n < 16 -> exists c, ansi256_into_ansi n = Some c /\ ansi256_from_ansi c = n.
Proof.
  intros H. assert (H' : n < 256) by lia. pose proof (into_ok_all n H') as X. unfold into_ok, sp_into_ansi in X.
  replace (n <? 16) with true in X by (symmetry; now apply N.ltb_lt).
  destruct (ansi256_into_ansi n) as [c|]; [|discriminate].
  exists c. split; [reflexivity|]. apply andb_true_iff in X. destruct X as [_ X]. now apply N.eqb_eq in X.
Qed.

Lemma into_none n : 16 <= n -> ansi256_into_ansi n = None.
Proof.
  intros H. destruct n as [|p]; [lia|].
  do 5 (destruct p as [p|p|]; try reflexivity; try (exfalso; lia)).
Qed.

Lemma from_ansi_inj a b : ansi256_from_ansi a = ansi256_from_ansi b -> a = b.
Proof. intros H. pose proof (into_from a) as Ha. rewrite H, into_from in Ha. now injection Ha. Qed.

Lemma bright_is_spec c b : ansi_disc (ansi_bright c b) = with_bright (ansi_disc c) b.
Proof. destruct c, b; reflexivity. Qed.

Lemma is_bright_is_spec c : ansi_is_bright c = is_bright_ix (ansi_disc c).
Proof. destruct c; reflexivity. Qed.

Lemma bright_idem c b : ansi_bright (ansi_bright c b) b = ansi_bright c b.
Proof. destruct c, b; reflexivity. Qed.

Lemma bright_last c b b' : ansi_bright (ansi_bright c b') b = ansi_bright c b.
Proof. destruct c, b, b'; reflexivity. Qed.

Lemma bright_hue c b : hue (ansi_disc (ansi_bright c b)) = hue (ansi_disc c).
Proof. destruct c, b; reflexivity. Qed.

Lemma bright_is_bright c b : ansi_is_bright (ansi_bright c b) = b.
Proof. destruct c, b; reflexivity. Qed.

Lemma bright_fixed c : ansi_bright c (ansi_is_bright c) = c.
Proof. destruct c; reflexivity. Qed.

(* a colour is determined by hue and brightness *)
Lemma hue_bright_inj a b :
  hue (ansi_disc a) = hue (ansi_disc b) -> ansi_is_bright a = ansi_is_bright b -> a = b.
Proof. destruct a, b; cbn; intros H1 H2; try reflexivity; discriminate. Qed.
